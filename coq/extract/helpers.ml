(* conversions used by generated Cases.ml: OCaml int -> extracted nat / Z *)
open Model
let rec n_ (i : int) : nat = if i <= 0 then O else S (n_ (i - 1))
let rec p_ (i : int) : positive =
  if i <= 1 then XH else if i land 1 = 1 then XI (p_ (i lsr 1)) else XO (p_ (i lsr 1))
let z_ (i : int) : z = if i = 0 then Z0 else if i > 0 then Zpos (p_ i) else Zneg (p_ (- i))
let s_ (s : string) : char list = List.of_seq (String.to_seq s)
