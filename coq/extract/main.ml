(* bulk driver: prints the model's report for every program of Cases.progs *)
let str (l : char list) : string = String.of_seq (List.to_seq l)
let () =
  List.iteri (fun i p ->
      print_string ("PROG " ^ string_of_int i ^ "\n");
      List.iter (fun l -> print_string (str l); print_char '\n') (Model.report p);
      print_string "END\n") Cases.progs
