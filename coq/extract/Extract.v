(* Extract.v -- extraction of the executable model for the bulk route.
   Directives: only those of the two standard files below. *)
From Coq Require Import ExtrOcamlBasic ExtrOcamlString.
From PS.model Require Import Smt Enc Ind Prog Solution Export Gantt Driver SolverSM SolverInst.
From PS.spec Require Import Spec Report.

Extraction "extract/gen/model.ml" report solver_report solution_of default_cfg setup_report full_solution_of.
