(* C10 -- Logical combinations and optional constraints mean what their connective says.  Statements only. *)
From Coq Require Import ZArith List Bool.
From Coq Require String.
From PS.model Require Import Smt Enc Ind Prog.
From PS.spec Require Import Spec.
From PS.proofs Require Import Base Cons_proof Res_proof Wf_proof C06_proof Examples.
Import ListNotations.
Open Scope Z_scope.

(* own meaning of an operand: the conjunction of its own assertions *)
(* truth-functional reading of every connective, for all valuations *)
Theorem C10_not : forall e c x, holds_all e (enc_raw c (CNot x)) = negb (meaning e x).
Proof. exact C10_not_sem. Qed.
Print Assumptions C10_not.
Theorem C10_or : forall e c xs, holds_all e (enc_raw c (COr xs)) = existsb (meaning e) xs.
Proof. exact C10_or_sem. Qed.
Print Assumptions C10_or.
Theorem C10_and : forall e c xs, holds_all e (enc_raw c (CAnd xs)) = forallb (meaning e) xs.
Proof. exact C10_and_sem. Qed.
Print Assumptions C10_and.
Theorem C10_xor : forall e c x y, holds_all e (enc_raw c (CXor x y)) = xorb (meaning e x) (meaning e y).
Proof. exact C10_xor_sem. Qed.
Print Assumptions C10_xor.
Theorem C10_implies : forall e c cond xs,
  holds_all e (enc_raw c (CImplies cond xs)) = implb (feval e cond) (forallb (meaning e) xs).
Proof. exact C10_implies_sem. Qed.
Print Assumptions C10_implies.
Theorem C10_if_then_else : forall e c cond xs ys,
  holds_all e (enc_raw c (CIte cond xs ys)) =
  if feval e cond then forallb (meaning e) xs else forallb (meaning e) ys.
Proof. exact C10_ite_sem. Qed.
Print Assumptions C10_if_then_else.
(* user expressions are enforced as written *)
Theorem C10_expression : forall e c f, holds_all e (enc_raw c (CExpr f)) = feval e f.
Proof. exact C10_expr_sem. Qed.
Print Assumptions C10_expression.
(* an optional constraint binds exactly when applied; a mandatory one always (every constraint class, the indicator
   constraints included since the repair of F33) *)
Theorem C10_optional : forall e c x,
  holds_all e (enc_cons c true x) =
  implb (bv e (BApplied c)) (holds_all e (enc_raw c x)).
Proof. exact C10_optional_sem. Qed.
Print Assumptions C10_optional.
Theorem C10_mandatory : forall e c x,
  holds_all e (enc_cons c false x) = holds_all e (enc_raw c x).
Proof. exact C10_mandatory_sem. Qed.
Print Assumptions C10_mandatory.
Theorem C10_force_apply_n : forall e c cs n k,
  holds_all e (enc_raw c (CForceApplyN cs n k)) =
  let cnt := fcount e (map (fun o => FB (BApplied (or_id o))) cs) in
  match k with PbMin => cnt >=? n | PbMax => cnt <=? n | PbExact => cnt =? n end.
Proof. exact C10_force_apply_sem. Qed.
Print Assumptions C10_force_apply_n.
(* no leak: the assertion set is the one of the problem with every operand constraint removed,
   and the constructor of a combination flags its operand constraints *)
Theorem C10_no_leak : forall st, initialize st = initialize (drop_flagged st).
Proof. exact C10_no_leak_eq. Qed.
Print Assumptions C10_no_leak.
Theorem C10_operands_flagged : forall st id opt x st',
  step_problem st (ONewConstraint id opt x) = Ok st' ->
  exists re, resolve st x = Some re /\
    forall c, In c (ps_cons st) -> In (c_id c) (operand_ids re) ->
      exists c', In c' (ps_cons st') /\ c_id c' = c_id c /\ c_flag c' = true /\ c_expr c' = c_expr c.
Proof. exact step_flags_operands. Qed.
Print Assumptions C10_operands_flagged.
(* whole-problem statement against the clauses of the reference semantics *)
Theorem C10_logic : forall (st : pstate) (e : env),
  sat e (initialize st) -> forall k f, In (k, f) (spec_C10 st) -> feval e f = true.
Proof. exact C10_sound. Qed.
Print Assumptions C10_logic.
Theorem C10_hypotheses_satisfiable : exists st, reaches ex2_prog st /\ sat ex2_env (initialize st)
  /\ List.length (ps_cons st) = 18%nat /\ List.length (spec_all st) = 86%nat.
Proof. exact ex2_sat. Qed.
Print Assumptions C10_hypotheses_satisfiable.
