(* C09 -- Buffer levels follow loads/unloads in time order and stay within bounds.  Statements only. *)
From Coq Require Import ZArith List Bool.
From Coq Require String.
From PS.model Require Import Smt Enc Ind Prog.
From PS.spec Require Import Spec.
From PS.proofs Require Import Base C09_proof C09_levels Examples3.
Import ListNotations.
Open Scope Z_scope.

(* For every problem state and every valuation admitted by the assertion set, for every buffer: the first
   reported level is the declared initial level, the last one the required final level, every reported level
   lies within the declared bounds.  For a non-concurrent buffer whose accesses each have their own slot: every
   reported change time is an access instant (start of an unloading task / end of a loading task) and the change
   times are strictly increasing; and when moreover all accessing tasks are mandatory: the level reported after the
   k-th change equals the initial level plus the quantities of ALL accesses at instants up to that change time
   (-q at the start of each unloading task, +q at the completion of each loading task), every access is a reported
   change, and no two accesses happen at the same instant (sorted distinct copy = permutation, cumulative sums).
   PARTIAL: for concurrent buffers (bubble network + quantified function definitions) and for buffers accessed by
   optional tasks the level / coverage / sortedness clauses are in spec_C09_swept: swept against the real
   constraint system on every run, not proved (known finding F13: unscheduled optional tasks still access). *)
Theorem C09_buffers_partial : forall (st : pstate) (e : env),
  sat e (initialize st) ->
  forall k f, In (k, f) (spec_C09 st) -> feval e f = true.
Proof. exact C09_sound. Qed.
Print Assumptions C09_buffers_partial.

Theorem C09_buffers_partial_any_configuration : forall (c : solvercfg) (st : pstate) (e : env),
  sat e (su_asserts (solver_setup c st)) ->
  forall k f, In (k, f) (spec_C09 st) -> feval e f = true.
Proof. intros c st e H. apply C09_sound. exact (sat_setup c e st H). Qed.
Print Assumptions C09_buffers_partial_any_configuration.

Theorem C09_hypotheses_satisfiable : exists st, reaches ex3_prog st /\ sat ex3_env (su_asserts (solver_setup default_cfg st))
  /\ List.length (x_inds (ps_ext st)) = 14%nat /\ List.length (x_bufs (ps_ext st)) = 2%nat
  /\ List.length (x_objs (ps_ext st)) = 4%nat /\ List.length (spec_C08 st) = 19%nat.
Proof. exact ex3_sat. Qed.
Print Assumptions C09_hypotheses_satisfiable.
