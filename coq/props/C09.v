(* C09 -- Buffer levels follow loads/unloads in time order and stay within bounds.  Statements only. *)
From Coq Require Import ZArith List Bool.
From Coq Require String.
From PS.model Require Import Smt Enc Ind Prog Driver.
From PS.spec Require Import Spec.
From PS.proofs Require Import Base C09_proof C09_levels Bubble C09_conc Examples3 Refuted CleanLevels.
From PS.model Require Import Solution.
Import ListNotations.
Open Scope Z_scope.

(* For every problem state and every valuation admitted by the assertion set, for every buffer: the first
   reported level is the declared initial level, the last one the required final level, every reported level
   lies within the declared bounds.  For a non-concurrent buffer whose accesses each have their own slot: every
   reported change time is an access instant (start of an unloading task / end of a loading task) and the change
   times are strictly increasing; and when moreover all accessing tasks are mandatory: the level reported after the
   k-th change equals the initial level plus the quantities of ALL accesses at instants up to that change time
   (-q at the start of each unloading task, +q at the completion of each loading task), every access is a reported
   change, and no two accesses happen at the same instant (sorted distinct copy = permutation, cumulative sums).
   For a concurrent buffer whose accesses each have their own slot and whose accessing tasks are all mandatory: the
   reported change times are the access instants in non-decreasing order (util.sort_duplicates: n bubble passes of
   compare-exchange steps on fresh integers sort any list, duplicates included -- C09_bubble_network_sorts), every
   access instant is a reported change and conversely, and the level reported after every change equals the initial
   level plus the quantities of ALL accesses at instants up to that change time, several accesses at one instant
   being added together (a repeated change time leaves the level unchanged, a new one adds the value of every
   quantity function, each of which is its quantity at its access instant and 0 elsewhere).
   PARTIAL: for buffers accessed by optional tasks the level / coverage / sortedness clauses are in spec_C09_swept:
   swept against the real constraint system on every run and refuted (known finding F13: an unscheduled optional task
   still accesses its buffers). *)
Theorem C09_buffers_partial : forall (st : pstate) (e : env),
  sat e (initialize st) ->
  forall k f, In (k, f) (spec_C09 st) -> feval e f = true.
Proof. exact C09_sound. Qed.
Print Assumptions C09_buffers_partial.

(* util.sort_duplicates, value level: n bubble passes sort a list of n integers and permute it *)
Theorem C09_bubble_network_sorts : forall l : list Z,
  let r := passes (List.length l) l in Sorted.Sorted Z.le r /\ Permutation.Permutation r l.
Proof. exact bubble_network_sorts. Qed.
Print Assumptions C09_bubble_network_sorts.
(* the level recurrence of a concurrent buffer, value level: P = (access instant, quantity) pairs, C = the change times *)
Theorem C09_concurrent_levels : forall (P : list (Z * Z)) (L0 : Z) (C : list Z),
  Sorted.Sorted Z.le C -> Permutation.Permutation C (map fst P) ->
  Forall2 (fun l c => l = L0 + upto_sum P c) (clev P None L0 C) C.
Proof. intros P L0 C Hs Hp. exact (clev_spec P L0 C [] None L0 Hs Hp (conj eq_refl eq_refl)). Qed.
Print Assumptions C09_concurrent_levels.

(* the concurrent-buffer clauses are not vacuous: example 3 has a concurrent buffer accessed by two mandatory tasks *)
Theorem C09_concurrent_clauses_present : exists st, reaches ex3_prog st /\ sat ex3_env (su_asserts (solver_setup default_cfg st))
  /\ List.length (flat_map (spec_C09_conc st) (x_bufs (ps_ext st))) = 7%nat /\ List.length (spec_C09 st) = 23%nat.
Proof.
  destruct ex3_sat as (st & Hr & Hs & _). exists st. split; [exact Hr|]. split; [exact Hs|].
  unfold reaches in Hr. revert Hr. vm_compute run. intros [= <-]. split; vm_compute; reflexivity.
Qed.
Print Assumptions C09_concurrent_clauses_present.
Theorem C09_buffers_partial_any_configuration : forall (c : solvercfg) (st : pstate) (e : env),
  sat e (su_asserts (solver_setup c st)) ->
  forall k f, In (k, f) (spec_C09 st) -> feval e f = true.
Proof. intros c st e H. apply C09_sound. exact (sat_setup c e st H). Qed.
Print Assumptions C09_buffers_partial_any_configuration.

Theorem C09_hypotheses_satisfiable : exists st, reaches ex3_prog st /\ sat ex3_env (su_asserts (solver_setup default_cfg st))
  /\ List.length (x_inds (ps_ext st)) = 14%nat /\ List.length (x_bufs (ps_ext st)) = 2%nat
  /\ List.length (x_objs (ps_ext st)) = 4%nat /\ List.length (spec_C08 st) = 19%nat.
Proof. exact ex3_sat. Qed.
Print Assumptions C09_hypotheses_satisfiable.

(* What the user reads.  buffer_solution e b is the entry of the returned solution for buffer b (build_solution with
   util.clean_buffer_levels, tied to /repo by the reported-values slice of the check); level_at st e b t is the initial level plus the
   quantities of the accesses of acting tasks at instants <= t.  For every admitted valuation and every buffer accessed by mandatory
   tasks only (each access in its own slot), concurrent or not: no instant is reported twice, the reported instants are exactly the
   change instants of the schedule, the first reported level is the initial level, and the level reported after an instant is
   level_at that instant. *)
Theorem C09_reported_levels : forall st e (b : bufrec),
  sat e (initialize st) -> In b (x_bufs (ps_ext st)) -> buf_regular b = true -> buf_has_optional st b = false ->
  let r := buffer_solution e b in
  NoDup (bs_times r)
  /\ hd_error (bs_levels r) = Some (iv e (VLevel0 (b_id b)))
  /\ List.length (tl (bs_levels r)) = List.length (bs_times r)
  /\ (forall t, In t (bs_times r) <-> In t (map (teval e) (buf_changes b)))
  /\ (forall lv t, In (lv, t) (combine (tl (bs_levels r)) (bs_times r)) -> lv = level_at st e b t).
Proof. exact reported_levels_of_state. Qed.
Print Assumptions C09_reported_levels.
Theorem C09_reported_levels_example : exists st b,
  reaches ex3_prog st /\ sat ex3_env (initialize st) /\ In b (x_bufs (ps_ext st)) /\ buf_regular b = true /\ buf_has_optional st b = false
  /\ bs_levels (buffer_solution ex3_env b) = [5; 2; 6] /\ bs_times (buffer_solution ex3_env b) = [2; 7]
  /\ level_at st ex3_env b 2 = 2 /\ level_at st ex3_env b 7 = 6.
Proof. exact reported_levels_example. Qed.
Print Assumptions C09_reported_levels_example.

(* ---- REFUTED on the pinned code (open known findings): the swept clauses below are NOT consequences of the assertion set.
   Each theorem exhibits a reachable problem state, a valuation the assertion set admits, and a clause of the swept list that is
   false under it -- all three evaluated by the kernel.  The same program and schedule, replayed on /repo, is the finding. ---- *)
(* F13: an optional task that is not scheduled still loads / unloads its buffers *)
Theorem C09_level_after_change_optional_refuted : exists st, reaches f13_prog st /\ sat f13_env (initialize st) /\
  exists k f, In (k, f) (spec_C09_swept st) /\ feval f13_env f = false.
Proof. exact F13_refuted_any. Qed.
Print Assumptions C09_level_after_change_optional_refuted.
