(* C19 -- Infeasibility diagnosis names constraints that really conflict.  Statements only. *)
From Coq Require Import ZArith List Bool.
From PS.model Require Import Smt Enc Ind Prog.
From PS.spec Require Import Spec.
From PS.proofs Require Import Base C15_proof Examples3.
Import ListNotations.
Open Scope Z_scope.

(* Debug mode: every assertion is tracked by a fresh literal (its position in su_asserts); only the literals of
   constraint assertions are mapped to a constraint name; the report lists the constraints of the unsat core K
   z3 returns.  z3's contract on cores (K is a set of tracked literals whose assertions are jointly
   unsatisfiable) is a hypothesis of the second theorem, not an axiom. *)

(* every constraint listed as conflicting is a constraint of the problem *)
Theorem C19_reported_are_constraints : forall c st K n,
  In n (reported_constraints (su_asserts (solver_setup c st)) K) ->
  exists r, In r (ps_cons st) /\ c_id r = n /\ c_flag r = false.
Proof. exact reported_are_constraints. Qed.
Print Assumptions C19_reported_are_constraints.

(* the listed constraints together with the basic (non-constraint) rules admit no schedule *)
Theorem C19_reported_constraints_conflict : forall (A : list (tag * form)) (K : list nat),
  (forall e, ~ (forall g f, In (g, f) (core_assertions A K) -> feval e f = true)) ->
  forall e,
    ~ ((forall g f, In (g, f) A -> is_cons_tag g = false -> feval e f = true)
       /\ (forall n, In n (reported_constraints A K) -> forall f, In (TgCons n, f) A -> feval e f = true)).
Proof. exact reported_constraints_conflict. Qed.
Print Assumptions C19_reported_constraints_conflict.

(* running in debug mode changes neither the assertion set, nor the solver class, nor the optimisation directives *)
Theorem C19_debug_only_tracks : forall c st,
  let c' := {| cf_optimizer := cf_optimizer c; cf_priority := cf_priority c; cf_debug := negb (cf_debug c);
               cf_logic := cf_logic c; cf_parallel := cf_parallel c; cf_random := cf_random c; cf_verbosity := cf_verbosity c |} in
  su_asserts (solver_setup c' st) = su_asserts (solver_setup c st)
  /\ su_kind (solver_setup c' st) = su_kind (solver_setup c st)
  /\ su_directives (solver_setup c' st) = su_directives (solver_setup c st)
  /\ su_tracked (solver_setup c' st) = negb (su_tracked (solver_setup c st)).
Proof. exact debug_only_tracks. Qed.
Print Assumptions C19_debug_only_tracks.

Theorem C19_hypotheses_satisfiable : exists st, reaches ex3_prog st /\ sat ex3_env (su_asserts (solver_setup default_cfg st))
  /\ List.length (x_inds (ps_ext st)) = 14%nat /\ List.length (x_bufs (ps_ext st)) = 2%nat
  /\ List.length (x_objs (ps_ext st)) = 4%nat /\ List.length (spec_C08 st) = 19%nat.
Proof. exact ex3_sat. Qed.
Print Assumptions C19_hypotheses_satisfiable.
