(* C12 -- Asking for another solution enumerates distinct valid schedules, exhaustively.  Statements only. *)
From Coq Require Import ZArith List Bool.
From PS.model Require Import SolverSM.
From PS.proofs Require Import Solver_proof.
Import ListNotations.
Open Scope Z_scope.

(* proj = (start, end, scheduled) of every task.  After a successful solve(), n requests: every returned
   schedule is valid, the returned schedules are pairwise distinct in proj, and if the enumeration ended
   because the oracle said unsat, every valid schedule has been returned. *)
Theorem C12_enumeration :
  forall (A M P : Type) (sat : M -> A -> Prop) (oracle : nat -> list A -> @answer M),
  (forall k l m, oracle k l = Sat m -> Forall (sat m) l) ->
  (forall k l, oracle k l = Unsat -> forall m, ~ Forall (sat m) l) ->
  forall objective value better_than differs differs_var stop_now max_iter (base : list A) (proj : M -> P),
  (forall p q : P, {p = q} + {p <> q}) ->
  (forall m' m, sat m' (differs m) <-> proj m' <> proj m) ->
  objective = None ->
  forall fuel n s1 m0 evs l ex,
  sstep oracle objective value better_than differs differs_var stop_now max_iter base fuel s0 OpSolve = (s1, Ret (Some m0), evs) ->
  enum oracle objective value better_than differs differs_var stop_now max_iter base fuel n s1 = (l, ex) ->
    (forall m, In m (m0 :: l) -> Forall (sat m) base) /\
    NoDup (map proj (rev l ++ [m0])) /\
    (ex = true -> forall m, Forall (sat m) base -> In (proj m) (map proj (rev l ++ [m0]))).
Proof.
  intros A M P sat oracle Hs Hc obj value bt df dv stop mi base proj Hdec Hd Hno.
  exact (enumeration sat oracle Hs Hc obj value bt df dv stop mi base proj Hdec Hd Hno).
Qed.
Print Assumptions C12_enumeration.

(* with a horizon the space of timings is finite: the enumeration visits each at most once and therefore stops *)
Theorem C12_terminates :
  forall (A M P : Type) (sat : M -> A -> Prop) (oracle : nat -> list A -> @answer M),
  (forall k l m, oracle k l = Sat m -> Forall (sat m) l) ->
  (forall k l, oracle k l = Unsat -> forall m, ~ Forall (sat m) l) ->
  forall objective value better_than differs differs_var stop_now max_iter (base : list A) (proj : M -> P),
  (forall p q : P, {p = q} + {p <> q}) ->
  (forall m' m, sat m' (differs m) <-> proj m' <> proj m) ->
  objective = None ->
  forall fuel n s1 m0 evs l ex (U : list P),
  (forall m, Forall (sat m) base -> In (proj m) U) ->
  sstep oracle objective value better_than differs differs_var stop_now max_iter base fuel s0 OpSolve = (s1, Ret (Some m0), evs) ->
  enum oracle objective value better_than differs differs_var stop_now max_iter base fuel n s1 = (l, ex) ->
  (S (length l) <= length U)%nat.
Proof.
  intros A M P sat oracle Hs Hc obj value bt df dv stop mi base proj Hdec Hd Hno.
  exact (enumeration_bounded sat oracle Hs Hc obj value bt df dv stop mi base proj Hdec Hd Hno).
Qed.
Print Assumptions C12_terminates.

Theorem C12_another_for_variable :
  forall (A M : Type) (sat : M -> A -> Prop) (oracle : nat -> list A -> @answer M),
  (forall k l m, oracle k l = Sat m -> Forall (sat m) l) ->
  forall objective value better_than differs differs_var stop_now max_iter (base : list A) (varval : nat -> M -> Z),
  (forall x m' m, sat m' (differs_var x m) <-> varval x m' <> varval x m) ->
  objective = None ->
  forall fuel s x mc s' m evs,
  ss_init s = true -> ss_model s = Some mc ->
  sstep oracle objective value better_than differs differs_var stop_now max_iter base fuel s (OpFindAnotherVar x) = (s', Ret (Some m), evs) ->
  Forall (sat m) (ss_perm s) /\ varval x m <> varval x mc.
Proof.
  intros A M sat oracle Hs obj value bt df dv stop mi base varval Hv Hno.
  exact (another_for_variable sat oracle Hs obj value bt df dv stop mi base varval Hv Hno).
Qed.
Print Assumptions C12_another_for_variable.
