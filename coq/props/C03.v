(* C03 -- Every declared task constraint holds in every returned schedule.  Statements only. *)
From Coq Require Import ZArith List Bool.
From Coq Require String.
From PS.model Require Import Smt Enc Ind Prog.
From PS.spec Require Import Spec.
From PS.proofs Require Import Base SortNoDup C03_contig Cons_proof Res_proof Wf_proof C06_proof C05_proof Reach_proof C03_reach Examples Examples4 Refuted.
Import ListNotations.
Open Scope Z_scope.

(* Every valuation admitted by the generated constraint system satisfies, for every mandatory
   task constraint that is not an operand of a logical combination, the documented relation
   (guarded by the scheduled flags of the optional tasks it names): start/end at/after/before,
   precedence lax/strict/tight with offset, synced starts/ends, non-overlap, ordered/unordered
   groups (window, length, order), contiguity (when every named task runs over a non-empty span at a non-negative
   date -- what C01 gives for scheduled tasks of positive duration -- the spans are pairwise disjoint and every task
   but the one starting last is immediately followed by another one), and the lower bound (kinds min, exact) of
   ScheduleNTasksInTimeIntervals.
   PARTIAL: the upper bound (kinds max, exact) of ScheduleNTasksInTimeIntervals is in spec_C03_swept and is refuted
   on the pinned code (known finding F05). *)
Theorem C03_task_constraints_partial : forall (st : pstate) (e : env),
  sat e (initialize st) ->
  forall k f, In (k, f) (spec_C03 st) -> feval e f = true.
Proof. exact C03_sound. Qed.
Print Assumptions C03_task_constraints_partial.

(* what util.sort_no_duplicates asserts: the fresh integers are the inputs in increasing order, the inputs are distinct *)
Theorem C03_sort_no_duplicates : forall (a xs : list Z),
  chain_lt a -> List.length a = List.length xs -> (forall v, In v a -> In v xs) ->
  Permutation.Permutation a xs /\ Sorted.StronglySorted Z.lt a /\ NoDup xs.
Proof. exact sort_no_dup_perm. Qed.
Print Assumptions C03_sort_no_duplicates.
(* contiguity, in terms of the values of a valuation *)
Theorem C03_contiguous : forall e c ts,
  (forall f, In f (enc_raw c (CContiguous ts)) -> feval e f = true) -> feval e (running ts) = true ->
  (forall a b, In (a, b) (pairs_of ts) -> teval e (E_ a) <= teval e (S_ b) \/ teval e (E_ b) <= teval e (S_ a))
  /\ (forall t others, In (t, others) (with_others [] ts) ->
        (forall u, In u others -> teval e (S_ u) <= teval e (S_ t)) \/ (exists u, In u others /\ teval e (S_ u) = teval e (E_ t))).
Proof. exact contiguous_sound. Qed.
Print Assumptions C03_contiguous.
(* the same without premises on the valuation: in a state reached by a program, for every admitted valuation, a mandatory
   TasksContiguous over scheduled tasks of positive duration gives pairwise disjoint spans and an immediate successor for
   every task but the one starting last (the named tasks are tasks of the problem -- an invariant of the construction
   steps -- so C01 supplies the "running" premise) *)
Theorem C03_contiguous_reachable : forall ops st e c ts,
  reaches ops st -> sat e (initialize st) ->
  In c (ps_cons st) -> mandatory_live c = true -> c_expr c = CContiguous ts ->
  (forall t, In t ts -> positive_duration t = true /\ feval e (act t) = true) ->
  (forall a b, In (a, b) (pairs_of ts) -> teval e (E_ a) <= teval e (S_ b) \/ teval e (E_ b) <= teval e (S_ a))
  /\ (forall t others, In (t, others) (with_others [] ts) ->
        (forall u, In u others -> teval e (S_ u) <= teval e (S_ t)) \/ (exists u, In u others /\ teval e (S_ u) = teval e (E_ t))).
Proof. exact contiguous_reachable. Qed.
Print Assumptions C03_contiguous_reachable.
(* non-vacuity of the contiguity / non-delay / distance / periodic clauses: a program and a valuation on which their premises hold *)
Theorem C03_contiguity_premises_satisfiable : exists st, reaches ex4_prog st /\ sat ex4_env (initialize st)
  /\ List.length (spec_C03 st ++ spec_C04 st) = 31%nat /\ ex4_live st = 18%nat.
Proof. exact ex4_sat. Qed.
Print Assumptions C03_contiguity_premises_satisfiable.

Theorem C03_hypotheses_satisfiable : exists st, reaches ex2_prog st /\ sat ex2_env (initialize st)
  /\ List.length (ps_cons st) = 18%nat /\ List.length (spec_all st) = 86%nat.
Proof. exact ex2_sat. Qed.
Print Assumptions C03_hypotheses_satisfiable.

(* ---- REFUTED on the pinned code (open known findings): the swept clauses below are NOT consequences of the assertion set.
   Each theorem exhibits a reachable problem state, a valuation the assertion set admits, and a clause of the swept list that is
   false under it -- all three evaluated by the kernel.  The same program and schedule, replayed on /repo, is the finding. ---- *)
(* F05: ScheduleNTasksInTimeIntervals, kinds max / exact: the count is not bounded from above *)
Theorem C03_scheduleN_upper_refuted : exists st, reaches f05_prog st /\ sat f05_env (initialize st) /\
  exists k f, In (k, f) (spec_C03_swept st) /\ feval f05_env f = false.
Proof. exact F05_refuted_any. Qed.
Print Assumptions C03_scheduleN_upper_refuted.
