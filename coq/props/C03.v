(* C03 -- Every declared task constraint holds in every returned schedule.  Statements only. *)
From Coq Require Import ZArith List Bool.
From Coq Require String.
From PS.model Require Import Smt Enc Ind Prog.
From PS.spec Require Import Spec.
From PS.proofs Require Import Base Cons_proof Res_proof Wf_proof C06_proof Examples.
Import ListNotations.
Open Scope Z_scope.

(* Every valuation admitted by the generated constraint system satisfies, for every mandatory
   task constraint that is not an operand of a logical combination, the documented relation
   (guarded by the scheduled flags of the optional tasks it names): start/end at/after/before,
   precedence lax/strict/tight with offset, synced starts/ends, non-overlap, ordered/unordered
   groups (window, length, order), and the lower bound (kinds min, exact) of
   ScheduleNTasksInTimeIntervals.
   PARTIAL: the contiguity clauses and the upper bound (kinds max, exact) of
   ScheduleNTasksInTimeIntervals are in spec_C03_swept: the first are swept against the real
   constraint system on every run (proof pending), the second is refuted on the pinned code
   (known finding F05). *)
Theorem C03_task_constraints_partial : forall (st : pstate) (e : env),
  sat e (initialize st) ->
  forall k f, In (k, f) (spec_C03 st) -> feval e f = true.
Proof. exact C03_sound. Qed.
Print Assumptions C03_task_constraints_partial.

Theorem C03_hypotheses_satisfiable : exists st, reaches ex2_prog st /\ sat ex2_env (initialize st)
  /\ List.length (ps_cons st) = 18%nat /\ List.length (spec_all st) = 86%nat.
Proof. exact ex2_sat. Qed.
Print Assumptions C03_hypotheses_satisfiable.
