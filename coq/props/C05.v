(* C05 -- No valid schedule is lost: infeasibility verdicts are truthful.  Statements only. *)
From Coq Require Import ZArith List Bool Lia.
From Coq Require Import String.
From PS.model Require Import Smt Enc Ind Prog Driver.
From PS.spec Require Import Spec.
From PS.proofs Require Import Base C05_proof Reach_proof.
Import ListNotations.
Open Scope Z_scope.

(* Completeness of the encoding, PARTIAL: proved on the fragment
     tasks (fixed / zero / variable duration, optional or not, release dates, deadlines, min/max/allowed durations)
     + mandatory start/end at/after/before, precedence (lax/strict/tight with offset), synchronised starts / ends
     + the optional-task rules force / dependency / force-N,
   without resources, buffers and indicators (record `fragment`).  For every schedule e that satisfies the Spec
   clauses of the problem there is a valuation e' of ALL the variables of the constraint system (unscheduled tasks
   parked at their point in the past, the horizon variable set) which satisfies every assertion handed to z3 and
   which IS the schedule e: same scheduled flags, same start, end and duration of every acting task.  Hence, z3
   being complete on unsat (the oracle contract), the solver cannot answer "no solution" when a valid schedule
   exists, and pinning a valid schedule keeps the system satisfiable.
   Outside the fragment the property is decided by the correspondence in the direction model => implementation
   (a code change that loses schedules the model admits is reported) and refuted by known findings
   (F23; F09, F12, F29, F31 were found by the lost-schedule probe and repaired). *)
Theorem C05_complete_on_fragment : forall st e,
  fragment st ->
  (forall k f, In (k, f) (spec_C01 st) -> feval e f = true) ->
  (forall k f, In (k, f) (spec_C03 st) -> feval e f = true) ->
  (forall k f, In (k, f) (spec_C06_rules st) -> feval e f = true) ->
  exists e', sat e' (initialize st) /\ bv e' = bv e
    /\ forall t, In t (ps_tasks st) -> feval e (act t) = true ->
         iv e' (VStart (ti_id t)) = iv e (VStart (ti_id t)) /\ iv e' (VEnd (ti_id t)) = iv e (VEnd (ti_id t))
         /\ iv e' (VDur (ti_id t)) = iv e (VDur (ti_id t)).
Proof. exact complete_on_fragment. Qed.
Print Assumptions C05_complete_on_fragment.

(* "no solution" is truthful on the fragment: if z3 answers unsat on the assertion set (and unsat answers are
   truthful -- the oracle contract, a hypothesis), no schedule satisfies the Spec *)
Theorem C05_no_solution_is_truthful : forall st,
  fragment st ->
  (forall e', ~ sat e' (initialize st)) ->
  forall e, ~ ((forall k f, In (k, f) (spec_C01 st) -> feval e f = true)
               /\ (forall k f, In (k, f) (spec_C03 st) -> feval e f = true)
               /\ (forall k f, In (k, f) (spec_C06_rules st) -> feval e f = true)).
Proof.
  intros st Hfr Hun e (H1 & H3 & H6).
  destruct (complete_on_fragment st e Hfr H1 H3 H6) as (e' & Hs & _). exact (Hun e' Hs).
Qed.
Print Assumptions C05_no_solution_is_truthful.

(* the structural hypotheses of `fragment` (distinct task identifiers, task numbers >= 1, constraints refer to tasks
   of the problem, positive declared horizon) hold in every state reached by a program: only the shape of the problem
   remains to be checked *)
Theorem C05_fragment_reachable : forall ops st,
  reaches ops st ->
  ps_areqs st = [] -> ps_reqs st = [] -> ps_workers st = [] ->
  x_inds (ps_ext st) = [] -> x_bufs (ps_ext st) = [] ->
  (forall c, In c (ps_cons st) -> c_flag c = false -> c_opt c = false /\ frag_c (c_expr c) = true) ->
  fragment st.
Proof. exact reachable_fragment. Qed.
Print Assumptions C05_fragment_reachable.

(* non-vacuity: a program of the fragment, and a valid schedule of it in which the optional task is left out and
   carries arbitrary times (7, 9): the witness parks it at -2 *)
Definition c05_prog : list op :=
  [ONewProblem (Some 12);
   ONewTask 1%nat (KFixed 3) false 0 (Some 1) (Some 10) true 1;
   ONewTask 2%nat (KVar 1 (Some 4) (Some [2; 3])) true 0 None None false 1;
   ONewTask 3%nat KZero false 0 None None false 1;
   ONewConstraint 1%nat false (CPrecedence 1%nat 3%nat 1 Lax);
   ONewConstraint 2%nat false (CStartAfter 2%nat 4 true);
   ONewConstraint 3%nat false (CEndBefore 1%nat 8 false);
   ONewConstraint 4%nat false (CForceN [2%nat] 1 PbMax);
   ONewConstraint 5%nat false (CForceSched 2%nat false)].
Definition c05_schedule : env :=
  env_of [("T1_start", 2); ("T1_end", 5); ("T2_start", 7); ("T2_end", 9); ("T2_duration", 2); ("T3_start", 6); ("T3_end", 6)]%string
         [("T2_scheduled", false)]%string.

Theorem C05_hypotheses_satisfiable : exists st, reaches c05_prog st /\ fragment st
  /\ (forall k f, In (k, f) (spec_C01 st ++ spec_C03 st ++ spec_C06_rules st) -> feval c05_schedule f = true)
  /\ List.length (spec_C01 st ++ spec_C03 st ++ spec_C06_rules st) = 16%nat.
Proof.
  unfold reaches. vm_compute run. eexists. split; [reflexivity|]. split; [|split].
  - constructor; cbn.
    + auto.
    + auto.
    + intros c [<-|[<-|[<-|[<-|[<-|[]]]]]] _; cbn; (split; [reflexivity|split; [reflexivity|]]); intros t Ht; cbn in Ht; tauto.
    + repeat constructor; cbn; intuition discriminate.
    + intros t [<-|[<-|[<-|[]]]]; cbn; lia.
    + intros h [= <-]. lia.
  - intros k f Hin.
    match type of Hin with In _ ?L =>
      assert (H : forallb (fun kf : string * form => feval c05_schedule (snd kf)) L = true) by (vm_compute; reflexivity) end.
    rewrite forallb_forall in H. exact (H (k, f) Hin).
  - vm_compute. reflexivity.
Qed.
Print Assumptions C05_hypotheses_satisfiable.
