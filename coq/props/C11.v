(* C11 -- The solution object is a faithful, self-consistent report of one schedule.  Statements only. *)
From Coq Require Import ZArith List Bool.
From Coq Require String.
From PS.model Require Import Smt Enc Ind Prog Solution.
From PS.spec Require Import Spec.
From PS.proofs Require Import Base C11_proof Examples3.
Import ListNotations.
Open Scope Z_scope.

(* build_solution c st e delta t0 is the model of SchedulingSolver.build_solution applied to the z3 model e
   (tied to the code by comparing every reported field on every returned solution, observable O5). *)

(* within a returned solution end - start equals the reported duration of every task reported as scheduled *)
Theorem C11_duration : forall st e delta t0 t,
  sat e (initialize st) -> In t (ps_tasks st) ->
  let s := task_solution st e delta t0 t in
  ts_sched s = true -> ts_end s - ts_start s = ts_dur s.
Proof. exact duration_consistent. Qed.
Print Assumptions C11_duration.

(* the horizon is not earlier than any task end *)
Theorem C11_horizon : forall c st e delta t0 ts,
  sat e (initialize st) -> In ts (so_tasks (build_solution c st e delta t0)) ->
  ts_end ts <= so_horizon (build_solution c st e delta t0).
Proof. exact horizon_covers. Qed.
Print Assumptions C11_horizon.

(* calendar start, end and duration = start time + integer times * time step (exact integer microseconds) *)
Theorem C11_calendar : forall st e dt t0 t a b d,
  ts_times (task_solution st e (Some dt) t0 t) = Some (a, b, d) ->
  a = (match t0 with Some z => z | None => 0 end) + ts_start (task_solution st e (Some dt) t0 t) * dt
  /\ d = ts_dur (task_solution st e (Some dt) t0 t) * dt
  /\ b - a = ts_dur (task_solution st e (Some dt) t0 t) * dt.
Proof. exact calendar_times. Qed.
Print Assumptions C11_calendar.

(* cumulative workers are reported under their own name: every resource report is named after a worker or a
   cumulative worker, and a unit worker is reported under the name of its cumulative worker *)
Theorem C11_resource_names : forall c st e delta t0 r,
  In r (so_resources (build_solution c st e delta t0)) -> In (rs_name r) (report_names st).
Proof. exact resource_names. Qed.
Print Assumptions C11_resource_names.
Theorem C11_unit_under_cumulative_name : forall c i, wref_report_name (WUnit c i) = rref_report_name (RC c).
Proof. exact unit_reported_as_cumulative. Qed.
Print Assumptions C11_unit_under_cumulative_name.

(* a listed assignment is the busy interval the schedule gives the (task, worker) pair, and is never negative
   (the interval itself is the one the requirement implies by theorem C02) *)
Theorem C11_assignment_interval : forall st e w x,
  In x (worker_assignments st e w []) ->
  exists t m, In (t, m) (busy_of st (RW w)) /\ x = (t, iv e (VBusyS (RW w) t m), iv e (VBusyE (RW w) t m))
              /\ 0 <= iv e (VBusyS (RW w) t m) /\ 0 <= iv e (VBusyE (RW w) t m).
Proof. exact assignment_is_busy_interval. Qed.
Print Assumptions C11_assignment_interval.

(* PARTIAL: "a task lists a resource exactly when that resource lists an assignment for the task" and "tasks
   reported as not scheduled carry no assignment" are decided on every returned solution of the sampled programs
   by direct clause checks on the real object plus the O5 comparison; they are refuted on the code for
   early_out > task length (F26), delay_in >= task number on an unscheduled optional task (F40) and a cumulative
   worker listed inside a selection (F04) -- known findings; no theorem is claimed for them. *)

Theorem C11_hypotheses_satisfiable : exists st, reaches ex3_prog st /\ sat ex3_env (su_asserts (solver_setup default_cfg st))
  /\ List.length (x_inds (ps_ext st)) = 14%nat /\ List.length (x_bufs (ps_ext st)) = 2%nat
  /\ List.length (x_objs (ps_ext st)) = 4%nat /\ List.length (spec_C08 st) = 19%nat.
Proof. exact ex3_sat. Qed.
Print Assumptions C11_hypotheses_satisfiable.
