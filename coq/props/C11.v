(* C11 -- The solution object is a faithful, self-consistent report of one schedule.  Statements only. *)
From Coq Require Import ZArith List Bool.
From Coq Require String.
From PS.model Require Import Smt Enc Ind Prog Solution.
From PS.spec Require Import Spec.
From PS.proofs Require Import Base Wf_proof C11_proof C11_views Examples3.
Import ListNotations.
Open Scope Z_scope.

(* build_solution c st e delta t0 is the model of SchedulingSolver.build_solution applied to the z3 model e
   (tied to the code by comparing every reported field on every returned solution, observable O5). *)

(* within a returned solution end - start equals the reported duration of every task reported as scheduled *)
Theorem C11_duration : forall st e delta t0 t,
  sat e (initialize st) -> In t (ps_tasks st) ->
  let s := task_solution st e delta t0 t in
  ts_sched s = true -> ts_end s - ts_start s = ts_dur s.
Proof. exact duration_consistent. Qed.
Print Assumptions C11_duration.

(* the horizon is not earlier than any task end *)
Theorem C11_horizon : forall c st e delta t0 ts,
  sat e (initialize st) -> In ts (so_tasks (build_solution c st e delta t0)) ->
  ts_end ts <= so_horizon (build_solution c st e delta t0).
Proof. exact horizon_covers. Qed.
Print Assumptions C11_horizon.

(* calendar start, end and duration = start time + integer times * time step (exact integer microseconds) *)
Theorem C11_calendar : forall st e dt t0 t a b d,
  ts_times (task_solution st e (Some dt) t0 t) = Some (a, b, d) ->
  a = (match t0 with Some z => z | None => 0 end) + ts_start (task_solution st e (Some dt) t0 t) * dt
  /\ d = ts_dur (task_solution st e (Some dt) t0 t) * dt
  /\ b - a = ts_dur (task_solution st e (Some dt) t0 t) * dt.
Proof. exact calendar_times. Qed.
Print Assumptions C11_calendar.

(* cumulative workers are reported under their own name: every resource report is named after a worker or a
   cumulative worker, and a unit worker is reported under the name of its cumulative worker *)
Theorem C11_resource_names : forall c st e delta t0 r,
  In r (so_resources (build_solution c st e delta t0)) -> In (rs_name r) (report_names st).
Proof. exact resource_names. Qed.
Print Assumptions C11_resource_names.
Theorem C11_unit_under_cumulative_name : forall c i, wref_key (WUnit c i) = rref_key (RC c) /\ wref_key (WUnit c i) = ResC c.
Proof. exact unit_reported_as_cumulative. Qed.
Print Assumptions C11_unit_under_cumulative_name.

(* a listed assignment is the busy interval the schedule gives the (task, worker) pair, and is never negative
   (the interval itself is the one the requirement implies by theorem C02) *)
Theorem C11_assignment_interval : forall st e w x,
  In x (worker_assignments st e w []) ->
  exists t m, In (t, m) (busy_of st (RW w)) /\ x = (t, iv e (VBusyS (RW w) t m), iv e (VBusyE (RW w) t m))
              /\ 0 <= iv e (VBusyS (RW w) t m) /\ 0 <= iv e (VBusyE (RW w) t m).
Proof. exact assignment_is_busy_interval. Qed.
Print Assumptions C11_assignment_interval.

(* a task lists a resource among its assigned resources exactly when the report of that resource lists an assignment
   for the task -- for every state reached by a program, under two guards that exclude the known findings:
   no static requirement has an early_out (F26: the worker side would drop an interval with a negative end) and every
   required resource is a worker of the problem (F04: a cumulative worker listed inside a selection is never visited).
   Proved from three run invariants (link between required resources, busy dictionaries and requirement assertions;
   one busy entry per task and one record per worker; validated task kinds) and the semantics of each busy entry. *)
Theorem C11_views_agree : forall ops st e c delta t0 t,
  reaches ops st -> sat e (initialize st) -> no_early_out st -> reqs_are_workers st ->
  In t (ps_tasks st) ->
  forall k, In k (ts_assigned (task_solution st e delta t0 t))
            <-> exists rep s x, In rep (so_resources (build_solution c st e delta t0)) /\ rs_name rep = k
                                /\ In (ti_id t, s, x) (rs_assignments rep).
Proof. exact views_agree. Qed.
Print Assumptions C11_views_agree.

(* tasks reported as not scheduled carry no assignment, in either view *)
Theorem C11_unscheduled_no_assignment : forall ops st e c delta t0 t,
  reaches ops st -> sat e (initialize st) -> no_early_out st -> In t (ps_tasks st) ->
  ts_sched (task_solution st e delta t0 t) = false ->
  ts_assigned (task_solution st e delta t0 t) = []
  /\ forall rep s x, In rep (so_resources (build_solution c st e delta t0)) -> ~ In (ti_id t, s, x) (rs_assignments rep).
Proof. exact unscheduled_no_assignment. Qed.
Print Assumptions C11_unscheduled_no_assignment.

(* the guards are decidable on a given state and hold in the example (no early_out, only plain / unit workers required);
   where they fail the clause is decided by the direct checks on the real object (known findings F26, F04). *)

Theorem C11_hypotheses_satisfiable : exists st, reaches ex3_prog st /\ sat ex3_env (su_asserts (solver_setup default_cfg st))
  /\ List.length (x_inds (ps_ext st)) = 14%nat /\ List.length (x_bufs (ps_ext st)) = 2%nat
  /\ List.length (x_objs (ps_ext st)) = 4%nat /\ List.length (spec_C08 st) = 19%nat.
Proof. exact ex3_sat. Qed.
Print Assumptions C11_hypotheses_satisfiable.
