(* C06 -- Optional tasks: scheduled like mandatory ones, or inert when not scheduled.  Statements only. *)
From Coq Require Import ZArith List Bool.
From Coq Require String.
From PS.model Require Import Smt Enc Ind Prog.
From PS.spec Require Import Spec.
From PS.proofs Require Import Base Cons_proof Res_proof Wf_proof C06_proof Examples.
Import ListNotations.
Open Scope Z_scope.

(* PARTIAL.  Proved: the rules that force / condition / couple / count the scheduling of optional
   tasks hold; an unscheduled optional task keeps every worker it requires busy only before time 0
   (so it is filtered from the report and conflicts with no scheduled task); a scheduled optional
   task obeys exactly the clauses of a mandatory one because every C01-C04 clause is guarded by
   the scheduled flag alone (act).  Not proved: the deletion equivalence (schedules of the other
   tasks = schedules of the problem with the unscheduled tasks deleted); refuted on the pinned code
   for work amounts, buffers, groups (known findings F12, F13, F31). *)
Theorem C06_optional_partial : forall ops st e, reaches ops st -> sat e (initialize st) ->
  forall k f, In (k, f) (spec_C06 st) -> feval e f = true.
Proof. intros ops st e Hr. apply C06_sound. exact (reachable_wf ops st Hr). Qed.
Print Assumptions C06_optional_partial.
Theorem C06_guard_mandatory : forall e t, ti_opt t = false -> feval e (act t) = true.
Proof. exact act_mandatory. Qed.
Print Assumptions C06_guard_mandatory.
Theorem C06_guard_optional : forall e t, ti_opt t = true -> feval e (act t) = bv e (BSched (ti_id t)).
Proof. exact act_optional. Qed.
Print Assumptions C06_guard_optional.
Theorem C06_hypotheses_satisfiable : exists st, reaches ex2_prog st /\ sat ex2_env (initialize st)
  /\ List.length (ps_cons st) = 18%nat /\ List.length (spec_all st) = 86%nat.
Proof. exact ex2_sat. Qed.
Print Assumptions C06_hypotheses_satisfiable.
