(* C06 -- Optional tasks: scheduled like mandatory ones, or inert when not scheduled.  Statements only. *)
From Coq Require Import ZArith List Bool.
From Coq Require String.
From PS.model Require Import Smt Enc Ind Prog.
From PS.spec Require Import Spec.
From PS.proofs Require Import Base Cons_proof Res_proof Wf_proof C06_proof C05_proof C06_delete Examples Examples5.
Import ListNotations.
Open Scope Z_scope.

(* PARTIAL.  Proved: the rules that force / condition / couple / count the scheduling of optional
   tasks hold; an unscheduled optional task keeps every worker it requires busy only before time 0
   (so it is filtered from the report and conflicts with no scheduled task); a scheduled optional
   task obeys exactly the clauses of a mandatory one because every C01-C04 clause is guarded by
   the scheduled flag alone (act).  The deletion equivalence is proved on the fragment of C05 (tasks of the three kinds +
   start/end/precedence/synchronisation constraints + scheduling rules, no resources, buffers or indicators), see
   C06_unscheduled_is_deleted / C06_deleted_is_unscheduled below; elsewhere it is searched by the lost-schedule probe (the
   losses it found -- work amounts F12, groups F31 -- are repaired) and refuted for buffers (known finding F13). *)
Theorem C06_optional_partial : forall ops st e, reaches ops st -> sat e (initialize st) ->
  forall k f, In (k, f) (spec_C06 st) -> feval e f = true.
Proof. intros ops st e Hr. apply C06_sound. exact (reachable_wf ops st Hr). Qed.
Print Assumptions C06_optional_partial.
Theorem C06_guard_mandatory : forall e t, ti_opt t = false -> feval e (act t) = true.
Proof. exact act_mandatory. Qed.
Print Assumptions C06_guard_mandatory.
Theorem C06_guard_optional : forall e t, ti_opt t = true -> feval e (act t) = bv e (BSched (ti_id t)).
Proof. exact act_optional. Qed.
Print Assumptions C06_guard_optional.
(* Deletion equivalence on the C05 fragment.  del st t = the same problem without the optional task t and without the
   constraints that name it.  (1) Spec level: when t is not scheduled, the timing and constraint clauses of the problem
   hold iff those of the smaller problem do.  (2) Every valuation admitted by the constraint system in which t is not
   scheduled gives the same schedule of the other tasks as some valuation admitted by the constraint system of the
   smaller problem.  (3) Conversely, provided the scheduling rules naming t hold with t left out. *)
Theorem C06_delete_spec : forall st t e, fragment st -> In t (ps_tasks st) -> ti_opt t = true ->
  bv e (BSched (ti_id t)) = false -> (valid13 st e <-> valid13 (del st t) e).
Proof. exact delete_spec. Qed.
Print Assumptions C06_delete_spec.
Theorem C06_unscheduled_is_deleted : forall st t e1, fragment st -> In t (ps_tasks st) -> ti_opt t = true ->
  sat e1 (initialize st) -> bv e1 (BSched (ti_id t)) = false ->
  exists e2, sat e2 (initialize (del st t)) /\ same_schedule (del st t) e1 e2.
Proof. exact unscheduled_is_deleted. Qed.
Print Assumptions C06_unscheduled_is_deleted.
Theorem C06_deleted_is_unscheduled : forall st t e2, fragment st -> In t (ps_tasks st) -> ti_opt t = true ->
  sat e2 (initialize (del st t)) -> bv e2 (BSched (ti_id t)) = false -> rules_naming st t e2 ->
  exists e1, sat e1 (initialize st) /\ same_schedule st e2 e1.
Proof. exact deleted_is_unscheduled. Qed.
Print Assumptions C06_deleted_is_unscheduled.
Theorem C06_deletion_hypotheses_satisfiable : exists st t, reaches ex5_prog st /\ fragment st /\ In t (ps_tasks st) /\ ti_opt t = true
  /\ bv ex5_schedule (BSched (ti_id t)) = false /\ rules_naming st t ex5_schedule
  /\ List.length (ps_tasks (del st t)) = 2%nat /\ List.length (ps_cons (del st t)) = 2%nat
  /\ valid13 st ex5_schedule.
Proof. exact ex5_delete. Qed.
Print Assumptions C06_deletion_hypotheses_satisfiable.
Theorem C06_hypotheses_satisfiable : exists st, reaches ex2_prog st /\ sat ex2_env (initialize st)
  /\ List.length (ps_cons st) = 18%nat /\ List.length (spec_all st) = 86%nat.
Proof. exact ex2_sat. Qed.
Print Assumptions C06_hypotheses_satisfiable.
