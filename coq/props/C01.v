(* C01 -- Returned schedules obey task timing.  Statements only. *)
From Coq Require Import ZArith List Bool String.
From PS.model Require Import Smt Enc Ind Prog.
From PS.spec Require Import Spec.
From PS.proofs Require Import Base C01_proof.
Import ListNotations.
Open Scope Z_scope.

(* Every valuation the generated constraint system admits satisfies every C01
   clause of the reference semantics, for every problem state (hence for every
   state reached by any program), whatever else the problem contains. *)
Theorem C01_timing : forall (st : pstate) (e : env),
  sat e (initialize st) ->
  forall k f, In (k, f) (spec_C01 st) -> feval e f = true.
Proof. exact C01_timing_sound. Qed.
Print Assumptions C01_timing.

(* The same statement read on values. *)
Theorem C01_timing_values : forall st e, sat e (initialize st) ->
  forall t, In t (ps_tasks st) -> feval e (act t) = true ->
    0 <= iv e (VStart (ti_id t))
    /\ iv e (VEnd (ti_id t)) <= teval e (horizon_t st)
    /\ (match ti_kind t with
        | KZero => iv e (VEnd (ti_id t)) = iv e (VStart (ti_id t))
        | KFixed d => iv e (VEnd (ti_id t)) - iv e (VStart (ti_id t)) = d
        | KVar mn mx al =>
            iv e (VEnd (ti_id t)) - iv e (VStart (ti_id t)) = iv e (VDur (ti_id t))
            /\ mn <= iv e (VDur (ti_id t))
            /\ (forall m, mx = Some m -> iv e (VDur (ti_id t)) <= m)
            /\ (forall l, al = Some l -> In (iv e (VDur (ti_id t))) l)
        end)
    /\ (forall r, ti_release t = Some r -> r <= iv e (VStart (ti_id t)))
    /\ (forall d, ti_due t = Some d -> ti_deadline t = true -> iv e (VEnd (ti_id t)) <= d).
Proof. exact C01_values. Qed.
Print Assumptions C01_timing_values.

Theorem C01_hypotheses_satisfiable : exists st, reaches ex_prog st /\ sat ex_env (initialize st)
  /\ List.length (ps_tasks st) = 3%nat.
Proof. exact C01_nonvacuous. Qed.
Print Assumptions C01_hypotheses_satisfiable.
