(* C14 -- Meaning is independent of names, declaration order and earlier problems.  Statements only. *)
From Coq Require Import ZArith List Bool Permutation String.
From PS.model Require Import Smt Enc Ind Prog.
From PS.spec Require Import Spec.
From PS.proofs Require Import Base C05_proof C14_proof.
Import ListNotations.
Open Scope Z_scope.

(* Names: the model refers to elements by identifiers, not by strings, so consistent renaming is invisible to it;
   that the library's name-derived z3 constants do not break this is checked by the correspondence (every sampled
   problem is built under several naming schemes and must yield the same constraint system, verdict, optimum and
   schedule set); adversarial names are known findings F27 / F28. *)

(* Earlier problems: whatever was built before in the process (any program that ran without error), a new
   SchedulingProblem followed by ops reaches the state it reaches in a fresh process. *)
Theorem C14_fresh_problem : forall pre h ops st,
  run pre = RunOk st ->
  outcome (run (pre ++ ONewProblem h :: ops)) = outcome (run (ONewProblem h :: ops)).
Proof. exact fresh_problem. Qed.
Print Assumptions C14_fresh_problem.

(* Declaration order: the Spec of a problem (task timing, task constraints, optional-task rules, resource
   constraints, logical combinations) holds of a schedule whatever the order in which tasks and constraints were
   declared, *)
Theorem C14_valid_order_independent : forall st1 st2 e,
  ps_horizon st1 = ps_horizon st2 ->
  Permutation (ps_tasks st1) (ps_tasks st2) -> Permutation (ps_cons st1) (ps_cons st2) ->
  valid st1 e -> valid st2 e.
Proof. exact valid_order_independent. Qed.
Print Assumptions C14_valid_order_independent.

(* and whatever task numbers (creation ranks) the declarations received. *)
Theorem C14_task_clauses_rank_independent : forall st t r, spec_C01_task st (with_rank t r) = spec_C01_task st t.
Proof. exact task_clauses_rank_independent. Qed.
Print Assumptions C14_task_clauses_rank_independent.
Theorem C14_unary_constraint_clauses_rank_independent : forall t r v s,
  spec_C03_P (CStartAt (with_rank t r) v) = spec_C03_P (CStartAt t v)
  /\ spec_C03_P (CStartAfter (with_rank t r) v s) = spec_C03_P (CStartAfter t v s)
  /\ spec_C03_P (CEndAt (with_rank t r) v) = spec_C03_P (CEndAt t v)
  /\ spec_C03_P (CEndBefore (with_rank t r) v s) = spec_C03_P (CEndBefore t v s).
Proof. exact unary_constraint_clauses_rank_independent. Qed.
Print Assumptions C14_unary_constraint_clauses_rank_independent.
Theorem C14_binary_constraint_clauses_rank_independent : forall a b ra rb off k,
  spec_C03_P (CPrecedence (with_rank a ra) (with_rank b rb) off k) = spec_C03_P (CPrecedence a b off k)
  /\ spec_C03_P (CStartSynced (with_rank a ra) (with_rank b rb)) = spec_C03_P (CStartSynced a b)
  /\ spec_C03_P (CEndSynced (with_rank a ra) (with_rank b rb)) = spec_C03_P (CEndSynced a b)
  /\ spec_C03_P (CDontOverlap (with_rank a ra) (with_rank b rb)) = spec_C03_P (CDontOverlap a b).
Proof. exact binary_constraint_clauses_rank_independent. Qed.
Print Assumptions C14_binary_constraint_clauses_rank_independent.

(* Hence, on the fragment where the encoding is proved sound and complete (C05), two presentations of a problem with
   the same Spec admit the same schedules: every valuation admitted for the first presentation has a counterpart
   admitted for the second one with the same flags and the same times of every acting task (so the feasibility
   verdict and every optimum defined on the schedule coincide).  PARTIAL: outside that fragment order-dependent
   artefacts exist (the point in the past -task_number of an unscheduled task can meet the unique negative integer
   of an unselected worker: known finding F23) and the invariance is decided by the experiments of the check. *)
Theorem C14_same_spec_same_schedules : forall st1 st2,
  fragment st2 ->
  (forall e, fragment_valid st1 e -> fragment_valid st2 e) ->
  forall e1, sat e1 (initialize st1) ->
  exists e2, sat e2 (initialize st2) /\ bv e2 = bv e1
    /\ forall t, In t (ps_tasks st2) -> feval e1 (act t) = true ->
         iv e2 (VStart (ti_id t)) = iv e1 (VStart (ti_id t)) /\ iv e2 (VEnd (ti_id t)) = iv e1 (VEnd (ti_id t))
         /\ iv e2 (VDur (ti_id t)) = iv e1 (VDur (ti_id t)).
Proof. exact same_spec_same_schedules. Qed.
Print Assumptions C14_same_spec_same_schedules.
