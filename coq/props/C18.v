(* C18 -- Ill-formed model elements are rejected at creation, well-formed ones accepted.  Statements only. *)
From Coq Require Import ZArith List Bool.
From PS.model Require Import Smt Enc Ind Prog.
From PS.spec Require Import Spec.
From PS.proofs Require Import Base C18_proof Examples.
Import ListNotations.
Open Scope Z_scope.

(* The decision of every constructor call (on integer / Boolean / list parameters and references to
   existing elements) is exactly the rule list wf_op of Spec.v: rejected iff ill formed. *)
Theorem C18_decision : forall st o,
  step_problem st o <> Unsupported -> (step_problem st o = Err <-> wf_op st o = false).
Proof. exact decision. Qed.
Print Assumptions C18_decision.
Theorem C18_accepts_well_formed : forall st o,
  step_problem st o <> Unsupported -> wf_op st o = true -> exists st', step_problem st o = Ok st'.
Proof. exact accepts_well_formed. Qed.
Print Assumptions C18_accepts_well_formed.
Theorem C18_no_problem : forall o, (forall h, o <> ONewProblem h) -> step None o = Err.
Proof. exact no_problem. Qed.
Print Assumptions C18_no_problem.
(* the rules named by the property, individually *)
Theorem C18_duplicate_task : forall st id k opt work rel due dl prio,
  find_task st id <> None -> step_problem st (ONewTask id k opt work rel due dl prio) = Err.
Proof. exact rule_duplicate_task. Qed.
Print Assumptions C18_duplicate_task.
Theorem C18_duplicate_worker : forall st id prod cost,
  find_worker st (WPlain id) <> None -> step_problem st (ONewWorker id prod cost) = Err.
Proof. exact rule_duplicate_worker. Qed.
Print Assumptions C18_duplicate_worker.
Theorem C18_duplicate_cumulative : forall st id size prod cost,
  find_cumul st id <> None -> step_problem st (ONewCumulative id size prod cost) = Err.
Proof. exact rule_duplicate_cumulative. Qed.
Print Assumptions C18_duplicate_cumulative.
Theorem C18_duplicate_constraint : forall st id opt e,
  find_cons st id <> None -> step_problem st (ONewConstraint id opt e) = Err.
Proof. exact rule_duplicate_constraint. Qed.
Print Assumptions C18_duplicate_constraint.
Theorem C18_duplicate_selection : forall st id listed n k,
  step_problem st (ONewSelect id listed n k) <> Unsupported ->
  find_select st (SUser id) <> None -> step_problem st (ONewSelect id listed n k) = Err.
Proof. exact rule_duplicate_selection. Qed.
Print Assumptions C18_duplicate_selection.
Theorem C18_fixed_duration : forall st id d opt work rel due dl prio,
  d <= 0 -> step_problem st (ONewTask id (KFixed d) opt work rel due dl prio) = Err.
Proof. exact rule_fixed_duration. Qed.
Print Assumptions C18_fixed_duration.
Theorem C18_negative_fields : forall st id k opt work rel due dl prio,
  work < 0 \/ prio < 0 \/ (exists mn mx al, k = KVar mn mx al /\ mn < 0) ->
  step_problem st (ONewTask id k opt work rel due dl prio) = Err.
Proof. exact rule_negative_fields. Qed.
Print Assumptions C18_negative_fields.
Theorem C18_selection_size : forall st id listed n k,
  step_problem st (ONewSelect id listed n k) <> Unsupported ->
  Z.of_nat (length listed) < 2 \/ Z.of_nat (length listed) < n \/ n < 1 ->
  step_problem st (ONewSelect id listed n k) = Err.
Proof. exact rule_selection_size. Qed.
Print Assumptions C18_selection_size.
Theorem C18_cumulative_size : forall st id size prod cost,
  size < 2 -> step_problem st (ONewCumulative id size prod cost) = Err.
Proof. exact rule_cumulative_size. Qed.
Print Assumptions C18_cumulative_size.
Theorem C18_constraint_illformed : forall st id opt e re,
  find_cons st id = None -> resolve st e = Some re -> buffer_known st re = true ->
  wf_constraint id opt re = false ->
  step_problem st (ONewConstraint id opt e) = Err.
Proof. exact rule_constraint_illformed. Qed.
Print Assumptions C18_constraint_illformed.
Theorem C18_optional_only : forall t b c opt, ti_opt t = false -> wf_constraint c opt (CForceSched t b) = false.
Proof. exact rule_optional_only. Qed.
Print Assumptions C18_optional_only.
Theorem C18_condition_only : forall t f c opt, ti_opt t = false -> wf_constraint c opt (CCondSched t f) = false.
Proof. exact rule_condition_only. Qed.
Print Assumptions C18_condition_only.
Theorem C18_dependency_only : forall a t c opt, ti_opt t = false -> wf_constraint c opt (CDependency a t) = false.
Proof. exact rule_dependency_only. Qed.
Print Assumptions C18_dependency_only.
Theorem C18_force_n_only : forall ts n k c opt t,
  In t ts -> ti_opt t = false -> wf_constraint c opt (CForceN ts n k) = false.
Proof. exact rule_force_n_only. Qed.
Print Assumptions C18_force_n_only.
Theorem C18_force_apply_only : forall cs n k c opt o,
  In o cs -> or_opt o = false -> wf_constraint c opt (CForceApplyN cs n k) = false.
Proof. exact rule_force_apply_only. Qed.
Print Assumptions C18_force_apply_only.
Theorem C18_unassigned_resource : forall r c opt, all_busy r = [] ->
  (forall ivs k, ivs <> [] -> wf_constraint c opt (CWorkLoad r ivs k) = false)
  /\ (forall ivs, wf_constraint c opt (CUnavailable r ivs) = false)
  /\ (forall ivs p s o e, wf_constraint c opt (CPeriodicUnavailable r ivs p s o e) = false)
  /\ (forall ivs, wf_constraint c opt (CInterrupted r ivs) = false)
  /\ (forall ivs p s o e, wf_constraint c opt (CPeriodicInterrupted r ivs p s o e) = false).
Proof. exact rule_unassigned_resource. Qed.
Print Assumptions C18_unassigned_resource.
Theorem C18_unassigned_distance : forall r d ivs m c opt,
  rs_own r = [] -> wf_constraint c opt (CDistance r d ivs m) = false.
Proof. exact rule_unassigned_distance. Qed.
Print Assumptions C18_unassigned_distance.
Theorem C18_unassigned_nondelay : forall r c opt, rs_own r = [] -> wf_constraint c opt (CNonDelay r) = false.
Proof. exact rule_unassigned_nondelay. Qed.
Print Assumptions C18_unassigned_nondelay.
