(* C13 -- A solver object stays truthful across repeated and mixed calls.  Statements only. *)
From Coq Require Import ZArith List Bool.
From PS.model Require Import SolverSM.
From PS.proofs Require Import Solver_proof.
Import ListNotations.
Open Scope Z_scope.

(* After ANY finite history of initialize / export / solve / find_another calls on one object, a solve()
   that answers "no solution" does so only because the oracle said unsat or unknown on
   base ++ (blocking clauses this object added itself), or max_iter = 0; with unsat no schedule satisfies
   that set.  In particular no bound of an earlier optimisation is left behind. *)
Theorem C13_history_truthful :
  forall (A M : Type) (sat : M -> A -> Prop) (oracle : nat -> list A -> @answer M),
  (forall k l, oracle k l = Unsat -> forall m, ~ Forall (sat m) l) ->
  forall objective value better_than differs differs_var stop_now max_iter (base : list A) fuel ops s tr s' evs,
  srun oracle objective value better_than differs differs_var stop_now max_iter base fuel s0 ops = (s, tr) ->
  sstep oracle objective value better_than differs differs_var stop_now max_iter base fuel s OpSolve = (s', Ret None, evs) ->
  exists bl, Forall (blocker differs differs_var) bl /\
    ((objective <> None /\ max_iter = Some 0%nat) \/
     (exists k, oracle k (bl ++ base) = Unsat /\ forall m, ~ Forall (sat m) (bl ++ base)) \/
     (exists k, oracle k (bl ++ base) = Unknown)).
Proof. intros A M sat oracle Hc obj value bt df dv stop mi base. exact (history_truthful sat oracle Hc obj value bt df dv stop mi base). Qed.
Print Assumptions C13_history_truthful.

(* solving a feasible problem again (after any mix of initialize / export / solve) never reports it infeasible *)
Theorem C13_feasible_never_infeasible :
  forall (A M : Type) (sat : M -> A -> Prop) (oracle : nat -> list A -> @answer M),
  (forall k l, oracle k l = Unsat -> forall m, ~ Forall (sat m) l) ->
  forall objective value better_than differs differs_var stop_now max_iter (base : list A) fuel ops s tr s' evs m0,
  Forall (sat m0) base -> forallb plain ops = true ->
  srun oracle objective value better_than differs differs_var stop_now max_iter base fuel s0 ops = (s, tr) ->
  sstep oracle objective value better_than differs differs_var stop_now max_iter base fuel s OpSolve = (s', Ret None, evs) ->
  (objective <> None /\ max_iter = Some 0%nat) \/ (exists k, oracle k base = Unknown).
Proof. intros A M sat oracle Hc obj value bt df dv stop mi base. exact (feasible_never_infeasible sat oracle Hc obj value bt df dv stop mi base). Qed.
Print Assumptions C13_feasible_never_infeasible.

(* solve() never changes the permanent assertion set: the optimiser pops what it pushed *)
Theorem C13_solve_keeps_assertions :
  forall (A M : Type) (oracle : nat -> list A -> @answer M)
         objective value better_than stop_now max_iter (base : list A) fuel s s' o evs,
  solve oracle objective value better_than stop_now max_iter base fuel s = (s', o, evs) ->
  ss_perm s' = ss_perm (ensure_init base s) /\ ss_init s' = true.
Proof. intros A M oracle obj value bt stop mi base. exact (solve_perm oracle obj value bt stop mi base). Qed.
Print Assumptions C13_solve_keeps_assertions.

(* initialize() hands the solver the assertion set of the problem (base), whatever the object did before: blocking clauses of
   earlier enumerations are dropped, nothing of the problem is.  (The check compares the assertion sets of every initialize()
   of a history, and of a second solver object created on the same problem, on the real library.) *)
Theorem C13_initialize_is_a_function_of_the_problem :
  forall (A M : Type) (oracle : nat -> list A -> @answer M)
         objective value better_than differs differs_var stop_now max_iter (base : list A) fuel s,
  let s' := fst (fst (sstep oracle objective value better_than differs differs_var stop_now max_iter base fuel s OpInitialize)) in
  ss_perm s' = base /\ ss_init s' = true /\ ss_model s' = ss_model s.
Proof. intros. cbn. auto. Qed.
Print Assumptions C13_initialize_is_a_function_of_the_problem.
