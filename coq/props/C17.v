(* C17 -- The Gantt chart draws exactly the reported assignments at the right place.  Statements only. *)
From Coq Require Import ZArith List Bool String.
From PS.model Require Import Smt Enc Ind Prog Solution Export Gantt.
From PS.proofs Require Import Base C17_proof.
Import ListNotations.
Open Scope Z_scope.

(* gantt_bars / gantt_labels / buffer_steps model what render_gantt_matplotlib hands to matplotlib (broken_barh,
   text, set_yticklabels, plot); abscissae in twentieths of a period.  The correspondence renders real solutions
   with the Agg backend and compares the artists of the Axes with the model.  matplotlib's own drawing is not
   modelled. *)

Theorem C17_bar_geometry : forall row start len text,
  0 <= len ->
  let b := draw_bar row start len text in
  gb_row b = row /\ gb_text b = text
  /\ (0 < len -> gb_x20 b = 20 * start /\ gb_x20 b + gb_w20 b = 20 * (start + len))
  /\ (len = 0 -> gb_w20 b = 2 /\ 2 * gb_x20 b + gb_w20 b = 2 * (20 * start))
  /\ 2 * gb_tx20 b = 2 * gb_x20 b + gb_w20 b.
Proof. exact bar_geometry. Qed.
Print Assumptions C17_bar_geometry.

Theorem C17_resource_view_one_bar_per_assignment : forall s m, effective_mode s m = GResource ->
  List.length (gantt_bars s m) = List.length (flat_map rs_assignments (so_resources s)).
Proof. exact resource_view_one_bar_per_assignment. Qed.
Print Assumptions C17_resource_view_one_bar_per_assignment.

Theorem C17_resource_view_bar_on_its_row : forall s m b, effective_mode s m = GResource -> In b (gantt_bars s m) ->
  exists r t a e, nth_error (so_resources s) (gb_row b) = Some r /\ In (t, a, e) (rs_assignments r)
                  /\ b = draw_bar (gb_row b) a (e - a) (show_task t).
Proof. exact resource_view_bar_on_its_row. Qed.
Print Assumptions C17_resource_view_bar_on_its_row.

Theorem C17_task_view_one_bar_per_scheduled_task : forall s m, effective_mode s m = GTask ->
  List.length (gantt_bars s m) = List.length (filter ts_sched (so_tasks s))
  /\ gantt_labels s m = map (fun t => show_task (ts_id t)) (filter ts_sched (so_tasks s)).
Proof. exact task_view_bars. Qed.
Print Assumptions C17_task_view_one_bar_per_scheduled_task.

Theorem C17_task_view_none_for_unscheduled : forall s m b, effective_mode s m = GTask -> In b (gantt_bars s m) ->
  exists t, In t (so_tasks s) /\ ts_sched t = true
            /\ nth_error (filter ts_sched (so_tasks s)) (gb_row b) = Some t
            /\ gb_x20 b = (if ts_dur t =? 0 then 20 * ts_start t - 1 else 20 * ts_start t)
            /\ gb_w20 b = (if ts_dur t =? 0 then 2 else 20 * ts_dur t).
Proof. exact task_view_only_scheduled. Qed.
Print Assumptions C17_task_view_none_for_unscheduled.

Theorem C17_no_resource_means_task_view : forall s m, so_resources s = [] -> effective_mode s m = GTask.
Proof. exact no_resource_means_task_view. Qed.
Print Assumptions C17_no_resource_means_task_view.

Theorem C17_buffer_step_plot : forall s b k x0 x1 y,
  nth_error (0 :: bs_times b ++ [so_horizon s]) k = Some x0 ->
  nth_error (0 :: bs_times b ++ [so_horizon s]) (S k) = Some x1 ->
  nth_error (bs_levels b) k = Some y ->
  nth_error (buffer_steps s b) k = Some (x0, x1, y).
Proof. exact buffer_steps_are_reported_levels. Qed.
Print Assumptions C17_buffer_step_plot.
Theorem C17_buffer_step_count : forall s b, List.length (bs_levels b) = S (List.length (bs_times b)) ->
  List.length (buffer_steps s b) = List.length (bs_levels b).
Proof. exact buffer_steps_count. Qed.
Print Assumptions C17_buffer_step_count.

Example C17_marker_example : draw_bar 0 4 0 "T" = {| gb_row := 0; gb_x20 := 79; gb_w20 := 2; gb_tx20 := 80; gb_text := "T" |}.
Proof. reflexivity. Qed.
