(* C16 -- Exports (JSON, CSV/DataFrame, Excel, SMT-LIB) reproduce the data exactly.  Statements only. *)
From Coq Require Import ZArith List Bool String.
From PS.model Require Import Smt Enc Ind Prog Solution Export.
From PS.proofs Require Import Base C16_proof.
Import ListNotations.
Open Scope Z_scope.

(* The layouts the library owns are modelled (Export.v) and can be read back exactly; the bytes themselves are
   produced by pydantic, pandas, xlsxwriter and z3: the correspondence re-parses the real files (json, csv,
   zipfile+XML of the .xlsx, z3.parse_smt2_file) and compares them with the model's rows / cells and with the
   solution; the SMT-LIB export must be z3-equivalent to the assertion set the solver checks. *)

Theorem C16_dataframe_roundtrip : forall s,
  map df_decode (df_rows s)
  = map (fun t => (ts_id t, ts_assigned t, ts_start t, ts_end t, ts_dur t, ts_sched t)) (so_tasks s).
Proof. exact df_roundtrip. Qed.
Print Assumptions C16_dataframe_roundtrip.

(* Excel resource view: every bar decodes to the assignment it was written for.  Guard: every listed assignment
   has length >= 1 (a zero-length assignment is written as one cell, like a unit-length one; listed assignments
   start at a non-negative instant by theorem C11_assignment_interval). *)
Theorem C16_excel_resource_view : forall s,
  (forall r t a b, In r (so_resources s) -> In (t, a, b) (rs_assignments r) -> 1 <= b - a) ->
  map bar_decode (resource_sheet s)
  = flat_map (fun '(i, r) => map (fun '(t, a, b) => (S i, show_task t, a, b)) (rs_assignments r)) (indexed 0 (so_resources s)).
Proof. exact resource_sheet_roundtrip. Qed.
Print Assumptions C16_excel_resource_view.

Theorem C16_excel_task_view : forall s,
  (forall t, In t (so_tasks s) -> 1 <= ts_end t - ts_start t) ->
  map bar_decode (task_sheet s)
  = map (fun '(i, t) => (S i, join "," (map resobj_name (ts_assigned t)), ts_start t, ts_end t)) (indexed 0 (so_tasks s)).
Proof. exact task_sheet_roundtrip. Qed.
Print Assumptions C16_excel_task_view.

Theorem C16_excel_indicators : forall s, map (fun '(_, k, v) => (k, v)) (indicator_sheet s) = so_indicators s.
Proof. exact indicator_sheet_roundtrip. Qed.
Print Assumptions C16_excel_indicators.

(* a bar lies to the right of the name column when it starts at a non-negative instant, and bars written for
   disjoint intervals of one row never overwrite each other *)
Theorem C16_excel_bar_right_of_names : forall row s e text, 0 <= s -> 1 <= ce_c1 (bar row s e text).
Proof. exact bar_right_of_names. Qed.
Print Assumptions C16_excel_bar_right_of_names.
Theorem C16_excel_no_overwrite : forall row s1 e1 t1 s2 e2 t2 col,
  1 <= e1 - s1 -> 1 <= e2 - s2 -> (e1 <= s2 \/ e2 <= s1) ->
  covers (bar row s1 e1 t1) row col = true -> covers (bar row s2 e2 t2) row col = true -> False.
Proof. exact disjoint_bars_do_not_overlap. Qed.
Print Assumptions C16_excel_no_overwrite.

(* the guards are met by a non-trivial solution, and the layout of a zero-length item is ambiguous (F25) *)
Example C16_guard_example : bar_decode (bar 1 2 5 "T1") = (1%nat, "T1"%string, 2, 5) /\ bar 1 3 3 "T2" = bar 1 3 4 "T2".
Proof. split; reflexivity. Qed.
