(* C15 -- Solver options change performance and search order only, never validity.  Statements only. *)
From Coq Require Import ZArith List Bool.
From PS.model Require Import Smt Enc Ind Prog.
From PS.spec Require Import Spec.
From PS.proofs Require Import Base C15_proof Examples3.
Import ListNotations.
Open Scope Z_scope.

(* solver_setup c st is the model of SchedulingSolver.initialize() + create_objective() under configuration c:
   solver class, the assertions passed to add / assert_and_track, the minimize / maximize calls, self._objective. *)

(* parallel mode, random initial values, verbosity, debug and the SMT logic have no influence on the assertion
   set, the optimisation directives or the objective: only the optimiser and its priority mode have, *)
Theorem C15_options_do_not_change_assertions : forall c1 c2 st,
  cf_optimizer c1 = cf_optimizer c2 -> cf_priority c1 = cf_priority c2 ->
  su_asserts (solver_setup c1 st) = su_asserts (solver_setup c2 st)
  /\ su_directives (solver_setup c1 st) = su_directives (solver_setup c2 st)
  /\ su_objective (solver_setup c1 st) = su_objective (solver_setup c2 st).
Proof. exact options_do_not_change_assertions. Qed.
Print Assumptions C15_options_do_not_change_assertions.

(* and those two only add the definition of two fresh variables (the equivalent weighted objective):
   any schedule admitted under any configuration is valid for the problem, *)
Theorem C15_any_configuration_is_valid : forall c st e,
  sat e (su_asserts (solver_setup c st)) -> sat e (initialize st).
Proof. exact any_configuration_is_valid. Qed.
Print Assumptions C15_any_configuration_is_valid.

(* every valid schedule is admitted under every configuration (same values for every variable but the two
   fresh ones), *)
Theorem C15_configuration_is_conservative : forall c st e,
  equiv_fresh st -> sat e (initialize st) ->
  exists e', (forall x, x <> VEquivObj -> x <> VEquivInd -> iv e' x = iv e x)
             /\ bv e' = bv e /\ av e' = av e /\ fv e' = fv e
             /\ sat e' (su_asserts (solver_setup c st)).
Proof. exact configuration_is_conservative. Qed.
Print Assumptions C15_configuration_is_conservative.

(* so two configurations that both give a definite answer agree on feasibility (z3's contract: a sat answer
   comes with a model, an unsat answer is truthful -- hypotheses, not axioms), *)
Theorem C15_definite_answers_agree : forall c1 c2 st e1,
  equiv_fresh st ->
  sat e1 (su_asserts (solver_setup c1 st)) ->
  (forall e2, ~ sat e2 (su_asserts (solver_setup c2 st))) -> False.
Proof. exact definite_answers_agree. Qed.
Print Assumptions C15_definite_answers_agree.

(* and on the set of values an objective can take, hence on its optimum. *)
Theorem C15_objective_values_agree : forall c1 c2 st o v,
  equiv_fresh st -> In o (objectives st) ->
  (exists e, sat e (su_asserts (solver_setup c1 st)) /\ teval e (o_target o) = v) ->
  (exists e, sat e (su_asserts (solver_setup c2 st)) /\ teval e (o_target o) = v).
Proof. exact achievable_objective_values_agree. Qed.
Print Assumptions C15_objective_values_agree.

(* the SMT logic only selects the solver class, and a solver built for a logic is used only when the logic covers the
   encoding: when the problem has a non-concurrent buffer (its level is an array) the logic has arrays *)
Theorem C15_logic_covers_encoding : forall c st n,
  su_kind (solver_setup c st) = SkSolverFor n ->
  exists l, cf_logic c = Some l /\ lg_id l = n /\
            ((exists b, In b (x_bufs (ps_ext st)) /\ b_conc b = false) -> lg_arrays l = true).
Proof. intros c st n H. destruct (logic_covers_encoding c st n H) as (l & H1 & H2 & H3). exists l. repeat split; auto.
  intros Hb. apply H3. now apply needs_arrays_iff. Qed.
Print Assumptions C15_logic_covers_encoding.

(* the freshness side condition (no user expression mentions the two reserved variables) is decidable and holds
   in the example state *)
Theorem C15_hypotheses_satisfiable : exists st, reaches ex3_prog st /\ equiv_fresh st
  /\ sat ex3_env (su_asserts (solver_setup default_cfg st)) /\ List.length (x_objs (ps_ext st)) = 4%nat.
Proof.
  destruct ex3_sat as (st & Hr & Hs & _ & _ & Ho & _). exists st. split; [exact Hr|]. split; [|split; assumption].
  apply equiv_freshb_sound. unfold reaches in Hr. vm_compute in Hr. injection Hr as <-. vm_compute. reflexivity.
Qed.
Print Assumptions C15_hypotheses_satisfiable.
