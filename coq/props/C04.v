(* C04 -- Every declared resource constraint holds in every returned schedule.  Statements only. *)
From Coq Require Import ZArith List Bool.
From Coq Require String.
From PS.model Require Import Smt Enc Ind Prog.
From PS.spec Require Import Spec.
From PS.proofs Require Import Base SortNoDup Cons_proof C04_periodic C04_distance Res_proof Wf_proof C06_proof Examples Examples4 Refuted.
Import ListNotations.
Open Scope Z_scope.

(* PARTIAL.  Proved for every mandatory, non-operand resource constraint, over the busy intervals the
   resource had when the constraint was created: ResourceUnavailable (no overlap with any window),
   WorkLoad (sum over busy intervals of the overlap with each window = / <= / >= bound, windows
   with lo <= hi), ResourceInterrupted (tasks that are not of variable duration never overlap an interruption; a task of
   variable duration neither starts nor ends inside one and lasts at least its minimum / at most its maximum duration plus
   the length of the interruptions it overlaps), ResourcePeriodicallyInterrupted on tasks that are not of variable duration,
   ResourcePeriodicallyUnavailable (windows 0 <= lo < hi <= period; the part of the busy interval inside the active
   range [start, end) meets no repetition of the window -- C04_periodic_pointwise below gives the instant-by-instant
   reading), ResourceNonDelay and ResourceTasksDistance (for two consecutive assigned busy intervals of the resource,
   when every busy interval is parked or assigned over a non-empty span and they are pairwise disjoint -- what C02 gives
   on a worker -- the gap is 0, resp. compares with the distance as the mode says, inside the listed intervals if any),
   SameWorkers, DistinctWorkers.
   Swept only (spec_C04_swept; refuted): busy intervals added after the constraint was created (known finding F07).
   Unspecified: variable-duration tasks under
   ResourcePeriodicallyInterrupted. *)
Theorem C04_resource_constraints_partial : forall (st : pstate) (e : env),
  sat e (initialize st) -> forall k f, In (k, f) (spec_C04 st) -> feval e f = true.
Proof. exact C04_sound. Qed.
Print Assumptions C04_resource_constraints_partial.
(* what the endpoint formula of an unavailability window says instant by instant *)
Theorem C04_unavailable_instants : forall bs be lo hi,
  ((hi <= bs \/ be <= lo) -> forall tau, ~ (bs <= tau < be /\ lo <= tau < hi))
  /\ (bs < be -> lo < hi -> (forall tau, ~ (bs <= tau < be /\ lo <= tau < hi)) -> hi <= bs \/ be <= lo).
Proof. exact unavailable_instants. Qed.
Print Assumptions C04_unavailable_instants.
(* the workload clause sums max 0 (min end hi - max start lo) *)
Theorem C04_overlap_term : forall e s t lo hi,
  teval e (t_overlap s t lo hi) = Z.max 0 (Z.min (teval e t) hi - Z.max (teval e s) lo).
Proof. exact overlap_eval. Qed.
Print Assumptions C04_overlap_term.
(* the closed form used by the periodic clauses says, instant by instant: no instant of the busy interval clipped to
   the active range lies in a repetition offset + k * period + [lo, hi) of the window *)
Theorem C04_periodic_pointwise : forall e bs be lo hi P start off end_, 0 < P -> 0 <= lo -> lo < hi -> hi <= P ->
  feval e (per_free bs be lo hi P start off end_) = true <->
  (forall tau, Z.max (teval e bs) start <= tau < clipped_end (teval e be) end_ -> ~ in_window lo hi P off tau).
Proof. exact per_free_pointwise. Qed.
Print Assumptions C04_periodic_pointwise.
(* consecutive assigned busy intervals sit at consecutive ranks of the sorted starts and sorted ends *)
Theorem C04_consecutive_in_sorted : forall (P : list (Z * Z)) A B pa pb,
  Permutation.Permutation A (map fst P) -> Sorted.StronglySorted Z.lt A ->
  Permutation.Permutation B (map snd P) -> Sorted.StronglySorted Z.lt B ->
  (forall p, In p P -> parked p \/ assigned p) ->
  (forall p q, In p P -> In q P -> assigned p -> assigned q -> fst p <> fst q -> snd p <= fst q \/ snd q <= fst p) ->
  In pa P -> In pb P -> assigned pa -> fst pa < fst pb ->
  (forall pc, In pc P -> ~ (0 <= fst pc /\ fst pa < fst pc /\ fst pc < fst pb)) ->
  exists i, (S i < List.length A)%nat /\ nth (S i) A 0 = fst pb /\ nth i B 0 = snd pa.
Proof. exact consecutive_in_sorted. Qed.
Print Assumptions C04_consecutive_in_sorted.
Theorem C04_premises_satisfiable : exists st, reaches ex4_prog st /\ sat ex4_env (initialize st)
  /\ List.length (spec_C03 st ++ spec_C04 st) = 31%nat /\ ex4_live st = 18%nat.
Proof. exact ex4_sat. Qed.
Print Assumptions C04_premises_satisfiable.
Theorem C04_hypotheses_satisfiable : exists st, reaches ex2_prog st /\ sat ex2_env (initialize st)
  /\ List.length (ps_cons st) = 18%nat /\ List.length (spec_all st) = 86%nat.
Proof. exact ex2_sat. Qed.
Print Assumptions C04_hypotheses_satisfiable.

(* ---- REFUTED on the pinned code (open known findings): the swept clauses below are NOT consequences of the assertion set.
   Each theorem exhibits a reachable problem state, a valuation the assertion set admits, and a clause of the swept list that is
   false under it -- all three evaluated by the kernel.  The same program and schedule, replayed on /repo, is the finding. ---- *)
(* F07u: ResourceUnavailable does not constrain a task assigned to the resource after the constraint was created *)
Theorem C04_unavailable_late_refuted : exists st, reaches f07u_prog st /\ sat f07u_env (initialize st) /\
  exists k f, In (k, f) (spec_C04_swept st) /\ feval f07u_env f = false.
Proof. exact F07u_refuted_any. Qed.
Print Assumptions C04_unavailable_late_refuted.
(* F07w: WorkLoad does not count a task assigned to the resource after the constraint was created *)
Theorem C04_workload_late_refuted : exists st, reaches f07w_prog st /\ sat f07w_env (initialize st) /\
  exists k f, In (k, f) (spec_C04_swept st) /\ feval f07w_env f = false.
Proof. exact F07w_refuted_any. Qed.
Print Assumptions C04_workload_late_refuted.
(* F07i: ResourceInterrupted does not constrain a task assigned to the resource after the constraint was created *)
Theorem C04_interrupted_late_refuted : exists st, reaches f07i_prog st /\ sat f07i_env (initialize st) /\
  exists k f, In (k, f) (spec_C04_swept st) /\ feval f07i_env f = false.
Proof. exact F07i_refuted_any. Qed.
Print Assumptions C04_interrupted_late_refuted.
