(* C04 -- Every declared resource constraint holds in every returned schedule.  Statements only. *)
From Coq Require Import ZArith List Bool.
From Coq Require String.
From PS.model Require Import Smt Enc Ind Prog.
From PS.spec Require Import Spec.
From PS.proofs Require Import Base Cons_proof Res_proof Wf_proof C06_proof Examples.
Import ListNotations.
Open Scope Z_scope.

(* PARTIAL.  Proved for every mandatory, non-operand resource constraint, over the busy intervals the
   resource had when the constraint was created: ResourceUnavailable (no overlap with any window),
   WorkLoad (sum over busy intervals of the overlap with each window = / <= / >= bound, windows
   with lo <= hi), ResourceInterrupted on tasks that are not of variable duration, SameWorkers,
   DistinctWorkers.  Swept only (spec_C04_swept; refuted or proof pending): busy intervals added
   after the constraint (known finding F07), the variable-duration clauses of ResourceInterrupted,
   the periodic classes (F08, F36), ResourceTasksDistance / ResourceNonDelay. *)
Theorem C04_resource_constraints_partial : forall (st : pstate) (e : env),
  sat e (initialize st) -> forall k f, In (k, f) (spec_C04 st) -> feval e f = true.
Proof. exact C04_sound. Qed.
Print Assumptions C04_resource_constraints_partial.
(* what the endpoint formula of an unavailability window says instant by instant *)
Theorem C04_unavailable_instants : forall bs be lo hi,
  ((hi <= bs \/ be <= lo) -> forall tau, ~ (bs <= tau < be /\ lo <= tau < hi))
  /\ (bs < be -> lo < hi -> (forall tau, ~ (bs <= tau < be /\ lo <= tau < hi)) -> hi <= bs \/ be <= lo).
Proof. exact unavailable_instants. Qed.
Print Assumptions C04_unavailable_instants.
(* the workload clause sums max 0 (min end hi - max start lo) *)
Theorem C04_overlap_term : forall e s t lo hi,
  teval e (t_overlap s t lo hi) = Z.max 0 (Z.min (teval e t) hi - Z.max (teval e s) lo).
Proof. exact overlap_eval. Qed.
Print Assumptions C04_overlap_term.
Theorem C04_hypotheses_satisfiable : exists st, reaches ex2_prog st /\ sat ex2_env (initialize st)
  /\ List.length (ps_cons st) = 18%nat /\ List.length (spec_all st) = 86%nat.
Proof. exact ex2_sat. Qed.
Print Assumptions C04_hypotheses_satisfiable.
