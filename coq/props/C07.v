(* C07 -- Optimisation returns a best schedule; early stops still return valid ones.  Statements only.
   z3 is an arbitrary oracle meeting the contract below (hypotheses of the theorems, not axioms);
   wall-clock stops are an arbitrary stream stop_now; every interruption point max_iter = 0,1,2,..
   is covered by the quantification over max_iter. *)
From Coq Require Import ZArith List Bool.
From PS.model Require Import SolverSM.
From PS.proofs Require Import Solver_proof.
Import ListNotations.
Open Scope Z_scope.

Theorem C07_incremental_optimiser :
  forall (A M : Type) (sat : M -> A -> Prop) (oracle : nat -> list A -> @answer M),
  (forall k l m, oracle k l = Sat m -> Forall (sat m) l) ->
  (forall k l, oracle k l = Unsat -> forall m, ~ Forall (sat m) l) ->
  forall (d : dir) (bound : option Z) (value : M -> Z) (better_than : Z -> A),
  (forall m z, sat m (better_than z) <-> improves d (value m) z) ->
  forall (stop_now : nat -> bool) (max_iter : option nat) (perm : list A) fuel k r st k' pushed' evs',
  opt_loop oracle (Some (d, bound)) value better_than stop_now max_iter fuel 0%nat k perm None 0%nat [] = (r, st, k', pushed', evs') ->
    (* every exit (max_iter, time, unknown, bound, completion): the returned schedule is valid and no
       worse than any schedule the optimiser had found before *)
    (forall m, r = Some m -> Forall (sat m) perm /\ forall h, In h (sat_models evs') -> noworse d (value m) (value h)) /\
    (* allowed to finish: best value achievable by any valid schedule *)
    (st = Completed -> exists m, r = Some m /\ forall m', Forall (sat m') perm -> noworse d (value m) (value m')) /\
    (* "no solution" only when none exists *)
    (st = NoSolution -> r = None /\ forall m', ~ Forall (sat m') perm) /\
    (st = BoundStop -> exists m b, r = Some m /\ bound = Some b /\ value m = b) /\
    (* every pushed bound is popped again *)
    pushed' = pushes evs'.
Proof. intros A M sat oracle Hs Hc d bound value better Hb stop mi perm. exact (opt_loop_correct sat oracle Hs Hc d bound value better Hb stop mi perm). Qed.
Print Assumptions C07_incremental_optimiser.

(* a stop on the bound declared by the indicator is optimal exactly when that bound is a true bound *)
Theorem C07_bound_stop :
  forall (A M : Type) (sat : M -> A -> Prop) (oracle : nat -> list A -> @answer M),
  (forall k l m, oracle k l = Sat m -> Forall (sat m) l) ->
  (forall k l, oracle k l = Unsat -> forall m, ~ Forall (sat m) l) ->
  forall (d : dir) (bound : option Z) (value : M -> Z) (better_than : Z -> A),
  (forall m z, sat m (better_than z) <-> improves d (value m) z) ->
  forall (stop_now : nat -> bool) (max_iter : option nat) (perm : list A) fuel k r st k' pushed' evs' b,
  opt_loop oracle (Some (d, bound)) value better_than stop_now max_iter fuel 0%nat k perm None 0%nat [] = (r, st, k', pushed', evs') ->
  st = BoundStop -> bound = Some b ->
  (forall m', Forall (sat m') perm -> noworse d b (value m')) ->
  exists m, r = Some m /\ forall m', Forall (sat m') perm -> noworse d (value m) (value m').
Proof. intros A M sat oracle Hs Hc d bound value better Hb stop mi perm. exact (bound_stop_optimal sat oracle Hs Hc d bound value better Hb stop mi perm). Qed.
Print Assumptions C07_bound_stop.
