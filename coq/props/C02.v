(* C02 -- Resource capacity, assignment, selection and work amount.  Statements only. *)
From Coq Require Import ZArith List Bool.
From Coq Require String.
From PS.model Require Import Smt Enc Ind Prog.
From PS.spec Require Import Spec.
From PS.proofs Require Import Base Cons_proof Res_proof Wf_proof C06_proof Examples.
Import ListNotations.
Open Scope Z_scope.

(* For every state reached by a program and every admitted valuation: static spans
   (start + delay_in, end - early_out), dynamic spans (start <= bs <= be <= end), selections
   (count by kind over the listed workers only; a selected worker is busy [start, end]; an
   unselected one sits on a zero-length point before time 0), pairwise disjoint busy intervals
   on every worker (cumulative units included), work amounts.
   PARTIAL: the cumulative capacity clause (at most size tasks at any instant, spec_C02_capacity)
   is swept on every run; its proof (pigeonhole over the unit workers) is pending. *)
Theorem C02_resources_partial : forall ops st e, reaches ops st -> sat e (initialize st) ->
  forall k f, In (k, f) (spec_C02 st) -> feval e f = true.
Proof. intros ops st e Hr. apply C02_sound. exact (proj1 (reachable_wf ops st Hr)). Qed.
Print Assumptions C02_resources_partial.
Theorem C02_exclusive_instants : forall e1 s1 e2 s2,
  (e1 <= s2 \/ e2 <= s1) -> forall tau, ~ (s1 <= tau < e1 /\ s2 <= tau < e2).
Proof. exact exclusive_instants. Qed.
Print Assumptions C02_exclusive_instants.
Theorem C02_hypotheses_satisfiable : exists st, reaches ex2_prog st /\ sat ex2_env (initialize st)
  /\ List.length (ps_cons st) = 18%nat /\ List.length (spec_all st) = 86%nat.
Proof. exact ex2_sat. Qed.
Print Assumptions C02_hypotheses_satisfiable.
