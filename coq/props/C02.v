(* C02 -- Resource capacity, assignment, selection and work amount.  Statements only. *)
From Coq Require Import ZArith List Bool.
From Coq Require String.
From PS.model Require Import Smt Enc Ind Prog.
From PS.spec Require Import Spec.
From PS.proofs Require Import Base Cons_proof Res_proof Wf_proof C06_proof Reach_proof C11_views C02_capacity C02_reach Examples.
Import ListNotations.
Open Scope Z_scope.

(* For every state reached by a program and every admitted valuation: static spans
   (start + delay_in, end - early_out), dynamic spans (start <= bs <= be <= end), selections
   (count by kind over the listed workers only; a selected worker is busy [start, end]; an
   unselected one sits on a zero-length point before time 0), pairwise disjoint busy intervals
   on every worker (cumulative units included), work amounts.
   The theorem is named _partial because the cumulative capacity clause is the separate theorem below. *)
Theorem C02_resources_partial : forall ops st e, reaches ops st -> sat e (initialize st) ->
  forall k f, In (k, f) (spec_C02 st) -> feval e f = true.
Proof. intros ops st e Hr. apply C02_sound. exact (proj1 (reachable_wf ops st Hr)). Qed.
Print Assumptions C02_resources_partial.
(* A cumulative worker of size n is busy with at most n tasks at any instant: at the start of every (acting, non-empty)
   use, the number of acting uses whose span contains that instant is at most the size.  Pigeonhole over the unit
   workers: every use selects at least one unit, a selected unit is busy over the whole span of the task, the busy
   intervals of one unit are pairwise disjoint.  cumul_ok is a decidable structural hypothesis on the state (every use
   of the cumulative worker carries the automatic selection over exactly its units with "at least 1", registered in the
   busy dictionary of each unit, and the units are workers of the problem); the check evaluates it on every sampled
   program (it holds whenever no user-level requirement names a unit worker directly) and on the example below. *)
Theorem C02_cumulative_capacity : forall ops st e, reaches ops st -> cumul_ok st = true -> sat e (initialize st) ->
  forall k f, In (k, f) (spec_C02_capacity st) -> feval e f = true.
Proof.
  intros ops st e Hr Hok Hs. apply C02_capacity_sound; auto. exact (proj1 (reachable_inv ops st Hr)).
Qed.
Print Assumptions C02_cumulative_capacity.
Theorem C02_capacity_hypothesis_satisfiable : exists st, reaches ex2_prog st /\ cumul_ok st = true
  /\ List.length (spec_C02_capacity st) = 2%nat.
Proof. unfold reaches. vm_compute run. eexists. split; [reflexivity|]. split; vm_compute; reflexivity. Qed.
Print Assumptions C02_capacity_hypothesis_satisfiable.
(* The structural hypothesis holds in every reachable state in which no requirement names a unit worker directly
   (invariants over the construction steps: an automatic selection lists exactly the units of a cumulative worker with
   "at least one"; listed resources are required resources; cumulative identifiers are distinct; units are workers; and
   the busy-flag link of C11_views).  So the capacity statement needs no hypothesis beyond that guard. *)
Theorem C02_cumul_ok_reachable : forall ops st, reaches ops st -> no_direct_unit st -> cumul_ok st = true.
Proof. exact reachable_cumul_ok. Qed.
Print Assumptions C02_cumul_ok_reachable.
Theorem C02_cumulative_capacity_reachable : forall ops st e, reaches ops st -> no_direct_unit st -> sat e (initialize st) ->
  forall k f, In (k, f) (spec_C02_capacity st) -> feval e f = true.
Proof.
  intros ops st e Hr Hg Hs. apply C02_capacity_sound; auto.
  - exact (reachable_cumul_ok ops st Hr Hg).
  - exact (proj1 (reachable_inv ops st Hr)).
Qed.
Print Assumptions C02_cumulative_capacity_reachable.
Theorem C02_guard_satisfiable : exists st, reaches ex2_prog st /\ no_direct_unit st
  /\ List.length (spec_C02_capacity st) = 2%nat.
Proof. unfold reaches. vm_compute run. eexists. split; [reflexivity|]. split; [apply no_direct_unitb_ok|]; vm_compute; reflexivity. Qed.
Print Assumptions C02_guard_satisfiable.
Theorem C02_exclusive_instants : forall e1 s1 e2 s2,
  (e1 <= s2 \/ e2 <= s1) -> forall tau, ~ (s1 <= tau < e1 /\ s2 <= tau < e2).
Proof. exact exclusive_instants. Qed.
Print Assumptions C02_exclusive_instants.
Theorem C02_hypotheses_satisfiable : exists st, reaches ex2_prog st /\ sat ex2_env (initialize st)
  /\ List.length (ps_cons st) = 18%nat /\ List.length (spec_all st) = 86%nat.
Proof. exact ex2_sat. Qed.
Print Assumptions C02_hypotheses_satisfiable.
