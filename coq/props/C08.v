(* C08 -- Reported indicator values equal their definition on the reported schedule.  Statements only. *)
From Coq Require Import ZArith List Bool.
From Coq Require String.
From PS.model Require Import Smt Enc Ind Prog.
From PS.spec Require Import Spec.
From PS.proofs Require Import Base C08_proof Reach_proof C08_reach Examples3.
Import ListNotations.
Open Scope Z_scope.

(* The value reported for indicator i is the value of the variable VInd i in the model the solver returns
   (build_solution, tied by the correspondence O5).  For EVERY problem state and EVERY valuation admitted by
   the assertion set, that value equals the documented definition evaluated on the same valuation:
   utilisation = floor(100 * busy time / horizon)  (stated without division: H*I <= 100*busy < H*(I+1)),
   number of tasks assigned, total cost = accumulated cost function over busy time (one rounding of the
   half-units of the trapezoid rule: 2I <= 2*const + area2 < 2I + 2), tardiness, earliness, number of tardy
   tasks, maximum lateness (bound + attained), buffer level extrema, minimum / greatest start, weighted start
   and completion times, flow time, user expressions; declared indicator targets and bounds hold.
   PARTIAL: idle time, flow time of a single resource, and maximum lateness / tardy count over lists that
   contain optional tasks are in spec_C08_swept (swept against the real constraint system on every run;
   known findings F34, F38 are reported from there). *)
Theorem C08_indicators : forall (st : pstate) (e : env),
  sat e (initialize st) ->
  forall k f, In (k, f) (spec_C08 st) -> feval e f = true.
Proof. exact C08_sound. Qed.
Print Assumptions C08_indicators.

(* the same under every solver configuration *)
Theorem C08_indicators_any_configuration : forall (c : solvercfg) (st : pstate) (e : env),
  sat e (su_asserts (solver_setup c st)) ->
  forall k f, In (k, f) (spec_C08 st) -> feval e f = true.
Proof. intros c st e H. apply C08_sound. exact (sat_setup c e st H). Qed.
Print Assumptions C08_indicators_any_configuration.

(* The count of tardy tasks when some of the tasks are optional: in every reachable state, for every admitted valuation, the
   indicator counts exactly the scheduled tasks that end after their (non-negative) due date -- an unscheduled task sits at a
   negative date and is not counted.  (The tasks an indicator looks at are tasks of the problem: reachable_known.) *)
Theorem C08_nb_tardy_with_optional_tasks : forall ops st e r ts,
  reaches ops st -> sat e (initialize st) ->
  In r (x_inds (ps_ext st)) -> i_expr r = INbTardy ts ->
  (forall t, In t (tasks_of (i_all r) ts) -> 0 <= due_of t) ->
  feval e (FEq (TV (VInd (i_id r)))
               (TAdd (map (fun t => when_t (FAnd [act t; FLt (TC (due_of t)) (E_ t)]) (TC 1)) (tasks_of (i_all r) ts)))) = true.
Proof. exact nb_tardy_optional_sound. Qed.
Print Assumptions C08_nb_tardy_with_optional_tasks.
Theorem C08_hypotheses_satisfiable : exists st, reaches ex3_prog st /\ sat ex3_env (su_asserts (solver_setup default_cfg st))
  /\ List.length (x_inds (ps_ext st)) = 14%nat /\ List.length (x_bufs (ps_ext st)) = 2%nat
  /\ List.length (x_objs (ps_ext st)) = 4%nat /\ List.length (spec_C08 st) = 19%nat.
Proof. exact ex3_sat. Qed.
Print Assumptions C08_hypotheses_satisfiable.
