(* C08 -- Reported indicator values equal their definition on the reported schedule.  Statements only. *)
From Coq Require Import ZArith List Bool.
From Coq Require String.
From PS.model Require Import Smt Enc Ind Prog.
From PS.spec Require Import Spec.
From Coq Require Import Permutation Sorted.
From PS.proofs Require Import Base C08_proof Reach_proof C08_reach SortNoDup IdleSum C04_distance C08_idle Examples3 Refuted.
Import ListNotations.
Open Scope Z_scope.

(* The value reported for indicator i is the value of the variable VInd i in the model the solver returns
   (build_solution, tied by the correspondence O5).  For EVERY problem state and EVERY valuation admitted by
   the assertion set, that value equals the documented definition evaluated on the same valuation:
   utilisation = floor(100 * busy time / horizon)  (stated without division: H*I <= 100*busy < H*(I+1)),
   number of tasks assigned, total cost = accumulated cost function over busy time (one rounding of the
   half-units of the trapezoid rule: 2I <= 2*const + area2 < 2I + 2), tardiness, earliness, number of tardy
   tasks, maximum lateness (bound + attained), buffer level extrema, minimum / greatest start, weighted start
   and completion times, flow time, user expressions; declared indicator targets and bounds hold.
   Idle time is C08_idle_time below (under the shape C02 gives the busy intervals).
   PARTIAL: flow time of a single resource, and maximum lateness over lists that
   contain optional tasks are in spec_C08_swept (swept against the real constraint system on every run;
   known findings F34, F38 are reported from there). *)
Theorem C08_indicators : forall (st : pstate) (e : env),
  sat e (initialize st) ->
  forall k f, In (k, f) (spec_C08 st) -> feval e f = true.
Proof. exact C08_sound. Qed.
Print Assumptions C08_indicators.

(* the same under every solver configuration *)
Theorem C08_indicators_any_configuration : forall (c : solvercfg) (st : pstate) (e : env),
  sat e (su_asserts (solver_setup c st)) ->
  forall k f, In (k, f) (spec_C08 st) -> feval e f = true.
Proof. intros c st e H. apply C08_sound. exact (sat_setup c e st H). Qed.
Print Assumptions C08_indicators_any_configuration.

(* The count of tardy tasks when some of the tasks are optional: in every reachable state, for every admitted valuation, the
   indicator counts exactly the scheduled tasks that end after their (non-negative) due date -- an unscheduled task sits at a
   negative date and is not counted.  (The tasks an indicator looks at are tasks of the problem: reachable_known.) *)
Theorem C08_nb_tardy_with_optional_tasks : forall ops st e r ts,
  reaches ops st -> sat e (initialize st) ->
  In r (x_inds (ps_ext st)) -> i_expr r = INbTardy ts ->
  (forall t, In t (tasks_of (i_all r) ts) -> 0 <= due_of t) ->
  feval e (FEq (TV (VInd (i_id r)))
               (TAdd (map (fun t => when_t (FAnd [act t; FLt (TC (due_of t)) (E_ t)]) (TC 1)) (tasks_of (i_all r) ts)))) = true.
Proof. exact nb_tardy_optional_sound. Qed.
Print Assumptions C08_nb_tardy_with_optional_tasks.
(* Idle time of a resource.  bspan e o x is the busy interval (start, end) of entry x of the resource under valuation e; gaps L is
   the sum of (start of the next - end of this one) along L.  Whenever the busy intervals of the resource are parked (both ends
   negative: not assigned) or assigned (non-negative start, positive length) and pairwise disjoint -- the shape C02 gives them on
   a worker -- the indicator equals the sum of the gaps between consecutive assigned intervals in time order: for EVERY list L
   that holds the assigned intervals sorted by start.  (The encoding sorts starts and ends separately; IdleSum.idle_value shows
   the two sorted copies pair up as the intervals do.) *)
Theorem C08_idle_time : forall st e r rc,
  sat e (initialize st) -> In r (x_inds (ps_ext st)) -> i_expr r = IIdle rc ->
  let o := own_w (rc_snap rc) in
  feval e (busy_shape o (rs_own (rc_snap rc))) = true ->
  feval e (busy_disjoint o (rs_own (rc_snap rc))) = true ->
  forall L, Permutation L (filter (fun p => 0 <=? fst p) (map (bspan e o) (rs_own (rc_snap rc)))) ->
            StronglySorted (fun p q => fst p < fst q) L ->
  iv e (VInd (i_id r)) = gaps L.
Proof. exact idle_time_sound. Qed.
Print Assumptions C08_idle_time.
Theorem C08_idle_time_example : exists st r rc L,
  reaches ex3_prog st /\ sat ex3_env (initialize st) /\ In r (x_inds (ps_ext st)) /\ i_expr r = IIdle rc
  /\ feval ex3_env (busy_shape (own_w (rc_snap rc)) (rs_own (rc_snap rc))) = true
  /\ feval ex3_env (busy_disjoint (own_w (rc_snap rc)) (rs_own (rc_snap rc))) = true
  /\ Permutation L (filter (fun p => 0 <=? fst p) (map (bspan ex3_env (own_w (rc_snap rc))) (rs_own (rc_snap rc))))
  /\ StronglySorted (fun p q => fst p < fst q) L /\ L = [(2, 5); (6, 7)] /\ gaps L = 1 /\ iv ex3_env (VInd (i_id r)) = 1.
Proof. exact idle_example. Qed.
Print Assumptions C08_idle_time_example.
Theorem C08_hypotheses_satisfiable : exists st, reaches ex3_prog st /\ sat ex3_env (su_asserts (solver_setup default_cfg st))
  /\ List.length (x_inds (ps_ext st)) = 14%nat /\ List.length (x_bufs (ps_ext st)) = 2%nat
  /\ List.length (x_objs (ps_ext st)) = 4%nat /\ List.length (spec_C08 st) = 19%nat.
Proof. exact ex3_sat. Qed.
Print Assumptions C08_hypotheses_satisfiable.

(* ---- REFUTED on the pinned code (open known findings): the swept clauses below are NOT consequences of the assertion set.
   Each theorem exhibits a reachable problem state, a valuation the assertion set admits, and a clause of the swept list that is
   false under it -- all three evaluated by the kernel.  The same program and schedule, replayed on /repo, is the finding. ---- *)
(* F34: the single-resource flow time indicator is not the span of the tasks of the resource inside the window *)
Theorem C08_flowtime_single_resource_refuted : exists st, reaches f34_prog st /\ sat f34_env (initialize st) /\
  exists k f, In (k, f) (spec_C08_swept st) /\ feval f34_env f = false.
Proof. exact F34_refuted_any. Qed.
Print Assumptions C08_flowtime_single_resource_refuted.
(* F38: IndicatorMaximumLateness takes the maximum over unscheduled optional tasks too *)
Theorem C08_max_lateness_optional_refuted : exists st, reaches f38_prog st /\ sat f38_env (initialize st) /\
  exists k f, In (k, f) (spec_C08_swept st) /\ feval f38_env f = false.
Proof. exact F38_refuted_any. Qed.
Print Assumptions C08_max_lateness_optional_refuted.
(* F18: IndicatorNumberTasksAssigned on a CumulativeWorker does not count the tasks that require it *)
Theorem C08_nb_tasks_cumulative_refuted : exists st, reaches f18_prog st /\ sat f18_env (initialize st) /\
  exists k f, In (k, f) (spec_C08_swept st) /\ feval f18_env f = false.
Proof. exact F18_refuted_any. Qed.
Print Assumptions C08_nb_tasks_cumulative_refuted.
(* F07n: IndicatorNumberTasksAssigned does not count a task assigned to the resource after the indicator was created *)
Theorem C08_nb_tasks_late_refuted : exists st, reaches f07n_prog st /\ sat f07n_env (initialize st) /\
  exists k f, In (k, f) (spec_C08_swept st) /\ feval f07n_env f = false.
Proof. exact F07n_refuted_any. Qed.
Print Assumptions C08_nb_tasks_late_refuted.
