
(** val negb : bool -> bool **)

let negb = function
| true -> false
| false -> true

type nat =
| O
| S of nat

(** val fst : ('a1 * 'a2) -> 'a1 **)

let fst = function
| (x, _) -> x

(** val snd : ('a1 * 'a2) -> 'a2 **)

let snd = function
| (_, y) -> y

(** val length : 'a1 list -> nat **)

let rec length = function
| [] -> O
| _ :: l' -> S (length l')

(** val app : 'a1 list -> 'a1 list -> 'a1 list **)

let rec app l m =
  match l with
  | [] -> m
  | a :: l1 -> a :: (app l1 m)

type comparison =
| Eq
| Lt
| Gt

(** val compOpp : comparison -> comparison **)

let compOpp = function
| Eq -> Eq
| Lt -> Gt
| Gt -> Lt

module Coq__1 = struct
 (** val add : nat -> nat -> nat **)
 let rec add n0 m =
   match n0 with
   | O -> m
   | S p -> S (add p m)
end
include Coq__1

(** val mul : nat -> nat -> nat **)

let rec mul n0 m =
  match n0 with
  | O -> O
  | S p -> add m (mul p m)

type positive =
| XI of positive
| XO of positive
| XH

type n =
| N0
| Npos of positive

type z =
| Z0
| Zpos of positive
| Zneg of positive

module Nat =
 struct
  (** val eqb : nat -> nat -> bool **)

  let rec eqb n0 m =
    match n0 with
    | O -> (match m with
            | O -> true
            | S _ -> false)
    | S n' -> (match m with
               | O -> false
               | S m' -> eqb n' m')
 end

module Pos =
 struct
  type mask =
  | IsNul
  | IsPos of positive
  | IsNeg
 end

module Coq_Pos =
 struct
  (** val succ : positive -> positive **)

  let rec succ = function
  | XI p -> XO (succ p)
  | XO p -> XI p
  | XH -> XO XH

  (** val add : positive -> positive -> positive **)

  let rec add x y =
    match x with
    | XI p ->
      (match y with
       | XI q -> XO (add_carry p q)
       | XO q -> XI (add p q)
       | XH -> XO (succ p))
    | XO p ->
      (match y with
       | XI q -> XI (add p q)
       | XO q -> XO (add p q)
       | XH -> XI p)
    | XH -> (match y with
             | XI q -> XO (succ q)
             | XO q -> XI q
             | XH -> XO XH)

  (** val add_carry : positive -> positive -> positive **)

  and add_carry x y =
    match x with
    | XI p ->
      (match y with
       | XI q -> XI (add_carry p q)
       | XO q -> XO (add_carry p q)
       | XH -> XI (succ p))
    | XO p ->
      (match y with
       | XI q -> XO (add_carry p q)
       | XO q -> XI (add p q)
       | XH -> XO (succ p))
    | XH ->
      (match y with
       | XI q -> XI (succ q)
       | XO q -> XO (succ q)
       | XH -> XI XH)

  (** val pred_double : positive -> positive **)

  let rec pred_double = function
  | XI p -> XI (XO p)
  | XO p -> XI (pred_double p)
  | XH -> XH

  type mask = Pos.mask =
  | IsNul
  | IsPos of positive
  | IsNeg

  (** val succ_double_mask : mask -> mask **)

  let succ_double_mask = function
  | IsNul -> IsPos XH
  | IsPos p -> IsPos (XI p)
  | IsNeg -> IsNeg

  (** val double_mask : mask -> mask **)

  let double_mask = function
  | IsPos p -> IsPos (XO p)
  | x0 -> x0

  (** val double_pred_mask : positive -> mask **)

  let double_pred_mask = function
  | XI p -> IsPos (XO (XO p))
  | XO p -> IsPos (XO (pred_double p))
  | XH -> IsNul

  (** val sub_mask : positive -> positive -> mask **)

  let rec sub_mask x y =
    match x with
    | XI p ->
      (match y with
       | XI q -> double_mask (sub_mask p q)
       | XO q -> succ_double_mask (sub_mask p q)
       | XH -> IsPos (XO p))
    | XO p ->
      (match y with
       | XI q -> succ_double_mask (sub_mask_carry p q)
       | XO q -> double_mask (sub_mask p q)
       | XH -> IsPos (pred_double p))
    | XH -> (match y with
             | XH -> IsNul
             | _ -> IsNeg)

  (** val sub_mask_carry : positive -> positive -> mask **)

  and sub_mask_carry x y =
    match x with
    | XI p ->
      (match y with
       | XI q -> succ_double_mask (sub_mask_carry p q)
       | XO q -> double_mask (sub_mask p q)
       | XH -> IsPos (pred_double p))
    | XO p ->
      (match y with
       | XI q -> double_mask (sub_mask_carry p q)
       | XO q -> succ_double_mask (sub_mask_carry p q)
       | XH -> double_pred_mask p)
    | XH -> IsNeg

  (** val mul : positive -> positive -> positive **)

  let rec mul x y =
    match x with
    | XI p -> add y (XO (mul p y))
    | XO p -> XO (mul p y)
    | XH -> y

  (** val size : positive -> positive **)

  let rec size = function
  | XI p0 -> succ (size p0)
  | XO p0 -> succ (size p0)
  | XH -> XH

  (** val compare_cont : comparison -> positive -> positive -> comparison **)

  let rec compare_cont r x y =
    match x with
    | XI p ->
      (match y with
       | XI q -> compare_cont r p q
       | XO q -> compare_cont Gt p q
       | XH -> Gt)
    | XO p ->
      (match y with
       | XI q -> compare_cont Lt p q
       | XO q -> compare_cont r p q
       | XH -> Gt)
    | XH -> (match y with
             | XH -> r
             | _ -> Lt)

  (** val compare : positive -> positive -> comparison **)

  let compare =
    compare_cont Eq

  (** val eqb : positive -> positive -> bool **)

  let rec eqb p q =
    match p with
    | XI p0 -> (match q with
                | XI q0 -> eqb p0 q0
                | _ -> false)
    | XO p0 -> (match q with
                | XO q0 -> eqb p0 q0
                | _ -> false)
    | XH -> (match q with
             | XH -> true
             | _ -> false)

  (** val iter_op : ('a1 -> 'a1 -> 'a1) -> positive -> 'a1 -> 'a1 **)

  let rec iter_op op0 p a =
    match p with
    | XI p0 -> op0 a (iter_op op0 p0 (op0 a a))
    | XO p0 -> iter_op op0 p0 (op0 a a)
    | XH -> a

  (** val to_nat : positive -> nat **)

  let to_nat x =
    iter_op Coq__1.add x (S O)

  (** val of_succ_nat : nat -> positive **)

  let rec of_succ_nat = function
  | O -> XH
  | S x -> succ (of_succ_nat x)
 end

module N =
 struct
  (** val succ_double : n -> n **)

  let succ_double = function
  | N0 -> Npos XH
  | Npos p -> Npos (XI p)

  (** val double : n -> n **)

  let double = function
  | N0 -> N0
  | Npos p -> Npos (XO p)

  (** val add : n -> n -> n **)

  let add n0 m =
    match n0 with
    | N0 -> m
    | Npos p -> (match m with
                 | N0 -> n0
                 | Npos q -> Npos (Coq_Pos.add p q))

  (** val sub : n -> n -> n **)

  let sub n0 m =
    match n0 with
    | N0 -> N0
    | Npos n' ->
      (match m with
       | N0 -> n0
       | Npos m' ->
         (match Coq_Pos.sub_mask n' m' with
          | Coq_Pos.IsPos p -> Npos p
          | _ -> N0))

  (** val compare : n -> n -> comparison **)

  let compare n0 m =
    match n0 with
    | N0 -> (match m with
             | N0 -> Eq
             | Npos _ -> Lt)
    | Npos n' -> (match m with
                  | N0 -> Gt
                  | Npos m' -> Coq_Pos.compare n' m')

  (** val leb : n -> n -> bool **)

  let leb x y =
    match compare x y with
    | Gt -> false
    | _ -> true

  (** val log2 : n -> n **)

  let log2 = function
  | N0 -> N0
  | Npos p0 ->
    (match p0 with
     | XI p -> Npos (Coq_Pos.size p)
     | XO p -> Npos (Coq_Pos.size p)
     | XH -> N0)

  (** val pos_div_eucl : positive -> n -> n * n **)

  let rec pos_div_eucl a b =
    match a with
    | XI a' ->
      let (q, r) = pos_div_eucl a' b in
      let r' = succ_double r in
      if leb b r' then ((succ_double q), (sub r' b)) else ((double q), r')
    | XO a' ->
      let (q, r) = pos_div_eucl a' b in
      let r' = double r in
      if leb b r' then ((succ_double q), (sub r' b)) else ((double q), r')
    | XH ->
      (match b with
       | N0 -> (N0, (Npos XH))
       | Npos p -> (match p with
                    | XH -> ((Npos XH), N0)
                    | _ -> (N0, (Npos XH))))

  (** val div_eucl : n -> n -> n * n **)

  let div_eucl a b =
    match a with
    | N0 -> (N0, N0)
    | Npos na -> (match b with
                  | N0 -> (N0, a)
                  | Npos _ -> pos_div_eucl na b)

  (** val div : n -> n -> n **)

  let div a b =
    fst (div_eucl a b)

  (** val modulo : n -> n -> n **)

  let modulo a b =
    snd (div_eucl a b)

  (** val to_nat : n -> nat **)

  let to_nat = function
  | N0 -> O
  | Npos p -> Coq_Pos.to_nat p

  (** val of_nat : nat -> n **)

  let of_nat = function
  | O -> N0
  | S n' -> Npos (Coq_Pos.of_succ_nat n')
 end

(** val zero : char **)

let zero = '\000'

(** val one : char **)

let one = '\001'

(** val shift : bool -> char -> char **)

let shift = fun b c -> Char.chr (((Char.code c) lsl 1) land 255 + if b then 1 else 0)

(** val ascii_of_pos : positive -> char **)

let ascii_of_pos =
  let rec loop n0 p =
    match n0 with
    | O -> zero
    | S n' ->
      (match p with
       | XI p' -> shift true (loop n' p')
       | XO p' -> shift false (loop n' p')
       | XH -> one)
  in loop (S (S (S (S (S (S (S (S O))))))))

(** val ascii_of_N : n -> char **)

let ascii_of_N = function
| N0 -> zero
| Npos p -> ascii_of_pos p

(** val in_dec : ('a1 -> 'a1 -> bool) -> 'a1 -> 'a1 list -> bool **)

let rec in_dec h a = function
| [] -> false
| y :: l0 -> let s = h y a in if s then true else in_dec h a l0

(** val rev : 'a1 list -> 'a1 list **)

let rec rev = function
| [] -> []
| x :: l' -> app (rev l') (x :: [])

(** val map : ('a1 -> 'a2) -> 'a1 list -> 'a2 list **)

let rec map f = function
| [] -> []
| a :: t -> (f a) :: (map f t)

(** val flat_map : ('a1 -> 'a2 list) -> 'a1 list -> 'a2 list **)

let rec flat_map f = function
| [] -> []
| x :: t -> app (f x) (flat_map f t)

(** val fold_left : ('a1 -> 'a2 -> 'a1) -> 'a2 list -> 'a1 -> 'a1 **)

let rec fold_left f l a0 =
  match l with
  | [] -> a0
  | b :: t -> fold_left f t (f a0 b)

(** val fold_right : ('a2 -> 'a1 -> 'a1) -> 'a1 -> 'a2 list -> 'a1 **)

let rec fold_right f a0 = function
| [] -> a0
| b :: t -> f b (fold_right f a0 t)

(** val existsb : ('a1 -> bool) -> 'a1 list -> bool **)

let rec existsb f = function
| [] -> false
| a :: l0 -> (||) (f a) (existsb f l0)

(** val forallb : ('a1 -> bool) -> 'a1 list -> bool **)

let rec forallb f = function
| [] -> true
| a :: l0 -> (&&) (f a) (forallb f l0)

(** val filter : ('a1 -> bool) -> 'a1 list -> 'a1 list **)

let rec filter f = function
| [] -> []
| x :: l0 -> if f x then x :: (filter f l0) else filter f l0

(** val find : ('a1 -> bool) -> 'a1 list -> 'a1 option **)

let rec find f = function
| [] -> None
| x :: tl -> if f x then Some x else find f tl

(** val combine : 'a1 list -> 'a2 list -> ('a1 * 'a2) list **)

let rec combine l l' =
  match l with
  | [] -> []
  | x :: tl ->
    (match l' with
     | [] -> []
     | y :: tl' -> (x, y) :: (combine tl tl'))

(** val nodup : ('a1 -> 'a1 -> bool) -> 'a1 list -> 'a1 list **)

let rec nodup decA = function
| [] -> []
| x :: xs -> if in_dec decA x xs then nodup decA xs else x :: (nodup decA xs)

(** val seq : nat -> nat -> nat list **)

let rec seq start = function
| O -> []
| S len0 -> start :: (seq (S start) len0)

(** val repeat : 'a1 -> nat -> 'a1 list **)

let rec repeat x = function
| O -> []
| S k -> x :: (repeat x k)

module Z =
 struct
  (** val double : z -> z **)

  let double = function
  | Z0 -> Z0
  | Zpos p -> Zpos (XO p)
  | Zneg p -> Zneg (XO p)

  (** val succ_double : z -> z **)

  let succ_double = function
  | Z0 -> Zpos XH
  | Zpos p -> Zpos (XI p)
  | Zneg p -> Zneg (Coq_Pos.pred_double p)

  (** val pred_double : z -> z **)

  let pred_double = function
  | Z0 -> Zneg XH
  | Zpos p -> Zpos (Coq_Pos.pred_double p)
  | Zneg p -> Zneg (XI p)

  (** val pos_sub : positive -> positive -> z **)

  let rec pos_sub x y =
    match x with
    | XI p ->
      (match y with
       | XI q -> double (pos_sub p q)
       | XO q -> succ_double (pos_sub p q)
       | XH -> Zpos (XO p))
    | XO p ->
      (match y with
       | XI q -> pred_double (pos_sub p q)
       | XO q -> double (pos_sub p q)
       | XH -> Zpos (Coq_Pos.pred_double p))
    | XH ->
      (match y with
       | XI q -> Zneg (XO q)
       | XO q -> Zneg (Coq_Pos.pred_double q)
       | XH -> Z0)

  (** val add : z -> z -> z **)

  let add x y =
    match x with
    | Z0 -> y
    | Zpos x' ->
      (match y with
       | Z0 -> x
       | Zpos y' -> Zpos (Coq_Pos.add x' y')
       | Zneg y' -> pos_sub x' y')
    | Zneg x' ->
      (match y with
       | Z0 -> x
       | Zpos y' -> pos_sub y' x'
       | Zneg y' -> Zneg (Coq_Pos.add x' y'))

  (** val opp : z -> z **)

  let opp = function
  | Z0 -> Z0
  | Zpos x0 -> Zneg x0
  | Zneg x0 -> Zpos x0

  (** val sub : z -> z -> z **)

  let sub m n0 =
    add m (opp n0)

  (** val mul : z -> z -> z **)

  let mul x y =
    match x with
    | Z0 -> Z0
    | Zpos x' ->
      (match y with
       | Z0 -> Z0
       | Zpos y' -> Zpos (Coq_Pos.mul x' y')
       | Zneg y' -> Zneg (Coq_Pos.mul x' y'))
    | Zneg x' ->
      (match y with
       | Z0 -> Z0
       | Zpos y' -> Zneg (Coq_Pos.mul x' y')
       | Zneg y' -> Zpos (Coq_Pos.mul x' y'))

  (** val compare : z -> z -> comparison **)

  let compare x y =
    match x with
    | Z0 -> (match y with
             | Z0 -> Eq
             | Zpos _ -> Lt
             | Zneg _ -> Gt)
    | Zpos x' -> (match y with
                  | Zpos y' -> Coq_Pos.compare x' y'
                  | _ -> Gt)
    | Zneg x' ->
      (match y with
       | Zneg y' -> compOpp (Coq_Pos.compare x' y')
       | _ -> Lt)

  (** val leb : z -> z -> bool **)

  let leb x y =
    match compare x y with
    | Gt -> false
    | _ -> true

  (** val ltb : z -> z -> bool **)

  let ltb x y =
    match compare x y with
    | Lt -> true
    | _ -> false

  (** val gtb : z -> z -> bool **)

  let gtb x y =
    match compare x y with
    | Gt -> true
    | _ -> false

  (** val eqb : z -> z -> bool **)

  let eqb x y =
    match x with
    | Z0 -> (match y with
             | Z0 -> true
             | _ -> false)
    | Zpos p -> (match y with
                 | Zpos q -> Coq_Pos.eqb p q
                 | _ -> false)
    | Zneg p -> (match y with
                 | Zneg q -> Coq_Pos.eqb p q
                 | _ -> false)

  (** val to_nat : z -> nat **)

  let to_nat = function
  | Zpos p -> Coq_Pos.to_nat p
  | _ -> O

  (** val of_nat : nat -> z **)

  let of_nat = function
  | O -> Z0
  | S n1 -> Zpos (Coq_Pos.of_succ_nat n1)

  (** val pos_div_eucl : positive -> z -> z * z **)

  let rec pos_div_eucl a b =
    match a with
    | XI a' ->
      let (q, r) = pos_div_eucl a' b in
      let r' = add (mul (Zpos (XO XH)) r) (Zpos XH) in
      if ltb r' b
      then ((mul (Zpos (XO XH)) q), r')
      else ((add (mul (Zpos (XO XH)) q) (Zpos XH)), (sub r' b))
    | XO a' ->
      let (q, r) = pos_div_eucl a' b in
      let r' = mul (Zpos (XO XH)) r in
      if ltb r' b
      then ((mul (Zpos (XO XH)) q), r')
      else ((add (mul (Zpos (XO XH)) q) (Zpos XH)), (sub r' b))
    | XH -> if leb (Zpos (XO XH)) b then (Z0, (Zpos XH)) else ((Zpos XH), Z0)

  (** val div_eucl : z -> z -> z * z **)

  let div_eucl a b =
    match a with
    | Z0 -> (Z0, Z0)
    | Zpos a' ->
      (match b with
       | Z0 -> (Z0, a)
       | Zpos _ -> pos_div_eucl a' b
       | Zneg b' ->
         let (q, r) = pos_div_eucl a' (Zpos b') in
         (match r with
          | Z0 -> ((opp q), Z0)
          | _ -> ((opp (add q (Zpos XH))), (add b r))))
    | Zneg a' ->
      (match b with
       | Z0 -> (Z0, a)
       | Zpos _ ->
         let (q, r) = pos_div_eucl a' b in
         (match r with
          | Z0 -> ((opp q), Z0)
          | _ -> ((opp (add q (Zpos XH))), (sub b r)))
       | Zneg b' -> let (q, r) = pos_div_eucl a' (Zpos b') in (q, (opp r)))

  (** val div : z -> z -> z **)

  let div a b =
    let (q, _) = div_eucl a b in q

  (** val modulo : z -> z -> z **)

  let modulo a b =
    let (_, r) = div_eucl a b in r
 end

(** val append : char list -> char list -> char list **)

let rec append s1 s2 =
  match s1 with
  | [] -> s2
  | c::s1' -> c::(append s1' s2)

type wref =
| WPlain of nat
| WUnit of nat * nat

type sref =
| SUser of nat
| SAuto of nat

type rref =
| RW of wref
| RC of nat

type owner =
| OwCons of nat
| OwInd of nat
| OwBuf of nat
| OwObj of nat
| OwSolver

type ivar =
| VStart of nat
| VEnd of nat
| VDur of nat
| VBusyS of rref * nat * bool
| VBusyE of rref * nat * bool
| VHorizon
| VInd of nat
| VLevel0 of nat
| VLevel of nat * nat
| VChange of nat * nat
| VAux of owner * nat
| VUser of nat

type bvar =
| BSched of nat
| BSel of sref * rref
| BApplied of nat
| BAux of owner * nat
| BUser of nat

(** val internal_nat_beq : nat -> nat -> bool **)

let rec internal_nat_beq x y =
  match x with
  | O -> (match y with
          | O -> true
          | S _ -> false)
  | S x0 -> (match y with
             | O -> false
             | S x1 -> internal_nat_beq x0 x1)

(** val wref_beq : wref -> wref -> bool **)

let wref_beq x y =
  match x with
  | WPlain n0 ->
    (match y with
     | WPlain n1 -> internal_nat_beq n0 n1
     | WUnit (_, _) -> false)
  | WUnit (c, i) ->
    (match y with
     | WPlain _ -> false
     | WUnit (c0, i0) -> (&&) (internal_nat_beq c c0) (internal_nat_beq i i0))

(** val sref_beq : sref -> sref -> bool **)

let sref_beq x y =
  match x with
  | SUser n0 ->
    (match y with
     | SUser n1 -> internal_nat_beq n0 n1
     | SAuto _ -> false)
  | SAuto k ->
    (match y with
     | SUser _ -> false
     | SAuto k0 -> internal_nat_beq k k0)

(** val rref_beq : rref -> rref -> bool **)

let rref_beq x y =
  match x with
  | RW w -> (match y with
             | RW w0 -> wref_beq w w0
             | RC _ -> false)
  | RC c -> (match y with
             | RW _ -> false
             | RC c0 -> internal_nat_beq c c0)

(** val rref_eq_dec : rref -> rref -> bool **)

let rref_eq_dec x y =
  let b = rref_beq x y in if b then true else false

(** val owner_beq : owner -> owner -> bool **)

let owner_beq x y =
  match x with
  | OwCons c -> (match y with
                 | OwCons c0 -> internal_nat_beq c c0
                 | _ -> false)
  | OwInd i -> (match y with
                | OwInd i0 -> internal_nat_beq i i0
                | _ -> false)
  | OwBuf b -> (match y with
                | OwBuf b0 -> internal_nat_beq b b0
                | _ -> false)
  | OwObj o -> (match y with
                | OwObj o0 -> internal_nat_beq o o0
                | _ -> false)
  | OwSolver -> (match y with
                 | OwSolver -> true
                 | _ -> false)

(** val internal_bool_beq : bool -> bool -> bool **)

let internal_bool_beq x y =
  if x then y else if y then false else true

(** val ivar_beq : ivar -> ivar -> bool **)

let ivar_beq x y =
  match x with
  | VStart t -> (match y with
                 | VStart t0 -> internal_nat_beq t t0
                 | _ -> false)
  | VEnd t -> (match y with
               | VEnd t0 -> internal_nat_beq t t0
               | _ -> false)
  | VDur t -> (match y with
               | VDur t0 -> internal_nat_beq t t0
               | _ -> false)
  | VBusyS (r, t, maybe) ->
    (match y with
     | VBusyS (r0, t0, maybe0) ->
       (&&) (rref_beq r r0)
         ((&&) (internal_nat_beq t t0) (internal_bool_beq maybe maybe0))
     | _ -> false)
  | VBusyE (r, t, maybe) ->
    (match y with
     | VBusyE (r0, t0, maybe0) ->
       (&&) (rref_beq r r0)
         ((&&) (internal_nat_beq t t0) (internal_bool_beq maybe maybe0))
     | _ -> false)
  | VHorizon -> (match y with
                 | VHorizon -> true
                 | _ -> false)
  | VInd i -> (match y with
               | VInd i0 -> internal_nat_beq i i0
               | _ -> false)
  | VLevel0 b ->
    (match y with
     | VLevel0 b0 -> internal_nat_beq b b0
     | _ -> false)
  | VLevel (b, t) ->
    (match y with
     | VLevel (b0, t0) -> (&&) (internal_nat_beq b b0) (internal_nat_beq t t0)
     | _ -> false)
  | VChange (b, t) ->
    (match y with
     | VChange (b0, t0) ->
       (&&) (internal_nat_beq b b0) (internal_nat_beq t t0)
     | _ -> false)
  | VAux (o, k) ->
    (match y with
     | VAux (o0, k0) -> (&&) (owner_beq o o0) (internal_nat_beq k k0)
     | _ -> false)
  | VUser n0 -> (match y with
                 | VUser n1 -> internal_nat_beq n0 n1
                 | _ -> false)

(** val bvar_beq : bvar -> bvar -> bool **)

let bvar_beq x y =
  match x with
  | BSched t -> (match y with
                 | BSched t0 -> internal_nat_beq t t0
                 | _ -> false)
  | BSel (s, r) ->
    (match y with
     | BSel (s0, r0) -> (&&) (sref_beq s s0) (rref_beq r r0)
     | _ -> false)
  | BApplied c ->
    (match y with
     | BApplied c0 -> internal_nat_beq c c0
     | _ -> false)
  | BAux (o, k) ->
    (match y with
     | BAux (o0, k0) -> (&&) (owner_beq o o0) (internal_nat_beq k k0)
     | _ -> false)
  | BUser n0 -> (match y with
                 | BUser n1 -> internal_nat_beq n0 n1
                 | _ -> false)

type term =
| TC of z
| TV of ivar
| TAdd of term list
| TSub of term * term
| TMul of term * term
| TDiv of term * term
| TMod of term * term
| TIte of form * term * term
| TSel of nat * term
and form =
| FT
| FF
| FB of bvar
| FLe of term * term
| FLt of term * term
| FGe of term * term
| FGt of term * term
| FEq of term * term
| FNe of term * term
| FAnd of form list
| FOr of form list
| FNot of form
| FXor of form * form
| FImp of form * form
| FIte of form * form * form
| FIff of form * form
| FPbLe of form list * z
| FPbGe of form list * z
| FPbEq of form list * z
| FArrFix of nat * term * term

(** val tiv : term -> ivar list **)

let rec tiv = function
| TC _ -> []
| TV x -> x :: []
| TAdd l -> flat_map tiv l
| TSub (a, b) -> app (tiv a) (tiv b)
| TMul (a, b) -> app (tiv a) (tiv b)
| TDiv (a, b) -> app (tiv a) (tiv b)
| TMod (a, b) -> app (tiv a) (tiv b)
| TIte (c, a, b) -> app (fiv c) (app (tiv a) (tiv b))
| TSel (_, i) -> tiv i

(** val fiv : form -> ivar list **)

and fiv = function
| FLe (a, b) -> app (tiv a) (tiv b)
| FLt (a, b) -> app (tiv a) (tiv b)
| FGe (a, b) -> app (tiv a) (tiv b)
| FGt (a, b) -> app (tiv a) (tiv b)
| FEq (a, b) -> app (tiv a) (tiv b)
| FNe (a, b) -> app (tiv a) (tiv b)
| FAnd l -> flat_map fiv l
| FOr l -> flat_map fiv l
| FNot g -> fiv g
| FXor (a, b) -> app (fiv a) (fiv b)
| FImp (a, b) -> app (fiv a) (fiv b)
| FIte (c, a, b) -> app (fiv c) (app (fiv a) (fiv b))
| FIff (a, b) -> app (fiv a) (fiv b)
| FPbLe (l, _) -> flat_map fiv l
| FPbGe (l, _) -> flat_map fiv l
| FPbEq (l, _) -> flat_map fiv l
| FArrFix (_, i, v) -> app (tiv i) (tiv v)
| _ -> []

(** val tbv : term -> bvar list **)

let rec tbv = function
| TAdd l -> flat_map tbv l
| TSub (a, b) -> app (tbv a) (tbv b)
| TMul (a, b) -> app (tbv a) (tbv b)
| TDiv (a, b) -> app (tbv a) (tbv b)
| TMod (a, b) -> app (tbv a) (tbv b)
| TIte (c, a, b) -> app (fbv c) (app (tbv a) (tbv b))
| TSel (_, i) -> tbv i
| _ -> []

(** val fbv : form -> bvar list **)

and fbv = function
| FB b -> b :: []
| FLe (a, b) -> app (tbv a) (tbv b)
| FLt (a, b) -> app (tbv a) (tbv b)
| FGe (a, b) -> app (tbv a) (tbv b)
| FGt (a, b) -> app (tbv a) (tbv b)
| FEq (a, b) -> app (tbv a) (tbv b)
| FNe (a, b) -> app (tbv a) (tbv b)
| FAnd l -> flat_map fbv l
| FOr l -> flat_map fbv l
| FNot g -> fbv g
| FXor (a, b) -> app (fbv a) (fbv b)
| FImp (a, b) -> app (fbv a) (fbv b)
| FIte (c, a, b) -> app (fbv c) (app (fbv a) (fbv b))
| FIff (a, b) -> app (fbv a) (fbv b)
| FPbLe (l, _) -> flat_map fbv l
| FPbGe (l, _) -> flat_map fbv l
| FPbEq (l, _) -> flat_map fbv l
| FArrFix (_, i, v) -> app (tbv i) (tbv v)
| _ -> []

(** val tarr : term -> nat list **)

let rec tarr = function
| TAdd l -> flat_map tarr l
| TSub (a, b) -> app (tarr a) (tarr b)
| TMul (a, b) -> app (tarr a) (tarr b)
| TDiv (a, b) -> app (tarr a) (tarr b)
| TMod (a, b) -> app (tarr a) (tarr b)
| TIte (c, a, b) -> app (farr c) (app (tarr a) (tarr b))
| TSel (arr, i) -> arr :: (tarr i)
| _ -> []

(** val farr : form -> nat list **)

and farr = function
| FLe (a, b) -> app (tarr a) (tarr b)
| FLt (a, b) -> app (tarr a) (tarr b)
| FGe (a, b) -> app (tarr a) (tarr b)
| FGt (a, b) -> app (tarr a) (tarr b)
| FEq (a, b) -> app (tarr a) (tarr b)
| FNe (a, b) -> app (tarr a) (tarr b)
| FAnd l -> flat_map farr l
| FOr l -> flat_map farr l
| FNot g -> farr g
| FXor (a, b) -> app (farr a) (farr b)
| FImp (a, b) -> app (farr a) (farr b)
| FIte (c, a, b) -> app (farr c) (app (farr a) (farr b))
| FIff (a, b) -> app (farr a) (farr b)
| FPbLe (l, _) -> flat_map farr l
| FPbGe (l, _) -> flat_map farr l
| FPbEq (l, _) -> flat_map farr l
| FArrFix (arr, i, v) -> arr :: (app (tarr i) (tarr v))
| _ -> []

(** val show_pos_digits : nat -> n -> char list -> char list **)

let rec show_pos_digits fuel n0 acc =
  match fuel with
  | O -> acc
  | S f ->
    let d = N.modulo n0 (Npos (XO (XI (XO XH)))) in
    let c = ascii_of_N (N.add (Npos (XO (XO (XO (XO (XI XH)))))) d) in
    let q = N.div n0 (Npos (XO (XI (XO XH)))) in
    (match q with
     | N0 -> c::acc
     | Npos _ -> show_pos_digits f q (c::acc))

(** val show_N : n -> char list **)

let show_N n0 =
  show_pos_digits (S (N.to_nat (N.log2 n0))) n0 []

(** val show_nat : nat -> char list **)

let show_nat n0 =
  show_N (N.of_nat n0)

(** val show_Z : z -> char list **)

let show_Z = function
| Z0 -> '0'::[]
| Zpos p -> show_N (Npos p)
| Zneg p ->
  append ('('::('-'::(' '::[]))) (append (show_N (Npos p)) (')'::[]))

(** val show_wref : wref -> char list **)

let show_wref = function
| WPlain n0 -> append ('W'::[]) (show_nat n0)
| WUnit (c, i) ->
  append ('C'::[])
    (append (show_nat c)
      (append
        ('_'::('C'::('u'::('m'::('u'::('l'::('a'::('t'::('i'::('v'::('e'::('W'::('o'::('r'::('k'::('e'::('r'::('_'::[]))))))))))))))))))
        (show_nat (S i))))

(** val show_sref : sref -> char list **)

let show_sref = function
| SUser n0 -> append ('S'::[]) (show_nat n0)
| SAuto k -> append ('A'::[]) (show_nat k)

(** val show_rref : rref -> char list **)

let show_rref = function
| RW w -> show_wref w
| RC c -> append ('C'::[]) (show_nat c)

(** val show_owner : owner -> char list **)

let show_owner = function
| OwCons c -> append ('K'::[]) (show_nat c)
| OwInd i -> append ('I'::[]) (show_nat i)
| OwBuf b -> append ('B'::[]) (show_nat b)
| OwObj o0 -> append ('O'::[]) (show_nat o0)
| OwSolver -> 'S'::('O'::('L'::('V'::('E'::('R'::[])))))

(** val show_task : nat -> char list **)

let show_task t =
  append ('T'::[]) (show_nat t)

(** val busy_infix : bool -> char list **)

let busy_infix = function
| true ->
  '_'::('m'::('a'::('y'::('b'::('e'::('_'::('b'::('u'::('s'::('y'::('_'::[])))))))))))
| false -> '_'::('b'::('u'::('s'::('y'::('_'::[])))))

(** val show_ivar : ivar -> char list **)

let show_ivar = function
| VStart t ->
  append (show_task t) ('_'::('s'::('t'::('a'::('r'::('t'::[]))))))
| VEnd t -> append (show_task t) ('_'::('e'::('n'::('d'::[]))))
| VDur t ->
  append (show_task t)
    ('_'::('d'::('u'::('r'::('a'::('t'::('i'::('o'::('n'::[])))))))))
| VBusyS (r, t, m) ->
  append (show_rref r)
    (append (busy_infix m)
      (append (show_task t) ('_'::('s'::('t'::('a'::('r'::('t'::[]))))))))
| VBusyE (r, t, m) ->
  append (show_rref r)
    (append (busy_infix m)
      (append (show_task t) ('_'::('e'::('n'::('d'::[]))))))
| VHorizon -> 'h'::('o'::('r'::('i'::('z'::('o'::('n'::[]))))))
| VInd i ->
  append
    ('I'::('n'::('d'::('i'::('c'::('a'::('t'::('o'::('r'::('_'::('I'::[])))))))))))
    (show_nat i)
| VLevel0 b ->
  append ('B'::[])
    (append (show_nat b)
      ('_'::('i'::('n'::('i'::('t'::('i'::('a'::('l'::('_'::('l'::('e'::('v'::('e'::('l'::[])))))))))))))))
| VLevel (b, t) ->
  append ('B'::[])
    (append (show_nat b)
      (append ('_'::('l'::('e'::('v'::('e'::('l'::('_'::[])))))))
        (show_task t)))
| VChange (b, t) ->
  append ('B'::[])
    (append (show_nat b)
      (append
        ('_'::('s'::('c'::('_'::('t'::('i'::('m'::('e'::('_'::[])))))))))
        (show_task t)))
| VAux (o, k) ->
  append (show_owner o)
    (append ('_'::('a'::('u'::('x'::('_'::[]))))) (show_nat k))
| VUser n0 -> append ('u'::[]) (show_nat n0)

(** val show_bvar : bvar -> char list **)

let show_bvar = function
| BSched t ->
  append (show_task t)
    ('_'::('s'::('c'::('h'::('e'::('d'::('u'::('l'::('e'::('d'::[]))))))))))
| BSel (s, r) ->
  append ('S'::('e'::('l'::('e'::('c'::('t'::('e'::('d'::('_'::[])))))))))
    (append (show_rref r) (append ('_'::[]) (show_sref s)))
| BApplied c ->
  append ('K'::[])
    (append (show_nat c)
      ('_'::('a'::('p'::('p'::('l'::('i'::('e'::('d'::[])))))))))
| BAux (o, k) ->
  append (show_owner o)
    (append ('_'::('b'::('a'::('u'::('x'::('_'::[])))))) (show_nat k))
| BUser n0 -> append ('u'::('b'::[])) (show_nat n0)

(** val show_arr : nat -> char list **)

let show_arr a =
  append ('B'::('u'::('f'::('f'::('e'::('r'::('_'::('B'::[]))))))))
    (append (show_nat a)
      ('_'::('m'::('a'::('p'::('p'::('i'::('n'::('g'::[])))))))))

(** val app1 : char list -> char list list -> char list **)

let app1 op0 args =
  append ('('::[])
    (append op0
      (fold_right (fun a acc -> append (' '::[]) (append a acc)) (')'::[])
        args))

(** val show_t : term -> char list **)

let rec show_t = function
| TC z0 -> show_Z z0
| TV x -> show_ivar x
| TAdd l ->
  (match l with
   | [] -> '0'::[]
   | _ :: _ -> app1 ('+'::[]) (('0'::[]) :: (map show_t l)))
| TSub (a, b) -> app1 ('-'::[]) ((show_t a) :: ((show_t b) :: []))
| TMul (a, b) -> app1 ('*'::[]) ((show_t a) :: ((show_t b) :: []))
| TDiv (a, b) ->
  app1 ('d'::('i'::('v'::[]))) ((show_t a) :: ((show_t b) :: []))
| TMod (a, b) ->
  app1 ('m'::('o'::('d'::[]))) ((show_t a) :: ((show_t b) :: []))
| TIte (c, a, b) ->
  app1 ('i'::('t'::('e'::[])))
    ((show_f c) :: ((show_t a) :: ((show_t b) :: [])))
| TSel (arr, i) ->
  app1 ('s'::('e'::('l'::('e'::('c'::('t'::[]))))))
    ((show_arr arr) :: ((show_t i) :: []))

(** val show_f : form -> char list **)

and show_f = function
| FT -> 't'::('r'::('u'::('e'::[])))
| FF -> 'f'::('a'::('l'::('s'::('e'::[]))))
| FB b -> show_bvar b
| FLe (a, b) -> app1 ('<'::('='::[])) ((show_t a) :: ((show_t b) :: []))
| FLt (a, b) -> app1 ('<'::[]) ((show_t a) :: ((show_t b) :: []))
| FGe (a, b) -> app1 ('>'::('='::[])) ((show_t a) :: ((show_t b) :: []))
| FGt (a, b) -> app1 ('>'::[]) ((show_t a) :: ((show_t b) :: []))
| FEq (a, b) -> app1 ('='::[]) ((show_t a) :: ((show_t b) :: []))
| FNe (a, b) ->
  app1 ('d'::('i'::('s'::('t'::('i'::('n'::('c'::('t'::[]))))))))
    ((show_t a) :: ((show_t b) :: []))
| FAnd l ->
  (match l with
   | [] -> 't'::('r'::('u'::('e'::[])))
   | _ :: _ ->
     app1 ('a'::('n'::('d'::[])))
       (('t'::('r'::('u'::('e'::[])))) :: (map show_f l)))
| FOr l ->
  (match l with
   | [] -> 'f'::('a'::('l'::('s'::('e'::[]))))
   | _ :: _ ->
     app1 ('o'::('r'::[]))
       (('f'::('a'::('l'::('s'::('e'::[]))))) :: (map show_f l)))
| FNot f0 -> app1 ('n'::('o'::('t'::[]))) ((show_f f0) :: [])
| FXor (a, b) ->
  app1 ('x'::('o'::('r'::[]))) ((show_f a) :: ((show_f b) :: []))
| FImp (a, b) -> app1 ('='::('>'::[])) ((show_f a) :: ((show_f b) :: []))
| FIte (c, a, b) ->
  app1 ('i'::('t'::('e'::[])))
    ((show_f c) :: ((show_f a) :: ((show_f b) :: [])))
| FIff (a, b) -> app1 ('='::[]) ((show_f a) :: ((show_f b) :: []))
| FPbLe (l, k) ->
  app1 ('<'::('='::[]))
    ((app1 ('+'::[])
       (('0'::[]) :: (map (fun f0 ->
                       app1 ('i'::('t'::('e'::[])))
                         ((show_f f0) :: (('1'::[]) :: (('0'::[]) :: [])))) l))) :: (
    (show_Z k) :: []))
| FPbGe (l, k) ->
  app1 ('>'::('='::[]))
    ((app1 ('+'::[])
       (('0'::[]) :: (map (fun f0 ->
                       app1 ('i'::('t'::('e'::[])))
                         ((show_f f0) :: (('1'::[]) :: (('0'::[]) :: [])))) l))) :: (
    (show_Z k) :: []))
| FPbEq (l, k) ->
  app1 ('='::[])
    ((app1 ('+'::[])
       (('0'::[]) :: (map (fun f0 ->
                       app1 ('i'::('t'::('e'::[])))
                         ((show_f f0) :: (('1'::[]) :: (('0'::[]) :: [])))) l))) :: (
    (show_Z k) :: []))
| FArrFix (arr, i, v) ->
  app1 ('='::[])
    ((show_arr arr) :: ((app1 ('s'::('t'::('o'::('r'::('e'::[])))))
                          ((show_arr arr) :: ((show_t i) :: ((show_t v) :: [])))) :: []))

(** val show_decl_i : ivar -> char list **)

let show_decl_i x =
  append
    ('('::('d'::('e'::('c'::('l'::('a'::('r'::('e'::('-'::('c'::('o'::('n'::('s'::('t'::(' '::[])))))))))))))))
    (append (show_ivar x) (' '::('I'::('n'::('t'::(')'::[]))))))

(** val show_decl_b : bvar -> char list **)

let show_decl_b x =
  append
    ('('::('d'::('e'::('c'::('l'::('a'::('r'::('e'::('-'::('c'::('o'::('n'::('s'::('t'::(' '::[])))))))))))))))
    (append (show_bvar x) (' '::('B'::('o'::('o'::('l'::(')'::[])))))))

(** val show_decl_a : nat -> char list **)

let show_decl_a a =
  append
    ('('::('d'::('e'::('c'::('l'::('a'::('r'::('e'::('-'::('c'::('o'::('n'::('s'::('t'::(' '::[])))))))))))))))
    (append (show_arr a)
      (' '::('('::('A'::('r'::('r'::('a'::('y'::(' '::('I'::('n'::('t'::(' '::('I'::('n'::('t'::(')'::(')'::[]))))))))))))))))))

type tkind =
| KZero
| KFixed of z
| KVar of z * z option * z list option

type tinfo = { ti_id : nat; ti_rank : z; ti_kind : tkind; ti_opt : bool;
               ti_work : z; ti_release : z option; ti_due : z option;
               ti_deadline : bool; ti_prio : z }

(** val s_ : tinfo -> term **)

let s_ t =
  TV (VStart t.ti_id)

(** val e_ : tinfo -> term **)

let e_ t =
  TV (VEnd t.ti_id)

(** val d_ : tinfo -> term **)

let d_ t =
  TV (VDur t.ti_id)

(** val is_var : tinfo -> bool **)

let is_var t =
  match t.ti_kind with
  | KVar (_, _, _) -> true
  | _ -> false

(** val has_sched : tinfo -> bool **)

let has_sched t =
  t.ti_opt

(** val sched_f : tinfo -> form **)

let sched_f t =
  if has_sched t then FB (BSched t.ti_id) else FT

(** val task_window : tinfo -> form list **)

let task_window t =
  app
    (match t.ti_release with
     | Some r -> if Z.gtb r Z0 then (FGe ((s_ t), (TC r))) :: [] else []
     | None -> [])
    (match t.ti_due with
     | Some d -> if t.ti_deadline then (FLe ((e_ t), (TC d))) :: [] else []
     | None -> [])

(** val task_body : tinfo -> form list **)

let task_body t =
  match t.ti_kind with
  | KZero -> (FEq ((s_ t), (e_ t))) :: ((FGe ((s_ t), (TC Z0))) :: [])
  | KFixed d ->
    (FEq ((TSub ((e_ t), (s_ t))), (TC d))) :: ((FGe ((s_ t), (TC Z0))) :: [])
  | KVar (mn, mx, al) ->
    app ((FEq ((TAdd ((s_ t) :: ((d_ t) :: []))), (e_ t))) :: ((FGe (
      (s_ t), (TC Z0))) :: ((FGe ((d_ t), (TC mn))) :: [])))
      (app
        (match al with
         | Some l -> (FOr (map (fun a -> FEq ((d_ t), (TC a))) l)) :: []
         | None -> [])
        (match mx with
         | Some m -> (FLe ((d_ t), (TC m))) :: []
         | None -> []))

(** val task_unsched : tinfo -> form **)

let task_unsched t =
  let p = TC (Z.opp t.ti_rank) in
  FAnd
  (app ((FEq ((s_ t), p)) :: ((FEq ((e_ t), p)) :: []))
    (if is_var t then (FEq ((d_ t), (TC Z0))) :: [] else []))

(** val task_core : tinfo -> form list **)

let task_core t =
  app (task_window t)
    (if t.ti_opt
     then (FIte ((FB (BSched t.ti_id)), (FAnd (task_body t)),
            (task_unsched t))) :: []
     else task_body t)

type pbkind =
| PbMin
| PbMax
| PbExact

(** val pb : pbkind -> form list -> z -> form **)

let pb k l n0 =
  match k with
  | PbMin -> FPbGe (l, n0)
  | PbMax -> FPbLe (l, n0)
  | PbExact -> FPbEq (l, n0)

(** val bS : rref -> nat -> bool -> term **)

let bS r t m =
  TV (VBusyS (r, t, m))

(** val bE : rref -> nat -> bool -> term **)

let bE r t m =
  TV (VBusyE (r, t, m))

type areq =
| AQDirect of wref * bool * z * z
| AQSelect of sref * (rref * z) list * z * pbkind

(** val enc_areq : tinfo -> areq -> form list **)

let enc_areq t a =
  let id = t.ti_id in
  (match a with
   | AQDirect (w, dyn, di, eo) ->
     let r = RW w in
     if dyn
     then (FLe ((bE r id false), (e_ t))) :: ((FGe ((bS r id false),
            (s_ t))) :: [])
     else (if Z.gtb eo Z0
           then FEq ((bE r id false), (TSub ((e_ t), (TC eo))))
           else FEq ((bE r id false), (e_ t))) :: ((if Z.gtb di Z0
                                                    then FEq
                                                           ((bS r id false),
                                                           (TAdd
                                                           ((s_ t) :: ((TC
                                                           di) :: []))))
                                                    else FEq
                                                           ((bS r id false),
                                                           (s_ t))) :: [])
   | AQSelect (s, listed, n0, k) ->
     app
       (map (fun pat ->
         let (r, p) = pat in
         FIte ((FB (BSel (s, r))), (FAnd ((FEq ((bS r id true),
         (s_ t))) :: ((FEq ((bE r id true), (e_ t))) :: []))), (FAnd ((FEq
         ((bS r id true), (TC p))) :: ((FEq ((bE r id true), (TC
         p))) :: []))))) listed)
       ((pb k (map (fun pat -> let (r, _) = pat in FB (BSel (s, r))) listed)
          n0) :: []))

type pkind =
| Lax
| Strict
| Tight

type 'o operand =
| OpC of 'o
| OpRaw of form

type ('t, 'o, 'r, 'sR) cexpr =
| CStartAt of 't * z
| CStartAfter of 't * z * bool
| CEndAt of 't * z
| CEndBefore of 't * z * bool
| CPrecedence of 't * 't * z * pkind
| CStartSynced of 't * 't
| CEndSynced of 't * 't
| CDontOverlap of 't * 't
| CContiguous of 't list
| CUGroup of 't list * (z * z) option * z
| COGroup of 't list * (z * z) option * z * pkind
| CForceSched of 't * bool
| CCondSched of 't * form
| CDependency of 't * 't
| CForceN of 't list * z * pbkind
| CScheduleN of 't list * z * (z * z) list * pbkind
| CExpr of form
| CForceApplyN of 'o list * z * pbkind
| CNot of 'o operand
| COr of 'o operand list
| CAnd of 'o operand list
| CXor of 'o operand * 'o operand
| CImplies of form * 'o operand list
| CIte of form * 'o operand list * 'o operand list
| CWorkLoad of 'r * ((z * z) * z) list * pbkind
| CUnavailable of 'r * (z * z) list
| CPeriodicUnavailable of 'r * (z * z) list * z * z * z * z option
| CInterrupted of 'r * (z * z) list
| CPeriodicInterrupted of 'r * (z * z) list * z * z * z * z option
| CNonDelay of 'r
| CDistance of 'r * z * (z * z) list option * pbkind
| CSameWorkers of 'sR * 'sR
| CDistinctWorkers of 'sR * 'sR
| CLoad of 't * nat * z
| CUnload of 't * nat * z
| CIndTarget of nat * z
| CIndBounds of nat * z option * z option

type opres = { or_id : nat; or_opt : bool; or_asserts : form list }

type busyent = { be_task : tinfo; be_maybe : bool }

type resobj =
| ResW of wref
| ResC of nat

type rsnap = { rs_obj : resobj; rs_units : (wref * busyent list) list;
               rs_own : busyent list }

type srec = { s_ref : sref; s_listed : rref list; s_n : z; s_kind : pbkind }

type rcexpr = (tinfo, opres, rsnap, srec) cexpr

(** val guard1 : tinfo -> form -> form **)

let guard1 t x =
  if t.ti_opt then FImp ((sched_f t), x) else x

(** val guard2 : tinfo -> tinfo -> form -> form **)

let guard2 a b x =
  if (||) a.ti_opt b.ti_opt
  then FImp ((FAnd ((sched_f a) :: ((sched_f b) :: []))), x)
  else x

(** val prec_rel : pkind -> term -> term -> form **)

let prec_rel k lo up =
  match k with
  | Lax -> FLe (lo, up)
  | Strict -> FLt (lo, up)
  | Tight -> FEq (lo, up)

(** val aux : nat -> nat -> term **)

let aux c k =
  TV (VAux ((OwCons c), k))

(** val pairs_lt : term list -> form list **)

let rec pairs_lt = function
| [] -> []
| x :: r -> (match r with
             | [] -> []
             | y :: _ -> (FLt (x, y)) :: (pairs_lt r))

(** val dsort : (nat -> term) -> nat -> term list -> term list * form list **)

let dsort mk base xs =
  let n0 = length xs in
  let a = map (fun i -> mk (add base i)) (seq O n0) in
  (a,
  (app (map (fun ai -> FOr (map (fun x -> FEq (ai, x)) xs)) a) ((FAnd
    (pairs_lt a)) :: [])))

(** val consec : term list -> term list -> (term * term) list **)

let rec consec a b =
  match a with
  | [] -> []
  | _ :: ar ->
    (match ar with
     | [] -> []
     | ai :: _ ->
       (match b with
        | [] -> []
        | bp :: br -> (bp, ai) :: (consec ar br)))

(** val op_asserts : opres operand -> form list **)

let op_asserts = function
| OpC o -> o.or_asserts
| OpRaw f -> f :: []

(** val ops_flat : opres operand list -> form list **)

let ops_flat xs =
  flat_map op_asserts xs

(** val bsv : wref -> busyent -> term **)

let bsv w b =
  bS (RW w) b.be_task.ti_id b.be_maybe

(** val bev : wref -> busyent -> term **)

let bev w b =
  bE (RW w) b.be_task.ti_id b.be_maybe

(** val all_busy : rsnap -> (wref * busyent) list **)

let all_busy r =
  flat_map (fun pat -> let (w, l) = pat in map (fun x -> (w, x)) l) r.rs_units

(** val own_w : rsnap -> rref **)

let own_w r =
  match r.rs_obj with
  | ResW w -> RW w
  | ResC c -> RC c

(** val workload_one : term -> term -> term -> z -> z -> form list **)

let workload_one d bs be lo hi =
  let c1 = FAnd ((FGe (bs, (TC lo))) :: ((FLe (be, (TC hi))) :: [])) in
  let c2 = FAnd ((FLt (bs, (TC lo))) :: ((FGt (be, (TC lo))) :: [])) in
  let c3 = FAnd ((FLt (bs, (TC hi))) :: ((FGt (be, (TC hi))) :: [])) in
  let c4 = FAnd ((FLt (bs, (TC lo))) :: ((FGt (be, (TC hi))) :: [])) in
  (FGe (d, (TC Z0))) :: ((FImp (c1, (FEq (d, (TSub (be, bs)))))) :: ((FImp
  (c2, (FEq (d, (TSub (be, (TC lo))))))) :: ((FImp (c3, (FEq (d, (TSub ((TC
  hi), bs)))))) :: ((FImp (c4, (FEq (d, (TC (Z.sub hi lo)))))) :: ((FImp
  ((FNot (FOr (c1 :: (c2 :: (c3 :: (c4 :: [])))))), (FEq (d, (TC
  Z0))))) :: [])))))

(** val cmp_sum : pbkind -> term -> z -> form **)

let cmp_sum k s n0 =
  match k with
  | PbMin -> FGe (s, (TC n0))
  | PbMax -> FLe (s, (TC n0))
  | PbExact -> FEq (s, (TC n0))

(** val workload_ivs :
    nat -> (wref * busyent) list -> pbkind -> ((z * z) * z) list -> nat ->
    form list **)

let rec workload_ivs c busy k ivs base =
  match ivs with
  | [] -> []
  | p :: rest ->
    let (p0, n0) = p in
    let (lo, hi) = p0 in
    let nb = length busy in
    let ds = map (fun i -> aux c (add base i)) (seq O nb) in
    app
      (flat_map (fun pat ->
        let (d, y) = pat in
        let (w, b) = y in workload_one d (bsv w b) (bev w b) lo hi)
        (combine ds busy))
      (app ((cmp_sum k (TAdd ds) n0) :: [])
        (workload_ivs c busy k rest (add base nb)))

(** val punavail_one :
    term -> term -> z -> z -> z -> z -> z -> z option -> form **)

let punavail_one bs be lo hi period start offset end_ =
  let folded = TMod ((TSub (bs, (TC offset))), (TC period)) in
  let c = FXor ((FGe (folded, (TC hi))), (FLe ((TAdd (folded :: ((TSub (be,
    bs)) :: []))), (TC lo))))
  in
  let conds =
    app (c :: [])
      (app (if Z.gtb start Z0 then (FLe (be, (TC start))) :: [] else [])
        (match end_ with
         | Some e -> (FGe (bs, (TC e))) :: []
         | None -> []))
  in
  (match conds with
   | [] -> FOr conds
   | _ :: l -> (match l with
                | [] -> c
                | _ :: _ -> FOr conds))

(** val interrupted_worker : wref -> busyent list -> (z * z) list -> form **)

let interrupted_worker w busy ivs =
  FAnd
    (flat_map (fun b ->
      let bs = bsv w b in
      let be = bev w b in
      let t = b.be_task in
      let overlaps =
        map (fun pat ->
          let (lo, hi) = pat in
          TIte ((FNot (FXor ((FGe (bs, (TC hi))), (FLe (be, (TC lo)))))), (TC
          (Z.sub hi lo)), (TC Z0))) ivs
      in
      (match t.ti_kind with
       | KVar (mn, mx, _) ->
         app
           (flat_map (fun pat ->
             let (lo, hi) = pat in
             (FXor ((FLe (bs, (TC lo))), (FGe (bs, (TC hi))))) :: ((FXor
             ((FLe (be, (TC lo))), (FGe (be, (TC hi))))) :: [])) ivs)
           (app ((FGe ((d_ t), (TAdd ((TC mn) :: ((TAdd
             overlaps) :: []))))) :: [])
             (match mx with
              | Some m ->
                (FLe ((d_ t), (TAdd ((TC m) :: ((TAdd
                  overlaps) :: []))))) :: []
              | None -> []))
       | _ ->
         map (fun pat ->
           let (lo, hi) = pat in
           FXor ((FGe (bs, (TC hi))), (FLe (be, (TC lo))))) ivs)) busy)

(** val pinterrupted_worker :
    wref -> busyent list -> (z * z) list -> z -> z -> z -> z option -> form **)

let pinterrupted_worker w busy ivs period start offset end_ =
  let p = TC period in
  let conds =
    flat_map (fun b ->
      let bs = bsv w b in
      let be = bev w b in
      let t = b.be_task in
      let dur = TSub (be, bs) in
      let fs = TMod ((TSub (bs, (TC offset))), p) in
      let fe = TMod ((TSub (be, (TC offset))), p) in
      let overlaps =
        map (fun pat ->
          let (lo, hi) = pat in
          let crossing = FNot (FXor ((FAnd ((FLe (fs, (TC lo))) :: ((FLe
            ((TAdd (fs :: ((TMod (dur, p)) :: []))), (TC lo))) :: []))),
            (FAnd ((FGe (fs, (TC hi))) :: ((FLe ((TAdd (fs :: ((TMod (dur,
            p)) :: []))), (TC (Z.add lo period)))) :: [])))))
          in
          let ovc = FOr (crossing :: ((FGt (dur, (TC
            (Z.sub (Z.add lo period) hi)))) :: []))
          in
          let crossings = TIte (crossing, (TAdd ((TDiv (dur, p)) :: ((TC
            (Zpos XH)) :: []))), (TDiv (dur, p)))
          in
          TIte (ovc, (TMul ((TC (Z.sub hi lo)), crossings)), (TC Z0))) ivs
      in
      (match t.ti_kind with
       | KVar (mn, mx, _) ->
         app
           (flat_map (fun pat ->
             let (lo, hi) = pat in
             (FXor ((FLe (fs, (TC lo))), (FGe (fs, (TC hi))))) :: ((FXor
             ((FLe (fe, (TC lo))), (FGe (fe, (TC hi))))) :: [])) ivs)
           (app ((FGe ((d_ t), (TAdd ((TC mn) :: ((TAdd
             overlaps) :: []))))) :: [])
             (match mx with
              | Some m ->
                (FLe ((d_ t), (TAdd ((TC m) :: ((TAdd
                  overlaps) :: []))))) :: []
              | None -> []))
       | _ ->
         map (fun pat ->
           let (lo, hi) = pat in
           FXor ((FGe (fs, (TC hi))), (FLe ((TAdd (fs :: (dur :: []))), (TC
           lo))))) ivs)) busy
  in
  let core = FAnd conds in
  (match rev busy with
   | [] -> core
   | b :: _ ->
     let mask0 =
       app (core :: [])
         (app
           (if Z.gtb start Z0 then (FLe ((bev w b), (TC start))) :: [] else [])
           (match end_ with
            | Some e -> (FGe ((bsv w b), (TC e))) :: []
            | None -> []))
     in
     (match mask0 with
      | [] -> FOr mask0
      | _ :: l -> (match l with
                   | [] -> core
                   | _ :: _ -> FOr mask0)))

(** val nondelay_like :
    nat -> term list -> term list -> (term -> term -> form) -> form list **)

let nondelay_like c starts ends mk =
  let n0 = length starts in
  let (a, c1) = dsort (aux c) O starts in
  let (b, c2) = dsort (aux c) n0 ends in
  app c1
    (app c2 (map (fun pat -> let (bp, ai) = pat in mk bp ai) (consec a b)))

(** val common_sel : srec -> srec -> rref list **)

let common_sel s1 s2 =
  filter (fun r -> existsb (rref_beq r) s2.s_listed) s1.s_listed

(** val nonneg : z -> bool **)

let nonneg z0 =
  Z.leb Z0 z0

(** val posz : z -> bool **)

let posz z0 =
  Z.leb (Zpos XH) z0

(** val check_c : rcexpr -> bool **)

let check_c = function
| CPrecedence (_, _, off, _) -> nonneg off
| CForceSched (t, _) -> t.ti_opt
| CCondSched (t, _) -> t.ti_opt
| CDependency (_, b) -> b.ti_opt
| CForceN (ts, n0, _) ->
  (&&) ((&&) (forallb (fun t -> t.ti_opt) ts) (posz n0))
    (negb (match ts with
           | [] -> true
           | _ :: _ -> false))
| CScheduleN (ts, _, ivs, _) ->
  (&&) (negb (match ts with
              | [] -> true
              | _ :: _ -> false))
    (negb (match ivs with
           | [] -> true
           | _ :: _ -> false))
| CForceApplyN (cs, n0, _) ->
  (&&) ((&&) (forallb (fun o -> o.or_opt) cs) (posz n0))
    (negb (match cs with
           | [] -> true
           | _ :: _ -> false))
| CWorkLoad (r, ivs, _) ->
  (match ivs with
   | [] -> true
   | _ :: _ -> negb (match all_busy r with
                     | [] -> true
                     | _ :: _ -> false))
| CUnavailable (r, ivs) ->
  (&&) (negb (match all_busy r with
              | [] -> true
              | _ :: _ -> false))
    (negb (match ivs with
           | [] -> true
           | _ :: _ -> false))
| CPeriodicUnavailable (r, ivs, _, _, _, _) ->
  (match r.rs_obj with
   | ResW _ ->
     (&&) (negb (match all_busy r with
                 | [] -> true
                 | _ :: _ -> false))
       (negb (match ivs with
              | [] -> true
              | _ :: _ -> false))
   | ResC _ -> false)
| CInterrupted (r, _) ->
  negb (match all_busy r with
        | [] -> true
        | _ :: _ -> false)
| CPeriodicInterrupted (r, ivs, period, _, _, _) ->
  (match r.rs_obj with
   | ResW _ ->
     (&&) (negb (match all_busy r with
                 | [] -> true
                 | _ :: _ -> false))
       (forallb (fun pat -> let (_, hi) = pat in Z.leb hi period) ivs)
   | ResC _ -> false)
| CDistance (r, _, _, _) -> Z.leb (Zpos (XO XH)) (Z.of_nat (length r.rs_own))
| CIndBounds (_, lo, hi) ->
  (match lo with
   | Some _ -> true
   | None -> (match hi with
              | Some _ -> true
              | None -> false))
| _ -> true

(** val enc_raw : nat -> rcexpr -> form list **)

let enc_raw c e = match e with
| CStartAt (t, v) -> (guard1 t (FEq ((s_ t), (TC v)))) :: []
| CStartAfter (t, v, strict) ->
  (guard1 t (if strict then FGt ((s_ t), (TC v)) else FGe ((s_ t), (TC v)))) :: []
| CEndAt (t, v) -> (guard1 t (FEq ((e_ t), (TC v)))) :: []
| CEndBefore (t, v, strict) ->
  (guard1 t (if strict then FLt ((e_ t), (TC v)) else FLe ((e_ t), (TC v)))) :: []
| CPrecedence (tb, ta, off, k) ->
  let lower =
    if Z.gtb off Z0 then TAdd ((e_ tb) :: ((TC off) :: [])) else e_ tb
  in
  (guard2 tb ta (prec_rel k lower (s_ ta))) :: []
| CStartSynced (a, b) -> (guard2 a b (FEq ((s_ a), (s_ b)))) :: []
| CEndSynced (a, b) -> (guard2 a b (FEq ((e_ a), (e_ b)))) :: []
| CDontOverlap (a, b) ->
  (guard2 a b (FXor ((FGe ((s_ b), (e_ a))), (FGe ((s_ a), (e_ b)))))) :: []
| CContiguous ts ->
  nondelay_like c (map s_ ts) (map e_ ts) (fun bp ai -> FImp ((FOr ((FAnd
    ((FGe (bp, (TC Z0))) :: ((FGe (ai, (TC Z0))) :: []))) :: [])), (FEq (ai,
    bp))))
| CUGroup (ts, win, len) ->
  let gs = aux c O in
  let ge = aux c (S O) in
  let head =
    match win with
    | Some p ->
      let (lo, hi) = p in (FGe (gs, (TC lo))) :: ((FLe (ge, (TC hi))) :: [])
    | None -> (FLe (ge, (TAdd (gs :: ((TC len) :: []))))) :: []
  in
  let body =
    flat_map (fun t -> (FGe ((s_ t), gs)) :: ((FLe ((e_ t), ge)) :: [])) ts
  in
  let order =
    match e with
    | CStartAt (_, _) -> []
    | CStartAfter (_, _, _) -> []
    | CEndAt (_, _) -> []
    | CEndBefore (_, _, _) -> []
    | CPrecedence (_, _, _, _) -> []
    | CStartSynced (_, _) -> []
    | CEndSynced (_, _) -> []
    | CDontOverlap (_, _) -> []
    | CContiguous _ -> []
    | CUGroup (_, _, _) -> []
    | COGroup (_, _, _, k) ->
      let rec go = function
      | [] -> []
      | x :: r ->
        (match r with
         | [] -> []
         | y :: _ -> (prec_rel k (e_ x) (s_ y)) :: (go r))
      in go ts
    | _ -> []
  in
  (FAnd (app head (app body order))) :: []
| COGroup (ts, win, len, _) ->
  let gs = aux c O in
  let ge = aux c (S O) in
  let head =
    match win with
    | Some p ->
      let (lo, hi) = p in (FGe (gs, (TC lo))) :: ((FLe (ge, (TC hi))) :: [])
    | None -> (FLe (ge, (TAdd (gs :: ((TC len) :: []))))) :: []
  in
  let body =
    flat_map (fun t -> (FGe ((s_ t), gs)) :: ((FLe ((e_ t), ge)) :: [])) ts
  in
  let order =
    match e with
    | CStartAt (_, _) -> []
    | CStartAfter (_, _, _) -> []
    | CEndAt (_, _) -> []
    | CEndBefore (_, _, _) -> []
    | CPrecedence (_, _, _, _) -> []
    | CStartSynced (_, _) -> []
    | CEndSynced (_, _) -> []
    | CDontOverlap (_, _) -> []
    | CContiguous _ -> []
    | CUGroup (_, _, _) -> []
    | COGroup (_, _, _, k) ->
      let rec go = function
      | [] -> []
      | x :: r ->
        (match r with
         | [] -> []
         | y :: _ -> (prec_rel k (e_ x) (s_ y)) :: (go r))
      in go ts
    | _ -> []
  in
  (FAnd (app head (app body order))) :: []
| CForceSched (t, b) -> (FIff ((sched_f t), (if b then FT else FF))) :: []
| CCondSched (t, cond) ->
  (FIte (cond, (FIff ((sched_f t), FT)), (FIff ((sched_f t), FF)))) :: []
| CDependency (a, b) -> (FIff ((sched_f a), (sched_f b))) :: []
| CForceN (ts, n0, k) -> (pb k (map sched_f ts) n0) :: []
| CScheduleN (ts, n0, ivs, k) ->
  let ni = length ivs in
  let per_task = fun ti t ->
    let bools =
      map (fun j -> FB (BAux ((OwCons c), (add (mul ti ni) j)))) (seq O ni)
    in
    app
      (map (fun pat ->
        let (b, y) = pat in
        let (lo, hi) = y in
        FImp (b, (FAnd ((FGe ((s_ t), (TC lo))) :: ((FLe ((e_ t), (TC
        hi))) :: ((FNot (FAnd ((FLt ((s_ t), (TC lo))) :: ((FGt ((e_ t), (TC
        lo))) :: [])))) :: ((FNot (FAnd ((FLt ((s_ t), (TC hi))) :: ((FGt
        ((e_ t), (TC hi))) :: [])))) :: ((FNot (FAnd ((FLt ((s_ t), (TC
        lo))) :: ((FGt ((e_ t), (TC hi))) :: [])))) :: []))))))))
        (combine bools ivs)) ((FPbLe (bools, (Zpos XH))) :: [])
  in
  app
    (flat_map (fun pat -> let (ti, t) = pat in per_task ti t)
      (combine (seq O (length ts)) ts))
    ((pb k
       (map (fun j -> FB (BAux ((OwCons c), j))) (seq O (mul (length ts) ni)))
       n0) :: [])
| CExpr f -> f :: []
| CForceApplyN (cs, n0, k) ->
  (pb k (map (fun o -> FB (BApplied o.or_id)) cs) n0) :: []
| CNot x -> (FNot (FAnd (op_asserts x))) :: []
| COr xs -> (FOr (ops_flat xs)) :: []
| CAnd xs -> (FAnd (ops_flat xs)) :: []
| CXor (x, y) -> (FXor ((FAnd (op_asserts x)), (FAnd (op_asserts y)))) :: []
| CImplies (cond, xs) -> (FImp (cond, (FAnd (ops_flat xs)))) :: []
| CIte (cond, xs, ys) ->
  (FIte (cond, (FAnd (ops_flat xs)), (FAnd (ops_flat ys)))) :: []
| CWorkLoad (r, ivs, k) -> workload_ivs c (all_busy r) k ivs O
| CUnavailable (r, ivs) ->
  flat_map (fun pat ->
    let (lo, hi) = pat in
    map (fun pat0 ->
      let (w, b) = pat0 in
      FOr ((FGe ((bsv w b), (TC hi))) :: ((FLe ((bev w b), (TC lo))) :: [])))
      (all_busy r)) ivs
| CPeriodicUnavailable (r, ivs, period, start, offset, end_) ->
  flat_map (fun pat ->
    let (lo, hi) = pat in
    map (fun pat0 ->
      let (w, b) = pat0 in
      punavail_one (bsv w b) (bev w b) lo hi period start offset end_)
      (all_busy r)) ivs
| CInterrupted (r, ivs) ->
  map (fun pat -> let (w, l) = pat in interrupted_worker w l ivs) r.rs_units
| CPeriodicInterrupted (r, ivs, period, start, offset, end_) ->
  map (fun pat ->
    let (w, l) = pat in pinterrupted_worker w l ivs period start offset end_)
    r.rs_units
| CNonDelay r ->
  let o = own_w r in
  nondelay_like c (map (fun b -> bS o b.be_task.ti_id b.be_maybe) r.rs_own)
    (map (fun b -> bE o b.be_task.ti_id b.be_maybe) r.rs_own) (fun bp ai ->
    FImp ((FAnd ((FGe (bp, (TC Z0))) :: ((FGe (ai, (TC Z0))) :: []))), (FEq
    (ai, bp))))
| CDistance (r, dist, ivs, mode) ->
  let o = own_w r in
  nondelay_like c (map (fun b -> bS o b.be_task.ti_id b.be_maybe) r.rs_own)
    (map (fun b -> bE o b.be_task.ti_id b.be_maybe) r.rs_own) (fun bp ai ->
    let asst = cmp_sum mode (TSub (ai, bp)) dist in
    let conds =
      match ivs with
      | Some l ->
        map (fun pat ->
          let (lo, hi) = pat in
          FAnd ((FGe (ai, (TC lo))) :: ((FGe (bp, (TC lo))) :: ((FLe (ai, (TC
          hi))) :: ((FLe (bp, (TC hi))) :: []))))) l
      | None ->
        (FAnd ((FGe (bp, (TC Z0))) :: ((FGe (ai, (TC Z0))) :: []))) :: []
    in
    FImp ((FOr conds), asst))
| CSameWorkers (s1, s2) ->
  map (fun r -> FIff ((FB (BSel (s1.s_ref, r))), (FB (BSel (s2.s_ref, r)))))
    (common_sel s1 s2)
| CDistinctWorkers (s1, s2) ->
  map (fun r -> FNot (FIff ((FB (BSel (s1.s_ref, r))), (FB (BSel (s2.s_ref,
    r)))))) (common_sel s1 s2)
| _ -> []

(** val enc_direct : rcexpr -> form list **)

let enc_direct = function
| CIndTarget (i, v) -> (FEq ((TV (VInd i)), (TC v))) :: []
| CIndBounds (i, lo, hi) ->
  app
    (match lo with
     | Some l -> (FGe ((TV (VInd i)), (TC l))) :: []
     | None -> [])
    (match hi with
     | Some h -> (FLe ((TV (VInd i)), (TC h))) :: []
     | None -> [])
| _ -> []

(** val cemit : nat -> bool -> form -> form **)

let cemit c opt f =
  if opt then FImp ((FB (BApplied c)), f) else f

(** val enc_cons : nat -> bool -> rcexpr -> form list **)

let enc_cons c opt e =
  app (map (cemit c opt) (enc_raw c e)) (enc_direct e)

type costfn =
| CostConst of z
| CostLinear of z * z
| CostPoly of z list

type wrec = { w_ref : wref; w_prod : z; w_cost : costfn }

type curec = { cu_id : nat; cu_size : nat; cu_prod : z; cu_cost : z }

type conrec = { c_id : nat; c_opt : bool; c_flag : bool; c_expr : rcexpr }

type pstate = { ps_horizon : z option; ps_tasks : tinfo list;
                ps_workers : wrec list; ps_cumuls : curec list;
                ps_selects : srec list; ps_reqs : (nat * rref list) list;
                ps_areqs : (nat * areq list) list;
                ps_busy : (rref * (nat * bool) list) list;
                ps_cons : conrec list; ps_neg : z; ps_nauto : nat }

(** val empty_problem : z option -> pstate **)

let empty_problem h =
  { ps_horizon = h; ps_tasks = []; ps_workers = []; ps_cumuls = [];
    ps_selects = []; ps_reqs = []; ps_areqs = []; ps_busy = []; ps_cons = [];
    ps_neg = (Zneg XH); ps_nauto = O }

type resarg =
| ArgW of wref
| ArgC of nat
| ArgS of nat

type ucexpr = (nat, nat, resobj, nat) cexpr

type op =
| ONewProblem of z option
| ONewTask of nat * tkind * bool * z * z option * z option * bool * z
| ONewWorker of nat * z * costfn
| ONewCumulative of nat * z * z * costfn
| ONewSelect of nat * rref list * z * pbkind
| OAddRequired of nat * resarg * bool * z * z
| ONewConstraint of nat * bool * ucexpr

type result =
| Ok of pstate
| Err
| Unsupported

(** val find_task : pstate -> nat -> tinfo option **)

let find_task st id =
  find (fun t -> Nat.eqb t.ti_id id) st.ps_tasks

(** val find_worker : pstate -> wref -> wrec option **)

let find_worker st w =
  find (fun r -> wref_beq r.w_ref w) st.ps_workers

(** val find_cumul : pstate -> nat -> curec option **)

let find_cumul st c =
  find (fun r -> Nat.eqb r.cu_id c) st.ps_cumuls

(** val find_select : pstate -> sref -> srec option **)

let find_select st s =
  find (fun r -> sref_beq r.s_ref s) st.ps_selects

(** val find_cons : pstate -> nat -> conrec option **)

let find_cons st c =
  find (fun r -> Nat.eqb r.c_id c) st.ps_cons

(** val al_get :
    ('a1 -> 'a1 -> bool) -> ('a1 * 'a2) list -> 'a1 -> 'a2 option **)

let rec al_get eqb0 l k =
  match l with
  | [] -> None
  | p :: r -> let (k', v) = p in if eqb0 k' k then Some v else al_get eqb0 r k

(** val al_set :
    ('a1 -> 'a1 -> bool) -> ('a1 * 'a2) list -> 'a1 -> 'a2 -> ('a1 * 'a2) list **)

let rec al_set eqb0 l k v =
  match l with
  | [] -> (k, v) :: []
  | p :: r ->
    let (k', v') = p in
    if eqb0 k' k then (k', v) :: r else (k', v') :: (al_set eqb0 r k v)

(** val get_list :
    ('a1 -> 'a1 -> bool) -> ('a1 * 'a2 list) list -> 'a1 -> 'a2 list **)

let get_list eqb0 l k =
  match al_get eqb0 l k with
  | Some v -> v
  | None -> []

(** val push_list :
    ('a1 -> 'a1 -> bool) -> ('a1 * 'a2 list) list -> 'a1 -> 'a2 -> ('a1 * 'a2
    list) list **)

let push_list eqb0 l k v =
  al_set eqb0 l k (app (get_list eqb0 l k) (v :: []))

(** val reqs_of : pstate -> nat -> rref list **)

let reqs_of st t =
  get_list Nat.eqb st.ps_reqs t

(** val areqs_of : pstate -> nat -> areq list **)

let areqs_of st t =
  get_list Nat.eqb st.ps_areqs t

(** val busy_of : pstate -> rref -> (nat * bool) list **)

let busy_of st r =
  get_list rref_beq st.ps_busy r

(** val busy_add :
    (rref * (nat * bool) list) list -> rref -> nat -> bool ->
    (rref * (nat * bool) list) list **)

let busy_add b r t m =
  al_set rref_beq b r (al_set Nat.eqb (get_list rref_beq b r) t m)

(** val units_of : curec -> wref list **)

let units_of c =
  map (fun i -> WUnit (c.cu_id, i)) (seq O c.cu_size)

(** val rref_exists : pstate -> rref -> bool **)

let rref_exists st = function
| RW w -> (match find_worker st w with
           | Some _ -> true
           | None -> false)
| RC c -> (match find_cumul st c with
           | Some _ -> true
           | None -> false)

(** val mapM : ('a1 -> 'a2 option) -> 'a1 list -> 'a2 list option **)

let rec mapM f = function
| [] -> Some []
| a :: r ->
  (match f a with
   | Some b -> (match mapM f r with
                | Some br -> Some (b :: br)
                | None -> None)
   | None -> None)

(** val conrec_asserts : conrec -> form list **)

let conrec_asserts c =
  enc_cons c.c_id c.c_opt c.c_expr

(** val res_task : pstate -> nat -> tinfo option **)

let res_task =
  find_task

(** val res_cons : pstate -> nat -> opres option **)

let res_cons st c =
  match find_cons st c with
  | Some r ->
    Some { or_id = c; or_opt = r.c_opt; or_asserts = (conrec_asserts r) }
  | None -> None

(** val res_operand : pstate -> nat operand -> opres operand option **)

let res_operand st = function
| OpC c -> (match res_cons st c with
            | Some o -> Some (OpC o)
            | None -> None)
| OpRaw f -> Some (OpRaw f)

(** val res_busy : pstate -> rref -> busyent list option **)

let res_busy st r =
  mapM (fun pat ->
    let (t, m) = pat in
    (match find_task st t with
     | Some ti -> Some { be_task = ti; be_maybe = m }
     | None -> None)) (busy_of st r)

(** val res_resobj : pstate -> resobj -> rsnap option **)

let res_resobj st o = match o with
| ResW w ->
  (match find_worker st w with
   | Some _ ->
     (match res_busy st (RW w) with
      | Some l -> Some { rs_obj = o; rs_units = ((w, l) :: []); rs_own = l }
      | None -> None)
   | None -> None)
| ResC c ->
  (match find_cumul st c with
   | Some cu ->
     (match mapM (fun w ->
              match res_busy st (RW w) with
              | Some l -> Some (w, l)
              | None -> None) (units_of cu) with
      | Some us ->
        (match res_busy st (RC c) with
         | Some own -> Some { rs_obj = o; rs_units = us; rs_own = own }
         | None -> None)
      | None -> None)
   | None -> None)

(** val res_sel : pstate -> nat -> srec option **)

let res_sel st s =
  find_select st (SUser s)

(** val opt_bind : 'a1 option -> ('a1 -> 'a2 option) -> 'a2 option **)

let opt_bind a f =
  match a with
  | Some x -> f x
  | None -> None

(** val resolve : pstate -> ucexpr -> rcexpr option **)

let resolve st e =
  let t = res_task st in
  let o = res_cons st in
  let p = res_operand st in
  let r = res_resobj st in
  let sS = res_sel st in
  (match e with
   | CStartAt (t0, v) -> opt_bind (t t0) (fun t' -> Some (CStartAt (t', v)))
   | CStartAfter (t0, v, s) ->
     opt_bind (t t0) (fun t' -> Some (CStartAfter (t', v, s)))
   | CEndAt (t0, v) -> opt_bind (t t0) (fun t' -> Some (CEndAt (t', v)))
   | CEndBefore (t0, v, s) ->
     opt_bind (t t0) (fun t' -> Some (CEndBefore (t', v, s)))
   | CPrecedence (a, b, off, k) ->
     opt_bind (t a) (fun a' ->
       opt_bind (t b) (fun b' -> Some (CPrecedence (a', b', off, k))))
   | CStartSynced (a, b) ->
     opt_bind (t a) (fun a' ->
       opt_bind (t b) (fun b' -> Some (CStartSynced (a', b'))))
   | CEndSynced (a, b) ->
     opt_bind (t a) (fun a' ->
       opt_bind (t b) (fun b' -> Some (CEndSynced (a', b'))))
   | CDontOverlap (a, b) ->
     opt_bind (t a) (fun a' ->
       opt_bind (t b) (fun b' -> Some (CDontOverlap (a', b'))))
   | CContiguous ts ->
     opt_bind (mapM t ts) (fun ts' -> Some (CContiguous ts'))
   | CUGroup (ts, w, l) ->
     opt_bind (mapM t ts) (fun ts' -> Some (CUGroup (ts', w, l)))
   | COGroup (ts, w, l, k) ->
     opt_bind (mapM t ts) (fun ts' -> Some (COGroup (ts', w, l, k)))
   | CForceSched (t0, b) ->
     opt_bind (t t0) (fun t' -> Some (CForceSched (t', b)))
   | CCondSched (t0, c) ->
     opt_bind (t t0) (fun t' -> Some (CCondSched (t', c)))
   | CDependency (a, b) ->
     opt_bind (t a) (fun a' ->
       opt_bind (t b) (fun b' -> Some (CDependency (a', b'))))
   | CForceN (ts, n0, k) ->
     opt_bind (mapM t ts) (fun ts' -> Some (CForceN (ts', n0, k)))
   | CScheduleN (ts, n0, ivs, k) ->
     opt_bind (mapM t ts) (fun ts' -> Some (CScheduleN (ts', n0, ivs, k)))
   | CExpr f -> Some (CExpr f)
   | CForceApplyN (cs, n0, k) ->
     opt_bind (mapM o cs) (fun cs' -> Some (CForceApplyN (cs', n0, k)))
   | CNot x -> opt_bind (p x) (fun x' -> Some (CNot x'))
   | COr xs -> opt_bind (mapM p xs) (fun xs' -> Some (COr xs'))
   | CAnd xs -> opt_bind (mapM p xs) (fun xs' -> Some (CAnd xs'))
   | CXor (x, y) ->
     opt_bind (p x) (fun x' ->
       opt_bind (p y) (fun y' -> Some (CXor (x', y'))))
   | CImplies (c, xs) ->
     opt_bind (mapM p xs) (fun xs' -> Some (CImplies (c, xs')))
   | CIte (c, xs, ys) ->
     opt_bind (mapM p xs) (fun xs' ->
       opt_bind (mapM p ys) (fun ys' -> Some (CIte (c, xs', ys'))))
   | CWorkLoad (r0, ivs, k) ->
     opt_bind (r r0) (fun r' -> Some (CWorkLoad (r', ivs, k)))
   | CUnavailable (r0, ivs) ->
     opt_bind (r r0) (fun r' -> Some (CUnavailable (r', ivs)))
   | CPeriodicUnavailable (r0, ivs, p0, s, o0, e0) ->
     opt_bind (r r0) (fun r' -> Some (CPeriodicUnavailable (r', ivs, p0, s,
       o0, e0)))
   | CInterrupted (r0, ivs) ->
     opt_bind (r r0) (fun r' -> Some (CInterrupted (r', ivs)))
   | CPeriodicInterrupted (r0, ivs, p0, s, o0, e0) ->
     opt_bind (r r0) (fun r' -> Some (CPeriodicInterrupted (r', ivs, p0, s,
       o0, e0)))
   | CNonDelay r0 -> opt_bind (r r0) (fun r' -> Some (CNonDelay r'))
   | CDistance (r0, d, ivs, m) ->
     opt_bind (r r0) (fun r' -> Some (CDistance (r', d, ivs, m)))
   | CSameWorkers (a, b) ->
     opt_bind (sS a) (fun a' ->
       opt_bind (sS b) (fun b' -> Some (CSameWorkers (a', b'))))
   | CDistinctWorkers (a, b) ->
     opt_bind (sS a) (fun a' ->
       opt_bind (sS b) (fun b' -> Some (CDistinctWorkers (a', b'))))
   | CLoad (t0, b, q) -> opt_bind (t t0) (fun t' -> Some (CLoad (t', b, q)))
   | CUnload (t0, b, q) ->
     opt_bind (t t0) (fun t' -> Some (CUnload (t', b, q)))
   | CIndTarget (i, v) -> Some (CIndTarget (i, v))
   | CIndBounds (i, lo, hi) -> Some (CIndBounds (i, lo, hi)))

(** val operand_ids : rcexpr -> nat list **)

let operand_ids e =
  let ids =
    flat_map (fun x -> match x with
                       | OpC o -> o.or_id :: []
                       | OpRaw _ -> [])
  in
  (match e with
   | CNot x -> ids (x :: [])
   | COr xs -> ids xs
   | CAnd xs -> ids xs
   | CXor (x, y) -> ids (x :: (y :: []))
   | CImplies (_, xs) -> ids xs
   | CIte (_, xs, ys) -> ids (app xs ys)
   | _ -> [])

(** val term_beq : term -> term -> bool **)

let rec term_beq a b =
  match a with
  | TC x -> (match b with
             | TC y -> Z.eqb x y
             | _ -> false)
  | TV x -> (match b with
             | TV y -> ivar_beq x y
             | _ -> false)
  | TAdd l ->
    (match b with
     | TAdd m ->
       let rec go l0 m0 =
         match l0 with
         | [] -> (match m0 with
                  | [] -> true
                  | _ :: _ -> false)
         | x :: l' ->
           (match m0 with
            | [] -> false
            | y :: m' -> (&&) (term_beq x y) (go l' m'))
       in go l m
     | _ -> false)
  | TSub (a1, a2) ->
    (match b with
     | TSub (b1, b2) -> (&&) (term_beq a1 b1) (term_beq a2 b2)
     | _ -> false)
  | TMul (a1, a2) ->
    (match b with
     | TMul (b1, b2) -> (&&) (term_beq a1 b1) (term_beq a2 b2)
     | _ -> false)
  | TDiv (a1, a2) ->
    (match b with
     | TDiv (b1, b2) -> (&&) (term_beq a1 b1) (term_beq a2 b2)
     | _ -> false)
  | TMod (a1, a2) ->
    (match b with
     | TMod (b1, b2) -> (&&) (term_beq a1 b1) (term_beq a2 b2)
     | _ -> false)
  | TIte (c, a1, a2) ->
    (match b with
     | TIte (d, b1, b2) ->
       (&&) ((&&) (form_beq c d) (term_beq a1 b1)) (term_beq a2 b2)
     | _ -> false)
  | TSel (x, i) ->
    (match b with
     | TSel (y, j) -> (&&) (Nat.eqb x y) (term_beq i j)
     | _ -> false)

(** val form_beq : form -> form -> bool **)

and form_beq a b =
  let lb =
    let rec go l m =
      match l with
      | [] -> (match m with
               | [] -> true
               | _ :: _ -> false)
      | x :: l' ->
        (match m with
         | [] -> false
         | y :: m' -> (&&) (form_beq x y) (go l' m'))
    in go
  in
  (match a with
   | FT -> (match b with
            | FT -> true
            | _ -> false)
   | FF -> (match b with
            | FF -> true
            | _ -> false)
   | FB x -> (match b with
              | FB y -> bvar_beq x y
              | _ -> false)
   | FLe (a1, a2) ->
     (match b with
      | FLe (b1, b2) -> (&&) (term_beq a1 b1) (term_beq a2 b2)
      | _ -> false)
   | FLt (a1, a2) ->
     (match b with
      | FLt (b1, b2) -> (&&) (term_beq a1 b1) (term_beq a2 b2)
      | _ -> false)
   | FGe (a1, a2) ->
     (match b with
      | FGe (b1, b2) -> (&&) (term_beq a1 b1) (term_beq a2 b2)
      | _ -> false)
   | FGt (a1, a2) ->
     (match b with
      | FGt (b1, b2) -> (&&) (term_beq a1 b1) (term_beq a2 b2)
      | _ -> false)
   | FEq (a1, a2) ->
     (match b with
      | FEq (b1, b2) -> (&&) (term_beq a1 b1) (term_beq a2 b2)
      | _ -> false)
   | FNe (a1, a2) ->
     (match b with
      | FNe (b1, b2) -> (&&) (term_beq a1 b1) (term_beq a2 b2)
      | _ -> false)
   | FAnd l -> (match b with
                | FAnd m -> lb l m
                | _ -> false)
   | FOr l -> (match b with
               | FOr m -> lb l m
               | _ -> false)
   | FNot x -> (match b with
                | FNot y -> form_beq x y
                | _ -> false)
   | FXor (a1, a2) ->
     (match b with
      | FXor (b1, b2) -> (&&) (form_beq a1 b1) (form_beq a2 b2)
      | _ -> false)
   | FImp (a1, a2) ->
     (match b with
      | FImp (b1, b2) -> (&&) (form_beq a1 b1) (form_beq a2 b2)
      | _ -> false)
   | FIte (c, a1, a2) ->
     (match b with
      | FIte (d, b1, b2) ->
        (&&) ((&&) (form_beq c d) (form_beq a1 b1)) (form_beq a2 b2)
      | _ -> false)
   | FIff (a1, a2) ->
     (match b with
      | FIff (b1, b2) -> (&&) (form_beq a1 b1) (form_beq a2 b2)
      | _ -> false)
   | FPbLe (l, k) ->
     (match b with
      | FPbLe (m, j) -> (&&) (lb l m) (Z.eqb k j)
      | _ -> false)
   | FPbGe (l, k) ->
     (match b with
      | FPbGe (m, j) -> (&&) (lb l m) (Z.eqb k j)
      | _ -> false)
   | FPbEq (l, k) ->
     (match b with
      | FPbEq (m, j) -> (&&) (lb l m) (Z.eqb k j)
      | _ -> false)
   | FArrFix (x, i, v) ->
     (match b with
      | FArrFix (y, j, w) ->
        (&&) ((&&) (Nat.eqb x y) (term_beq i j)) (term_beq v w)
      | _ -> false))

(** val nodup_forms : form list -> bool **)

let rec nodup_forms = function
| [] -> true
| f :: r -> (&&) (negb (existsb (form_beq f) r)) (nodup_forms r)

(** val tkind_ok : tkind -> bool **)

let tkind_ok = function
| KZero -> true
| KFixed d -> posz d
| KVar (mn, mx, al) ->
  (&&) ((&&) (nonneg mn) (match mx with
                          | Some m -> posz m
                          | None -> true))
    (match al with
     | Some l -> forallb posz l
     | None -> true)

(** val distribute : z -> nat -> z list **)

let distribute p n0 =
  let q = Z.div p (Z.of_nat n0) in
  (match n0 with
   | O -> []
   | S m -> (Z.add q (Z.modulo p (Z.of_nat n0))) :: (repeat q m))

(** val add_select : pstate -> tinfo -> srec -> pstate **)

let add_select st t s =
  let id = t.ti_id in
  let (p, listed) =
    fold_left (fun pat r ->
      let (y, acc) = pat in
      let (busy, neg) = y in
      (((busy_add busy r id true), (Z.sub neg (Zpos XH))),
      (app acc ((r, (Z.sub neg (Zpos XH))) :: [])))) s.s_listed ((st.ps_busy,
      st.ps_neg), [])
  in
  let (busy, neg) = p in
  { ps_horizon = st.ps_horizon; ps_tasks = st.ps_tasks; ps_workers =
  st.ps_workers; ps_cumuls = st.ps_cumuls; ps_selects = st.ps_selects;
  ps_reqs = (al_set Nat.eqb st.ps_reqs id (app (reqs_of st id) s.s_listed));
  ps_areqs =
  (push_list Nat.eqb st.ps_areqs id (AQSelect (s.s_ref, listed, s.s_n,
    s.s_kind))); ps_busy = busy; ps_cons = st.ps_cons; ps_neg = neg;
  ps_nauto = st.ps_nauto }

(** val step_problem : pstate -> op -> result **)

let step_problem st = function
| ONewProblem h ->
  (match h with
   | Some z0 -> if posz z0 then Ok (empty_problem h) else Err
   | None -> Ok (empty_problem h))
| ONewTask (id, k, opt, work, rel, due, dl, prio) ->
  if negb ((&&) ((&&) (tkind_ok k) (nonneg work)) (nonneg prio))
  then Err
  else (match find_task st id with
        | Some _ -> Err
        | None ->
          let t = { ti_id = id; ti_rank =
            (Z.of_nat (S (length st.ps_tasks))); ti_kind = k; ti_opt = opt;
            ti_work = work; ti_release = rel; ti_due = due; ti_deadline = dl;
            ti_prio = prio }
          in
          Ok { ps_horizon = st.ps_horizon; ps_tasks =
          (app st.ps_tasks (t :: [])); ps_workers = st.ps_workers;
          ps_cumuls = st.ps_cumuls; ps_selects = st.ps_selects; ps_reqs =
          st.ps_reqs; ps_areqs = st.ps_areqs; ps_busy = st.ps_busy; ps_cons =
          st.ps_cons; ps_neg = st.ps_neg; ps_nauto = st.ps_nauto })
| ONewWorker (id, prod0, cost) ->
  if negb (nonneg prod0)
  then Err
  else (match find_worker st (WPlain id) with
        | Some _ -> Err
        | None ->
          Ok { ps_horizon = st.ps_horizon; ps_tasks = st.ps_tasks;
            ps_workers =
            (app st.ps_workers ({ w_ref = (WPlain id); w_prod = prod0;
              w_cost = cost } :: [])); ps_cumuls = st.ps_cumuls; ps_selects =
            st.ps_selects; ps_reqs = st.ps_reqs; ps_areqs = st.ps_areqs;
            ps_busy = st.ps_busy; ps_cons = st.ps_cons; ps_neg = st.ps_neg;
            ps_nauto = st.ps_nauto })
| ONewCumulative (id, size0, prod0, cost) ->
  (match cost with
   | CostConst cv ->
     if negb ((&&) (Z.leb (Zpos (XO XH)) size0) (posz prod0))
     then Err
     else (match find_cumul st id with
           | Some _ -> Err
           | None ->
             let n0 = Z.to_nat size0 in
             let units =
               map (fun pat ->
                 let (i, y) = pat in
                 let (p, c) = y in
                 { w_ref = (WUnit (id, i)); w_prod = p; w_cost = (CostConst
                 c) })
                 (combine (seq O n0)
                   (combine (distribute prod0 n0) (distribute cv n0)))
             in
             Ok { ps_horizon = st.ps_horizon; ps_tasks = st.ps_tasks;
             ps_workers = (app st.ps_workers units); ps_cumuls =
             (app st.ps_cumuls ({ cu_id = id; cu_size = n0; cu_prod = prod0;
               cu_cost = cv } :: [])); ps_selects = st.ps_selects; ps_reqs =
             st.ps_reqs; ps_areqs = st.ps_areqs; ps_busy = st.ps_busy;
             ps_cons = st.ps_cons; ps_neg = st.ps_neg; ps_nauto =
             st.ps_nauto })
   | _ -> Err)
| ONewSelect (id, listed, n0, k) ->
  if negb (forallb (rref_exists st) listed)
  then Unsupported
  else if existsb (fun r -> match r with
                            | RW _ -> false
                            | RC _ -> true) listed
       then Unsupported
       else if negb
                 ((&&)
                   ((&&) (Z.leb (Zpos (XO XH)) (Z.of_nat (length listed)))
                     (posz n0)) (Z.leb n0 (Z.of_nat (length listed))))
            then Err
            else if negb
                      (Nat.eqb (length (nodup rref_eq_dec listed))
                        (length listed))
                 then Unsupported
                 else (match find_select st (SUser id) with
                       | Some _ -> Err
                       | None ->
                         Ok { ps_horizon = st.ps_horizon; ps_tasks =
                           st.ps_tasks; ps_workers = st.ps_workers;
                           ps_cumuls = st.ps_cumuls; ps_selects =
                           (app st.ps_selects ({ s_ref = (SUser id);
                             s_listed = listed; s_n = n0; s_kind = k } :: []));
                           ps_reqs = st.ps_reqs; ps_areqs = st.ps_areqs;
                           ps_busy = st.ps_busy; ps_cons = st.ps_cons;
                           ps_neg = st.ps_neg; ps_nauto = st.ps_nauto })
| OAddRequired (tid, r, dyn, di, eo) ->
  (match find_task st tid with
   | Some t ->
     (match r with
      | ArgW w ->
        (match find_worker st w with
         | Some _ ->
           if existsb (rref_beq (RW w)) (reqs_of st tid)
           then Err
           else Ok { ps_horizon = st.ps_horizon; ps_tasks = st.ps_tasks;
                  ps_workers = st.ps_workers; ps_cumuls = st.ps_cumuls;
                  ps_selects = st.ps_selects; ps_reqs =
                  (push_list Nat.eqb st.ps_reqs tid (RW w)); ps_areqs =
                  (push_list Nat.eqb st.ps_areqs tid (AQDirect (w, dyn, di,
                    eo))); ps_busy = (busy_add st.ps_busy (RW w) tid false);
                  ps_cons = st.ps_cons; ps_neg = st.ps_neg; ps_nauto =
                  st.ps_nauto }
         | None -> Unsupported)
      | ArgC c ->
        (match find_cumul st c with
         | Some cu ->
           let sr = { s_ref = (SAuto st.ps_nauto); s_listed =
             (map (fun x -> RW x) (units_of cu)); s_n = (Zpos XH); s_kind =
             PbMin }
           in
           let st1 = add_select st t sr in
           Ok { ps_horizon = st1.ps_horizon; ps_tasks = st1.ps_tasks;
           ps_workers = st1.ps_workers; ps_cumuls = st1.ps_cumuls;
           ps_selects = (app st1.ps_selects (sr :: [])); ps_reqs =
           st1.ps_reqs; ps_areqs = st1.ps_areqs; ps_busy = st1.ps_busy;
           ps_cons = st1.ps_cons; ps_neg = st1.ps_neg; ps_nauto = (S
           st.ps_nauto) }
         | None -> Unsupported)
      | ArgS s ->
        (match find_select st (SUser s) with
         | Some sr ->
           if existsb (fun a ->
                match a with
                | AQDirect (_, _, _, _) -> false
                | AQSelect (s', _, _, _) -> sref_beq s' (SUser s))
                (areqs_of st tid)
           then Err
           else Ok (add_select st t sr)
         | None -> Unsupported))
   | None -> Unsupported)
| ONewConstraint (id, opt, e) ->
  (match find_cons st id with
   | Some _ -> Err
   | None ->
     (match resolve st e with
      | Some re ->
        if negb (check_c re)
        then Err
        else if negb (nodup_forms (enc_cons id opt re))
             then Err
             else let flagged = operand_ids re in
                  let cons' =
                    map (fun c ->
                      if existsb (Nat.eqb c.c_id) flagged
                      then { c_id = c.c_id; c_opt = c.c_opt; c_flag = true;
                             c_expr = c.c_expr }
                      else c) st.ps_cons
                  in
                  Ok { ps_horizon = st.ps_horizon; ps_tasks = st.ps_tasks;
                  ps_workers = st.ps_workers; ps_cumuls = st.ps_cumuls;
                  ps_selects = st.ps_selects; ps_reqs = st.ps_reqs;
                  ps_areqs = st.ps_areqs; ps_busy = st.ps_busy; ps_cons =
                  (app cons' ({ c_id = id; c_opt = opt; c_flag = false;
                    c_expr = re } :: [])); ps_neg = st.ps_neg; ps_nauto =
                  st.ps_nauto }
      | None -> Unsupported))

(** val step : pstate option -> op -> result **)

let step st o = match o with
| ONewProblem _ -> step_problem (empty_problem None) o
| _ -> (match st with
        | Some s -> step_problem s o
        | None -> Err)

type runres =
| RunOk of pstate option
| RunErr of nat
| RunUnsup of nat

(** val run_from : pstate option -> nat -> op list -> runres **)

let rec run_from st idx = function
| [] -> RunOk st
| o :: r ->
  (match step st o with
   | Ok st' -> run_from (Some st') (S idx) r
   | Err -> RunErr idx
   | Unsupported -> RunUnsup idx)

(** val run : op list -> runres **)

let run ops =
  run_from None O ops

type tag =
| TgTask of nat
| TgHorizon of nat
| TgOverlap of wref
| TgCons of nat
| TgInd of nat
| TgWork of nat
| TgBuf of nat
| TgProblem
| TgObj

(** val task_asserts : pstate -> tinfo -> form list **)

let task_asserts st t =
  app (task_core t) (flat_map (enc_areq t) (areqs_of st t.ti_id))

(** val pairs_no_overlap : rref -> (nat * bool) list -> form list **)

let rec pairs_no_overlap r = function
| [] -> []
| p :: rest ->
  let (ti, mi) = p in
  app
    (map (fun pat ->
      let (tk, mk) = pat in
      FOr ((FGe ((bS r tk mk), (bE r ti mi))) :: ((FGe ((bS r ti mi),
      (bE r tk mk))) :: []))) rest) (pairs_no_overlap r rest)

(** val prod_of : pstate -> rref -> z **)

let prod_of st = function
| RW w -> (match find_worker st w with
           | Some x -> x.w_prod
           | None -> Z0)
| RC c -> (match find_cumul st c with
           | Some x -> x.cu_prod
           | None -> Z0)

(** val work_assert : pstate -> tinfo -> form list **)

let work_assert st t =
  if Z.gtb t.ti_work Z0
  then let contribs =
         flat_map (fun r ->
           match al_get Nat.eqb (busy_of st r) t.ti_id with
           | Some m ->
             (TMul ((TC (prod_of st r)), (TSub ((bE r t.ti_id m),
               (bS r t.ti_id m))))) :: []
           | None -> []) (reqs_of st t.ti_id)
       in
       (match contribs with
        | [] -> []
        | _ :: _ -> (FGe ((TAdd contribs), (TC t.ti_work))) :: [])
  else []

(** val tagged : tag -> form list -> (tag * form) list **)

let tagged g l =
  map (fun x -> (g, x)) l

(** val initialize : pstate -> (tag * form) list **)

let initialize st =
  app
    (flat_map (fun t ->
      app (tagged (TgTask t.ti_id) (task_asserts st t)) (((TgHorizon
        t.ti_id), (FLe ((e_ t), (TV VHorizon)))) :: [])) st.ps_tasks)
    (app
      (flat_map (fun w ->
        tagged (TgOverlap w.w_ref)
          (pairs_no_overlap (RW w.w_ref) (busy_of st (RW w.w_ref))))
        st.ps_workers)
      (app
        (flat_map (fun c ->
          if c.c_flag then [] else tagged (TgCons c.c_id) (conrec_asserts c))
          st.ps_cons)
        (app
          (flat_map (fun t -> tagged (TgWork t.ti_id) (work_assert st t))
            st.ps_tasks)
          (match st.ps_horizon with
           | Some h -> (TgProblem, (FLe ((TV VHorizon), (TC h)))) :: []
           | None -> []))))

(** val show_tag : tag -> char list **)

let show_tag = function
| TgTask t -> append ('t'::('a'::('s'::('k'::(':'::[]))))) (show_nat t)
| TgHorizon t ->
  append ('h'::('o'::('r'::('i'::('z'::('o'::('n'::(':'::[]))))))))
    (show_nat t)
| TgOverlap w ->
  append ('o'::('v'::('e'::('r'::('l'::('a'::('p'::(':'::[]))))))))
    (show_wref w)
| TgCons c -> append ('c'::('o'::('n'::('s'::(':'::[]))))) (show_nat c)
| TgInd i -> append ('i'::('n'::('d'::(':'::[])))) (show_nat i)
| TgWork t -> append ('w'::('o'::('r'::('k'::(':'::[]))))) (show_nat t)
| TgBuf b -> append ('b'::('u'::('f'::(':'::[])))) (show_nat b)
| TgProblem -> 'p'::('r'::('o'::('b'::('l'::('e'::('m'::[]))))))
| TgObj -> 'o'::('b'::('j'::[]))

(** val dedup : ('a1 -> 'a1 -> bool) -> 'a1 list -> 'a1 list -> 'a1 list **)

let rec dedup eqb0 l seen =
  match l with
  | [] -> []
  | x :: r ->
    if existsb (eqb0 x) seen
    then dedup eqb0 r seen
    else x :: (dedup eqb0 r (x :: seen))

(** val decls : form list -> char list list **)

let decls fs =
  app (map show_decl_i (dedup ivar_beq (flat_map fiv fs) []))
    (app (map show_decl_b (dedup bvar_beq (flat_map fbv fs) []))
      (map show_decl_a (dedup Nat.eqb (flat_map farr fs) [])))

(** val report_state : pstate -> (char list * form) list -> char list list **)

let report_state st extra =
  let a = initialize st in
  app (decls (app (map snd a) (map snd extra)))
    (app
      (map (fun pat ->
        let (g, f) = pat in
        append ('A'::(' '::[]))
          (append (show_tag g) (append (' '::[]) (show_f f)))) a)
      (map (fun pat ->
        let (k, f) = pat in
        append ('S'::(' '::[])) (append k (append (' '::[]) (show_f f))))
        extra))

(** val report_run :
    (pstate -> (char list * form) list) -> op list -> char list list **)

let report_run spec ops =
  match run ops with
  | RunOk st0 ->
    (match st0 with
     | Some st ->
       ('R'::('U'::('N'::(' '::('o'::('k'::[])))))) :: (report_state st
                                                         (spec st))
     | None ->
       ('R'::('U'::('N'::(' '::('o'::('k'::[])))))) :: (('N'::('O'::('P'::('R'::('O'::('B'::('L'::('E'::('M'::[]))))))))) :: []))
  | RunErr i ->
    (append ('R'::('U'::('N'::(' '::('e'::('r'::('r'::(' '::[]))))))))
      (show_nat i)) :: []
  | RunUnsup i ->
    (append
      ('R'::('U'::('N'::(' '::('u'::('n'::('s'::('u'::('p'::(' '::[]))))))))))
      (show_nat i)) :: []

(** val act : tinfo -> form **)

let act t =
  if t.ti_opt then FB (BSched t.ti_id) else FT

(** val whenact : tinfo -> form -> form **)

let whenact t f =
  FImp ((act t), f)

(** val horizon_t : pstate -> term **)

let horizon_t st =
  match st.ps_horizon with
  | Some h -> TC h
  | None -> TV VHorizon

(** val spec_duration : tinfo -> form **)

let spec_duration t =
  match t.ti_kind with
  | KZero -> FEq ((e_ t), (s_ t))
  | KFixed d -> FEq ((TSub ((e_ t), (s_ t))), (TC d))
  | KVar (mn, mx, al) ->
    FAnd
      (app ((FEq ((TSub ((e_ t), (s_ t))), (d_ t))) :: ((FLe ((TC mn),
        (d_ t))) :: []))
        (app
          (match mx with
           | Some m -> (FLe ((d_ t), (TC m))) :: []
           | None -> [])
          (match al with
           | Some l -> (FOr (map (fun a -> FEq ((d_ t), (TC a))) l)) :: []
           | None -> [])))

(** val spec_C01_task : pstate -> tinfo -> (char list * form) list **)

let spec_C01_task st t =
  app
    ((('s'::('t'::('a'::('r'::('t'::('_'::('g'::('e'::('_'::('0'::[])))))))))),
    (whenact t (FLe ((TC Z0), (s_ t))))) :: ((('e'::('n'::('d'::('_'::('l'::('e'::('_'::('h'::('o'::('r'::('i'::('z'::('o'::('n'::[])))))))))))))),
    (whenact t (FLe ((e_ t), (horizon_t st))))) :: ((('d'::('u'::('r'::('a'::('t'::('i'::('o'::('n'::[])))))))),
    (whenact t (spec_duration t))) :: [])))
    (app
      (match t.ti_release with
       | Some r ->
         (('r'::('e'::('l'::('e'::('a'::('s'::('e'::[]))))))),
           (whenact t (FLe ((TC r), (s_ t))))) :: []
       | None -> [])
      (match t.ti_due with
       | Some d ->
         if t.ti_deadline
         then (('d'::('e'::('a'::('d'::('l'::('i'::('n'::('e'::[])))))))),
                (whenact t (FLe ((e_ t), (TC d))))) :: []
         else []
       | None -> []))

(** val keyed :
    char list -> (char list * form) list -> (char list * form) list **)

let keyed prefix l =
  map (fun pat -> let (k, f) = pat in ((append prefix k), f)) l

(** val spec_C01 : pstate -> (char list * form) list **)

let spec_C01 st =
  flat_map (fun t ->
    keyed
      (append
        ('C'::('0'::('1'::('/'::('t'::('a'::('s'::('k'::(':'::[])))))))))
        (append (show_nat t.ti_id) ('/'::[]))) (spec_C01_task st t))
    st.ps_tasks

(** val spec_all : pstate -> (char list * form) list **)

let spec_all =
  spec_C01

(** val report : op list -> char list list **)

let report ops =
  report_run spec_all ops
