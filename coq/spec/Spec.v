(* Spec.v -- reference semantics: direct, aux-free clauses over the schedule
   variables only (start, end, duration, scheduled, busy intervals, selection
   and applied flags, horizon).  Written from the property texts and the
   documentation, not from the encoders.  Each clause carries a key
   "<property>/<element>/<clause>" used by the search oracle and by the
   known-findings classification. *)
From Coq Require Import ZArith List Bool String.
From PS.model Require Import Smt Enc Prog.
Import ListNotations.
Open Scope Z_scope.

(* a task acts in a schedule iff it is mandatory or its scheduled flag is set *)
Definition act (t : tinfo) : form := if ti_opt t then FB (BSched (ti_id t)) else FT.
Definition whenact (t : tinfo) (f : form) : form := FImp (act t) f.
Definition whenact2 (a b : tinfo) (f : form) : form := FImp (FAnd [act a; act b]) f.

Definition horizon_t (st : pstate) : term :=
  match ps_horizon st with Some h => TC h | None => TV VHorizon end.

(* ---------------- C01: task timing ---------------- *)
Definition spec_duration (t : tinfo) : form :=
  match ti_kind t with
  | KZero => FEq (E_ t) (S_ t)
  | KFixed d => FEq (TSub (E_ t) (S_ t)) (TC d)
  | KVar mn mx al =>
      FAnd ([FEq (TSub (E_ t) (S_ t)) (D_ t); FLe (TC mn) (D_ t)]
            ++ (match mx with Some m => [FLe (D_ t) (TC m)] | None => [] end)
            ++ (match al with Some l => [FOr (map (fun a => FEq (D_ t) (TC a)) l)] | None => [] end))
  end.

Definition spec_C01_task (st : pstate) (t : tinfo) : list (string * form) :=
  [ ("start_ge_0"%string, whenact t (FLe (TC 0) (S_ t)));
    ("end_le_horizon"%string, whenact t (FLe (E_ t) (horizon_t st)));
    ("duration"%string, whenact t (spec_duration t)) ]
  ++ (match ti_release t with Some r => [("release"%string, whenact t (FLe (TC r) (S_ t)))] | None => [] end)
  ++ (match ti_due t with
      | Some d => if ti_deadline t then [("deadline"%string, whenact t (FLe (E_ t) (TC d)))] else []
      | None => [] end).

Definition keyed (prefix : string) (l : list (string * form)) : list (string * form) :=
  map (fun '(k, f) => (prefix ++ k, f))%string l.

Definition spec_C01 (st : pstate) : list (string * form) :=
  flat_map (fun t => keyed ("C01/task:" ++ show_nat (ti_id t) ++ "/") (spec_C01_task st t)) (ps_tasks st).

Definition spec_all (st : pstate) : list (string * form) := spec_C01 st.
