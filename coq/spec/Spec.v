(* Spec.v -- reference semantics: direct, aux-free clauses over the schedule
   variables only (start, end, duration, scheduled, busy intervals, selection
   and applied flags, horizon).  Written from the property texts and the
   documentation, not from the encoders.  Each clause carries a key
   "<property>/<element>/<clause>" used by the search oracle and by the
   known-findings classification. *)
From Coq Require Import ZArith List Bool String.
From PS.model Require Import Smt Enc Ind Prog.
Import ListNotations.
Open Scope string_scope.
Open Scope list_scope.
Open Scope Z_scope.

(* a task acts in a schedule iff it is mandatory or its scheduled flag is set *)
Definition act (t : tinfo) : form := if ti_opt t then FB (BSched (ti_id t)) else FT.
Definition whenact (t : tinfo) (f : form) : form := FImp (act t) f.
Definition whenact2 (a b : tinfo) (f : form) : form := FImp (FAnd [act a; act b]) f.

Definition horizon_t (st : pstate) : term :=
  match ps_horizon st with Some h => TC h | None => TV VHorizon end.

(* ---------------- C01: task timing ---------------- *)
Definition spec_duration (t : tinfo) : form :=
  match ti_kind t with
  | KZero => FEq (E_ t) (S_ t)
  | KFixed d => FEq (TSub (E_ t) (S_ t)) (TC d)
  | KVar mn mx al =>
      FAnd ([FEq (TSub (E_ t) (S_ t)) (D_ t); FLe (TC mn) (D_ t)]
            ++ (match mx with Some m => [FLe (D_ t) (TC m)] | None => [] end)
            ++ (match al with Some l => [FOr (map (fun a => FEq (D_ t) (TC a)) l)] | None => [] end))
  end.

Definition spec_C01_task (st : pstate) (t : tinfo) : list (string * form) :=
  [ ("start_ge_0"%string, whenact t (FLe (TC 0) (S_ t)));
    ("end_le_horizon"%string, whenact t (FLe (E_ t) (horizon_t st)));
    ("duration"%string, whenact t (spec_duration t)) ]
  ++ (match ti_release t with Some r => [("release"%string, whenact t (FLe (TC r) (S_ t)))] | None => [] end)
  ++ (match ti_due t with
      | Some d => if ti_deadline t then [("deadline"%string, whenact t (FLe (E_ t) (TC d)))] else []
      | None => [] end).

Definition keyed (prefix : string) (l : list (string * form)) : list (string * form) :=
  map (fun '(k, f) => (prefix ++ k, f))%string l.

Definition spec_C01 (st : pstate) : list (string * form) :=
  flat_map (fun t => keyed ("C01/task:" ++ show_nat (ti_id t) ++ "/") (spec_C01_task st t)) (ps_tasks st).


(* ================================================================== *)
(* Constraints: clauses are produced per constraint record.  "P" lists are
   the clauses covered by the soundness theorem of the property, "S" lists
   are swept against the real constraint system only (proof pending or
   refuted on the pinned code; see known_findings.json).               *)

Definition mandatory_live (c : conrec) : bool := negb (c_opt c) && negb (c_flag c).
Definition ckey (p : string) (c : conrec) (k : string) : string :=
  (p ++ "/cons:" ++ show_nat (c_id c) ++ "/" ++ k)%string.

Definition allact (ts : list tinfo) : form := FAnd (map act ts).

Definition inside_any (t : tinfo) (ivs : list (Z * Z)) : form :=
  FOr (map (fun '(lo, hi) => FAnd [FLe (TC lo) (S_ t); FLe (E_ t) (TC hi)]) ivs).

(* all ordered pairs (x, y) with x before y in the list *)
Fixpoint pairs_of {A} (l : list A) : list (A * A) :=
  match l with [] => [] | x :: r => map (pair x) r ++ pairs_of r end.
(* every element with the list of the others *)
Fixpoint with_others {A} (pre l : list A) : list (A * list A) :=
  match l with [] => [] | x :: r => (x, pre ++ r) :: with_others (pre ++ [x]) r end.

(* a negative offset / delay is ignored by the library (and rejected at creation where validated) *)
Definition nonneg_part (z : Z) : Z := if z >? 0 then z else 0.

(* ---------------- C03: task constraints ---------------- *)
(* every named task runs over a non-empty span that starts at a non-negative date (what C01 gives for a scheduled task
   of positive duration; an unscheduled task sits on a negative point) *)
Definition running (ts : list tinfo) : form := FAnd (map (fun t => FAnd [FLe (TC 0) (S_ t); FLt (S_ t) (E_ t)]) ts).

Definition spec_C03_P (e : rcexpr) : list (string * form) :=
  match e with
  | CStartAt t v => [("start_at", whenact t (FEq (S_ t) (TC v)))]
  | CStartAfter t v strict =>
      [("start_after", whenact t (if strict then FLt (TC v) (S_ t) else FLe (TC v) (S_ t)))]
  | CEndAt t v => [("end_at", whenact t (FEq (E_ t) (TC v)))]
  | CEndBefore t v strict =>
      [("end_before", whenact t (if strict then FLt (E_ t) (TC v) else FLe (E_ t) (TC v)))]
  | CPrecedence tb ta off k =>
      [("precedence", whenact2 tb ta (prec_rel k (TAdd [E_ tb; TC (nonneg_part off)]) (S_ ta)))]
  | CStartSynced a b => [("start_synced", whenact2 a b (FEq (S_ a) (S_ b)))]
  | CEndSynced a b => [("end_synced", whenact2 a b (FEq (E_ a) (E_ b)))]
  | CDontOverlap a b => [("dont_overlap", whenact2 a b (FOr [FLe (E_ a) (S_ b); FLe (E_ b) (S_ a)]))]
  | CUGroup ts win len | COGroup ts win len _ =>
      (match win with
       | Some (lo, hi) => map (fun t => ("group_window", whenact t (FAnd [FLe (TC lo) (S_ t); FLe (E_ t) (TC hi)]))) ts
       | None =>
           match len with
           | Some l => map (fun '(a, b) => ("group_length", whenact2 a b (FLe (TSub (E_ a) (S_ b)) (TC l))))
                           (list_prod ts ts)
           | None => [] end
       end)
      ++ (match e with
          | COGroup _ _ _ k => map (fun '(a, b) => ("group_order", whenact2 a b (prec_rel k (E_ a) (S_ b)))) (consec_tasks ts)
          | _ => [] end)
  | CContiguous ts =>
      (* all named tasks running: pairwise disjoint, and every task except the one starting last is immediately
         followed by another one *)
      map (fun '(a, b) => ("contiguous_disjoint", FImp (running ts) (FOr [FLe (E_ a) (S_ b); FLe (E_ b) (S_ a)]))) (pairs_of ts)
      ++ map (fun '(t, others) =>
                ("contiguous_successor",
                 FImp (running ts) (FOr [FAnd (map (fun u => FLe (S_ u) (S_ t)) others);
                                         FOr (map (fun u => FEq (S_ u) (E_ t)) others)]))) (with_others [] ts)
  | CScheduleN ts n ivs k =>
      match k with
      | PbMin | PbExact => [("scheduleN_lower", FPbGe (map (fun t => inside_any t ivs) ts) n)]
      | PbMax => [] end
  | _ => []
  end.

Definition positive_duration (t : tinfo) : bool :=
  match ti_kind t with KZero => false | KFixed d => 1 <=? d | KVar mn _ _ => 1 <=? mn end.

Definition spec_C03_S (e : rcexpr) : list (string * form) :=
  match e with
  | CScheduleN ts n ivs k =>
      match k with
      | PbMax | PbExact => [("scheduleN_upper", FPbLe (map (fun t => inside_any t ivs) ts) n)]
      | PbMin => [] end
  | _ => []
  end.

(* ---------------- C06: rules on the scheduling of optional tasks ---------------- *)
Definition spec_C06_P (e : rcexpr) : list (string * form) :=
  match e with
  | CForceSched t b => [("force_schedule", FIff (act t) (if b then FT else FF))]
  | CCondSched t cond => [("condition_schedule", FIff (act t) cond)]
  | CDependency a b => [("dependency", FIff (act a) (act b))]
  | CForceN ts n k => [("force_n", pb k (map act ts) n)]
  | _ => []
  end.

(* ---------------- C10: logic and optional constraints ---------------- *)
Definition spec_C10_P (e : rcexpr) : list (string * form) :=
  match e with
  | CNot x => [("not", FNot (op_meaning x))]
  | COr xs => [("or", FOr (map op_meaning xs))]
  | CAnd xs => [("and", FAnd (map op_meaning xs))]
  | CXor x y => [("xor", FXor (op_meaning x) (op_meaning y))]
  | CImplies c xs => [("implies", FImp c (FAnd (map op_meaning xs)))]
  | CIte c xs ys => [("if_then_else", FIte c (FAnd (map op_meaning xs)) (FAnd (map op_meaning ys)))]
  | CExpr f => [("expression", f)]
  | CForceApplyN cs n k => [("force_apply_n", pb k (map (fun o => FB (BApplied (or_id o))) cs) n)]
  | _ => []
  end.

(* ---------------- C04: resource constraints ---------------- *)
Definition t_max a b := TIte (FLe a b) b a.
Definition t_min a b := TIte (FLe a b) a b.
Definition t_overlap (s e : term) (lo hi : Z) : term := t_max (TC 0) (TSub (t_min e (TC hi)) (t_max s (TC lo))).

(* ---- periodic windows ----
   A window (lo, hi) of a periodic constraint stands for the intervals [offset + k*period + lo, offset + k*period + hi),
   k any integer, restricted to the active range [start, end).  per_free: the part of the busy interval that lies in the
   active range meets none of them (closed form for 0 <= lo < hi <= period; C04_periodic.v proves it equivalent to the
   pointwise statement). *)
Definition per_free (bs be : term) (lo hi period start offset : Z) (end_ : option Z) : form :=
  let bs' := t_max bs (TC start) in
  let be' := match end_ with Some e => t_min be (TC e) | None => be end in
  let sm := TMod (TSub bs' (TC offset)) (TC period) in
  let d := TSub be' bs' in
  FImp (FLt bs' be') (FOr [FLe (TAdd [sm; d]) (TC lo); FAnd [FLe (TC hi) sm; FLe (TAdd [sm; d]) (TC (lo + period))]]).
Definition window_ok (period : Z) (iv : Z * Z) : bool := let '(lo, hi) := iv in (0 <=? lo) && (lo <? hi) && (hi <=? period).

(* ---- consecutive busy intervals of a resource (ResourceTasksDistance, ResourceNonDelay) ----
   busy_shape: every busy interval of the resource is either parked (both ends negative: not assigned) or assigned over
   a non-empty span at a non-negative date; busy_disjoint: they are pairwise disjoint (what C02 gives on a worker);
   consec_busy a b: both assigned, a starts first, nothing assigned starts in between. *)
Definition busy_shape (o : rref) (l : list busyent) : form :=
  let S x := BS o (ti_id (be_task x)) (be_maybe x) in let E x := BE o (ti_id (be_task x)) (be_maybe x) in
  FAnd (map (fun x => FOr [FAnd [FLt (S x) (TC 0); FLt (E x) (TC 0)]; FAnd [FLe (TC 0) (S x); FLt (S x) (E x)]]) l).
Definition busy_disjoint (o : rref) (l : list busyent) : form :=
  let S x := BS o (ti_id (be_task x)) (be_maybe x) in let E x := BE o (ti_id (be_task x)) (be_maybe x) in
  FAnd (map (fun '(x, y) => FOr [FLe (E x) (S y); FLe (E y) (S x)]) (pairs_of l)).
Definition consec_busy (o : rref) (a b : busyent) (others : list busyent) : form :=
  let S x := BS o (ti_id (be_task x)) (be_maybe x) in
  FAnd [FLe (TC 0) (S a); FLt (S a) (S b);
        FAnd (map (fun c => FNot (FAnd [FLe (TC 0) (S c); FLt (S a) (S c); FLt (S c) (S b)])) others)].
Definition ordered_pairs {A} (l : list A) : list (A * A * list A) :=
  flat_map (fun '(a, oa) => map (fun '(b, ob) => (a, b, ob)) (with_others [] oa)) (with_others [] l).

Definition spec_C04_P (e : rcexpr) : list (string * form) :=
  match e with
  | CUnavailable r ivs =>
      flat_map (fun '(lo, hi) =>
        map (fun '(w, b) => ("unavailable", FOr [FLe (TC hi) (bsv w b); FLe (bev w b) (TC lo)])) (all_busy r)) ivs
  | CWorkLoad r ivs k =>
      if forallb (fun '(lo, hi, _) => lo <=? hi) ivs then
        map (fun '(lo, hi, n) =>
          ("workload", cmp_sum k (TAdd (map (fun '(w, b) => t_overlap (bsv w b) (bev w b) lo hi) (all_busy r))) n)) ivs
      else []
  | CInterrupted r ivs =>
      flat_map (fun '(w, b) =>
        match ti_kind (be_task b) with
        | KVar mn mx _ =>
            (* a task of variable duration neither starts nor ends inside an interruption, and is lengthened by the
               interruptions it overlaps (windows lo < hi; busy intervals that do not end before they start) *)
            if forallb (fun '(lo, hi) => lo <? hi) ivs then
              let ov := TAdd (map (fun '(lo, hi) =>
                          TIte (FAnd [FLt (bsv w b) (TC hi); FGt (bev w b) (TC lo)]) (TC (hi - lo)) (TC 0)) ivs) in
              let proper := FLe (bsv w b) (bev w b) in
              flat_map (fun '(lo, hi) =>
                 [("interrupted_var_ends", FAnd [FOr [FLe (bsv w b) (TC lo); FLe (TC hi) (bsv w b)];
                                                 FOr [FLe (bev w b) (TC lo); FLe (TC hi) (bev w b)]])]) ivs
              ++ [("interrupted_var_min", FImp proper (FLe (TAdd [TC mn; ov]) (D_ (be_task b))))]
              ++ (match mx with Some m => [("interrupted_var_max", FImp proper (FLe (D_ (be_task b)) (TAdd [TC m; ov])))] | None => [] end)
            else []
        | _ => map (fun '(lo, hi) => ("interrupted_fixed", FOr [FLe (TC hi) (bsv w b); FLe (bev w b) (TC lo)])) ivs
        end) (all_busy r)
  | CPeriodicUnavailable r ivs period start offset end_ =>
      if (0 <? period) && forallb (window_ok period) ivs then
        flat_map (fun '(lo, hi) =>
          map (fun '(w, b) => ("periodic_unavailable", per_free (bsv w b) (bev w b) lo hi period start offset end_)) (all_busy r)) ivs
      else []
  | CPeriodicInterrupted r ivs period start offset end_ =>
      if (0 <? period) && forallb (window_ok period) ivs then
        flat_map (fun '(w, b) =>
          match ti_kind (be_task b) with
          | KVar _ _ _ => []
          | _ => map (fun '(lo, hi) => ("periodic_interrupted_fixed", per_free (bsv w b) (bev w b) lo hi period start offset end_)) ivs
          end) (all_busy r)
      else []
  | CNonDelay r =>
      let o := own_w r in
      map (fun '(a, b, others) =>
        ("non_delay", FImp (FAnd [busy_shape o (rs_own r); busy_disjoint o (rs_own r); consec_busy o a b others])
                           (FEq (BS o (ti_id (be_task b)) (be_maybe b)) (BE o (ti_id (be_task a)) (be_maybe a)))))
          (ordered_pairs (rs_own r))
  | CDistance r dist ivs mode =>
      let o := own_w r in
      map (fun '(a, b, others) =>
        let sb := BS o (ti_id (be_task b)) (be_maybe b) in
        let ea := BE o (ti_id (be_task a)) (be_maybe a) in
        let inwin := match ivs with
                     | Some l => FOr (map (fun '(lo, hi) => FAnd [FLe (TC lo) ea; FLe sb (TC hi)]) l)
                     | None => FT end in
        ("distance", FImp (FAnd [busy_shape o (rs_own r); busy_disjoint o (rs_own r); consec_busy o a b others; inwin])
                          (cmp_sum mode (TSub sb ea) dist)))
          (ordered_pairs (rs_own r))
  | CSameWorkers s1 s2 =>
      map (fun r => ("same_workers", FIff (FB (BSel (s_ref s1) r)) (FB (BSel (s_ref s2) r)))) (common_sel s1 s2)
  | CDistinctWorkers s1 s2 =>
      map (fun r => ("distinct_workers", FNot (FAnd [FB (BSel (s_ref s1) r); FB (BSel (s_ref s2) r)]))) (common_sel s1 s2)
  | _ => []
  end.

Definition per_cons (p : string) (F : rcexpr -> list (string * form)) (st : pstate) : list (string * form) :=
  flat_map (fun c => if mandatory_live c then map (fun '(k, f) => (ckey p c k, f)) (F (c_expr c)) else []) (ps_cons st).

Definition spec_C03 (st : pstate) := per_cons "C03" spec_C03_P st.
Definition spec_C03_swept (st : pstate) := per_cons "C03" spec_C03_S st.
Definition spec_C06_rules (st : pstate) := per_cons "C06" spec_C06_P st.
Definition spec_C10 (st : pstate) := per_cons "C10" spec_C10_P st.
Definition spec_C04 (st : pstate) := per_cons "C04" spec_C04_P st.

(* ---------------- C02: resources ---------------- *)

Definition spec_C02_areq (t : tinfo) (a : areq) : list (string * form) :=
  let id := ti_id t in
  match a with
  | AQDirect w dyn di eo =>
      let r := RW w in
      if dyn then [("dynamic_span", whenact t (FAnd [FLe (S_ t) (BS r id false); FLe (BS r id false) (BE r id false);
                                                      FLe (BE r id false) (E_ t)]))]
      else [("static_span", whenact t (FAnd [FEq (BS r id false) (TAdd [S_ t; TC (nonneg_part di)]);
                                             FEq (BE r id false) (TSub (E_ t) (TC (nonneg_part eo)))]))]
  | AQSelect s listed n k =>
      ("selection_count", pb k (map (fun '(r, _) => FB (BSel s r)) listed) n)
      :: flat_map (fun '(r, _) =>
           [("selected_span", FImp (FB (BSel s r)) (FAnd [FEq (BS r id true) (S_ t); FEq (BE r id true) (E_ t)]));
            ("unselected_idle", FImp (FNot (FB (BSel s r))) (FAnd [FEq (BS r id true) (BE r id true); FLt (BE r id true) (TC 0)]))])
           listed
  end.

Definition spec_C02_overlap (st : pstate) : list (string * form) :=
  flat_map (fun w =>
    map (fun '((ti, mi), (tk, mk)) =>
           (("C02/worker:" ++ show_wref (w_ref w) ++ "/exclusive")%string,
            FOr [FLe (BE (RW (w_ref w)) ti mi) (BS (RW (w_ref w)) tk mk);
                 FLe (BE (RW (w_ref w)) tk mk) (BS (RW (w_ref w)) ti mi)]))
        (pairs_of (busy_of st (RW (w_ref w))))) (ps_workers st).

Definition spec_C02_work (st : pstate) : list (string * form) :=
  flat_map (fun t => map (fun f => (("C02/task:" ++ show_nat (ti_id t) ++ "/work_amount")%string, f)) (work_assert st t))
           (ps_tasks st).

Definition spec_C02 (st : pstate) : list (string * form) :=
  flat_map (fun t => keyed ("C02/task:" ++ show_nat (ti_id t) ++ "/")
                           (flat_map (spec_C02_areq t) (areqs_of st (ti_id t)))) (ps_tasks st)
  ++ spec_C02_overlap st ++ spec_C02_work st.

(* cumulative capacity (swept; proof: pigeonhole over unit workers, pending):
   at the start of every use, the number of uses covering that instant is at most the size *)
Definition cumul_uses (st : pstate) (c : curec) : list tinfo :=
  filter (fun t => existsb (fun a => match a with
                                     | AQSelect (SAuto _) ((RW (WUnit c' _), _) :: _) _ _ => Nat.eqb c' (cu_id c)
                                     | _ => false end) (areqs_of st (ti_id t))) (ps_tasks st).
Definition spec_C02_capacity (st : pstate) : list (string * form) :=
  flat_map (fun c =>
    let us := cumul_uses st c in
    map (fun t => (("C02/cumulative:" ++ show_nat (cu_id c) ++ "/capacity")%string,
                   FImp (FAnd [act t; FLt (S_ t) (E_ t)])
                        (FPbLe (map (fun u => FAnd [act u; FLe (S_ u) (S_ t); FLt (S_ t) (E_ u)]) us) (Z.of_nat (cu_size c))))) us)
    (ps_cumuls st).

(* ---- the structural hypothesis (decidable; evaluated on every sampled program by the check, and on the examples) ---- *)
Definition is_use_of (cu : curec) (a : areq) : bool :=
  match a with
  | AQSelect (SAuto _) ((RW (WUnit c' _), _) :: _) _ _ => Nat.eqb c' (cu_id cu)
  | _ => false end.
Definition is_min (k : pbkind) : bool := match k with PbMin => true | _ => false end.
Definition use_ok (st : pstate) (cu : curec) (t : tinfo) : bool :=
  match find (is_use_of cu) (areqs_of st (ti_id t)) with
  | Some (AQSelect s listed n k) =>
      list_beq rref_beq (map fst listed) (map RW (units_of cu)) && (n =? 1) && is_min k
      && forallb (fun w => match al_get Nat.eqb (busy_of st (RW w)) (ti_id t) with Some true => true | _ => false end) (units_of cu)
  | _ => false end.
Definition cumul_ok (st : pstate) : bool :=
  forallb (fun cu => forallb (use_ok st cu) (cumul_uses st cu)
                     && forallb (fun w => existsb (fun wr => wref_beq (w_ref wr) w) (ps_workers st)) (units_of cu))
          (ps_cumuls st).


(* ---------------- C06: an unscheduled task occupies no worker ---------------- *)
Definition spec_C06_inert (st : pstate) : list (string * form) :=
  flat_map (fun t =>
    if ti_opt t then
      flat_map (fun a => match a with
        | AQDirect w _ _ _ => [(("C06/task:" ++ show_nat (ti_id t) ++ "/inert_busy")%string,
                                FImp (FNot (act t)) (FLt (BE (RW w) (ti_id t) false) (TC 0)))]
        | AQSelect s listed _ _ =>
            map (fun '(r, _) => (("C06/task:" ++ show_nat (ti_id t) ++ "/inert_busy")%string,
                                 FImp (FNot (act t)) (FLt (BE r (ti_id t) true) (TC 0)))) listed
        end) (areqs_of st (ti_id t))
    else []) (ps_tasks st).

Definition spec_C06 (st : pstate) := spec_C06_rules st ++ spec_C06_inert st.

(* ---------------- C04, final problem: busy intervals added to the resource *after* the
   constraint was created are covered by the documented meaning as well (swept) ---------------- *)
Definition busy_key (wb : wref * busyent) : wref * nat * bool := (fst wb, ti_id (be_task (snd wb)), be_maybe (snd wb)).
Definition same_busy (a b : wref * busyent) : bool :=
  let '(w1, t1, m1) := busy_key a in let '(w2, t2, m2) := busy_key b in
  wref_beq w1 w2 && Nat.eqb t1 t2 && Bool.eqb m1 m2.
Definition late_busy (st : pstate) (r : rsnap) : list (wref * busyent) :=
  match res_resobj st (rs_obj r) with
  | Some r' => filter (fun x => negb (existsb (same_busy x) (all_busy r))) (all_busy r')
  | None => [] end.
Definition spec_C04_late_c (st : pstate) (e : rcexpr) : list (string * form) :=
  match e with
  | CUnavailable r ivs =>
      flat_map (fun '(lo, hi) =>
        map (fun '(w, b) => ("unavailable_late", FOr [FLe (TC hi) (bsv w b); FLe (bev w b) (TC lo)])) (late_busy st r)) ivs
  | CWorkLoad r ivs k =>
      match late_busy st r, res_resobj st (rs_obj r) with
      | _ :: _, Some r' =>
        map (fun '(lo, hi, n) =>
          ("workload_late", cmp_sum k (TAdd (map (fun '(w, b) => t_overlap (bsv w b) (bev w b) lo hi) (all_busy r'))) n)) ivs
      | _, _ => [] end
  | CInterrupted r ivs =>
      flat_map (fun '(w, b) =>
        match ti_kind (be_task b) with
        | KVar _ _ _ => []
        | _ => map (fun '(lo, hi) => ("interrupted_late", FOr [FLe (TC hi) (bsv w b); FLe (bev w b) (TC lo)])) ivs
        end) (late_busy st r)
  | _ => []
  end.

Definition spec_C04_swept (st : pstate) := per_cons "C04" (spec_C04_late_c st) st.

(* ================================================================== *)
(* C08: every indicator equals its documented definition on the schedule.  The value of an indicator is
   the schedule variable VInd i (what build_solution reports).  "P" clauses are covered by the soundness
   theorem, "S" clauses are swept against the real constraint system. *)
Definition ikey (r : indrec) (k : string) : string := ("C08/ind:" ++ show_nat (i_id r) ++ "/" ++ k)%string.
Definition horizon_of (r : indrec) : term := match i_hz r with Some h => TC h | None => TV VHorizon end.
Definition all_mandatory (ts : list tinfo) : bool := forallb (fun t => negb (ti_opt t)) ts.
Definition t_pos (x : term) : term := t_max (TC 0) x.                       (* max(0, x) *)
Definition lateness (t : tinfo) : term := TSub (E_ t) (TC (due_of t)).
Definition when_t (c : form) (x : term) : term := TIte c x (TC 0).
(* twice the area under the cost function over a busy interval (exact for constant and linear costs) *)
Definition cost_area2 (c : costfn) (lo up : term) : term := TMul (TAdd [cost_apply c lo; cost_apply c up]) (TSub up lo).
Definition is_const (c : costfn) : bool := match c with CostConst _ => true | _ => false end.
Definition const_val (c : costfn) : Z := match c with CostConst v => v | _ => 0 end.

Definition spec_C08_P (r : indrec) : list (string * form) :=
  let I := TV (VInd (i_id r)) in
  let ts_of := tasks_of (i_all r) in
  match i_expr r with
  | IExpr t => [("expression", FEq I t)]
  | IUtilization rc =>
      (* percentage of the horizon the resource is busy, rounded down *)
      let busy := TAdd (map (fun '(s, e) => TSub e s) (own_pairs (rc_snap rc))) in
      let H := horizon_of r in
      [("utilization", FImp (FLt (TC 0) H)
          (FAnd [FLe (TMul H I) (TMul (TC 100) busy); FLt (TMul (TC 100) busy) (TMul H (TAdd [I; TC 1]))]))]
  | INbTasks rc =>
      [("nb_tasks_assigned", FEq I (TAdd (map (fun '(s, _) => when_t (FLe (TC 0) s) (TC 1)) (own_pairs (rc_snap rc)))))]
  | ITardiness ts =>
      [("tardiness", FEq I (TAdd (map (fun t => when_t (FAnd [act t; FLt (TC (due_of t)) (E_ t)])
                                                      (TMul (TC (ti_prio t)) (lateness t))) (ts_of ts))))]
  | IEarliness ts =>
      [("earliness", FEq I (TAdd (map (fun t => when_t (act t) (t_pos (TSub (TC (due_of t)) (E_ t)))) (ts_of ts))))]
  | INbTardy ts =>
      if all_mandatory (ts_of ts) then
        [("nb_tardy", FEq I (TAdd (map (fun t => when_t (FLt (TC (due_of t)) (E_ t)) (TC 1)) (ts_of ts))))] else []
  | IMaxLateness ts =>
      if all_mandatory (ts_of ts) then
        [("max_lateness_bound", FAnd (map (fun t => FLe (lateness t) I) (ts_of ts)));
         ("max_lateness_attained", FOr (map (fun t => FEq I (lateness t)) (ts_of ts)))] else []
  | ICost rs =>
      (* sum of the cost function accumulated over busy time; one rounding (down) of the half-units *)
      let entries := flat_map (fun rc => map (fun '(w, b) => (cost_of rc w, bsv w b, bev w b)) (all_busy (rc_snap rc))) rs in
      let const2 := TAdd (map (fun '(c, lo, up) => if is_const c then TMul (TC 2) (TMul (TC (const_val c)) (TSub up lo)) else TC 0) entries) in
      let var2 := TAdd (map (fun '(c, lo, up) => if is_const c then TC 0 else cost_area2 c lo up) entries) in
      [("resource_cost", FAnd [FLe (TMul (TC 2) I) (TAdd [const2; var2]);
                               FLt (TAdd [const2; var2]) (TAdd [TMul (TC 2) I; TC 2])])]
  | IMaxBuf b =>
      [("max_buffer_bound", FAnd (map (fun l => FLe l I) (bn_levels b)));
       ("max_buffer_attained", FOr (map (fun l => FEq I l) (bn_levels b)))]
  | IMinBuf b =>
      [("min_buffer_bound", FAnd (map (fun l => FLe I l) (bn_levels b)));
       ("min_buffer_attained", FOr (map (fun l => FEq I l) (bn_levels b)))]
  | IMinStart ts =>
      [("min_start_bound", FAnd (map (fun t => FLe I (S_ t)) (ts_of ts)));
       ("min_start_attained", FOr (map (fun t => FEq I (S_ t)) (ts_of ts)))]
  | IGreatestStart ts =>
      [("greatest_start_bound", FAnd (map (fun t => FLe (S_ t) I) (ts_of ts)));
       ("greatest_start_attained", FOr (map (fun t => FEq I (S_ t)) (ts_of ts)))]
  | IWeightedStarts =>
      [("weighted_starts", FEq I (TAdd (map (fun t => when_t (act t) (TMul (TC (ti_prio t)) (S_ t))) (i_all r))))]
  | IFlowtime ts =>
      [("flowtime", FEq I (TAdd (map (fun t => when_t (act t) (E_ t)) (ts_of ts))))]
  | ITotalPriority =>
      [("weighted_completion", FEq I (TAdd (map (fun t => when_t (act t) (TMul (TC (ti_prio t)) (E_ t))) (i_all r))))]
  | IIdle _ | IFlowSingle _ _ => []
  end.

(* swept only: optional tasks in unguarded indicators, idle time, flow time on a single resource *)
Definition spec_C08_S (st : pstate) (r : indrec) : list (string * form) :=
  let I := TV (VInd (i_id r)) in
  let ts_of := tasks_of (i_all r) in
  match i_expr r with
  | INbTasks rc =>
      (* in the final problem: assignments made after the indicator was created count as well, and a
         cumulative worker is assigned every acting task that requires it *)
      (match late_busy st (rc_snap rc), res_resobj st (rs_obj (rc_snap rc)) with
       | _ :: _, Some r' => [("nb_tasks_late", FEq I (TAdd (map (fun '(s, _) => when_t (FLe (TC 0) s) (TC 1)) (own_pairs r'))))]
       | _, _ => [] end)
      ++ (match rs_obj (rc_snap rc) with
          | ResC c => match find_cumul st c with
                      | Some cu => [("nb_tasks_cumulative", FEq I (TAdd (map (fun t => when_t (act t) (TC 1)) (cumul_uses st cu))))]
                      | None => [] end
          | ResW _ => [] end)
  | INbTardy ts =>
      if all_mandatory (ts_of ts) then [] else
        [("nb_tardy_optional", FEq I (TAdd (map (fun t => when_t (FAnd [act t; FLt (TC (due_of t)) (E_ t)]) (TC 1)) (ts_of ts))))]
  | IMaxLateness ts =>
      if all_mandatory (ts_of ts) then [] else
        [("max_lateness_optional", FImp (FOr (map act (ts_of ts)))
            (FAnd [FAnd (map (fun t => whenact t (FLe (lateness t) I)) (ts_of ts));
                   FOr (map (fun t => FAnd [act t; FEq I (lateness t)]) (ts_of ts))]))]
  | IIdle rc =>
      (* sum of the gaps between each assigned busy interval and the next assigned one in time order *)
      let ps := own_pairs (rc_snap rc) in
      [("idle", FImp (FAnd (map (fun '(s, e) => FLe s e) ps)) (FEq I (TAdd (map (fun '((s1, e1), others) =>
            TAdd (map (fun '(s2, _) =>
                    when_t (FAnd ([FLe (TC 0) s1; FLe (TC 0) s2; FLt s1 s2]
                                  ++ map (fun '(s3, _) => FNot (FAnd [FLe (TC 0) s3; FLt s1 s3; FLt s3 s2]))
                                         (filter (fun p => negb (term_beq (fst p) s2)) others)))
                           (TSub s2 e1)) others)) (with_others [] ps)))))]
  | IFlowSingle rc iv =>
      let lo := match iv with Some (lo, _) => TC lo | None => TC 0 end in
      let hi := match iv with Some (_, hi) => TC hi | None => TV VHorizon end in
      let ts := map be_task (rs_own (rc_snap rc)) in
      let inside t := FAnd [FLe lo (S_ t); FLe (E_ t) hi] in
      [("flowtime_single_resource",
        FAnd (map (fun a => FAnd (map (fun b =>
               FImp (FAnd ([inside a; inside b]
                           ++ map (fun c => FImp (inside c) (FAnd [FLe (E_ c) (E_ a); FLe (S_ b) (S_ c)])) ts))
                    (FEq I (TSub (E_ a) (S_ b)))) ts)) ts))]
  | _ => []
  end.

(* indicator targets and bounds declared as constraints *)
Definition spec_C08_cons (e : rcexpr) : list (string * form) :=
  match e with
  | CIndTarget i v => [("indicator_target", FEq (TV (VInd i)) (TC v))]
  | CIndBounds i lo hi =>
      (match lo with Some l => [("indicator_lower_bound", FLe (TC l) (TV (VInd i)))] | None => [] end)
      ++ (match hi with Some h => [("indicator_upper_bound", FLe (TV (VInd i)) (TC h))] | None => [] end)
  | _ => []
  end.

Definition spec_C08 (st : pstate) : list (string * form) :=
  flat_map (fun r => map (fun '(k, f) => (ikey r k, f)) (spec_C08_P r)) (x_inds (ps_ext st))
  ++ per_cons "C08" spec_C08_cons st.
Definition spec_C08_swept (st : pstate) : list (string * form) :=
  flat_map (fun r => map (fun '(k, f) => (ikey r k, f)) (spec_C08_S st r)) (x_inds (ps_ext st)).

(* ================================================================== *)
(* C09: buffers.  The reported data of buffer b are the level variables (initial level, one per access)
   and the change-time variables; an access is an unloading at the start of its task (-q) or a loading at the
   end of its task (+q). *)
Definition bkey (b : bufrec) (k : string) : string := ("C09/buf:" ++ show_nat (b_id b) ++ "/" ++ k)%string.
Record bevent := { ev_task : nat; ev_time : term; ev_delta : Z }.
Definition buf_events (b : bufrec) : list bevent :=
  map (fun '(t, q) => {| ev_task := t; ev_time := TV (VStart t); ev_delta := - q |}) (b_unload b)
  ++ map (fun '(t, q) => {| ev_task := t; ev_time := TV (VEnd t); ev_delta := q |}) (b_load b).
Fixpoint consecutive {A} (l : list A) : list (A * A) :=
  match l with x :: ((y :: _) as r) => (x, y) :: consecutive r | _ => [] end.
(* every access has its own slot (no task accesses the buffer twice) *)
Definition buf_regular (b : bufrec) : bool :=
  Nat.eqb (List.length (b_slots b)) (List.length (b_unload b) + List.length (b_load b))
  && Nat.eqb (List.length (nodup Nat.eq_dec (b_slots b))) (List.length (b_slots b)).
Definition task_act (st : pstate) (t : nat) : form :=
  match find_task st t with Some ti => act ti | None => FT end.

Definition buf_has_optional (st : pstate) (b : bufrec) : bool :=
  existsb (fun ev => match find_task st (ev_task ev) with Some ti => ti_opt ti | None => false end) (buf_events b).
(* the clauses of a non-concurrent buffer accessed by mandatory tasks only, each access in its own slot *)
Definition buf_proved_levels (st : pstate) (b : bufrec) : bool :=
  buf_regular b && negb (b_conc b) && negb (buf_has_optional st b).
Definition level_clause (st : pstate) (b : bufrec) (l c : term) : form :=
  FEq l (TAdd (TV (VLevel0 (b_id b))
               :: map (fun ev => when_t (FAnd [task_act st (ev_task ev); FLe (ev_time ev) c]) (TC (ev_delta ev))) (buf_events b))).

Definition spec_C09_basic (b : bufrec) : list (string * form) :=
  let levels := buf_levels b in
  let changes := buf_changes b in
  let evs := buf_events b in
  (match b_init b with Some v => [("initial_level", FEq (TV (VLevel0 (b_id b))) (TC v))] | None => [] end)
  ++ (match b_final b with Some v => [("final_level", FEq (last_term levels (TV (VLevel0 (b_id b)))) (TC v))] | None => [] end)
  ++ (match b_lo b with Some v => map (fun l => ("lower_bound", FLe (TC v) l)) levels | None => [] end)
  ++ (match b_hi b with Some v => map (fun l => ("upper_bound", FLe l (TC v))) levels | None => [] end)
  ++ (if buf_regular b && negb (b_conc b) then
        (* non-concurrent buffer: the reported change times are access instants, in strictly ascending order
           (never two accesses at one instant) *)
        map (fun c => ("change_is_access", FOr (map (fun ev => FEq c (ev_time ev)) evs))) changes
        ++ map (fun '(c1, c2) => ("change_times_increasing", FLt c1 c2)) (consecutive changes)
      else []).
Definition spec_C09_levels (st : pstate) (b : bufrec) : list (string * form) :=
  let levels := buf_levels b in
  let changes := buf_changes b in
  let evs := buf_events b in
  (if buf_proved_levels st b then
        (* level after the k-th reported change = initial level + the quantities of all accesses at instants up to that
           change time (loads at task completion, unloads at task start); every access is a reported change; no two
           accesses at the same instant *)
        map (fun '(l, c) => ("level_after_change", level_clause st b l c)) (combine (tl levels) changes)
        ++ map (fun ev => ("access_is_change", FOr (map (fun c => FEq c (ev_time ev)) changes))) evs
        ++ map (fun '(e1, e2) => ("accesses_distinct", FNot (FEq (ev_time e1) (ev_time e2)))) (pairs_of evs)
      else []).
(* a concurrent buffer accessed by mandatory tasks only: same level clause (several accesses may share an instant), every
   access instant is a reported change and conversely, the reported change times are in non-decreasing order *)
Definition buf_proved_conc (st : pstate) (b : bufrec) : bool :=
  buf_regular b && b_conc b && negb (buf_has_optional st b).
Definition spec_C09_conc (st : pstate) (b : bufrec) : list (string * form) :=
  let levels := buf_levels b in
  let changes := buf_changes b in
  let evs := buf_events b in
  if buf_proved_conc st b then
    map (fun '(l, c) => ("level_after_change", level_clause st b l c)) (combine (tl levels) changes)
    ++ map (fun ev => ("access_is_change", FOr (map (fun c => FEq c (ev_time ev)) changes))) evs
    ++ map (fun '(c1, c2) => ("change_times_sorted", FLe c1 c2)) (consecutive changes)
    ++ map (fun c => ("change_is_access_concurrent", FOr (map (fun ev => FEq c (ev_time ev)) evs))) changes
  else [].
Definition spec_C09_P (st : pstate) (b : bufrec) : list (string * form) :=
  spec_C09_basic b ++ spec_C09_levels st b ++ spec_C09_conc st b.

Definition spec_C09_S (st : pstate) (b : bufrec) : list (string * form) :=
  let levels := buf_levels b in
  let changes := buf_changes b in
  let evs := buf_events b in
  let has_opt := existsb (fun ev => match find_task st (ev_task ev) with Some ti => ti_opt ti | None => false end) evs in
  let suffix := (if has_opt then "_optional" else "")%string in
  if buf_regular b && negb (buf_proved_levels st b) && negb (buf_proved_conc st b) then
    map (fun '(l, c) => (("level_after_change" ++ suffix)%string, level_clause st b l c)) (combine (tl levels) changes)
    ++ map (fun ev => ("access_is_change", FImp (task_act st (ev_task ev)) (FOr (map (fun c => FEq c (ev_time ev)) changes)))) evs
    ++ (if b_conc b then map (fun '(c1, c2) => ("change_times_sorted", FLe c1 c2)) (consecutive changes)
                         ++ map (fun c => ("change_is_access_concurrent", FOr (map (fun ev => FEq c (ev_time ev)) evs))) changes
        else map (fun '(e1, e2) => ("accesses_distinct",
                    FImp (FAnd [task_act st (ev_task e1); task_act st (ev_task e2)]) (FNot (FEq (ev_time e1) (ev_time e2)))))
                 (pairs_of evs))
  else [].

Definition spec_C09 (st : pstate) : list (string * form) :=
  flat_map (fun b => map (fun '(k, f) => (bkey b k, f)) (spec_C09_P st b)) (x_bufs (ps_ext st)).
Definition spec_C09_swept (st : pstate) : list (string * form) :=
  flat_map (fun b => map (fun '(k, f) => (bkey b k, f)) (spec_C09_S st b)) (x_bufs (ps_ext st)).

Definition spec_all (st : pstate) : list (string * form) :=
  spec_C01 st ++ spec_C02 st ++ spec_C02_capacity st ++ spec_C03 st ++ spec_C03_swept st
  ++ spec_C04 st ++ spec_C04_swept st ++ spec_C06 st ++ spec_C10 st
  ++ spec_C08 st ++ spec_C08_swept st ++ spec_C09 st ++ spec_C09_swept st.

(* ================================================================== *)
(* C18: which constructor calls are well formed (the rule list of the property text, completed by
   the field constraints the classes declare).  References to elements that do not exist are outside
   the model (the harness only passes existing Python objects). *)
Definition absent {A} (x : option A) : bool := match x with None => true | Some _ => false end.
Definition is_nil {A} (l : list A) : bool := match l with [] => true | _ => false end.

Definition wf_task_fields (k : tkind) (work prio : Z) : bool :=
  (0 <=? work) && (0 <=? prio) &&
  match k with
  | KZero => true
  | KFixed d => 1 <=? d                                            (* positive fixed duration *)
  | KVar mn mx al => (0 <=? mn)                                    (* non-negative minimum duration *)
                     && (match mx with Some m => 1 <=? m | None => true end)
                     && (match al with Some l => forallb (fun a => 1 <=? a) l | None => true end)
  end.

(* a resource constraint needs a resource that already works for some task *)
Definition has_busy (r : rsnap) : bool := negb (is_nil (all_busy r)).

Definition wf_constraint (c : nat) (opt : bool) (e : rcexpr) : bool :=
  match e with
  | CPrecedence _ _ off _ => 0 <=? off
  (* optional-task rules only apply to optional tasks *)
  | CForceSched t _ | CCondSched t _ => ti_opt t
  | CDependency _ dependent => ti_opt dependent
  | CForceN ts n _ => forallb ti_opt ts && (1 <=? n) && negb (is_nil ts)
  | CScheduleN ts _ ivs _ => negb (is_nil ts) && negb (is_nil ivs)
  (* force-apply only over optional constraints *)
  | CForceApplyN cs n _ => forallb or_opt cs && (1 <=? n) && negb (is_nil cs)
  (* resource constraints on an unassigned resource *)
  | CWorkLoad r ivs _ => is_nil ivs || has_busy r
  | CUnavailable r ivs => has_busy r && negb (is_nil ivs)
  | CPeriodicUnavailable r ivs _ _ _ _ => has_busy r && negb (is_nil ivs)
  | CInterrupted r _ => has_busy r
  | CPeriodicInterrupted r ivs period _ _ _ => has_busy r && forallb (fun '(lo, hi) => hi <=? period) ivs
  | CDistance r _ _ _ => 2 <=? Z.of_nat (List.length (rs_own r))
  | CIndBounds _ lo hi => negb (absent lo && absent hi)
  | _ => true
  end
  (* the same formula is never appended twice to one element (NonDelay / Contiguous over fewer than
     two busy intervals / tasks, duplicated windows, ...) *)
  && nodup_forms (enc_cons c opt e).

(* indicators: the name must be free, tardiness-type indicators need a due date on every task they
   look at, maxima / minima need a non-empty list, and no formula is appended twice to the indicator *)
Definition wf_ind_expr (all : list tinfo) (e : riexpr) : bool :=
  match e with
  | ITardiness ts | IEarliness ts | INbTardy ts => forallb has_due (tasks_of all ts)
  | IMaxLateness ts => forallb has_due (tasks_of all ts) && negb (is_nil (tasks_of all ts))
  | IMinStart ts | IGreatestStart ts => negb (is_nil (tasks_of all ts))
  | _ => true
  end.
Definition wf_indicator (st : pstate) (id : nat) (key : option string) (e : riexpr) : bool :=
  negb (key_taken st key) && wf_ind_expr (ps_tasks st) e
  && nodup_forms (enc_ind id (ps_horizon st) (ps_tasks st) e).
Definition objective_name_taken (st : pstate) (n : string) : bool :=
  existsb (fun r => String.eqb (o_name r) n) (x_objs (ps_ext st)).
Definition wf_objective (st : pstate) (o : uoexpr) (ind : nat) : bool :=
  match objective_name st o with
  | None => true
  | Some name =>
      negb (objective_name_taken st name)
      && match objective_indicator o with
         | Some (key, _, ie) =>
             match resolve_i st ie with Some re => wf_indicator st ind key re | None => true end
         | None => true
         end
  end.

Definition wf_op (st : pstate) (o : op) : bool :=
  match o with
  | ONewProblem h => match h with Some z => 1 <=? z | None => true end
  | ONewTask id k _ work _ _ _ prio => absent (find_task st id) && wf_task_fields k work prio
  | ONewWorker id prod _ => absent (find_worker st (WPlain id)) && (0 <=? prod)
  | ONewCumulative id size prod cost =>
      absent (find_cumul st id) && (2 <=? size) && (1 <=? prod)
      && (match cost with CostConst _ => true | _ => false end)
  | ONewSelect id listed n _ =>
      absent (find_select st (SUser id)) && (2 <=? Z.of_nat (List.length listed))
      && (1 <=? n) && (n <=? Z.of_nat (List.length listed))
  | OAddRequired t r _ _ _ =>
      match r with
      | ArgW w => negb (existsb (rref_beq (RW w)) (reqs_of st t))
      | ArgS s => negb (existsb (fun a => match a with AQSelect s' _ _ _ => sref_beq s' (SUser s) | _ => false end)
                                (areqs_of st t))
      | ArgC c => negb (existsb (rref_beq (RC c)) (reqs_of st t))
      end
  | ONewConstraint id opt e =>
      absent (find_cons st id)
      && match resolve st e with Some re => wf_constraint id opt re | None => true end
  | ONewBuffer id _ init final _ _ => absent (find_buf st id) && negb (absent init && absent final)
  | ONewIndicator id e _ =>
      absent (find_ind st id)
      && match resolve_i st e with Some re => wf_indicator st id (Some (user_ind_name id)) re | None => true end
  | ONewObjective o ind => wf_objective st o ind
  end.
