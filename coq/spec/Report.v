(* Report.v -- the report of the model on one program, as compared with the implementation by the harness. *)
From Coq Require Import ZArith List Bool String.
From PS.model Require Import Smt Enc Ind Prog Driver.
From PS.spec Require Import Spec.
Import ListNotations.
Open Scope string_scope.
Definition state_info (st : pstate) : list string :=
  ["INFO cumul_ok " ++ (if cumul_ok st then "true" else "false")].
Definition report (ops : list op) : list string := report_run2 spec_all state_info ops.
