(* Bubble_model.v -- the model of util.sort_duplicates (Ind.sort_dup: a network of fresh variables constrained by
   If(x <= y, x1 = x /\ y1 = y, x1 = y /\ y1 = x)) computes the value-level bubble passes of Bubble.v. *)
From Coq Require Import ZArith List Bool Lia ZifyBool Permutation Sorted.
From PS.model Require Import Smt Enc Ind.
From PS.proofs Require Import Base Bubble.
Import ListNotations.
Open Scope Z_scope.

Lemma bubble_up_sem e mk : forall rest k x out cs k',
  bubble_up mk k x rest = (out, cs, k') -> (forall f, In f cs -> feval e f = true) ->
  map (teval e) out = fst (bub (teval e x) (map (teval e) rest)) ++ [snd (bub (teval e x) (map (teval e) rest))].
Proof.
  induction rest as [|y r IH]; intros k x out cs k' H Hc; cbn [bubble_up] in H.
  - injection H as <- <- <-. reflexivity.
  - destruct (bubble_up mk (S (S k)) (mk (S k)) r) as [[out' cs'] k''] eqn:E. injection H as <- <- <-.
    assert (H1 := Hc _ (or_introl eq_refl)).
    specialize (IH _ _ _ _ _ E (fun f Hf => Hc f (or_intror Hf))).
    cbn [map bub]. rewrite feval_eq in H1. rewrite (feval_eq e (FLe _ _)) in H1.
    assert (Hv : teval e (mk k) = Z.min (teval e x) (teval e y) /\ teval e (mk (S k)) = Z.max (teval e x) (teval e y)).
    { destruct (teval e x <=? teval e y) eqn:Hle; rewrite feval_eq in H1; cbn [forallb] in H1;
        rewrite !(feval_eq e (FEq _ _)) in H1; lia. }
    destruct Hv as [Hmin Hmax]. rewrite Hmax in IH.
    destruct (bub (Z.max (teval e x) (teval e y)) (map (teval e) r)) as [p m]. cbn [fst snd] in *.
    cbn [app]. now rewrite Hmin, IH.
Qed.

Lemma bubble_pass_sem e mk k l out cs k' :
  bubble_pass mk k l = (out, cs, k') -> (forall f, In f cs -> feval e f = true) ->
  map (teval e) out = pass (map (teval e) l).
Proof.
  unfold bubble_pass. destruct l as [|x r]; intros H Hc.
  - injection H as <- <- <-. reflexivity.
  - cbn [map pass]. rewrite (bubble_up_sem e mk r k x out cs k' H Hc).
    destruct (bub (teval e x) (map (teval e) r)); reflexivity.
Qed.

Lemma passes_pass n l : passes n (pass l) = pass (passes n l).
Proof. induction n as [|n IH]; cbn [passes]; [reflexivity|now rewrite IH]. Qed.

Lemma bubble_passes_acc mk : forall n k l acc out cs, bubble_passes mk n k l acc = (out, cs) -> exists more, cs = acc ++ more.
Proof.
  induction n as [|n IH]; intros k l acc out cs H; cbn [bubble_passes] in H.
  - injection H as <- <-. exists []. now rewrite app_nil_r.
  - destruct (bubble_pass mk k l) as [[l' cs'] k'] eqn:E. destruct (IH _ _ _ _ _ H) as (more & ->).
    exists (cs' ++ more). now rewrite app_assoc.
Qed.

Lemma bubble_passes_sem e mk : forall n k l acc out cs,
  bubble_passes mk n k l acc = (out, cs) -> (forall f, In f cs -> feval e f = true) ->
  map (teval e) out = passes n (map (teval e) l).
Proof.
  induction n as [|n IH]; intros k l acc out cs H Hc; cbn [bubble_passes] in H.
  - injection H as <- <-. reflexivity.
  - destruct (bubble_pass mk k l) as [[l' cs'] k'] eqn:E.
    destruct (bubble_passes_acc mk _ _ _ _ _ _ H) as (more & Hm).
    rewrite (IH _ _ _ _ _ H Hc). cbn [passes]. rewrite <- passes_pass. f_equal.
    apply (bubble_pass_sem e mk k l l' cs' k' E). intros f Hf. apply Hc. rewrite Hm.
    apply in_or_app. left. apply in_or_app. now right.
Qed.

Theorem sort_dup_sem e mk l :
  (forall f, In f (snd (sort_dup mk l)) -> feval e f = true) ->
  let V := map (teval e) (fst (sort_dup mk l)) in
  Sorted Z.le V /\ Permutation V (map (teval e) l) /\ length (fst (sort_dup mk l)) = length l.
Proof.
  unfold sort_dup. intros H. destruct (bubble_passes mk (length l) 0 l []) as [out cs] eqn:E. cbn [fst snd] in *.
  pose proof (bubble_passes_sem e mk _ _ _ _ _ _ E H) as Hv. cbn zeta.
  assert (Hn : length (map (teval e) l) = length l) by apply map_length.
  rewrite <- Hn in Hv.
  destruct (bubble_network_sorts (map (teval e) l)) as [Hs Hp]. cbn zeta in Hs, Hp. rewrite <- Hv in Hs, Hp.
  split; [exact Hs|]. split; [exact Hp|].
  apply Permutation_length in Hp. rewrite !map_length in Hp. exact Hp.
Qed.
