(* C04_periodic.v -- the closed form used by the periodic clauses is the pointwise statement "no instant of the (clipped)
   busy interval lies in a repetition of the window". *)
From Coq Require Import ZArith List Bool Lia ZifyBool.
From PS.model Require Import Smt Enc Ind Prog.
From PS.spec Require Import Spec.
From PS.proofs Require Import Base.
Import ListNotations.
Open Scope Z_scope.

Lemma per_free_Z bs be lo hi P off : 0 < P -> 0 <= lo -> lo < hi -> hi <= P -> bs < be ->
  (((bs - off) mod P + (be - bs) <= lo) \/ (hi <= (bs - off) mod P /\ (bs - off) mod P + (be - bs) <= lo + P))
  <-> (forall tau k, bs <= tau < be -> ~ (off + k * P + lo <= tau < off + k * P + hi)).
Proof.
  intros HP Hlo Hlh Hhi Hne.
  pose proof (Z.div_mod (bs - off) P ltac:(lia)) as Hdm. pose proof (Z.mod_pos_bound (bs - off) P HP) as Hb.
  set (sm := (bs - off) mod P) in *. set (q := (bs - off) / P) in *.
  split.
  - intros Hc tau k Ht Hw. assert (Hj : k - q <= -1 \/ k - q = 0 \/ 1 <= k - q) by lia.
    destruct Hc as [Hc|[Hc1 Hc2]]; destruct Hj as [Hj|[Hj|Hj]]; nia.
  - intros Hall. destruct (Z_lt_le_dec sm hi) as [Hs|Hs].
    + left. destruct (Z_le_gt_dec (sm + (be - bs)) lo) as [Hle|Hgt]; [exact Hle|exfalso].
      apply (Hall (off + q * P + Z.max sm lo) q); nia.
    + right. split; [exact Hs|]. destruct (Z_le_gt_dec (sm + (be - bs)) (lo + P)) as [Hle|Hgt]; [exact Hle|exfalso].
      apply (Hall (off + q * P + Z.max sm (lo + P)) (q + 1)); nia.
Qed.

Definition clipped_end (be : Z) (end_ : option Z) : Z := match end_ with Some x => Z.min be x | None => be end.
Definition in_window (lo hi P off tau : Z) : Prop := exists k, off + k * P + lo <= tau < off + k * P + hi.

Lemma t_max_eval e a b : teval e (t_max a b) = Z.max (teval e a) (teval e b).
Proof. unfold t_max. rewrite teval_eq, feval_eq. destruct (teval e a <=? teval e b) eqn:H; lia. Qed.
Lemma t_min_eval e a b : teval e (t_min a b) = Z.min (teval e a) (teval e b).
Proof. unfold t_min. rewrite teval_eq, feval_eq. destruct (teval e a <=? teval e b) eqn:H; lia. Qed.

Theorem per_free_pointwise e bs be lo hi P start off end_ : 0 < P -> 0 <= lo -> lo < hi -> hi <= P ->
  feval e (per_free bs be lo hi P start off end_) = true <->
  (forall tau, Z.max (teval e bs) start <= tau < clipped_end (teval e be) end_ -> ~ in_window lo hi P off tau).
Proof.
  intros HP Hlo Hlh Hhi. unfold per_free.
  set (bs' := t_max bs (TC start)). set (be' := match end_ with Some x => t_min be (TC x) | None => be end).
  assert (Hbs : teval e bs' = Z.max (teval e bs) start) by (unfold bs'; now rewrite t_max_eval).
  assert (Hbe : teval e be' = clipped_end (teval e be) end_) by (unfold be', clipped_end; destruct end_; [now rewrite t_min_eval|reflexivity]).
  cbn [feval teval existsb forallb tsum fold_right map implb]. rewrite Hbs, Hbe.
  set (B := Z.max (teval e bs) start). set (E := clipped_end (teval e be) end_).
  destruct (B <? E) eqn:Hne; cbn [implb negb].
  - pose proof (per_free_Z B E lo hi P off HP Hlo Hlh Hhi ltac:(lia)) as HZ. unfold in_window. split.
    + intros H tau Ht [k Hk]. apply (proj1 HZ) with (tau := tau) (k := k); [|exact Ht|exact Hk]. lia.
    + intros H. assert (HH : forall tau k, B <= tau < E -> ~ (off + k * P + lo <= tau < off + k * P + hi)).
      { intros tau k Ht Hk. apply (H tau Ht). now exists k. }
      apply (proj2 HZ) in HH. lia.
  - split; [intros _ tau Ht; lia|reflexivity].
Qed.

(* ---------------- the encoders imply the clause ---------------- *)
Definition pfree_c (bs be : term) (lo hi P off : Z) : form :=
  let folded := TMod (TSub bs (TC off)) (TC P) in
  FOr [FLe (TAdd [folded; TSub be bs]) (TC lo); FAnd [FGe folded (TC hi); FLe (TAdd [folded; TSub be bs]) (TC (lo + P))]].

Lemma per_free_of_cases e bs be lo hi P start off end_ : 0 < P -> 0 <= lo -> lo < hi -> hi <= P ->
  (feval e (pfree_c bs be lo hi P off) = true \/ (teval e be <= start) \/ (exists x, end_ = Some x /\ x <= teval e bs)) ->
  feval e (per_free bs be lo hi P start off end_) = true.
Proof.
  intros HP Hlo Hlh Hhi Hc. apply per_free_pointwise; auto. intros tau Ht [k Hk].
  destruct Hc as [Hc|[Hc|(x & -> & Hc)]].
  - assert (Hne : teval e bs < teval e be) by (unfold clipped_end in Ht; destruct end_; lia).
    pose proof (per_free_Z (teval e bs) (teval e be) lo hi P off HP Hlo Hlh Hhi Hne) as HZ.
    unfold pfree_c in Hc. cbn [feval teval existsb forallb tsum fold_right] in Hc.
    apply (proj1 HZ) with (tau := tau) (k := k); [lia| |exact Hk]. unfold clipped_end in Ht. destruct end_; lia.
  - unfold clipped_end in Ht. destruct end_; lia.
  - unfold clipped_end in Ht. lia.
Qed.

Lemma punavail_one_cases e bs be lo hi P start off end_ :
  feval e (punavail_one bs be lo hi P start off end_) = true ->
  feval e (pfree_c bs be lo hi P off) = true \/ (teval e be <= start) \/ (exists x, end_ = Some x /\ x <= teval e bs).
Proof.
  unfold punavail_one. fold (pfree_c bs be lo hi P off).
  destruct end_ as [x|]; cbn [app]; intros H.
  - rewrite feval_eq in H. cbn [existsb] in H. rewrite !orb_true_iff in H. destruct H as [H|[H|[H|H]]]; [now left| | |discriminate].
    + right. left. rewrite feval_eq in H. rewrite (teval_eq e (TC start)) in H. lia.
    + right. right. exists x. split; [reflexivity|]. rewrite feval_eq in H. rewrite (teval_eq e (TC x)) in H. lia.
  - rewrite feval_eq in H. cbn [existsb] in H. rewrite !orb_true_iff in H. destruct H as [H|[H|H]]; [now left| |discriminate].
    right. left. rewrite feval_eq in H. rewrite (teval_eq e (TC start)) in H. lia.
Qed.

Theorem punavail_one_sound e bs be lo hi P start off end_ : 0 < P -> 0 <= lo -> lo < hi -> hi <= P ->
  feval e (punavail_one bs be lo hi P start off end_) = true -> feval e (per_free bs be lo hi P start off end_) = true.
Proof. intros HP Hlo Hlh Hhi H. apply per_free_of_cases; auto. now apply punavail_one_cases. Qed.

(* ResourcePeriodicallyInterrupted, a busy interval of a task that is not of variable duration *)
Theorem pinterrupted_fixed_sound e w l ivs P start off end_ b lo hi : 0 < P -> 0 <= lo -> lo < hi -> hi <= P ->
  feval e (pinterrupted_worker w l ivs P start off end_) = true -> In b l -> In (lo, hi) ivs ->
  (match ti_kind (be_task b) with KVar _ _ _ => False | _ => True end) ->
  feval e (per_free (bsv w b) (bev w b) lo hi P start off end_) = true.
Proof.
  intros HP Hlo Hlh Hhi H Hb Hiv Hk. unfold pinterrupted_worker in H. rewrite feval_eq, forallb_forall in H.
  specialize (H _ (in_map _ _ _ Hb)). cbv beta zeta in H.
  apply per_free_of_cases; auto.
  set (core := FAnd (match ti_kind (be_task b) with KVar mn mx _ => _ | _ => _ end)) in H.
  assert (Hcore : feval e core = true -> feval e (pfree_c (bsv w b) (bev w b) lo hi P off) = true).
  { unfold core. intros Hc. rewrite feval_eq, forallb_forall in Hc. apply Hc.
    destruct (ti_kind (be_task b)); [| |destruct Hk]; apply in_map_iff; exists (lo, hi); split; auto. }
  destruct end_ as [x|]; cbn [app] in H.
  - rewrite feval_eq in H. cbn [existsb] in H. rewrite !orb_true_iff in H. destruct H as [H|[H|[H|H]]]; [left; auto| | |discriminate].
    + right. left. rewrite feval_eq in H. rewrite (teval_eq e (TC start)) in H. lia.
    + right. right. exists x. split; [reflexivity|]. rewrite feval_eq in H. rewrite (teval_eq e (TC x)) in H. lia.
  - rewrite feval_eq in H. cbn [existsb] in H. rewrite !orb_true_iff in H. destruct H as [H|[H|H]]; [left; auto| |discriminate].
    right. left. rewrite feval_eq in H. rewrite (teval_eq e (TC start)) in H. lia.
Qed.
