(* Reach_proof.v -- more invariants of every state reached by a program: task ids are pairwise distinct, the tasks a
   constraint of the C05 fragment refers to are tasks of the problem, a declared horizon is positive.  With
   Wf_proof.reachable_wf they discharge the structural hypotheses of the completeness theorem for reachable states. *)
From Coq Require Import ZArith List Bool Lia ZifyBool String.
From PS.model Require Import Smt Enc Ind Prog.
From PS.spec Require Import Spec.
From PS.proofs Require Import Base Cons_proof Res_proof Wf_proof C05_proof.
Import ListNotations.
Open Scope Z_scope.

Definition inv (st : pstate) : Prop :=
  NoDup (map ti_id (ps_tasks st))
  /\ (forall c, In c (ps_cons st) -> forall t, In t (cons_tasks (c_expr c)) -> In t (ps_tasks st))
  /\ (forall h, ps_horizon st = Some h -> 1 <= h).

Lemma inv_empty h : (match h with Some z => posz z = true | None => True end) -> inv (empty_problem h).
Proof.
  intros H. split; [constructor|]. split; [intros c []|]. intros z [= ->]. unfold posz in H. lia.
Qed.

Lemma find_task_none_notin st id : find_task st id = None -> ~ In id (map ti_id (ps_tasks st)).
Proof.
  unfold find_task. intros H Hin. apply in_map_iff in Hin as (t & <- & Ht).
  apply (find_none _ _ H) in Ht. now rewrite Nat.eqb_refl in Ht.
Qed.
Lemma find_task_some_in st id t : find_task st id = Some t -> In t (ps_tasks st).
Proof. unfold find_task. intros H. now apply find_some in H. Qed.

Lemma mapM_in {A B} (f : A -> option B) l l' : mapM f l = Some l' -> forall y, In y l' -> exists x, In x l /\ f x = Some y.
Proof.
  revert l'. induction l as [|a l IH]; intros l' H y Hy; cbn in H.
  - injection H as <-. destruct Hy.
  - destruct (f a) as [b|] eqn:Ea; [|discriminate]. destruct (mapM f l) as [bl|] eqn:El; [|discriminate].
    injection H as <-. destruct Hy as [<-|Hy]; [exists a; split; [now left|exact Ea]|].
    destruct (IH bl eq_refl y Hy) as (x & Hx & Hfx). exists x. split; [now right|exact Hfx].
Qed.

Lemma resolve_tasks st e re : resolve st e = Some re -> forall t, In t (cons_tasks re) -> In t (ps_tasks st).
Proof.
  unfold resolve, res_task, opt_bind. intros H t Ht.
  destruct e; cbn in H;
    repeat match type of H with
    | context [find_task st ?x] => destruct (find_task st x) eqn:?; [|discriminate]
    | context [mapM ?f ?l] => destruct (mapM f l) eqn:?; [|discriminate]
    | context [match ?x with _ => _ end] => destruct x eqn:?; try discriminate
    end; try (injection H as <-); cbn [cons_tasks] in Ht;
    try (destruct Ht; fail);
    repeat match goal with
    | Ht : In _ (_ :: _) |- _ => destruct Ht as [<-|Ht]
    | Ht : In _ [] |- _ => destruct Ht
    end; try (eapply find_task_some_in; eassumption).
  (* the constraints over a list of tasks *)
  all: match goal with Hm : mapM (find_task _) _ = Some _, Ht0 : In _ _ |- _ => destruct (mapM_in _ _ _ Hm _ Ht0) as (x & _ & Hx) end;
    eapply find_task_some_in; eassumption.
Qed.

Lemma step_inv st o st' : inv st -> step_problem st o = Ok st' -> inv st'.
Proof.
  intros (Hn & Hc & Hh) H. destruct o; cbn [step_problem] in H.
  - (* problem *) destruct h as [z|].
    + destruct (posz z) eqn:Ez; [|discriminate]. injection H as <-. apply inv_empty. exact Ez.
    + injection H as <-. apply inv_empty. exact I.
  - (* task *) break H. injection H as <-. split; [|split]; cbn [ps_tasks ps_cons ps_horizon]; auto.
    + rewrite map_app. cbn [map ti_id].
      assert (Hni := find_task_none_notin st id Heqo).
      clear - Hn Hni. induction (map ti_id (ps_tasks st)) as [|a l IH]; cbn; [repeat constructor; auto|].
      inversion Hn; subst. constructor.
      * intros Hin. apply in_app_or in Hin as [Hin|[<-|[]]]; [contradiction|]. apply Hni. now left.
      * apply IH; auto. intros Hx. apply Hni. now right.
    + intros c Hin t Ht. apply in_or_app. left. eauto.
  - (* worker *) break H. injection H as <-. split; [|split]; cbn; auto.
  - (* cumulative *) break H. injection H as <-. split; [|split]; cbn; auto.
  - (* select *) break H. injection H as <-. split; [|split]; cbn; auto.
  - (* add_required *) break H; injection H as <-.
    + split; [|split]; cbn; auto.
    + unfold add_select. destruct (fold_left _ _ _) as [[? ?] ?]. split; [|split]; cbn; auto.
    + unfold add_select. destruct (fold_left _ _ _) as [[? ?] ?]. split; [|split]; cbn; auto.
  - (* constraint *) break H. injection H as <-. split; [|split]; cbn [ps_tasks ps_cons ps_horizon]; auto.
    intros c Hin t Ht. apply in_app_or in Hin as [Hin|[<-|[]]].
    + apply in_map_iff in Hin as (c0 & <- & Hc0). destruct (existsb _ _); cbn [c_expr] in Ht; eauto.
    + cbn [c_expr] in Ht. eapply resolve_tasks; eauto.
  - (* buffer *) break H. injection H as <-. split; [|split]; cbn; auto.
  - (* indicator *) break H. injection H as <-. unfold add_indicator in *. break Heqo1. injection Heqo1 as <-. split; [|split]; cbn; auto.
  - (* objective *) break H; injection H as <-;
      try (unfold add_indicator in *;
           match goal with Ha : (if key_taken _ _ then _ else _) = Some _ |- _ => break Ha; injection Ha as <- end);
      (split; [|split]); cbn; auto.
Qed.

Lemma run_from_inv ops : forall st idx st',
  (match st with Some s => inv s | None => True end) ->
  run_from st idx ops = RunOk (Some st') -> inv st'.
Proof.
  induction ops as [|o ops IH]; cbn [run_from]; intros st idx st' Hw H.
  - injection H as ->. exact Hw.
  - destruct (step st o) as [s1| |] eqn:Hs; try discriminate.
    apply (IH (Some s1) (S idx) st'); [|exact H].
    unfold step in Hs. destruct o, st as [s0|]; try discriminate;
      try (eapply step_inv; [|exact Hs]; first [exact Hw | apply inv_empty; exact I]).
Qed.

Theorem reachable_inv ops st : reaches ops st -> inv st.
Proof. unfold reaches, run. apply run_from_inv. exact I. Qed.

(* the structural part of `fragment` holds in every reachable state; what remains is the shape of the problem *)
Theorem reachable_fragment ops st :
  reaches ops st ->
  ps_areqs st = [] -> ps_reqs st = [] -> ps_workers st = [] ->
  x_inds (ps_ext st) = [] -> x_bufs (ps_ext st) = [] ->
  (forall c, In c (ps_cons st) -> c_flag c = false -> c_opt c = false /\ frag_c (c_expr c) = true) ->
  fragment st.
Proof.
  intros Hr H1 H2 H3 H4 H5 H6. destruct (reachable_inv ops st Hr) as (Hn & Hc & Hh).
  destruct (reachable_wf ops st Hr) as [_ Hrank].
  constructor; auto.
  - intros c Hin Hfl. destruct (H6 c Hin Hfl) as [Ho Hk]. split; [exact Ho|]. split; [exact Hk|]. intros t Ht. eauto.
  - intros h Eh. specialize (Hh h Eh). lia.
Qed.
