(* SortNoDup.v -- what util.sort_no_duplicates asserts: n fresh integers, each equal to one of the n inputs, strictly
   increasing.  Consequences: they are the inputs in increasing order, the inputs are pairwise distinct, and the value at
   index i is the input with exactly i smaller inputs. *)
From Coq Require Import ZArith List Bool Lia ZifyBool Permutation Sorted.
Import ListNotations.
Open Scope Z_scope.

Fixpoint chain_lt (l : list Z) : Prop :=
  match l with
  | x :: ((y :: _) as r) => x < y /\ chain_lt r
  | _ => True
  end.

Lemma chain_lt_sorted l : chain_lt l -> StronglySorted Z.lt l.
Proof.
  induction l as [|x r IH]; intros H; [constructor|]. destruct r as [|y r']; [repeat constructor|].
  destruct H as [Hxy Hr]. specialize (IH Hr). constructor; [exact IH|].
  inversion IH as [|? ? Hs Hf]; subst. constructor; [exact Hxy|]. rewrite Forall_forall in *. intros z Hz. specialize (Hf z Hz). lia.
Qed.

Lemma sorted_nodup l : StronglySorted Z.lt l -> NoDup l.
Proof.
  induction 1 as [|x l Hs IH Hf]; constructor; [|exact IH]. intros Hin. rewrite Forall_forall in Hf. specialize (Hf x Hin). lia.
Qed.

Theorem sort_no_dup_perm (a xs : list Z) :
  chain_lt a -> length a = length xs -> (forall v, In v a -> In v xs) -> Permutation a xs /\ StronglySorted Z.lt a /\ NoDup xs.
Proof.
  intros Hc Hl Hin. pose proof (chain_lt_sorted a Hc) as Hs. pose proof (sorted_nodup a Hs) as Hn.
  assert (Hp : Permutation a xs) by (apply NoDup_Permutation_bis; [exact Hn|lia|exact Hin]).
  split; [exact Hp|split; [exact Hs|]]. eapply Permutation_NoDup; eauto.
Qed.

(* rank = number of smaller elements *)
Definition count_lt (v : Z) (l : list Z) : nat := length (filter (fun x => x <? v) l).

Lemma count_lt_perm v l l' : Permutation l l' -> count_lt v l = count_lt v l'.
Proof.
  unfold count_lt. induction 1 as [|x l l' _ IH|x y l|l l' l'' _ IH1 _ IH2]; cbn; [reflexivity| | |congruence].
  - destruct (x <? v); cbn; congruence.
  - destruct (x <? v), (y <? v); reflexivity.
Qed.

Lemma count_lt_all_ge v l : Forall (fun x => v <= x) l -> count_lt v l = 0%nat.
Proof. unfold count_lt. induction 1 as [|x l Hx _ IH]; cbn; [reflexivity|]. destruct (x <? v) eqn:E; [lia|exact IH]. Qed.

Lemma sorted_nth_rank a : StronglySorted Z.lt a -> forall i, (i < length a)%nat -> count_lt (nth i a 0) a = i.
Proof.
  induction 1 as [|x l Hs IH Hf]; intros i Hi; [cbn in Hi; lia|]. destruct i as [|i]; cbn [nth].
  - unfold count_lt. cbn. replace (x <? x) with false by lia. apply count_lt_all_ge.
    eapply Forall_impl; [|exact Hf]. cbn. intros; lia.
  - cbn in Hi. assert (Hi' : (i < length l)%nat) by lia. specialize (IH i Hi').
    unfold count_lt in *. cbn. rewrite Forall_forall in Hf. pose proof (Hf _ (nth_In l 0 Hi')) as Hlt.
    replace (x <? nth i l 0) with true by lia. cbn. now rewrite IH.
Qed.

(* the value with rank i sits at index i *)
Lemma rank_index a xs v : Permutation a xs -> StronglySorted Z.lt a -> In v xs ->
  (count_lt v xs < length a)%nat /\ nth (count_lt v xs) a 0 = v.
Proof.
  intros Hp Hs Hin. apply (Permutation_in _ (Permutation_sym Hp)) in Hin. apply (In_nth _ _ 0) in Hin as (i & Hi & Hv).
  pose proof (sorted_nth_rank a Hs i Hi) as Hr. rewrite Hv in Hr. rewrite <- (count_lt_perm v _ _ Hp), Hr. auto.
Qed.

(* ---------------- intervals: parked (both ends negative) or assigned (non-negative start, positive length) ---------------- *)
Definition parked (p : Z * Z) : Prop := fst p < 0 /\ snd p < 0.
Definition assigned (p : Z * Z) : Prop := 0 <= fst p /\ fst p < snd p.

Lemma filter_len_split {A} (f g h : A -> bool) l :
  (forall x, In x l -> f x = g x || h x) -> (forall x, In x l -> h x = true -> g x = false) ->
  length (filter f l) = (length (filter g l) + length (filter h l))%nat.
Proof.
  induction l as [|x l IH]; intros H1 H2; [reflexivity|]. cbn.
  assert (IH' := IH (fun y Hy => H1 y (or_intror Hy)) (fun y Hy => H2 y (or_intror Hy))).
  specialize (H1 x (or_introl eq_refl)). specialize (H2 x (or_introl eq_refl)).
  rewrite H1. destruct (g x), (h x); cbn; try lia; specialize (H2 eq_refl); discriminate.
Qed.

Lemma filter_key_once (P : list (Z * Z)) pa : NoDup (map fst P) -> In pa P ->
  length (filter (fun p => fst p =? fst pa) P) = 1%nat.
Proof.
  induction P as [|p P IH]; intros Hn Hin; [destruct Hin|]. cbn in Hn. inversion Hn as [|? ? Hx Hn']; subst. cbn.
  destruct Hin as [->|Hin].
  - rewrite Z.eqb_refl. cbn. f_equal. apply length_zero_iff_nil.
    destruct (filter (fun p => fst p =? fst pa) P) as [|q r] eqn:E; [reflexivity|exfalso].
    assert (Hq : In q (filter (fun p => fst p =? fst pa) P)) by (rewrite E; now left).
    apply filter_In in Hq as [Hq1 Hq2]. apply Hx. replace (fst pa) with (fst q) by lia. now apply in_map.
  - destruct (fst p =? fst pa) eqn:E; [exfalso|now apply IH].
    apply Hx. replace (fst p) with (fst pa) by lia. now apply in_map.
Qed.

Lemma count_lt_map {A} (f : A -> Z) v l : count_lt v (map f l) = length (filter (fun x => f x <? v) l).
Proof. unfold count_lt. induction l as [|x l IH]; cbn; [reflexivity|]. destruct (f x <? v); cbn; congruence. Qed.

Theorem consecutive_ranks (P : list (Z * Z)) pa pb :
  (forall p, In p P -> parked p \/ assigned p) ->
  (forall p q, In p P -> In q P -> assigned p -> assigned q -> fst p <> fst q -> snd p <= fst q \/ snd q <= fst p) ->
  NoDup (map fst P) ->
  In pa P -> In pb P -> assigned pa -> fst pa < fst pb ->
  (forall pc, In pc P -> ~ (0 <= fst pc /\ fst pa < fst pc /\ fst pc < fst pb)) ->
  count_lt (fst pb) (map fst P) = S (count_lt (snd pa) (map snd P)) /\ snd pa <= fst pb.
Proof.
  intros Hk Hd Hn Ha Hb Haa Hlt Hbt.
  assert (Hab : assigned pb). { destruct (Hk pb Hb) as [[H1 _]|H]; [destruct Haa; lia|exact H]. }
  assert (Hle : snd pa <= fst pb). { destruct (Hd pa pb Ha Hb Haa Hab ltac:(lia)) as [H|H]; [exact H|]. destruct Hab; lia. }
  split; [|exact Hle]. rewrite !count_lt_map.
  rewrite (filter_len_split (fun p => fst p <? fst pb) (fun p => snd p <? snd pa) (fun p => fst p =? fst pa)).
  - rewrite (filter_key_once P pa Hn Ha). lia.
  - intros p Hp. destruct (Hk p Hp) as [[H1 H2]|Hp'].
    + destruct Haa. lia.
    + destruct (Z.eq_dec (fst p) (fst pa)) as [He|Hne].
      * destruct Haa, Hp'. lia.
      * specialize (Hbt p Hp). destruct (Hd p pa Hp Ha Hp' Haa Hne) as [H|H]; destruct Haa, Hp'; lia.
  - intros p Hp He. assert (p = pa) as ->.
    { assert (Hf : fst p = fst pa) by lia. clear He. revert Hp Ha Hf Hn. clear. induction P as [|x P IH]; intros Hp Ha Hf Hn; [destruct Hp|].
      cbn in Hn. inversion Hn as [|? ? Hx Hn']; subst. destruct Hp as [->|Hp], Ha as [->|Ha]; auto.
      - exfalso. apply Hx. rewrite Hf. now apply in_map.
      - exfalso. apply Hx. rewrite <- Hf. now apply in_map. }
    lia.
Qed.

(* the sorted copies at the two ranks *)
Theorem consecutive_in_sorted (P : list (Z * Z)) A B pa pb :
  Permutation A (map fst P) -> StronglySorted Z.lt A -> Permutation B (map snd P) -> StronglySorted Z.lt B ->
  (forall p, In p P -> parked p \/ assigned p) ->
  (forall p q, In p P -> In q P -> assigned p -> assigned q -> fst p <> fst q -> snd p <= fst q \/ snd q <= fst p) ->
  In pa P -> In pb P -> assigned pa -> fst pa < fst pb ->
  (forall pc, In pc P -> ~ (0 <= fst pc /\ fst pa < fst pc /\ fst pc < fst pb)) ->
  exists i, (S i < length A)%nat /\ nth (S i) A 0 = fst pb /\ nth i B 0 = snd pa.
Proof.
  intros HpA HsA HpB HsB Hk Hd Ha Hb Haa Hlt Hbt.
  assert (Hn : NoDup (map fst P)) by (eapply Permutation_NoDup; [exact HpA|now apply sorted_nodup]).
  destruct (consecutive_ranks P pa pb Hk Hd Hn Ha Hb Haa Hlt Hbt) as [Hr _].
  destruct (rank_index A (map fst P) (fst pb) HpA HsA (in_map fst _ _ Hb)) as [H1 H2].
  destruct (rank_index B (map snd P) (snd pa) HpB HsB (in_map snd _ _ Ha)) as [H3 H4].
  exists (count_lt (snd pa) (map snd P)). rewrite <- Hr. auto.
Qed.

(* ---------------- contiguity: sorted ends chained to sorted starts ---------------- *)
Lemma filter_compl {A} (f : A -> bool) l : (length (filter f l) + length (filter (fun x => negb (f x)) l) = length l)%nat.
Proof. induction l as [|x l IH]; cbn; [reflexivity|]. destruct (f x); cbn; lia. Qed.

Lemma filter_len_le {A} (f g : A -> bool) l : (forall x, In x l -> f x = true -> g x = true) ->
  (length (filter f l) <= length (filter g l))%nat.
Proof.
  induction l as [|x l IH]; intros H; cbn; [lia|]. specialize (IH (fun y Hy => H y (or_intror Hy))).
  specialize (H x (or_introl eq_refl)). destruct (f x); [rewrite H by reflexivity|destruct (g x)]; cbn; lia.
Qed.

Lemma filter_subset_eq {A} (f g : A -> bool) l : (forall x, In x l -> f x = true -> g x = true) ->
  length (filter f l) = length (filter g l) -> forall x, In x l -> g x = f x.
Proof.
  induction l as [|y l IH]; intros H Hl x Hx; [destruct Hx|].
  pose proof (filter_len_le f g l (fun z Hz => H z (or_intror Hz))) as Hle.
  pose proof (H y (or_introl eq_refl)) as Hy. cbn in Hl.
  destruct (f y) eqn:Ef; [rewrite Hy in Hl by reflexivity|destruct (g y) eqn:Eg]; cbn in Hl.
  - destruct Hx as [->|Hx]; [rewrite Hy by reflexivity; now rewrite Ef|].
    apply IH; [intros z Hz; apply H; now right|lia|exact Hx].
  - lia.
  - destruct Hx as [->|Hx]; [congruence|]. apply IH; [intros z Hz; apply H; now right|lia|exact Hx].
Qed.

Lemma filter_val_once (l : list Z) v : NoDup l -> In v l -> length (filter (fun x => x =? v) l) = 1%nat.
Proof.
  induction l as [|x l IH]; intros Hn Hin; [destruct Hin|]. inversion Hn as [|? ? Hx Hn']; subst. cbn.
  destruct Hin as [->|Hin].
  - rewrite Z.eqb_refl. cbn. f_equal. apply length_zero_iff_nil.
    destruct (filter (fun x => x =? v) l) as [|q r] eqn:E; [reflexivity|exfalso].
    assert (Hq : In q (filter (fun x => x =? v) l)) by (rewrite E; now left).
    apply filter_In in Hq as [Hq1 Hq2]. apply Hx. now replace v with q by lia.
  - destruct (x =? v) eqn:E; [exfalso; apply Hx; now replace x with v by lia|now apply IH].
Qed.

Section Contiguous.
  Variables (P : list (Z * Z)) (A B : list Z).
  Hypothesis HpA : Permutation A (map fst P).
  Hypothesis HsA : StronglySorted Z.lt A.
  Hypothesis HpB : Permutation B (map snd P).
  Hypothesis HsB : StronglySorted Z.lt B.
  Hypothesis Hpos : forall p, In p P -> fst p < snd p.
  Hypothesis Hlink : forall i, (S i < length A)%nat -> nth i B 0 = nth (S i) A 0.

  Let n := length P.
  Lemma lenA : length A = n. Proof. unfold n. rewrite (Permutation_length HpA). apply map_length. Qed.
  Lemma lenB : length B = n. Proof. unfold n. rewrite (Permutation_length HpB). apply map_length. Qed.

  (* no interval straddles an interior breakpoint *)
  Lemma no_straddle i : (S i < length A)%nat -> forall q, In q P -> nth (S i) A 0 < snd q -> nth (S i) A 0 <= fst q.
  Proof.
    intros Hi q Hq Hlt. set (v := nth (S i) A 0) in *.
    assert (HvB : nth i B 0 = v) by (now apply Hlink).
    assert (HnA : NoDup (map fst P)) by (eapply Permutation_NoDup; [exact HpA|now apply sorted_nodup]).
    assert (HnB : NoDup (map snd P)) by (eapply Permutation_NoDup; [exact HpB|now apply sorted_nodup]).
    (* ranks of v *)
    assert (R1 : length (filter (fun p => fst p <? v) P) = S i).
    { rewrite <- count_lt_map, <- (count_lt_perm v _ _ HpA). now apply sorted_nth_rank. }
    assert (HiB : (i < length B)%nat) by (rewrite lenB, <- lenA; lia).
    assert (R2 : length (filter (fun p => snd p <? v) P) = i).
    { rewrite <- count_lt_map, <- (count_lt_perm v _ _ HpB), <- HvB. now apply sorted_nth_rank. }
    assert (HvIn : In v (map snd P)). { apply (Permutation_in _ HpB). rewrite <- HvB. now apply nth_In. }
    assert (R3 : length (filter (fun p => snd p =? v) P) = 1%nat).
    { rewrite <- (filter_val_once (map snd P) v HnB HvIn). clear. induction P as [|x l IH]; cbn; [auto|]. destruct (snd x =? v); cbn; lia. }
    (* G1 = start >= v, G2 = end > v *)
    pose proof (filter_compl (fun p => fst p <? v) P) as C1.
    assert (C2 : (length (filter (fun p => (v <? snd p)%Z) P) + (length (filter (fun p => (snd p <? v)%Z) P) + length (filter (fun p => (snd p =? v)%Z) P)) = length P)%nat).
    { clear. induction P as [|x l IH]; cbn; [reflexivity|]. destruct (v <? snd x) eqn:E1, (snd x <? v) eqn:E2, (snd x =? v) eqn:E3; cbn; lia. }
    assert (Heq : length (filter (fun p => negb (fst p <? v)) P) = length (filter (fun p => v <? snd p) P)) by lia.
    pose proof (filter_subset_eq (fun p => negb (fst p <? v)) (fun p => v <? snd p) P) as Hs.
    assert (Hsub : forall x, In x P -> negb (fst x <? v) = true -> (v <? snd x) = true).
    { intros x Hx Hge. specialize (Hpos x Hx). lia. }
    specialize (Hs Hsub Heq q Hq). cbn in Hs. lia.
  Qed.

  (* every start except the smallest is a breakpoint *)
  Lemma start_is_breakpoint q p : In q P -> In p P -> fst p < fst q -> exists i, (S i < length A)%nat /\ nth (S i) A 0 = fst q.
  Proof.
    intros Hq Hp Hlt. destruct (rank_index A (map fst P) (fst q) HpA HsA (in_map fst _ _ Hq)) as [H1 H2].
    destruct (count_lt (fst q) (map fst P)) as [|i] eqn:E.
    - exfalso. rewrite count_lt_map in E. apply length_zero_iff_nil in E.
      assert (Hin : In p (filter (fun x => fst x <? fst q) P)) by (apply filter_In; split; [exact Hp|lia]). rewrite E in Hin. destruct Hin.
    - exists i. auto.
  Qed.

  Theorem contiguous_disjoint p q : In p P -> In q P -> fst p < fst q -> snd p <= fst q.
  Proof.
    intros Hp Hq Hlt. destruct (start_is_breakpoint q p Hq Hp Hlt) as (i & Hi & Hv).
    destruct (Z_le_gt_dec (snd p) (fst q)) as [H|H]; [exact H|exfalso].
    pose proof (no_straddle i Hi p Hp) as Hn. rewrite Hv in Hn. lia.
  Qed.

  Theorem contiguous_successor t : In t P -> (exists u, In u P /\ fst t < fst u) -> exists u, In u P /\ fst u = snd t.
  Proof.
    intros Ht (u & Hu & Hlt).
    destruct (rank_index B (map snd P) (snd t) HpB HsB (in_map snd _ _ Ht)) as [H1 H2].
    set (k := count_lt (snd t) (map snd P)) in *.
    destruct (Nat.eq_dec (S k) (length B)) as [Hlast|Hnl].
    - (* snd t is the largest end: impossible since u starts later *)
      exfalso. pose proof (contiguous_disjoint t u Ht Hu Hlt) as Hd. pose proof (Hpos u Hu) as Hpu.
      assert (HuB : In (snd u) B) by (apply (Permutation_in _ (Permutation_sym HpB)); now apply in_map).
      apply (In_nth _ _ 0) in HuB as (j & Hj & Hjv).
      assert (Hjk : (j <= k)%nat) by lia.
      assert (Hmono : forall a b, (a <= b)%nat -> (b < length B)%nat -> nth a B 0 <= nth b B 0).
      { clear - HsB. induction HsB as [|x l Hs IH Hf]; intros a b Hab Hb; [cbn in Hb; lia|].
        destruct a as [|a], b as [|b]; cbn [nth]; try lia.
        - cbn in Hb. assert (Hb' : (b < length l)%nat) by lia. rewrite Forall_forall in Hf. specialize (Hf (nth b l 0) (nth_In l 0 Hb')). lia.
        - cbn in Hb. apply IH; [exact Hs|lia|lia]. }
      specialize (Hmono j k Hjk H1). lia.
    - assert (Hk : (S k < length A)%nat) by (rewrite lenA, <- lenB; lia).
      pose proof (Hlink k Hk) as Hl. rewrite H2 in Hl.
      assert (Hin : In (snd t) (map fst P)). { apply (Permutation_in _ HpA). rewrite Hl. now apply nth_In. }
      apply in_map_iff in Hin as (w & Hw1 & Hw2). exists w. auto.
  Qed.
End Contiguous.
