(* C17_proof.v -- the Gantt chart draws exactly the reported assignments at the right place. *)
From Coq Require Import ZArith List Bool Lia ZifyBool String.
From PS.model Require Import Smt Enc Ind Prog Solution Export Gantt.
From PS.proofs Require Import Base C16_proof.
Import ListNotations.
Open Scope Z_scope.

Lemma indexed_length {A} (l : list A) i : List.length (indexed i l) = List.length l.
Proof. revert i. induction l as [|a l IH]; intros i; cbn; [reflexivity|]. now rewrite IH. Qed.
Lemma indexed_nth {A} (l : list A) : forall i k x, In (k, x) (indexed i l) -> nth_error l (k - i) = Some x /\ (i <= k)%nat.
Proof.
  induction l as [|a l IH]; intros i k x H; cbn in H; [contradiction|]. destruct H as [[= <- <-]|H].
  - rewrite Nat.sub_diag. split; [reflexivity|lia].
  - apply IH in H as [H1 H2]. split; [|lia]. replace (k - i)%nat with (S (k - S i)) by lia. exact H1.
Qed.

(* geometry of one bar: it starts at `start`, is `length` long, and a zero-length item is a marker of width 1/10
   centred on its instant; the text is centred on the item *)
Theorem bar_geometry : forall row start len text,
  0 <= len ->
  let b := draw_bar row start len text in
  gb_row b = row /\ gb_text b = text
  /\ (0 < len -> gb_x20 b = 20 * start /\ gb_x20 b + gb_w20 b = 20 * (start + len))
  /\ (len = 0 -> gb_w20 b = 2 /\ 2 * gb_x20 b + gb_w20 b = 2 * (20 * start))
  /\ 2 * gb_tx20 b = 2 * gb_x20 b + gb_w20 b.
Proof.
  intros row start len text Hl b. subst b. unfold draw_bar. cbn [gb_row gb_text gb_x20 gb_w20 gb_tx20].
  destruct (len =? 0) eqn:E; repeat split; intros; lia.
Qed.

(* resource view: exactly one bar per reported assignment, on the row of its resource, spanning start..end *)
Theorem resource_view_bars : forall s m, effective_mode s m = GResource ->
  gantt_bars s m = flat_map (fun '(i, r) => map (fun '(t, a, b) => draw_bar i a (b - a) (show_task t)) (rs_assignments r))
                            (indexed 0 (so_resources s))
  /\ gantt_labels s m = map (fun r => resobj_name (rs_name r)) (so_resources s).
Proof. intros s m H. unfold gantt_bars, gantt_labels. rewrite H. split; reflexivity. Qed.

Theorem resource_view_one_bar_per_assignment : forall s m, effective_mode s m = GResource ->
  List.length (gantt_bars s m) = List.length (flat_map rs_assignments (so_resources s)).
Proof.
  intros s m H. unfold gantt_bars. rewrite H. generalize 0%nat.
  induction (so_resources s) as [|r l IH]; intros n; cbn [indexed flat_map]; [reflexivity|].
  rewrite !app_length, map_length, IH. reflexivity.
Qed.

Theorem resource_view_bar_on_its_row : forall s m b, effective_mode s m = GResource -> In b (gantt_bars s m) ->
  exists r t a e, nth_error (so_resources s) (gb_row b) = Some r /\ In (t, a, e) (rs_assignments r)
                  /\ b = draw_bar (gb_row b) a (e - a) (show_task t).
Proof.
  intros s m b H Hin. unfold gantt_bars in Hin. rewrite H in Hin.
  apply in_flat_map in Hin as ([i r] & Hir & Hb). apply in_map_iff in Hb as ([[t a] e] & <- & Hin).
  apply indexed_nth in Hir as [Hn _]. rewrite Nat.sub_0_r in Hn. exists r, t, a, e. cbn [draw_bar gb_row]. auto.
Qed.

(* task view: exactly one bar per task reported as scheduled and none for the others, spanning start..start+duration *)
Theorem task_view_bars : forall s m, effective_mode s m = GTask ->
  List.length (gantt_bars s m) = List.length (filter ts_sched (so_tasks s))
  /\ gantt_labels s m = map (fun t => show_task (ts_id t)) (filter ts_sched (so_tasks s)).
Proof.
  intros s m H. unfold gantt_bars, gantt_labels, scheduled_tasks. rewrite H. rewrite map_length, indexed_length. auto.
Qed.
Theorem task_view_only_scheduled : forall s m b, effective_mode s m = GTask -> In b (gantt_bars s m) ->
  exists t, In t (so_tasks s) /\ ts_sched t = true
            /\ nth_error (filter ts_sched (so_tasks s)) (gb_row b) = Some t
            /\ gb_x20 b = (if ts_dur t =? 0 then 20 * ts_start t - 1 else 20 * ts_start t)
            /\ gb_w20 b = (if ts_dur t =? 0 then 2 else 20 * ts_dur t).
Proof.
  intros s m b H Hin. unfold gantt_bars, scheduled_tasks in Hin. rewrite H in Hin.
  apply in_map_iff in Hin as ([i t] & <- & Hit). apply indexed_nth in Hit as [Hn _]. rewrite Nat.sub_0_r in Hn.
  assert (Ht := nth_error_In _ _ Hn). apply filter_In in Ht as [Ht Hs].
  exists t. cbn [draw_bar gb_row gb_x20 gb_w20]. auto.
Qed.

(* without any resource report the chart is the task view whatever was asked *)
Theorem no_resource_means_task_view : forall s m, so_resources s = [] -> effective_mode s m = GTask.
Proof. intros s m H. unfold effective_mode. now rewrite H. Qed.

(* buffer chart: the k-th reported level is drawn from the k-th abscissa of [0] ++ change times ++ [horizon] to
   the next one *)
Lemma steps_nth : forall xs levels k x0 x1 y,
  nth_error xs k = Some x0 -> nth_error xs (S k) = Some x1 -> nth_error levels k = Some y ->
  nth_error (steps xs levels) k = Some (x0, x1, y).
Proof.
  induction xs as [|a xs IH]; intros levels k x0 x1 y H0 H1 Hy; [destruct k; discriminate|].
  destruct xs as [|b xs]; [destruct k; cbn in H1; [discriminate|destruct k; discriminate]|].
  destruct levels as [|l levels]; [destruct k; discriminate|].
  destruct k as [|k]; cbn in *.
  - now injection H0 as <-; injection H1 as <-; injection Hy as <-.
  - apply IH; assumption.
Qed.
Theorem buffer_steps_are_reported_levels : forall s b k x0 x1 y,
  nth_error (0 :: bs_times b ++ [so_horizon s]) k = Some x0 ->
  nth_error (0 :: bs_times b ++ [so_horizon s]) (S k) = Some x1 ->
  nth_error (bs_levels b) k = Some y ->
  nth_error (buffer_steps s b) k = Some (x0, x1, y).
Proof. intros s b. unfold buffer_steps. apply steps_nth. Qed.
Theorem buffer_steps_count : forall s b, List.length (bs_levels b) = S (List.length (bs_times b)) ->
  List.length (buffer_steps s b) = List.length (bs_levels b).
Proof.
  intros s b H. unfold buffer_steps.
  assert (G : forall xs ls, List.length xs = S (List.length ls) -> List.length (steps xs ls) = List.length ls).
  { induction xs as [|a [|c xs] IH]; intros ls Hl; destruct ls as [|l ls]; cbn in *; try lia.
    rewrite IH; cbn; lia. }
  apply G. cbn. rewrite app_length. cbn. lia.
Qed.
