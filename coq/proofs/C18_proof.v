(* C18_proof.v -- the accept / reject decision of every constructor is exactly wf_op. *)
From Coq Require Import ZArith List Bool Lia ZifyBool.
From PS.model Require Import Smt Enc Ind Prog.
From PS.spec Require Import Spec.
From PS.proofs Require Import Base Wf_proof.
Import ListNotations.
Open Scope Z_scope.

Lemma check_c_wf c opt e : check_c e && nodup_forms (enc_cons c opt e) = wf_constraint c opt e.
Proof.
  unfold wf_constraint. f_equal.
  destruct e; cbn [check_c]; unfold has_busy, is_nil, absent, nonneg, posz; try reflexivity.
  - destruct ivs; [reflexivity|]. cbn. reflexivity.
  - destruct lo, hi; reflexivity.
Qed.

Lemma check_i_wf all e : check_i all e = wf_ind_expr all e.
Proof. destruct e; cbn [check_i wf_ind_expr]; try reflexivity; destruct (tasks_of all ts); reflexivity. Qed.

Lemma add_indicator_none st id key given b re :
  add_indicator st id key given b re = None <-> wf_indicator st id key re = false.
Proof.
  unfold add_indicator, wf_indicator, ind_asserts. cbn [i_id i_hz i_all i_expr]. rewrite check_i_wf.
  destruct (key_taken st key); cbn [negb andb]; [split; auto|].
  destruct (wf_ind_expr (ps_tasks st) re); cbn [negb andb]; [|split; auto].
  destruct (nodup_forms _); cbn [negb]; split; congruence.
Qed.
Lemma add_indicator_objs st id key given b re st' :
  add_indicator st id key given b re = Some st' -> x_objs (ps_ext st') = x_objs (ps_ext st).
Proof.
  unfold add_indicator. destruct (key_taken st key); [discriminate|].
  destruct (negb (check_i _ _)); [discriminate|]. destruct (negb (nodup_forms _)); [discriminate|].
  intros [= <-]. reflexivity.
Qed.

Ltac brk := repeat match goal with
  | |- context [match ?x with _ => _ end] => destruct x eqn:?
  end.

Theorem decision st o :
  step_problem st o <> Unsupported -> (step_problem st o = Err <-> wf_op st o = false).
Proof.
  destruct o; cbn [step_problem wf_op].
  - destruct h as [z|]; unfold posz; [destruct (1 <=? z)|]; intros _; split; intros H; congruence.
  - unfold wf_task_fields, tkind_ok, nonneg, posz. intros _.
    destruct (find_task st id); cbn [absent andb].
    + destruct (negb _); split; auto.
    + replace ((0 <=? work) && (0 <=? prio) && _) with
        (match k with KZero => true | KFixed d => 1 <=? d
                 | KVar mn mx al => (0 <=? mn) && match mx with Some m => 1 <=? m | None => true end
                                    && match al with Some l => forallb (fun z => 1 <=? z) l | None => true end end
         && (0 <=? work) && (0 <=? prio)).
      2:{ destruct ((0 <=? work)), ((0 <=? prio)); rewrite ?andb_true_r, ?andb_false_r; reflexivity. }
      destruct (_ && _ && _); cbn [negb]; split; intros H; congruence.
  - unfold nonneg. intros _. destruct (0 <=? prod); cbn [negb]; destruct (find_worker st (WPlain id));
      cbn [absent andb]; split; intros H; congruence.
  - unfold posz. intros _. destruct cost; destruct (find_cumul st id); cbn [absent andb];
      destruct ((2 <=? size)), (1 <=? prod); cbn [negb andb]; split; intros H; congruence.
  - unfold posz. destruct (negb (forallb _ listed)); [congruence|].
    destruct ((2 <=? _) && (1 <=? n) && (n <=? _)) eqn:Hc; cbn [negb].
    + destruct (negb (Nat.eqb _ _)); [congruence|]. intros _.
      apply andb_true_iff in Hc as [Hc H3]. apply andb_true_iff in Hc as [H1 H2].
      rewrite H1, H2, H3. destruct (find_select st (SUser id)); cbn [absent andb]; split; intros H; congruence.
    + intros _. split; [intros _|auto].
      destruct (absent _); [|reflexivity]. cbn [andb]. rewrite <- andb_assoc. rewrite <- andb_assoc in Hc. exact Hc.
  - destruct (find_task st t) as [ti|]; [|congruence].
    destruct r as [w|c|s].
    + destruct (find_worker st w); [|congruence]. intros _.
      destruct (existsb _ _); cbn [negb]; split; intros H; congruence.
    + destruct (find_cumul st c); [|congruence]. intros _.
      destruct (existsb _ _); cbn [negb]; split; intros H; congruence.
    + destruct (find_select st (SUser s)); [|congruence]. intros _.
      destruct (existsb _ _); cbn [negb]; split; intros H; congruence.
  - destruct (find_cons st id); cbn [absent andb]; [intros _; split; auto|].
    destruct (resolve st e) as [re|]; [|congruence].
    destruct (negb (buffer_known st re)); [congruence|]. intros _.
    rewrite <- check_c_wf. destruct (check_c re); cbn [negb andb]; [|split; auto].
    destruct (nodup_forms _); cbn [negb]; split; intros H; congruence.
  - (* buffer *) intros _. unfold absent, absentb.
    destruct init, final, (find_buf st id); cbn [andb negb]; split; congruence.
  - (* indicator *) destruct (negb (user_indicator e)); [congruence|].
    destruct (find_ind st id); cbn [absent andb]; [intros _; split; auto|].
    destruct (resolve_i st e) as [re|]; [|congruence]. intros _.
    destruct (add_indicator st id (Some (user_ind_name id)) (user_ind_name id) bounds re) eqn:Ha.
    + split; [congruence|]. intros Hw.
      apply (proj2 (add_indicator_none st id _ (user_ind_name id) bounds re)) in Hw. congruence.
    + split; [intros _|auto]. now apply add_indicator_none in Ha.
  - (* objective *) unfold wf_objective, objective_name_taken.
    match goal with |- context [objective_name st ?x] =>
      destruct (objective_name st x) as [name|]; [|congruence]; destruct x end; cbn [objective_indicator];
      try (intros _; destruct (existsb _ _); cbn [negb andb]; split; congruence);
      try (destruct (find_ind st i); [|congruence]; intros _;
           destruct (existsb _ _); cbn [negb andb]; split; congruence);
      (destruct (find_ind st ind); [congruence|];
       match goal with |- context [resolve_i st ?ie] => destruct (resolve_i st ie) end; [|congruence];
       intros _;
       match goal with |- context [add_indicator st ind ?k ?g None ?r] =>
         destruct (add_indicator st ind k g None r) eqn:Ha;
         [ rewrite (add_indicator_objs _ _ _ _ _ _ _ Ha);
           assert (Hw : wf_indicator st ind k r <> false)
             by (intros Hw; apply (proj2 (add_indicator_none st ind k g None r)) in Hw; congruence);
           destruct (wf_indicator st ind k r); [|congruence];
           destruct (existsb _ _); cbn [negb andb]; split; congruence
         | apply add_indicator_none in Ha; rewrite Ha; rewrite andb_false_r; split; auto ] end).
Qed.

(* before any problem exists every constructor except SchedulingProblem raises *)
Lemma no_problem o : (forall h, o <> ONewProblem h) -> step None o = Err.
Proof. destruct o; intros H; try reflexivity. exfalso. eapply H. reflexivity. Qed.

(* ---- the rules of the property text, one by one ---- *)
Lemma rule_duplicate_task st id k opt work rel due dl prio :
  find_task st id <> None -> step_problem st (ONewTask id k opt work rel due dl prio) = Err.
Proof. cbn [step_problem]. destruct (negb _); [reflexivity|]. destruct (find_task st id); congruence. Qed.
Lemma rule_duplicate_worker st id prod cost :
  find_worker st (WPlain id) <> None -> step_problem st (ONewWorker id prod cost) = Err.
Proof. cbn [step_problem]. destruct (negb _); [reflexivity|]. destruct (find_worker st _); congruence. Qed.
Lemma rule_duplicate_cumulative st id size prod cost :
  find_cumul st id <> None -> step_problem st (ONewCumulative id size prod cost) = Err.
Proof. cbn [step_problem]. destruct cost; try reflexivity. destruct (negb _); [reflexivity|]. destruct (find_cumul st _); congruence. Qed.
Lemma rule_duplicate_constraint st id opt e :
  find_cons st id <> None -> step_problem st (ONewConstraint id opt e) = Err.
Proof. cbn [step_problem]. destruct (find_cons st id); congruence. Qed.
Lemma rule_duplicate_selection st id listed n k :
  step_problem st (ONewSelect id listed n k) <> Unsupported ->
  find_select st (SUser id) <> None -> step_problem st (ONewSelect id listed n k) = Err.
Proof.
  cbn [step_problem]. destruct (negb (forallb _ _)); [congruence|].
  destruct (negb (_ && _ && _)); [reflexivity|]. destruct (negb (Nat.eqb _ _)); [congruence|].
  destruct (find_select st _); congruence.
Qed.
Lemma rule_fixed_duration st id d opt work rel due dl prio :
  d <= 0 -> step_problem st (ONewTask id (KFixed d) opt work rel due dl prio) = Err.
Proof. intros H. cbn [step_problem tkind_ok]. unfold posz. replace (1 <=? d) with false by lia. reflexivity. Qed.
Lemma rule_negative_fields st id k opt work rel due dl prio :
  work < 0 \/ prio < 0 \/ (exists mn mx al, k = KVar mn mx al /\ mn < 0) ->
  step_problem st (ONewTask id k opt work rel due dl prio) = Err.
Proof.
  intros H. cbn [step_problem]. unfold nonneg.
  destruct H as [H|[H|(mn & mx & al & -> & H)]].
  - replace (0 <=? work) with false by lia. now rewrite andb_false_r.
  - replace (0 <=? prio) with false by lia. now rewrite andb_false_r.
  - cbn [tkind_ok]. unfold nonneg. replace (0 <=? mn) with false by lia. reflexivity.
Qed.
Lemma rule_selection_size st id listed n k :
  step_problem st (ONewSelect id listed n k) <> Unsupported ->
  Z.of_nat (length listed) < 2 \/ Z.of_nat (length listed) < n \/ n < 1 ->
  step_problem st (ONewSelect id listed n k) = Err.
Proof.
  cbn [step_problem]. destruct (negb (forallb _ _)); [congruence|].
  intros _ H. unfold posz.
  replace ((2 <=? Z.of_nat (length listed)) && (1 <=? n) && (n <=? Z.of_nat (length listed))) with false; [reflexivity|].
  symmetry. destruct H as [H|[H|H]].
  - replace (2 <=? Z.of_nat (length listed)) with false by lia. reflexivity.
  - replace (n <=? Z.of_nat (length listed)) with false by lia. now rewrite andb_false_r.
  - replace (1 <=? n) with false by lia. now rewrite andb_false_r.
Qed.
Lemma rule_cumulative_size st id size prod cost :
  size < 2 -> step_problem st (ONewCumulative id size prod cost) = Err.
Proof. intros H. cbn [step_problem]. destruct cost; try reflexivity. replace (2 <=? size) with false by lia. reflexivity. Qed.
Lemma rule_constraint_illformed st id opt e re :
  find_cons st id = None -> resolve st e = Some re -> buffer_known st re = true ->
  wf_constraint id opt re = false ->
  step_problem st (ONewConstraint id opt e) = Err.
Proof.
  intros Hf Hr Hb Hw. cbn [step_problem]. rewrite Hf, Hr, Hb. cbn [negb]. rewrite <- check_c_wf in Hw.
  destruct (check_c re); cbn [negb andb] in *; [|reflexivity]. rewrite Hw. reflexivity.
Qed.
(* instances: an optional-task rule on a mandatory task, force-apply over a mandatory constraint,
   a resource constraint on a resource that works for no task *)
Lemma rule_optional_only t b c opt : ti_opt t = false -> wf_constraint c opt (CForceSched t b) = false.
Proof. intros H. unfold wf_constraint. now rewrite H. Qed.
Lemma rule_condition_only t f c opt : ti_opt t = false -> wf_constraint c opt (CCondSched t f) = false.
Proof. intros H. unfold wf_constraint. now rewrite H. Qed.
Lemma rule_dependency_only a t c opt : ti_opt t = false -> wf_constraint c opt (CDependency a t) = false.
Proof. intros H. unfold wf_constraint. now rewrite H. Qed.
Lemma rule_force_n_only ts n k c opt t : In t ts -> ti_opt t = false -> wf_constraint c opt (CForceN ts n k) = false.
Proof.
  intros Hin H. unfold wf_constraint. replace (forallb ti_opt ts) with false; [reflexivity|].
  symmetry. apply not_true_is_false. intros Hf. rewrite forallb_forall in Hf. specialize (Hf t Hin). congruence.
Qed.
Lemma rule_force_apply_only cs n k c opt o : In o cs -> or_opt o = false -> wf_constraint c opt (CForceApplyN cs n k) = false.
Proof.
  intros Hin H. unfold wf_constraint. replace (forallb or_opt cs) with false; [reflexivity|].
  symmetry. apply not_true_is_false. intros Hf. rewrite forallb_forall in Hf. specialize (Hf o Hin). congruence.
Qed.
Lemma rule_unassigned_resource r c opt : all_busy r = [] ->
  (forall ivs k, ivs <> [] -> wf_constraint c opt (CWorkLoad r ivs k) = false)
  /\ (forall ivs, wf_constraint c opt (CUnavailable r ivs) = false)
  /\ (forall ivs p s o e, wf_constraint c opt (CPeriodicUnavailable r ivs p s o e) = false)
  /\ (forall ivs, wf_constraint c opt (CInterrupted r ivs) = false)
  /\ (forall ivs p s o e, wf_constraint c opt (CPeriodicInterrupted r ivs p s o e) = false).
Proof.
  intros H. unfold wf_constraint, has_busy. rewrite H. cbn [is_nil negb andb orb].
  repeat split; intros; try reflexivity. destruct ivs; [congruence|reflexivity].
Qed.
Lemma rule_unassigned_distance r d ivs m c opt : rs_own r = [] -> wf_constraint c opt (CDistance r d ivs m) = false.
Proof. intros H. unfold wf_constraint. rewrite H. reflexivity. Qed.
Lemma rule_unassigned_nondelay r c opt : rs_own r = [] -> wf_constraint c opt (CNonDelay r) = false.
Proof. intros H. unfold wf_constraint. cbn [andb]. unfold enc_cons, enc_raw, nondelay_like. rewrite H. destruct opt; cbn -[bvar_beq]; [|reflexivity].
  rewrite (internal_bvar_dec_lb (BApplied c) (BApplied c) eq_refl). reflexivity. Qed.

(* every well-formed element is accepted *)
Corollary accepts_well_formed st o :
  step_problem st o <> Unsupported -> wf_op st o = true -> exists st', step_problem st o = Ok st'.
Proof.
  intros Hs Hw. destruct (step_problem st o) as [st'| |] eqn:E; [eauto| |congruence].
  exfalso. assert (H : wf_op st o = false) by (apply decision; [congruence|exact E]). congruence.
Qed.
