(* Coincidence.v -- nested mutual induction principle for term/form and the coincidence lemma:
   evaluation only depends on the variables that occur (used by the conservative-extension argument of C15
   and by the completeness glue of C05). *)
From Coq Require Import ZArith List Bool Lia.
From PS.model Require Import Smt.
From PS.proofs Require Import Base.
Import ListNotations.
Open Scope Z_scope.

Section Ind.
Variables (P : term -> Prop) (Q : form -> Prop).
Hypotheses
 (HTC : forall z, P (TC z)) (HTV : forall x, P (TV x))
 (HTAdd : forall l, Forall P l -> P (TAdd l))
 (HTSub : forall a b, P a -> P b -> P (TSub a b)) (HTMul : forall a b, P a -> P b -> P (TMul a b))
 (HTDiv : forall a b, P a -> P b -> P (TDiv a b)) (HTMod : forall a b, P a -> P b -> P (TMod a b))
 (HTIte : forall c a b, Q c -> P a -> P b -> P (TIte c a b))
 (HTSel : forall arr i, P i -> P (TSel arr i)) (HTApp : forall f a, P a -> P (TApp f a))
 (HFT : Q FT) (HFF : Q FF) (HFB : forall b, Q (FB b))
 (HFLe : forall a b, P a -> P b -> Q (FLe a b)) (HFLt : forall a b, P a -> P b -> Q (FLt a b))
 (HFGe : forall a b, P a -> P b -> Q (FGe a b)) (HFGt : forall a b, P a -> P b -> Q (FGt a b))
 (HFEq : forall a b, P a -> P b -> Q (FEq a b)) (HFNe : forall a b, P a -> P b -> Q (FNe a b))
 (HFAnd : forall l, Forall Q l -> Q (FAnd l)) (HFOr : forall l, Forall Q l -> Q (FOr l))
 (HFNot : forall f, Q f -> Q (FNot f)) (HFXor : forall a b, Q a -> Q b -> Q (FXor a b))
 (HFImp : forall a b, Q a -> Q b -> Q (FImp a b)) (HFIte : forall c a b, Q c -> Q a -> Q b -> Q (FIte c a b))
 (HFIff : forall a b, Q a -> Q b -> Q (FIff a b))
 (HFPbLe : forall l k, Forall Q l -> Q (FPbLe l k)) (HFPbGe : forall l k, Forall Q l -> Q (FPbGe l k))
 (HFPbEq : forall l k, Forall Q l -> Q (FPbEq l k))
 (HFArr : forall arr i v, P i -> P v -> Q (FArrFix arr i v))
 (HFFun : forall f t q, P t -> Q (FFunPoint f t q)).

Fixpoint term_ind2 (t : term) : P t :=
  match t with
  | TC z => HTC z | TV x => HTV x
  | TAdd l => HTAdd l ((fix go (l : list term) : Forall P l :=
                          match l with [] => Forall_nil _ | a :: r => Forall_cons a (term_ind2 a) (go r) end) l)
  | TSub a b => HTSub a b (term_ind2 a) (term_ind2 b) | TMul a b => HTMul a b (term_ind2 a) (term_ind2 b)
  | TDiv a b => HTDiv a b (term_ind2 a) (term_ind2 b) | TMod a b => HTMod a b (term_ind2 a) (term_ind2 b)
  | TIte c a b => HTIte c a b (form_ind2 c) (term_ind2 a) (term_ind2 b)
  | TSel arr i => HTSel arr i (term_ind2 i) | TApp f a => HTApp f a (term_ind2 a)
  end
with form_ind2 (f : form) : Q f :=
  let go := fix go (l : list form) : Forall Q l :=
              match l with [] => Forall_nil _ | a :: r => Forall_cons a (form_ind2 a) (go r) end in
  match f with
  | FT => HFT | FF => HFF | FB b => HFB b
  | FLe a b => HFLe a b (term_ind2 a) (term_ind2 b) | FLt a b => HFLt a b (term_ind2 a) (term_ind2 b)
  | FGe a b => HFGe a b (term_ind2 a) (term_ind2 b) | FGt a b => HFGt a b (term_ind2 a) (term_ind2 b)
  | FEq a b => HFEq a b (term_ind2 a) (term_ind2 b) | FNe a b => HFNe a b (term_ind2 a) (term_ind2 b)
  | FAnd l => HFAnd l (go l) | FOr l => HFOr l (go l)
  | FNot g => HFNot g (form_ind2 g) | FXor a b => HFXor a b (form_ind2 a) (form_ind2 b)
  | FImp a b => HFImp a b (form_ind2 a) (form_ind2 b)
  | FIte c a b => HFIte c a b (form_ind2 c) (form_ind2 a) (form_ind2 b)
  | FIff a b => HFIff a b (form_ind2 a) (form_ind2 b)
  | FPbLe l k => HFPbLe l k (go l) | FPbGe l k => HFPbGe l k (go l) | FPbEq l k => HFPbEq l k (go l)
  | FArrFix arr i v => HFArr arr i v (term_ind2 i) (term_ind2 v)
  | FFunPoint f t q => HFFun f t q (term_ind2 t)
  end.
End Ind.

Section Coincidence.
Variables e1 e2 : env.
Hypothesis Hav : forall a i, av e1 a i = av e2 a i.
Hypothesis Hfv : forall f, fv e1 f = fv e2 f.

Definition ag_t (t : term) : Prop :=
  (forall x, In x (tiv t) -> iv e1 x = iv e2 x) /\ (forall b, In b (tbv t) -> bv e1 b = bv e2 b).
Definition ag_f (f : form) : Prop :=
  (forall x, In x (fiv f) -> iv e1 x = iv e2 x) /\ (forall b, In b (fbv f) -> bv e1 b = bv e2 b).
Definition PT t := ag_t t -> teval e1 t = teval e2 t.
Definition PF f := ag_f f -> feval e1 f = feval e2 f.

Lemma ag_app_t {X} (vi : X -> list ivar) (vb : X -> list bvar) (R : X -> Prop) l :
  Forall (fun a => ((forall x, In x (vi a) -> iv e1 x = iv e2 x) /\ (forall b, In b (vb a) -> bv e1 b = bv e2 b)) -> R a) l ->
  (forall x, In x (flat_map vi l) -> iv e1 x = iv e2 x) -> (forall b, In b (flat_map vb l) -> bv e1 b = bv e2 b) ->
  Forall R l.
Proof.
  induction 1 as [|a l Ha _ IH]; cbn; intros Hi Hb; constructor.
  - apply Ha. split; intros; [apply Hi|apply Hb]; apply in_or_app; now left.
  - apply IH; intros; [apply Hi|apply Hb]; apply in_or_app; now right.
Qed.

Lemma tsum_ext l : Forall (fun a => teval e1 a = teval e2 a) l -> tsum e1 l = tsum e2 l.
Proof. induction 1 as [|a l H _ IH]; [reflexivity|]. rewrite !tsum_cons. congruence. Qed.
Lemma fcount_ext l : Forall (fun a => feval e1 a = feval e2 a) l -> fcount e1 l = fcount e2 l.
Proof. induction 1 as [|a l H _ IH]; [reflexivity|]. rewrite !fcount_cons. congruence. Qed.
Lemma forallb_ext2 l : Forall (fun a => feval e1 a = feval e2 a) l -> forallb (feval e1) l = forallb (feval e2) l.
Proof. induction 1; cbn; congruence. Qed.
Lemma existsb_ext2 l : Forall (fun a => feval e1 a = feval e2 a) l -> existsb (feval e1) l = existsb (feval e2) l.
Proof. induction 1; cbn; congruence. Qed.

Ltac sub H1 H2 :=
  split; [intros ? ?; apply H1; repeat (rewrite in_app_iff); tauto | intros ? ?; apply H2; repeat (rewrite in_app_iff); tauto].

Lemma coincidence : (forall t, PT t) /\ (forall f, PF f).
Proof.
  split.
  - apply (term_ind2 PT PF); unfold PT, PF, ag_t, ag_f; cbn [tiv fiv tbv fbv]; intros;
      repeat match goal with H : _ /\ _ |- _ => destruct H as [Hi Hb] end;
      match goal with
      | |- teval e1 ?t = teval e2 ?t => rewrite (teval_eq e1 t), (teval_eq e2 t)
      | |- feval e1 ?f = feval e2 ?f => rewrite (feval_eq e1 f), (feval_eq e2 f) end; cbv iota beta; try reflexivity.
    all: try (match goal with
              | |- iv _ _ = iv _ _ => apply Hi; now left
              | |- bv _ _ = bv _ _ => apply Hb; now left end).
    all: try (apply tsum_ext; eapply ag_app_t; eauto).
    all: try (first [apply forallb_ext2 | apply existsb_ext2 | (f_equal; apply fcount_ext)]; eapply ag_app_t; eauto).
    all: repeat match goal with
         | IH : _ -> teval e1 ?a = teval e2 ?a |- _ => rewrite IH by (sub Hi Hb); clear IH
         | IH : _ -> feval e1 ?a = feval e2 ?a |- _ => rewrite IH by (sub Hi Hb); clear IH end;
         rewrite ?Hav, ?Hfv; try reflexivity.
  - apply (form_ind2 PT PF); unfold PT, PF, ag_t, ag_f; cbn [tiv fiv tbv fbv]; intros;
      repeat match goal with H : _ /\ _ |- _ => destruct H as [Hi Hb] end;
      match goal with
      | |- teval e1 ?t = teval e2 ?t => rewrite (teval_eq e1 t), (teval_eq e2 t)
      | |- feval e1 ?f = feval e2 ?f => rewrite (feval_eq e1 f), (feval_eq e2 f) end; cbv iota beta; try reflexivity.
    all: try (match goal with
              | |- iv _ _ = iv _ _ => apply Hi; now left
              | |- bv _ _ = bv _ _ => apply Hb; now left end).
    all: try (apply tsum_ext; eapply ag_app_t; eauto).
    all: try (first [apply forallb_ext2 | apply existsb_ext2 | (f_equal; apply fcount_ext)]; eapply ag_app_t; eauto).
    all: repeat match goal with
         | IH : _ -> teval e1 ?a = teval e2 ?a |- _ => rewrite IH by (sub Hi Hb); clear IH
         | IH : _ -> feval e1 ?a = feval e2 ?a |- _ => rewrite IH by (sub Hi Hb); clear IH end;
         rewrite ?Hav, ?Hfv; try reflexivity.
Qed.

Lemma feval_coincidence f :
  (forall x, In x (fiv f) -> iv e1 x = iv e2 x) -> (forall b, In b (fbv f) -> bv e1 b = bv e2 b) ->
  feval e1 f = feval e2 f.
Proof. intros H1 H2. apply (proj2 coincidence). split; assumption. Qed.
Lemma teval_coincidence t :
  (forall x, In x (tiv t) -> iv e1 x = iv e2 x) -> (forall b, In b (tbv t) -> bv e1 b = bv e2 b) ->
  teval e1 t = teval e2 t.
Proof. intros H1 H2. apply (proj1 coincidence). split; assumption. Qed.
End Coincidence.
