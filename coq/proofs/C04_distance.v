(* C04_distance.v -- ResourceNonDelay and ResourceTasksDistance: for two consecutive assigned busy intervals of the resource
   the gap is zero, respectively compares with the stated distance as the mode says. *)
From Coq Require Import ZArith List Bool Lia ZifyBool Permutation Sorted String.
From PS.model Require Import Smt Enc Ind Prog.
From PS.spec Require Import Spec.
From PS.proofs Require Import Base SortNoDup Sort_model C03_contig.
Import ListNotations.
Open Scope Z_scope.

Section Busy.
  Variables (e : env) (o : rref).
  Let Sx (x : busyent) := BS o (ti_id (be_task x)) (be_maybe x).
  Let Ex (x : busyent) := BE o (ti_id (be_task x)) (be_maybe x).
  Definition bspan (x : busyent) : Z * Z := (teval e (Sx x), teval e (Ex x)).

  Lemma busy_shape_sem l : feval e (busy_shape o l) = true -> forall x, In x l -> parked (bspan x) \/ assigned (bspan x).
  Proof.
    unfold busy_shape. rewrite feval_eq, forallb_forall. intros H x Hx.
    specialize (H _ (in_map _ _ _ Hx)). rewrite feval_eq in H. cbn [existsb] in H.
    rewrite !(feval_eq e (FAnd _)) in H. cbn [forallb] in H. rewrite !(feval_eq e (FLt _ _)), (feval_eq e (FLe _ _)), !(teval_eq e (TC 0)) in H.
    unfold parked, assigned, bspan. cbn [fst snd]. fold (Sx x) (Ex x) in H. lia.
  Qed.

  Lemma pairs_of_total {A} (l1 : list A) x l2 y l3 : In (x, y) (pairs_of (l1 ++ x :: l2 ++ y :: l3)).
  Proof.
    induction l1 as [|z l1 IH]; cbn [app pairs_of]; apply in_or_app; [left|right; exact IH].
    apply in_map. apply in_or_app. right. now left.
  Qed.

  Lemma two_positions {A} (l : list A) x y : In x l -> In y l -> x <> y ->
    (exists l1 l2 l3, l = l1 ++ x :: l2 ++ y :: l3) \/ (exists l1 l2 l3, l = l1 ++ y :: l2 ++ x :: l3).
  Proof.
    intros Hx Hy Hne. apply in_split in Hx as (l1 & l2 & ->). apply in_app_or in Hy as [Hy|[Hy|Hy]].
    - right. apply in_split in Hy as (m1 & m2 & ->). exists m1, m2, l2. now rewrite <- app_assoc.
    - congruence.
    - left. apply in_split in Hy as (m1 & m2 & ->). exists l1, m1, m2. reflexivity.
  Qed.

  Lemma busy_disjoint_sem l : feval e (busy_disjoint o l) = true -> forall x y, In x l -> In y l -> x <> y ->
    snd (bspan x) <= fst (bspan y) \/ snd (bspan y) <= fst (bspan x).
  Proof.
    unfold busy_disjoint. rewrite feval_eq, forallb_forall. intros H x y Hx Hy Hne.
    assert (G : forall a b, In (a, b) (pairs_of l) -> snd (bspan a) <= fst (bspan b) \/ snd (bspan b) <= fst (bspan a)).
    { intros a b Hab. specialize (H _ (in_map (fun '(x, y) => FOr [FLe (BE o (ti_id (be_task x)) (be_maybe x)) (BS o (ti_id (be_task y)) (be_maybe y));
                                              FLe (BE o (ti_id (be_task y)) (be_maybe y)) (BS o (ti_id (be_task x)) (be_maybe x))]) _ _ Hab)).
      cbn beta iota in H. rewrite feval_eq in H. cbn [existsb] in H. rewrite !(feval_eq e (FLe _ _)) in H.
      unfold bspan. cbn [fst snd]. unfold Sx, Ex. lia. }
    destruct (two_positions l x y Hx Hy Hne) as [(l1 & l2 & l3 & ->)|(l1 & l2 & l3 & ->)].
    - apply G. apply pairs_of_total.
    - destruct (G y x (pairs_of_total _ _ _ _ _)); auto.
  Qed.
End Busy.

Lemma ordered_pairs_spec {A} (l : list A) a b ob : In (a, b, ob) (ordered_pairs l) ->
  In a l /\ In b l /\ forall c, In c l -> c = a \/ c = b \/ In c ob.
Proof.
  unfold ordered_pairs. intros H. apply in_flat_map in H as ([a' oa] & Ha & H).
  apply in_map_iff in H as ([b' ob'] & [= -> -> ->] & Hb).
  destruct (with_others_spec _ _ _ _ Ha) as (l1 & l2 & -> & ->). cbn [app] in *.
  destruct (with_others_spec _ _ _ _ Hb) as (m1 & m2 & Hm & ->). cbn [app] in *.
  split; [apply in_or_app; right; now left|]. split.
  - assert (Hb' : In b (l1 ++ l2)) by (rewrite Hm; apply in_or_app; right; now left).
    apply in_app_or in Hb' as [Hb'|Hb']; apply in_or_app; [now left|right; now right].
  - intros c Hc. apply in_app_or in Hc as [Hc|[<-|Hc]]; [|now left|].
    + assert (Hc' : In c (m1 ++ b :: m2)) by (rewrite <- Hm; apply in_or_app; now left).
      apply in_app_or in Hc' as [Hc'|[<-|Hc']]; [right; right; apply in_or_app; now left|right; now left|right; right; apply in_or_app; now right].
    + assert (Hc' : In c (m1 ++ b :: m2)) by (rewrite <- Hm; apply in_or_app; now right).
      apply in_app_or in Hc' as [Hc'|[<-|Hc']]; [right; right; apply in_or_app; now left|right; now left|right; right; apply in_or_app; now right].
Qed.

(* the common core: the pair of sorted copies that the encoder constrains for a consecutive pair *)
Theorem consecutive_pair_constrained e c (r : rsnap) mk a b others :
  let o := own_w r in
  (forall f, In f (nondelay_like c (map (fun x => BS o (ti_id (be_task x)) (be_maybe x)) (rs_own r))
                                   (map (fun x => BE o (ti_id (be_task x)) (be_maybe x)) (rs_own r)) mk) -> feval e f = true) ->
  In (a, b, others) (ordered_pairs (rs_own r)) ->
  feval e (busy_shape o (rs_own r)) = true -> feval e (busy_disjoint o (rs_own r)) = true ->
  feval e (consec_busy o a b others) = true ->
  exists bp ai, feval e (mk bp ai) = true /\ teval e bp = snd (bspan e o a) /\ teval e ai = fst (bspan e o b)
                /\ assigned (bspan e o a) /\ assigned (bspan e o b) /\ snd (bspan e o a) <= fst (bspan e o b).
Proof.
  intros o H Hab Hshape Hdisj Hcons.
  assert (Hlen : List.length (map (fun x => BS o (ti_id (be_task x)) (be_maybe x)) (rs_own r))
                = List.length (map (fun x => BE o (ti_id (be_task x)) (be_maybe x)) (rs_own r))) by (now rewrite !map_length).
  destruct (nondelay_like_sem e c _ _ mk Hlen H) as (sa & sb & PA & SA & PB & SB & La & Lb & Hmk).
  set (P := map (bspan e o) (rs_own r)).
  assert (EA : map (teval e) (map (fun x => BS o (ti_id (be_task x)) (be_maybe x)) (rs_own r)) = map fst P) by (unfold P; rewrite !map_map; reflexivity).
  assert (EB : map (teval e) (map (fun x => BE o (ti_id (be_task x)) (be_maybe x)) (rs_own r)) = map snd P) by (unfold P; rewrite !map_map; reflexivity).
  rewrite EA in PA. rewrite EB in PB.
  destruct (ordered_pairs_spec _ _ _ _ Hab) as (Ha & Hb & Hoth).
  pose proof (busy_shape_sem e o _ Hshape) as Hk. pose proof (busy_disjoint_sem e o _ Hdisj) as Hd.
  (* the premises of the clause *)
  unfold consec_busy in Hcons. rewrite feval_eq in Hcons. cbn [forallb] in Hcons. rewrite !andb_true_iff in Hcons.
  destruct Hcons as (C1 & C2 & C3 & _). rewrite feval_eq in C1, C2. rewrite (teval_eq e (TC 0)) in C1.
  rewrite feval_eq, forallb_forall in C3.
  assert (Haa : assigned (bspan e o a)).
  { destruct (Hk a Ha) as [[Hp _]|Hp]; [|exact Hp]. unfold bspan in Hp. cbn [fst] in Hp. lia. }
  assert (Hlt : fst (bspan e o a) < fst (bspan e o b)) by (unfold bspan; cbn [fst]; lia).
  assert (HnA : NoDup (map fst P)) by (eapply Permutation_NoDup; [exact PA|now apply sorted_nodup]).
  destruct (consecutive_in_sorted P _ _ (bspan e o a) (bspan e o b) PA SA PB SB) as (i & Hi & HA & HB).
  - intros p Hp. apply in_map_iff in Hp as (x & <- & Hx). auto.
  - intros p q Hp Hq _ _ Hne. apply in_map_iff in Hp as (x & <- & Hx). apply in_map_iff in Hq as (y & <- & Hy).
    apply Hd; auto. intros ->. now apply Hne.
  - now apply in_map.
  - now apply in_map.
  - exact Haa.
  - exact Hlt.
  - intros pc Hpc (B1 & B2 & B3). apply in_map_iff in Hpc as (x & <- & Hx).
    destruct (Hoth x Hx) as [->|[->|Hx']]; [lia|lia|].
    specialize (C3 _ (in_map _ _ _ Hx')). rewrite feval_eq, (feval_eq e (FAnd _)) in C3. cbn [forallb] in C3.
    rewrite !(feval_eq e (FLt _ _)), (feval_eq e (FLe _ _)), (teval_eq e (TC 0)) in C3. unfold bspan in B1, B2, B3. cbn [fst] in B1, B2, B3. lia.
  - assert (Hi' : (S i < List.length sa)%nat) by (now rewrite map_length in Hi).
    exists (nth i sb (TC 0)), (nth (S i) sa (TC 0)). split; [exact (Hmk i Hi')|].
    change 0 with (teval e (TC 0)) in HA, HB. rewrite map_nth in HA, HB.
    destruct (consecutive_ranks P (bspan e o a) (bspan e o b)) as [_ Hle]; auto.
    + intros p Hp. apply in_map_iff in Hp as (x & <- & Hx). auto.
    + intros p q Hp Hq _ _ Hne. apply in_map_iff in Hp as (x & <- & Hx). apply in_map_iff in Hq as (y & <- & Hy).
      apply Hd; auto. intros ->. now apply Hne.
    + now apply in_map.
    + now apply in_map.
    + intros pc Hpc (B1 & B2 & B3). apply in_map_iff in Hpc as (x & <- & Hx).
      destruct (Hoth x Hx) as [->|[->|Hx']]; [lia|lia|].
      specialize (C3 _ (in_map _ _ _ Hx')). rewrite feval_eq, (feval_eq e (FAnd _)) in C3. cbn [forallb] in C3.
      rewrite !(feval_eq e (FLt _ _)), (feval_eq e (FLe _ _)), (teval_eq e (TC 0)) in C3. unfold bspan in B1, B2, B3. cbn [fst] in B1, B2, B3. lia.
    + split; [exact HB|]. split; [exact HA|]. split; [exact Haa|]. split; [|exact Hle].
      destruct (Hk b Hb) as [[Hp _]|Hp]; [|exact Hp]. destruct Haa. unfold bspan in *. cbn [fst snd] in *. lia.
Qed.
