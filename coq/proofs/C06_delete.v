(* C06_delete.v -- deletion equivalence on the fragment of C05_proof.v: the schedules admitted with an optional task left
   unscheduled are the schedules admitted by the same problem without that task (and without the constraints naming it),
   provided the scheduling rules that name the task allow leaving it unscheduled. *)
From Coq Require Import ZArith List Bool Lia ZifyBool String.
From PS.model Require Import Smt Enc Ind Prog.
From PS.spec Require Import Spec.
From PS.proofs Require Import Base Cons_proof C01_proof Wf_proof C05_proof.
Import ListNotations.
Open Scope Z_scope.

Definition names (t : tinfo) (c : conrec) : bool :=
  existsb (fun u => Nat.eqb (ti_id u) (ti_id t)) (cons_tasks (c_expr c)).
Definition del (st : pstate) (t : tinfo) : pstate :=
  {| ps_horizon := ps_horizon st;
     ps_tasks := filter (fun u => negb (Nat.eqb (ti_id u) (ti_id t))) (ps_tasks st);
     ps_workers := ps_workers st; ps_cumuls := ps_cumuls st; ps_selects := ps_selects st; ps_reqs := ps_reqs st;
     ps_areqs := ps_areqs st; ps_busy := ps_busy st;
     ps_cons := filter (fun c => negb (names t c)) (ps_cons st);
     ps_neg := ps_neg st; ps_nauto := ps_nauto st; ps_ext := ps_ext st |}.

Definition valid13 (st : pstate) (e : env) : Prop :=
  (forall k f, In (k, f) (spec_C01 st) -> feval e f = true) /\ (forall k f, In (k, f) (spec_C03 st) -> feval e f = true).
Definition rules (st : pstate) (e : env) : Prop := forall k f, In (k, f) (spec_C06_rules st) -> feval e f = true.
(* the scheduling rules of st that name t *)
Definition rules_naming (st : pstate) (t : tinfo) (e : env) : Prop :=
  forall c, In c (ps_cons st) -> names t c = true -> mandatory_live c = true ->
  forall k f, In (k, f) (spec_C06_P (c_expr c)) -> feval e f = true.

(* ---------------- the clauses of the smaller problem are clauses of the larger one ---------------- *)
Lemma spec_C01_del st t k f : In (k, f) (spec_C01 (del st t)) -> In (k, f) (spec_C01 st).
Proof.
  unfold spec_C01. intros H. apply in_flat_map in H as (u & Hu & H). apply in_flat_map. exists u.
  cbn [del ps_tasks] in Hu. apply filter_In in Hu as [Hu _]. split; [exact Hu|exact H].
Qed.
Lemma per_cons_del p F st t k f : In (k, f) (per_cons p F (del st t)) -> In (k, f) (per_cons p F st).
Proof.
  unfold per_cons. intros H. apply in_flat_map in H as (c & Hc & H). apply in_flat_map. exists c.
  cbn [del ps_cons] in Hc. apply filter_In in Hc as [Hc _]. split; [exact Hc|exact H].
Qed.

(* ---------------- the clauses of the deleted elements are void when t is not scheduled ---------------- *)
Section Void.
  Variables (st : pstate) (t : tinfo) (e : env).
  Hypothesis Hfr : fragment st.
  Hypothesis Ht : In t (ps_tasks st).
  Hypothesis Hopt : ti_opt t = true.
  Hypothesis Hun : bv e (BSched (ti_id t)) = false.

  Lemma same_id_same_task u : In u (ps_tasks st) -> ti_id u = ti_id t -> u = t.
  Proof.
    intros Hu Hid. pose proof (fr_nodup st Hfr) as Hn. pose proof Ht as Ht'. revert Hu Ht' Hid Hn. generalize (ps_tasks st). clear.
    induction l as [|a l IH]; intros Hu Ht' Hid Hn; [destruct Hu|]. cbn in Hn. inversion Hn as [|? ? Hx Hn']; subst.
    destruct Hu as [->|Hu], Ht' as [->|Ht']; auto.
    - exfalso. apply Hx. rewrite Hid. now apply in_map.
    - exfalso. apply Hx. rewrite <- Hid. now apply in_map.
  Qed.
  Lemma act_t_false : feval e (act t) = false.
  Proof. unfold act. rewrite Hopt. rewrite feval_eq. exact Hun. Qed.
  Lemma whenact_void g : feval e (whenact t g) = true.
  Proof. unfold whenact. rewrite feval_eq, act_t_false. reflexivity. Qed.
  Lemma whenact2_void_l b g : feval e (whenact2 t b g) = true.
  Proof. unfold whenact2. rewrite feval_eq, (feval_eq e (FAnd _)). cbn [forallb]. rewrite act_t_false. reflexivity. Qed.
  Lemma whenact2_void_r a g : feval e (whenact2 a t g) = true.
  Proof. unfold whenact2. rewrite feval_eq, (feval_eq e (FAnd _)). cbn [forallb]. rewrite act_t_false, andb_false_r. reflexivity. Qed.

  Lemma task_clauses_void k f : In (k, f) (spec_C01_task st t) -> feval e f = true.
  Proof.
    unfold spec_C01_task. intros H. repeat (apply in_app_or in H as [H|H]).
    - destruct H as [[= <- <-]|[[= <- <-]|[[= <- <-]|[]]]]; apply whenact_void.
    - destruct (ti_release t); [|destruct H]. destruct H as [[= <- <-]|[]]. apply whenact_void.
    - destruct (ti_due t); [|destruct H]. destruct (ti_deadline t); [|destruct H]. destruct H as [[= <- <-]|[]]. apply whenact_void.
  Qed.

  Lemma cons_clauses_void c : In c (ps_cons st) -> mandatory_live c = true -> names t c = true ->
    forall k f, In (k, f) (spec_C03_P (c_expr c)) -> feval e f = true.
  Proof.
    intros Hc Hl Hn k f Hin. unfold mandatory_live in Hl. apply andb_true_iff in Hl as [Ho Hfl].
    apply negb_true_iff in Hfl. destruct (fr_cons st Hfr c Hc Hfl) as (_ & Hfrag & Hknown).
    unfold names in Hn. apply existsb_exists in Hn as (u & Hu & Hid). apply Nat.eqb_eq in Hid.
    assert (Hut : u = t) by (apply same_id_same_task; auto). subst u.
    destruct (c_expr c); cbn [frag_c] in Hfrag; try discriminate; cbn [cons_tasks] in Hu; cbn [spec_C03_P] in Hin;
      try (destruct Hin; fail);
      repeat match goal with
      | H : In t (_ :: _) |- _ => destruct H as [->|H]
      | H : In t [] |- _ => destruct H
      | H : In (_, _) [_] |- _ => destruct H as [[= <- <-]|[]]
      end; first [apply whenact_void | apply whenact2_void_l | apply whenact2_void_r].
  Qed.
End Void.

(* ---------------- deletion at the level of the Spec ---------------- *)
Theorem delete_spec st t e : fragment st -> In t (ps_tasks st) -> ti_opt t = true -> bv e (BSched (ti_id t)) = false ->
  (valid13 st e <-> valid13 (del st t) e).
Proof.
  intros Hfr Ht Hopt Hun. split.
  - intros [H1 H3]. split; intros k f Hin; [apply (H1 k f); now apply (spec_C01_del st t)|apply (H3 k f); now apply (per_cons_del _ _ st t)].
  - intros [H1 H3]. split.
    + intros k f Hin. unfold spec_C01 in Hin. apply in_flat_map in Hin as (u & Hu & Hin).
      destruct (Nat.eqb (ti_id u) (ti_id t)) eqn:E.
      * apply Nat.eqb_eq in E. assert (u = t) by (apply (same_id_same_task st t Hfr Ht u Hu E)). subst u.
        unfold keyed in Hin. apply in_map_iff in Hin as ([k' f'] & [= <- <-] & Hin). exact (task_clauses_void st t e Hopt Hun k' f' Hin).
      * apply (H1 k f). unfold spec_C01. apply in_flat_map. exists u. split; [|exact Hin].
        cbn [del ps_tasks]. apply filter_In. split; [exact Hu|now rewrite E].
    + intros k f Hin. unfold spec_C03, per_cons in Hin. apply in_flat_map in Hin as (c & Hc & Hin).
      destruct (mandatory_live c) eqn:Hl; [|destruct Hin].
      destruct (names t c) eqn:En.
      * apply in_map_iff in Hin as ([k' f'] & [= <- <-] & Hin). exact (cons_clauses_void st t e Hfr Ht Hopt Hun c Hc Hl En k' f' Hin).
      * apply (H3 k f). unfold spec_C03, per_cons. apply in_flat_map. exists c. split; [|now rewrite Hl].
        cbn [del ps_cons]. apply filter_In. split; [exact Hc|now rewrite En].
Qed.

Lemma rules_split st t e : rules st e <-> rules (del st t) e /\ rules_naming st t e.
Proof.
  unfold rules, rules_naming, spec_C06_rules. split.
  - intros H. split.
    + intros k f Hin. apply (H k f). now apply (per_cons_del _ _ st t).
    + intros c Hc Hn Hl k f Hin. apply (H (ckey "C06" c k) f). unfold per_cons. apply in_flat_map. exists c.
      split; [exact Hc|]. rewrite Hl. apply in_map_iff. exists (k, f). auto.
  - intros [H1 H2] k f Hin. unfold per_cons in Hin. apply in_flat_map in Hin as (c & Hc & Hin).
    destruct (mandatory_live c) eqn:Hl; [|destruct Hin]. destruct (names t c) eqn:En.
    + apply in_map_iff in Hin as ([k' f'] & [= <- <-] & Hin). exact (H2 c Hc En Hl k' f' Hin).
    + apply (H1 k f). unfold per_cons. apply in_flat_map. exists c. split; [|now rewrite Hl].
      cbn [del ps_cons]. apply filter_In. split; [exact Hc|now rewrite En].
Qed.

Lemma nodup_map_filter {A} (g : A -> nat) (p : A -> bool) l : NoDup (map g l) -> NoDup (map g (filter p l)).
Proof.
  induction l as [|a l IH]; intros H; [constructor|]. cbn in H. inversion H as [|? ? Hx Hn]; subst. cbn [filter].
  destruct (p a); [|now apply IH]. cbn [map]. constructor; [|now apply IH].
  intros Hin. apply Hx. apply in_map_iff in Hin as (x & Hgx & Hxin). apply filter_In in Hxin as [Hxin _].
  rewrite <- Hgx. now apply in_map.
Qed.

Lemma fragment_del st t : fragment st -> fragment (del st t).
Proof.
  intros Hfr. constructor; cbn [del ps_areqs ps_reqs ps_workers ps_ext ps_cons ps_tasks ps_horizon].
  - exact (fr_noreq st Hfr).
  - exact (fr_noext st Hfr).
  - intros c Hc Hfl. apply filter_In in Hc as [Hc Hn]. apply negb_true_iff in Hn.
    destruct (fr_cons st Hfr c Hc Hfl) as (Ho & Hf & Hk). split; [exact Ho|]. split; [exact Hf|].
    intros u Hu. apply filter_In. split; [now apply Hk|]. apply negb_true_iff.
    destruct (Nat.eqb (ti_id u) (ti_id t)) eqn:E; [|reflexivity]. exfalso.
    assert (names t c = true) by (unfold names; apply existsb_exists; exists u; auto). congruence.
  - apply nodup_map_filter. exact (fr_nodup st Hfr).
  - intros u Hu. apply filter_In in Hu as [Hu _]. exact (fr_rank st Hfr u Hu).
  - exact (fr_horizon st Hfr).
Qed.

(* ---------------- the two directions on admitted valuations ---------------- *)
Definition same_schedule (st : pstate) (e e' : env) : Prop :=
  bv e' = bv e /\ forall u, In u (ps_tasks st) -> feval e (act u) = true ->
    iv e' (VStart (ti_id u)) = iv e (VStart (ti_id u)) /\ iv e' (VEnd (ti_id u)) = iv e (VEnd (ti_id u))
    /\ iv e' (VDur (ti_id u)) = iv e (VDur (ti_id u)).

Theorem unscheduled_is_deleted st t e1 : fragment st -> In t (ps_tasks st) -> ti_opt t = true ->
  sat e1 (initialize st) -> bv e1 (BSched (ti_id t)) = false ->
  exists e2, sat e2 (initialize (del st t)) /\ same_schedule (del st t) e1 e2.
Proof.
  intros Hfr Ht Hopt Hs Hun.
  assert (Hv : valid13 st e1) by (split; intros k f; [apply C01_timing_sound|apply C03_sound]; exact Hs).
  apply (delete_spec st t e1 Hfr Ht Hopt Hun) in Hv. destruct Hv as [H1 H3].
  assert (Hr : rules (del st t) e1).
  { apply (rules_split st t e1). intros k f. apply C06_rules_sound. exact Hs. }
  destruct (complete_on_fragment (del st t) e1 (fragment_del st t Hfr) H1 H3 Hr) as (e2 & Hs2 & Hb & Hsame).
  exists e2. split; [exact Hs2|]. split; [exact Hb|exact Hsame].
Qed.

Theorem deleted_is_unscheduled st t e2 : fragment st -> In t (ps_tasks st) -> ti_opt t = true ->
  sat e2 (initialize (del st t)) -> bv e2 (BSched (ti_id t)) = false -> rules_naming st t e2 ->
  exists e1, sat e1 (initialize st) /\ same_schedule st e2 e1.
Proof.
  intros Hfr Ht Hopt Hs Hun Hrn.
  assert (Hv : valid13 (del st t) e2) by (split; intros k f; [apply C01_timing_sound|apply C03_sound]; exact Hs).
  apply (delete_spec st t e2 Hfr Ht Hopt Hun) in Hv. destruct Hv as [H1 H3].
  assert (Hr : rules st e2).
  { apply (rules_split st t e2). split; [|exact Hrn]. intros k f. apply C06_rules_sound. exact Hs. }
  destruct (complete_on_fragment st e2 Hfr H1 H3 Hr) as (e1 & Hs1 & Hb & Hsame).
  exists e1. split; [exact Hs1|]. split; [exact Hb|exact Hsame].
Qed.
