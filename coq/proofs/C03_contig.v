(* C03_contig.v -- TasksContiguous: when every named task runs over a non-empty span at a non-negative date, the spans are
   pairwise disjoint and every task but the one starting last is immediately followed by another one. *)
From Coq Require Import ZArith List Bool Lia ZifyBool Permutation Sorted String.
From PS.model Require Import Smt Enc Ind Prog.
From PS.spec Require Import Spec.
From PS.proofs Require Import Base SortNoDup Sort_model.
Import ListNotations.
Open Scope Z_scope.

Lemma pairs_of_split {A} (l : list A) a b : In (a, b) (pairs_of l) -> exists l1 l2 l3, l = l1 ++ a :: l2 ++ b :: l3.
Proof.
  induction l as [|x r IH]; intros H; [destruct H|]. cbn in H. apply in_app_or in H as [H|H].
  - apply in_map_iff in H as (y & [= <- <-] & Hy). apply in_split in Hy as (l2 & l3 & ->). exists [], l2, l3. reflexivity.
  - destruct (IH H) as (l1 & l2 & l3 & ->). exists (x :: l1), l2, l3. reflexivity.
Qed.

Lemma nodup_map_split {A} (f : A -> Z) l1 a l2 b l3 : NoDup (map f (l1 ++ a :: l2 ++ b :: l3)) -> f a <> f b.
Proof.
  rewrite map_app. cbn [map]. intros H. apply NoDup_remove_2 in H. intros He. apply H.
  apply in_or_app. right. rewrite map_app. apply in_or_app. right. cbn. left. now rewrite He.
Qed.

Lemma with_others_spec {A} (pre l : list A) t o : In (t, o) (with_others pre l) ->
  exists l1 l2, l = l1 ++ t :: l2 /\ o = pre ++ l1 ++ l2.
Proof.
  revert pre. induction l as [|x r IH]; intros pre H; [destruct H|]. cbn in H. destruct H as [[= <- <-]|H].
  - exists [], r. split; reflexivity.
  - destruct (IH _ H) as (l1 & l2 & -> & ->). exists (x :: l1), l2. split; [reflexivity|]. now rewrite <- app_assoc.
Qed.

Definition span (e : env) (t : tinfo) : Z * Z := (teval e (S_ t), teval e (E_ t)).

Lemma running_span e ts : feval e (running ts) = true -> forall t, In t ts -> 0 <= fst (span e t) /\ fst (span e t) < snd (span e t).
Proof.
  unfold running. rewrite feval_eq, forallb_forall. intros H t Ht.
  specialize (H _ (in_map _ _ _ Ht)). rewrite feval_eq in H. cbn [forallb] in H.
  rewrite !andb_true_iff in H. destruct H as (H1 & H2 & _). rewrite feval_eq in H1, H2. cbn [span fst snd].
  rewrite (teval_eq e (TC 0)) in H1. lia.
Qed.

Theorem contiguous_sound e c ts :
  (forall f, In f (enc_raw c (CContiguous ts)) -> feval e f = true) ->
  feval e (running ts) = true ->
  (forall a b, In (a, b) (pairs_of ts) -> teval e (E_ a) <= teval e (S_ b) \/ teval e (E_ b) <= teval e (S_ a))
  /\ (forall t others, In (t, others) (with_others [] ts) ->
        (forall u, In u others -> teval e (S_ u) <= teval e (S_ t)) \/ (exists u, In u others /\ teval e (S_ u) = teval e (E_ t))).
Proof.
  intros H Hrun. cbn [enc_raw] in H.
  destruct (nondelay_like_sem e c (map S_ ts) (map E_ ts) _ ltac:(now rewrite !map_length) H)
    as (a & b & PA & SA & PB & SB & La & Lb & Hmk).
  set (P := map (span e) ts).
  assert (EA : map (teval e) (map S_ ts) = map fst P) by (unfold P; rewrite !map_map; reflexivity).
  assert (EB : map (teval e) (map E_ ts) = map snd P) by (unfold P; rewrite !map_map; reflexivity).
  rewrite EA in PA. rewrite EB in PB.
  pose proof (running_span e ts Hrun) as Hsp.
  assert (Hpos : forall p, In p P -> fst p < snd p).
  { intros p Hp. apply in_map_iff in Hp as (t & <- & Ht). apply (Hsp t Ht). }
  assert (Hnn : forall p, In p P -> 0 <= fst p). { intros p Hp. apply in_map_iff in Hp as (t & <- & Ht). apply (Hsp t Ht). }
  set (A := map (teval e) a) in *. set (B := map (teval e) b) in *.
  assert (LA : List.length A = List.length ts) by (unfold A; rewrite map_length, La; apply map_length).
  assert (LB : List.length B = List.length ts) by (unfold B; rewrite map_length, Lb; apply map_length).
  assert (Hlink : forall i, (S i < List.length A)%nat -> nth i B 0 = nth (S i) A 0).
  { intros i Hi. assert (Hi' : (S i < List.length a)%nat) by (unfold A in Hi; now rewrite map_length in Hi).
    specialize (Hmk i Hi'). unfold A, B.
    change 0 with (teval e (TC 0)). rewrite !map_nth.
    assert (HB : 0 <= nth i B 0).
    { assert (Hin : In (nth i B 0) B) by (apply nth_In; lia). apply (Permutation_in _ PB) in Hin.
      apply in_map_iff in Hin as (p & <- & Hp). specialize (Hpos p Hp). specialize (Hnn p Hp). lia. }
    assert (HA : 0 <= nth (S i) A 0).
    { assert (Hin : In (nth (S i) A 0) A) by (apply nth_In; lia). apply (Permutation_in _ PA) in Hin.
      apply in_map_iff in Hin as (p & <- & Hp). apply (Hnn p Hp). }
    unfold A, B in HA, HB. change 0 with (teval e (TC 0)) in HA, HB. rewrite !map_nth in HA, HB.
    rewrite feval_eq in Hmk. rewrite (feval_eq e (FOr _)) in Hmk. cbn [existsb] in Hmk.
    rewrite (feval_eq e (FAnd _)) in Hmk. cbn [forallb] in Hmk. rewrite !(feval_eq e (FGe _ _)), (feval_eq e (FEq _ _)) in Hmk.
    rewrite (teval_eq e (TC 0)) in Hmk, HA, HB. lia. }
  assert (HnA : NoDup (map fst P)) by (eapply Permutation_NoDup; [exact PA|now apply sorted_nodup]).
  split.
  - intros x y Hxy. destruct (pairs_of_split _ _ _ Hxy) as (l1 & l2 & l3 & Hts).
    assert (Hne : fst (span e x) <> fst (span e y)).
    { unfold P in HnA. rewrite map_map, Hts in HnA. exact (nodup_map_split _ _ _ _ _ _ HnA). }
    assert (Hx : In (span e x) P) by (apply in_map; rewrite Hts; apply in_or_app; right; now left).
    assert (Hy : In (span e y) P) by (apply in_map; rewrite Hts; apply in_or_app; right; right; apply in_or_app; right; now left).
    cbn [span fst snd] in Hne.
    destruct (Z_lt_le_dec (teval e (S_ x)) (teval e (S_ y))) as [Hlt|Hge].
    + left. exact (contiguous_disjoint P A B PA SA PB SB Hpos Hlink _ _ Hx Hy Hlt).
    + right. assert (Hlt : fst (span e y) < fst (span e x)) by (cbn [span fst snd]; lia).
      exact (contiguous_disjoint P A B PA SA PB SB Hpos Hlink _ _ Hy Hx Hlt).
  - intros t others Hto. destruct (with_others_spec _ _ _ _ Hto) as (l1 & l2 & Hts & Ho). cbn [app] in Ho.
    assert (Ht : In t ts) by (rewrite Hts; apply in_or_app; right; now left).
    destruct (forallb (fun u => teval e (S_ u) <=? teval e (S_ t)) others) eqn:Hall.
    + left. rewrite forallb_forall in Hall. intros u Hu. specialize (Hall u Hu). lia.
    + right. assert (Hex : exists u, In u others /\ teval e (S_ t) < teval e (S_ u)).
      { clear - Hall. induction others as [|u r IH]; [discriminate|]. cbn [forallb] in Hall.
        destruct (teval e (S_ u) <=? teval e (S_ t)) eqn:E; cbn [andb] in Hall.
        - destruct (IH Hall) as (w & Hw & Hlt). exists w. split; [now right|exact Hlt].
        - exists u. split; [now left|lia]. }
      destruct Hex as (u & Hu & Hlt).
      assert (Huts : In u ts) by (rewrite Hts, Ho in *; apply in_app_or in Hu as [Hu|Hu]; apply in_or_app; [now left|right; now right]).
      destruct (contiguous_successor P A B PA SA PB SB Hpos Hlink (span e t) (in_map _ _ _ Ht)) as (w & Hw & Hwv).
      { exists (span e u). split; [now apply in_map|exact Hlt]. }
      apply in_map_iff in Hw as (u' & <- & Hu'). cbn [span fst snd] in Hwv.
      exists u'. split; [|exact Hwv].
      (* u' is not the occurrence of t: its start is the end of t *)
      rewrite Hts in Hu'. rewrite Ho. apply in_app_or in Hu' as [Hu'|[<-|Hu']]; [apply in_or_app; now left| |apply in_or_app; now right].
      exfalso. destruct (Hsp t Ht) as [_ Hp]. cbn [span fst snd] in Hp. lia.
Qed.
