(* C02_capacity.v -- a cumulative worker of size n is busy with at most n tasks at any instant (pigeonhole over its
   unit workers: every use selects at least one unit, a selected unit is busy for the whole span of the task, and the
   busy intervals of one unit are pairwise disjoint). *)
From Coq Require Import ZArith List Bool Lia ZifyBool String.
From PS.model Require Import Smt Enc Ind Prog.
From PS.spec Require Import Spec.
From PS.proofs Require Import Base Cons_proof Res_proof.
Import ListNotations.
Open Scope Z_scope.

(* ---- generic lemmas ---- *)
Lemma list_beq_eq {A} (eqb : A -> A -> bool) (Heq : forall x y, eqb x y = true -> x = y) l1 l2 :
  list_beq eqb l1 l2 = true -> l1 = l2.
Proof.
  revert l2. induction l1 as [|a l1 IH]; intros [|b l2] H; cbn in H; try discriminate; [reflexivity|].
  apply andb_true_iff in H as [H1 H2]. f_equal; auto.
Qed.
Lemma rref_beq_eq x y : rref_beq x y = true -> x = y.
Proof. apply internal_rref_dec_bl. Qed.
Lemma wref_beq_eq x y : wref_beq x y = true -> x = y.
Proof. apply internal_wref_dec_bl. Qed.

Lemma al_get_in {V} (l : list (nat * V)) k v : al_get Nat.eqb l k = Some v -> In (k, v) l.
Proof.
  induction l as [|[k' v'] l IH]; cbn; [discriminate|]. destruct (Nat.eqb k' k) eqn:E.
  - intros [= <-]. apply Nat.eqb_eq in E. subst. now left.
  - intros H. right. auto.
Qed.

(* two distinct entries of a busy list are constrained not to overlap, in one order or the other *)
Lemma pairs_of_cover {A} (l : list A) x y : In x l -> In y l -> x <> y -> In (x, y) (pairs_of l) \/ In (y, x) (pairs_of l).
Proof.
  induction l as [|a l IH]; intros Hx Hy Hne; [destruct Hx|]. cbn [pairs_of].
  destruct Hx as [->|Hx], Hy as [->|Hy].
  - contradiction.
  - left. apply in_or_app. left. now apply in_map.
  - right. apply in_or_app. left. now apply in_map.
  - destruct (IH Hx Hy Hne) as [H|H]; [left|right]; apply in_or_app; now right.
Qed.

Lemma fcount_filter e (F : tinfo -> form) (l : list tinfo) :
  fcount e (map F l) = Z.of_nat (List.length (filter (fun u => feval e (F u)) l)).
Proof.
  induction l as [|a l IH]; [reflexivity|]. cbn [map filter]. rewrite fcount_cons, IH.
  destruct (feval e (F a)); cbn [b2z List.length]; lia.
Qed.

Lemma fcount_ge_1_exists e (l : list form) : 1 <= fcount e l -> exists f, In f l /\ feval e f = true.
Proof. apply fcount_pos_ex. Qed.

Lemma NoDup_map_inj_on {X Y} (f : X -> Y) (l : list X) :
  NoDup l -> (forall a b, In a l -> In b l -> f a = f b -> a = b) -> NoDup (map f l).
Proof.
  induction 1 as [|a l Hn Hd IH]; intros Hinj; cbn; constructor.
  - intros Hin. apply in_map_iff in Hin as (b & Hb & Hbl).
    assert (b = a) by (apply Hinj; cbn; auto). subst. contradiction.
  - apply IH. intros; apply Hinj; cbn; auto.
Qed.

Lemma NoDup_map_inv {X Y} (f : X -> Y) (l : list X) : NoDup (map f l) -> NoDup l.
Proof.
  induction l as [|a l IH]; intros H; [constructor|]. cbn in H. inversion H; subst. constructor; auto.
  intros Hin. apply H2. now apply in_map.
Qed.

(* ---- the capacity theorem ---- *)
Section Capacity.
Variables (st : pstate) (e : env).
Hypothesis Hok : cumul_ok st = true.
Hypothesis Hnd : NoDup (map ti_id (ps_tasks st)).
Hypothesis Hsat : sat e (initialize st).

Variable cu : curec.
Hypothesis Hcu : In cu (ps_cumuls st).

Let us := cumul_uses st cu.
Let units := units_of cu.

Lemma cu_ok : forallb (use_ok st cu) us = true
  /\ forallb (fun w => existsb (fun wr => wref_beq (w_ref wr) w) (ps_workers st)) units = true.
Proof.
  unfold cumul_ok in Hok. rewrite forallb_forall in Hok. specialize (Hok cu Hcu). now apply andb_true_iff in Hok.
Qed.

Lemma us_tasks u : In u us -> In u (ps_tasks st).
Proof. unfold us, cumul_uses. intros H. now apply filter_In in H. Qed.

(* what the structural hypothesis gives for one use *)
Lemma use_facts u : In u us ->
  exists s listed, In (AQSelect s listed 1 PbMin) (areqs_of st (ti_id u)) /\ map fst listed = map RW units
    /\ forall w, In w units -> In (ti_id u, true) (busy_of st (RW w)).
Proof.
  intros Hu. destruct cu_ok as [H1 _]. rewrite forallb_forall in H1. specialize (H1 u Hu). unfold use_ok in H1.
  destruct (find (is_use_of cu) (areqs_of st (ti_id u))) as [[|s listed n k]|] eqn:Ef; try discriminate.
  rewrite !andb_true_iff in H1. destruct H1 as (((Hl & Hn) & Hk) & Hb).
  apply find_some in Ef as [Hin _]. apply Z.eqb_eq in Hn. subst n. destruct k; try discriminate.
  exists s, listed. split; [exact Hin|]. split.
  - apply (list_beq_eq rref_beq rref_beq_eq). exact Hl.
  - intros w Hw. rewrite forallb_forall in Hb. specialize (Hb w Hw).
    destruct (al_get Nat.eqb (busy_of st (RW w)) (ti_id u)) as [[|]|] eqn:Eg; try discriminate. now apply al_get_in.
Qed.

(* every use selects a unit, and a selected unit is busy exactly over the span of the task *)
Lemma use_selected_unit u : In u us ->
  exists w, In w units /\ iv e (VBusyS (RW w) (ti_id u) true) = iv e (VStart (ti_id u))
                       /\ iv e (VBusyE (RW w) (ti_id u) true) = iv e (VEnd (ti_id u)).
Proof.
  intros Hu. destruct (use_facts u Hu) as (s & listed & Hin & Hl & _).
  apply sat_initialize in Hsat as (Ht & _). destruct (Ht u (us_tasks u Hu)) as [Hta _].
  assert (Hen : forall f, In f (enc_areq u (AQSelect s listed 1 PbMin)) -> feval e f = true).
  { intros f Hf. apply Hta. unfold task_asserts. apply in_or_app. right. apply in_flat_map. eauto. }
  cbn [enc_areq] in Hen.
  assert (Hpb : feval e (pb PbMin (map (fun '(r, _) => FB (BSel s r)) listed) 1) = true).
  { apply Hen. apply in_or_app. right. now left. }
  cbn [pb] in Hpb. rewrite feval_eq in Hpb.
  assert (Hge : 1 <= fcount e (map (fun '(r, _) => FB (BSel s r)) listed)) by lia.
  destruct (fcount_ge_1_exists e _ Hge) as (f & Hf & Hfv).
  apply in_map_iff in Hf as ([r p] & <- & Hrp).
  assert (Hr : In r (map RW units)) by (rewrite <- Hl; change r with (fst (r, p)); now apply in_map).
  apply in_map_iff in Hr as (w & <- & Hw). exists w. split; [exact Hw|].
  assert (Hite : feval e (FIte (FB (BSel s (RW w)))
                    (FAnd [FEq (BS (RW w) (ti_id u) true) (S_ u); FEq (BE (RW w) (ti_id u) true) (E_ u)])
                    (FAnd [FEq (BS (RW w) (ti_id u) true) (TC p); FEq (BE (RW w) (ti_id u) true) (TC p)])) = true).
  { apply Hen. apply in_or_app. left. apply in_map_iff. exists (RW w, p). auto. }
  rewrite feval_eq in Hite. rewrite Hfv in Hite. rewrite feval_eq in Hite. cbn [forallb] in Hite.
  rewrite !andb_true_iff in Hite. destruct Hite as (H1 & H2 & _). rewrite feval_eq in H1, H2. cbn in H1, H2. split; lia.
Qed.

(* the instant tau is covered by use u *)
Definition covers_at (tau : Z) (u : tinfo) : bool :=
  feval e (act u) && (iv e (VStart (ti_id u)) <=? tau) && (tau <? iv e (VEnd (ti_id u))).

(* two different uses covering the same instant cannot have selected the same unit *)
Lemma same_unit_same_use tau u1 u2 w :
  In u1 us -> In u2 us -> In w units ->
  covers_at tau u1 = true -> covers_at tau u2 = true ->
  iv e (VBusyS (RW w) (ti_id u1) true) = iv e (VStart (ti_id u1)) -> iv e (VBusyE (RW w) (ti_id u1) true) = iv e (VEnd (ti_id u1)) ->
  iv e (VBusyS (RW w) (ti_id u2) true) = iv e (VStart (ti_id u2)) -> iv e (VBusyE (RW w) (ti_id u2) true) = iv e (VEnd (ti_id u2)) ->
  u1 = u2.
Proof.
  intros H1 H2 Hw Hc1 Hc2 Hs1 He1 Hs2 He2.
  destruct (Nat.eq_dec (ti_id u1) (ti_id u2)) as [Heq|Hne].
  - (* same identifier: same task record, identifiers are pairwise distinct *)
    pose proof (us_tasks _ H1) as T1. pose proof (us_tasks _ H2) as T2.
    clear - Hnd T1 T2 Heq. induction (ps_tasks st) as [|a l IH]; [destruct T1|].
    cbn [map] in Hnd. inversion Hnd as [|? ? Ha Hn']; subst. destruct T1 as [->|T1], T2 as [->|T2]; auto.
    + exfalso. apply Ha. rewrite Heq. now apply in_map.
    + exfalso. apply Ha. rewrite <- Heq. now apply in_map.
  - exfalso. destruct cu_ok as [_ Hunits]. rewrite forallb_forall in Hunits. specialize (Hunits w Hw).
    apply existsb_exists in Hunits as (wr & Hwr & Hweq). apply wref_beq_eq in Hweq.
    apply sat_initialize in Hsat as (_ & Hov & _). specialize (Hov wr Hwr). rewrite Hweq in Hov.
    destruct (use_facts u1 H1) as (_ & _ & _ & _ & Hb1). destruct (use_facts u2 H2) as (_ & _ & _ & _ & Hb2).
    specialize (Hb1 w Hw). specialize (Hb2 w Hw).
    assert (Hne' : (ti_id u1, true) <> (ti_id u2, true)) by congruence.
    unfold covers_at in Hc1, Hc2. rewrite !andb_true_iff in Hc1, Hc2.
    destruct (pairs_of_cover _ _ _ Hb1 Hb2 Hne') as [Hp|Hp];
      pose proof (pairs_no_overlap_spec e _ _ Hov _ _ _ _ Hp) as Hf;
      rewrite feval_eq in Hf; cbn [existsb] in Hf; rewrite !feval_eq in Hf; cbn [teval BS BE] in Hf; lia.
Qed.

Lemma us_nodup : NoDup us.
Proof. unfold us, cumul_uses. apply NoDup_filter. now apply (NoDup_map_inv ti_id). Qed.

(* a unit chosen (computably) among those whose busy interval is the span of the use *)
Definition span_on (u : tinfo) (w : wref) : bool :=
  (iv e (VBusyS (RW w) (ti_id u) true) =? iv e (VStart (ti_id u))) && (iv e (VBusyE (RW w) (ti_id u) true) =? iv e (VEnd (ti_id u))).
Definition choose (u : tinfo) : wref := match find (span_on u) units with Some w => w | None => WPlain 0 end.

Lemma choose_spec u : In u us -> In (choose u) units /\ span_on u (choose u) = true.
Proof.
  intros Hu. unfold choose. destruct (use_selected_unit u Hu) as (w & Hw & Hs & He).
  destruct (find (span_on u) units) as [w'|] eqn:Ef.
  - apply find_some in Ef. exact Ef.
  - exfalso. pose proof (find_none _ _ Ef w Hw) as Hn. unfold span_on in Hn. rewrite Hs, He, !Z.eqb_refl in Hn. discriminate.
Qed.

Theorem capacity_at_start t :
  In t us ->
  feval e (FImp (FAnd [act t; FLt (S_ t) (E_ t)])
                (FPbLe (map (fun u => FAnd [act u; FLe (S_ u) (S_ t); FLt (S_ t) (E_ u)]) us) (Z.of_nat (cu_size cu)))) = true.
Proof.
  intros Ht. rewrite feval_eq. destruct (feval e (FAnd [act t; FLt (S_ t) (E_ t)])) eqn:Hg; [|reflexivity]. cbn [implb].
  rewrite feval_eq. set (tau := iv e (VStart (ti_id t))).
  rewrite (fcount_filter e (fun u => FAnd [act u; FLe (S_ u) (S_ t); FLt (S_ t) (E_ u)]) us).
  set (U := filter (fun u => feval e (FAnd [act u; FLe (S_ u) (S_ t); FLt (S_ t) (E_ u)])) us).
  assert (HU : forall u, In u U -> In u us /\ covers_at tau u = true).
  { intros u Hu. apply filter_In in Hu as [Hu Hf]. split; [exact Hu|]. unfold covers_at, tau.
    rewrite feval_eq in Hf. cbn [forallb] in Hf. rewrite !andb_true_iff in Hf. destruct Hf as (H1 & H2 & H3 & _).
    rewrite feval_eq in H2, H3. cbn [teval S_ E_] in H2, H3. rewrite H1. cbn [andb]. rewrite H2, H3. reflexivity. }
  assert (Hlen : (List.length U <= List.length units)%nat).
  { rewrite <- (map_length choose U). apply NoDup_incl_length.
    - apply NoDup_map_inj_on; [apply NoDup_filter; exact us_nodup|].
      intros a b Ha Hb Hab. destruct (HU a Ha) as [Ha1 Ha2]. destruct (HU b Hb) as [Hb1 Hb2].
      destruct (choose_spec a Ha1) as [Hwa Hsa]. destruct (choose_spec b Hb1) as [_ Hsb]. rewrite <- Hab in Hsb.
      unfold span_on in Hsa, Hsb. rewrite !andb_true_iff in Hsa, Hsb.
      apply (same_unit_same_use tau a b (choose a)); auto; lia.
    - intros w Hw. apply in_map_iff in Hw as (u & <- & Hu). apply choose_spec. now apply HU. }
  unfold units, units_of in Hlen. rewrite map_length, seq_length in Hlen. lia.
Qed.
End Capacity.

Theorem C02_capacity_sound : forall st e,
  cumul_ok st = true -> NoDup (map ti_id (ps_tasks st)) -> sat e (initialize st) ->
  forall k f, In (k, f) (spec_C02_capacity st) -> feval e f = true.
Proof.
  intros st e Hok Hnd Hs k f Hin. unfold spec_C02_capacity in Hin.
  apply in_flat_map in Hin as (cu & Hcu & Hin). apply in_map_iff in Hin as (t & [= <- <-] & Ht).
  now apply (capacity_at_start st e Hok Hnd Hs cu Hcu t).
Qed.
