(* Base.v -- lemmas shared by all soundness proofs: membership in initialize,
   one-step evaluation equations, Z arithmetic set-up. *)
From Coq Require Import ZArith List Bool Lia ZifyBool.
From PS.model Require Import Smt Enc Ind Prog.
Import ListNotations.
Open Scope Z_scope.

Lemma teval_eq e t : teval e t =
  match t with
  | TC z => z | TV x => iv e x
  | TAdd l => tsum e l
  | TSub a b => teval e a - teval e b | TMul a b => teval e a * teval e b
  | TDiv a b => teval e a / teval e b | TMod a b => teval e a mod teval e b
  | TIte c a b => if feval e c then teval e a else teval e b
  | TSel arr i => av e arr (teval e i)
  | TApp f a => fapp (fv e f) (teval e a)
  end.
Proof. destruct t; reflexivity. Qed.

Lemma feval_eq e f : feval e f =
  match f with
  | FT => true | FF => false | FB b => bv e b
  | FLe a b => teval e a <=? teval e b | FLt a b => teval e a <? teval e b
  | FGe a b => teval e a >=? teval e b | FGt a b => teval e a >? teval e b
  | FEq a b => teval e a =? teval e b | FNe a b => negb (teval e a =? teval e b)
  | FAnd l => forallb (feval e) l | FOr l => existsb (feval e) l
  | FNot f => negb (feval e f) | FXor a b => xorb (feval e a) (feval e b)
  | FImp a b => implb (feval e a) (feval e b)
  | FIte c a b => if feval e c then feval e a else feval e b
  | FIff a b => Bool.eqb (feval e a) (feval e b)
  | FPbLe l k => fcount e l <=? k
  | FPbGe l k => fcount e l >=? k
  | FPbEq l k => fcount e l =? k
  | FArrFix arr i v => av e arr (teval e i) =? teval e v
  | FFunPoint f t q =>
      (fapp (fv e f) (teval e t) =? q)
      && forallb (fun kv => (fst kv =? teval e t) || (fapp (fv e f) (fst kv) =? 0)) (fv e f)
  end.
Proof. destruct f; reflexivity. Qed.

Lemma tsum_nil e : tsum e [] = 0. Proof. reflexivity. Qed.
Lemma tsum_cons e t l : tsum e (t :: l) = teval e t + tsum e l. Proof. reflexivity. Qed.
Lemma tsum_app e l1 l2 : tsum e (l1 ++ l2) = tsum e l1 + tsum e l2.
Proof. induction l1 as [|a l IH]; cbn [app]; rewrite ?tsum_nil, ?tsum_cons; lia. Qed.
Lemma fcount_nil e : fcount e [] = 0. Proof. reflexivity. Qed.
Lemma fcount_cons e f l : fcount e (f :: l) = b2z (feval e f) + fcount e l. Proof. reflexivity. Qed.

(* sat: membership helpers *)
Lemma sat_app e l1 l2 : sat e (l1 ++ l2) <-> sat e l1 /\ sat e l2.
Proof.
  unfold sat; split.
  - intros H; split; intros g f Hin; apply (H g f); apply in_or_app; auto.
  - intros [H1 H2] g f Hin; apply in_app_or in Hin as [Hin|Hin]; eauto.
Qed.

Lemma sat_tagged e g l : sat e (tagged g l) <-> forall f, In f l -> feval e f = true.
Proof.
  unfold sat, tagged; split.
  - intros H f Hin. apply (H g f). apply in_map_iff. exists f; auto.
  - intros H g' f Hin. apply in_map_iff in Hin as (f' & [= <- <-] & Hin). auto.
Qed.

Lemma sat_flat_map {A} e (F : A -> list (tag * form)) (l : list A) :
  sat e (flat_map F l) <-> forall a, In a l -> sat e (F a).
Proof.
  unfold sat; split.
  - intros H a Ha g f Hin. apply (H g f). apply in_flat_map. exists a; auto.
  - intros H g f Hin. apply in_flat_map in Hin as (a & Ha & Hin). eapply H; eauto.
Qed.

(* the blocks of initialize *)
Lemma sat_initialize e st : sat e (initialize st) ->
  (forall t, In t (ps_tasks st) ->
      (forall f, In f (task_asserts st t) -> feval e f = true)
      /\ feval e (FLe (E_ t) (TV VHorizon)) = true)
  /\ (forall w, In w (ps_workers st) ->
      forall f, In f (pairs_no_overlap (RW (w_ref w)) (busy_of st (RW (w_ref w)))) -> feval e f = true)
  /\ (forall c, In c (ps_cons st) -> c_flag c = false ->
      forall f, In f (conrec_asserts c) -> feval e f = true)
  /\ (forall t, In t (ps_tasks st) -> forall f, In f (work_assert st t) -> feval e f = true)
  /\ (forall h, ps_horizon st = Some h -> feval e (FLe (TV VHorizon) (TC h)) = true).
Proof.
  unfold initialize. intros H.
  apply sat_app in H as [Ht H]. apply sat_app in H as [Hw H].
  apply sat_app in H as [Hc H]. apply sat_app in H as [Hi H]. apply sat_app in H as [Hk H].
  apply sat_app in H as [Hb Hh].
  repeat split.
  - intros f Hf. rewrite sat_flat_map in Ht. specialize (Ht t H).
    apply sat_app in Ht as [Ht _]. rewrite sat_tagged in Ht. auto.
  - rewrite sat_flat_map in Ht. specialize (Ht t H). apply sat_app in Ht as [_ Ht].
    apply (Ht (TgHorizon (ti_id t))). now left.
  - intros w Hin f Hf. rewrite sat_flat_map in Hw. specialize (Hw w Hin). rewrite sat_tagged in Hw. auto.
  - intros c Hin Hfl f Hf. rewrite sat_flat_map in Hc. specialize (Hc c Hin). rewrite Hfl in Hc.
    rewrite sat_tagged in Hc. auto.
  - intros t Hin f Hf. rewrite sat_flat_map in Hk. specialize (Hk t Hin). rewrite sat_tagged in Hk. auto.
  - intros h Hh'. rewrite Hh' in Hh. apply (Hh TgProblem). now left.
Qed.

(* indicators and buffers *)
Lemma sat_initialize_ext e st : sat e (initialize st) ->
  (forall i, In i (x_inds (ps_ext st)) -> forall f, In f (ind_asserts i) -> feval e f = true)
  /\ (forall b, In b (x_bufs (ps_ext st)) -> forall f, In f (buffer_block b) -> feval e f = true).
Proof.
  unfold initialize. intros H.
  apply sat_app in H as [_ H]. apply sat_app in H as [_ H].
  apply sat_app in H as [_ H]. apply sat_app in H as [Hi H]. apply sat_app in H as [_ H].
  apply sat_app in H as [Hb _].
  split.
  - intros i Hin f Hf. rewrite sat_flat_map in Hi. specialize (Hi i Hin). rewrite sat_tagged in Hi. auto.
  - intros b Hin f Hf. rewrite sat_flat_map in Hb. specialize (Hb b Hin). rewrite sat_tagged in Hb. auto.
Qed.

(* whatever the solver configuration, the assertion set contains initialize st *)
Lemma sat_setup c e st : sat e (su_asserts (solver_setup c st)) -> sat e (initialize st).
Proof. unfold solver_setup. cbn [su_asserts]. intros H. apply sat_app in H. tauto. Qed.

Lemma forallb_In {A} (p : A -> bool) l : forallb p l = true <-> forall x, In x l -> p x = true.
Proof. apply forallb_forall. Qed.

(* membership in a literal list, as a conjunction *)
Ltac in_all H :=
  repeat match type of H with
  | forall f, In f (?a :: ?l) -> _ =>
      let H1 := fresh "Ha" in
      assert (H1 := H a (or_introl eq_refl));
      assert (forall f, In f l -> feval _ f = true) by (intros ? ?; apply H; right; assumption);
      clear H
  end.

Lemma sat_bool e l : forallb (fun gf : tag * form => feval e (snd gf)) l = true -> sat e l.
Proof. intros H g f Hin. rewrite forallb_forall in H. apply (H (g, f) Hin). Qed.

(* state reached by a program *)
Definition reaches (ops : list op) (st : pstate) : Prop := run ops = RunOk (Some st).

(* evaluate formulas without touching Z arithmetic *)
Ltac ev := cbn [feval teval prec_rel cmp_sum pb S_ E_ D_ BS BE tsum fcount fold_right forallb existsb aux bsv bev b2z implb xorb negb andb orb Bool.eqb] in *.
