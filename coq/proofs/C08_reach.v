(* C08_reach.v -- the tasks an indicator looks at are tasks of the problem (an invariant of the construction steps), hence
   the count of tardy tasks is right also when some of them are optional and not scheduled: such a task sits at a negative
   date, before any (non-negative) due date. *)
From Coq Require Import ZArith List Bool Lia ZifyBool String.
From PS.model Require Import Smt Enc Ind Prog.
From PS.spec Require Import Spec.
From PS.proofs Require Import Base Cons_proof Res_proof C01_proof Wf_proof C08_proof Reach_proof.
Import ListNotations.
Open Scope Z_scope.

Definition ind_tasks (e : riexpr) : list tinfo :=
  match e with
  | ITardiness (Some l) | IEarliness (Some l) | INbTardy (Some l) | IMaxLateness (Some l)
  | IMinStart (Some l) | IGreatestStart (Some l) | IFlowtime (Some l) => l
  | _ => []
  end.
Definition ind_known (st : pstate) : Prop :=
  forall r, In r (x_inds (ps_ext st)) ->
    (forall t, In t (i_all r) -> In t (ps_tasks st)) /\ (forall t, In t (ind_tasks (i_expr r)) -> In t (ps_tasks st)).

Lemma res_tasks_known st ts ts' : res_tasks st ts = Some ts' -> forall l, ts' = Some l -> forall t, In t l -> In t (ps_tasks st).
Proof.
  unfold res_tasks. destruct ts as [l0|]; [|intros [= <-]; discriminate].
  destruct (mapM (find_task st) l0) as [l'|] eqn:E; [|discriminate]. intros [= <-] l [= <-] t Ht.
  destruct (mapM_in _ _ _ E t Ht) as (x & _ & Hx). eapply find_task_some_in; eauto.
Qed.

Lemma resolve_i_known st e re : resolve_i st e = Some re -> forall t, In t (ind_tasks re) -> In t (ps_tasks st).
Proof.
  unfold resolve_i, opt_bind. intros H t Ht.
  destruct e; cbn in H;
    repeat match type of H with
    | context [res_tasks st ?x] => destruct (res_tasks st x) as [o|] eqn:Er; [|discriminate]
    | context [match ?x with _ => _ end] => destruct x eqn:?; try discriminate
    end; try (injection H as <-); cbn [ind_tasks] in Ht; try (destruct Ht; fail);
    destruct o as [l|]; try (destruct Ht; fail); eapply res_tasks_known; eauto.
Qed.

Lemma known_with_ext st x : x_inds x = x_inds (ps_ext st) -> ind_known st -> ind_known (with_ext st x).
Proof. intros Hx H r Hr. cbn [with_ext ps_ext ps_tasks] in *. rewrite Hx in Hr. exact (H r Hr). Qed.

Lemma add_indicator_known st id key given b e st' :
  ind_known st -> (forall t, In t (ind_tasks e) -> In t (ps_tasks st)) ->
  add_indicator st id key given b e = Some st' -> ind_known st'.
Proof.
  unfold add_indicator. intros Hk He H. break H. injection H as <-.
  intros r Hr. cbn [with_ext ps_ext ps_tasks x_inds] in *. apply in_app_or in Hr as [Hr|[<-|[]]]; [exact (Hk r Hr)|].
  cbn [i_all i_expr]. split; auto.
Qed.

Lemma known_more_tasks st st' : x_inds (ps_ext st') = x_inds (ps_ext st) -> (forall t, In t (ps_tasks st) -> In t (ps_tasks st')) ->
  ind_known st -> ind_known st'.
Proof. intros Hx Ht H r Hr. rewrite Hx in Hr. destruct (H r Hr) as [H1 H2]. split; intros t Hin; apply Ht; auto. Qed.

Lemma buffer_effect_inds x e : x_inds (buffer_effect x e) = x_inds x.
Proof. destruct e; reflexivity. Qed.

Lemma step_known st o st' : ind_known st -> step_problem st o = Ok st' -> ind_known st'.
Proof.
  intros Hk H. destruct o; cbn [step_problem] in H.
  - break H; injection H as <-; intros r [].
  - break H. injection H as <-. apply (known_more_tasks st); [reflexivity| |exact Hk]. intros t Ht. cbn [ps_tasks]. apply in_or_app. now left.
  - break H. injection H as <-. apply (known_more_tasks st); [reflexivity|auto|exact Hk].
  - break H. injection H as <-. apply (known_more_tasks st); [reflexivity|auto|exact Hk].
  - break H. injection H as <-. apply (known_more_tasks st); [reflexivity|auto|exact Hk].
  - break H; injection H as <-;
      first [ apply (known_more_tasks st _ eq_refl (fun u Hu => Hu) Hk)
            | unfold add_select; destruct (fold_left _ _ _) as [[? ?] ?]; apply (known_more_tasks st _ eq_refl (fun u Hu => Hu) Hk) ].
  - break H; injection H as <-; apply (known_more_tasks st); [cbn [ps_ext]; apply buffer_effect_inds|intros u Hu; exact Hu|exact Hk].
  - break H. injection H as <-. apply known_with_ext; [reflexivity|exact Hk].
  - break H. injection H as <-. eapply add_indicator_known; [exact Hk| |eassumption]. eapply resolve_i_known; eauto.
  - break H; injection H as <-;
      repeat match goal with
      | Ha : add_indicator _ _ _ _ _ _ = Some ?s |- _ =>
          let Hs := fresh "Hs" in
          assert (Hs : ind_known s) by (eapply add_indicator_known; [exact Hk| |exact Ha]; eapply resolve_i_known; eauto); clear Ha
      end;
      first [apply known_with_ext; [reflexivity|assumption] | assumption].
Qed.

Lemma known_empty h : ind_known (empty_problem h).
Proof. intros r []. Qed.

Lemma run_from_known ops : forall st idx st',
  (match st with Some s => ind_known s | None => True end) ->
  run_from st idx ops = RunOk (Some st') -> ind_known st'.
Proof.
  induction ops as [|o ops IH]; cbn [run_from]; intros st idx st' Hw H.
  - injection H as ->. exact Hw.
  - destruct (step st o) as [s1| |] eqn:Hs; try discriminate.
    apply (IH (Some s1) (S idx) st'); [|exact H].
    unfold step in Hs. destruct o, st as [s0|]; try discriminate;
      try (eapply step_known; [|exact Hs]; first [exact Hw | apply known_empty]).
Qed.
Theorem reachable_known ops st : reaches ops st -> ind_known st.
Proof. unfold reaches, run. apply run_from_known. exact I. Qed.

(* ---------------- number of tardy tasks, optional tasks included ---------------- *)
Theorem nb_tardy_optional_sound ops st e r ts :
  reaches ops st -> sat e (initialize st) ->
  In r (x_inds (ps_ext st)) -> i_expr r = INbTardy ts ->
  (forall t, In t (tasks_of (i_all r) ts) -> 0 <= due_of t) ->
  feval e (FEq (TV (VInd (i_id r)))
               (TAdd (map (fun t => when_t (FAnd [act t; FLt (TC (due_of t)) (E_ t)]) (TC 1)) (tasks_of (i_all r) ts)))) = true.
Proof.
  intros Hr Hs Hin He Hdue.
  destruct (reachable_known ops st Hr r Hin) as [Kall Kts].
  destruct (reachable_wf ops st Hr) as [_ Hrank].
  pose proof (sat_initialize e st Hs) as (Htasks & _).
  apply sat_initialize_ext in Hs as [Hi _].
  assert (Hind : forall f, In f (ind_asserts r) -> feval e f = true) by (intros f Hf; exact (Hi r Hin f Hf)).
  unfold ind_asserts in Hind. rewrite He in Hind. cbn [enc_ind] in Hind.
  assert (H1 := Hind _ (or_introl eq_refl)). apply feq_iff in H1. apply feq_iff. rewrite H1, !teval_tadd.
  assert (Hkn : forall t, In t (tasks_of (i_all r) ts) -> In t (ps_tasks st)).
  { intros t Ht. destruct ts as [l|]; cbn [tasks_of] in Ht; [apply Kts; rewrite He; exact Ht|now apply Kall]. }
  clear H1 Hind. revert Hkn Hdue. generalize (tasks_of (i_all r) ts). intros l Hkn Hdue.
  induction l as [|t l IH]; [reflexivity|]. cbn [map]. rewrite !tsum_cons. rewrite IH; [|intros u Hu; apply Hkn; now right|intros u Hu; apply Hdue; now right].
  f_equal. rewrite when_t_eval, (teval_eq e (TIte _ _ _)), ev_and2, (feval_eq e (FGt _ _)), (feval_eq e (FLt _ _)), !(teval_eq e (TC _)).
  destruct (feval e (act t)) eqn:Ha; cbn [andb].
  - destruct (teval e (E_ t) >? due_of t) eqn:E1, (due_of t <? teval e (E_ t)) eqn:E2; try reflexivity; lia.
  - assert (Ho : ti_opt t = true). { unfold act in Ha. destruct (ti_opt t); [reflexivity|discriminate]. }
    pose proof (Hkn t (or_introl eq_refl)) as Htin. destruct (Htasks t Htin) as [Hta _].
    assert (Hcore : forall f, In f (task_core t) -> feval e f = true).
    { intros f Hf. apply Hta. unfold task_asserts. apply in_or_app. now left. }
    destruct (unsched_times e t Ho Hcore Ha) as [_ Hend].
    specialize (Hrank t Htin). specialize (Hdue t (or_introl eq_refl)).
    change (teval e (E_ t)) with (iv e (VEnd (ti_id t))). rewrite Hend.
    destruct (- ti_rank t >? due_of t) eqn:E1; [lia|reflexivity].
Qed.
