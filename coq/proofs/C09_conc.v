(* C09_conc.v -- concurrent buffers: the change times are the access instants in non-decreasing order (bubble network),
   a repeated instant leaves the level unchanged, a new instant adds the quantities of all the accesses at that instant.
   Hence the level after every reported change is the initial level plus the quantities of all accesses up to it. *)
From Coq Require Import ZArith List Bool Lia ZifyBool Permutation Sorted String.
From PS.model Require Import Smt Enc Ind Prog.
From PS.spec Require Import Spec.
From PS.proofs Require Import Base Cons_proof C08_proof C09_proof C09_levels Bubble Bubble_model.
Import ListNotations.
Open Scope Z_scope.

Lemma sorted_app_le (a b : list Z) : Sorted Z.le (a ++ b) -> forall x y, In x a -> In y b -> x <= y.
Proof.
  intros H. apply Sorted_StronglySorted in H; [|intros x y z; lia].
  induction a as [|h a IH]; intros x y Hx Hy; [destruct Hx|]. cbn in H. inversion H as [|? ? Hs Hf]; subst.
  destruct Hx as [->|Hx]; [|now apply IH]. rewrite Forall_forall in Hf. apply Hf. apply in_or_app. now right.
Qed.

Section ConcLevels.
  Variable P : list (Z * Z).       (* (access instant, quantity) *)
  Variable L0 : Z.
  Definition upto_sum (x : Z) : Z := zsum (fun p => if fst p <=? x then snd p else 0) P.
  Definition at_sum (c : Z) : Z := zsum (fun p => if fst p =? c then snd p else 0) P.

  Fixpoint clev (prev : option Z) (l0 : Z) (C : list Z) : list Z :=
    match C with
    | [] => []
    | c :: r =>
        let l1 := match prev with Some cp => if c =? cp then l0 else l0 + at_sum c | None => l0 + at_sum c end in
        l1 :: clev (Some c) l1 r
    end.

  Lemma upto_step cp c : cp < c -> (forall p, In p P -> fst p <= cp \/ c <= fst p) -> upto_sum c = upto_sum cp + at_sum c.
  Proof.
    unfold upto_sum, at_sum. intros Hlt. induction P as [|p l IH]; intros H; [reflexivity|].
    rewrite !zsum_cons. rewrite IH by (intros q Hq; apply H; now right).
    destruct (H p (or_introl eq_refl)) as [Hp|Hp];
      destruct (fst p <=? c) eqn:E1, (fst p <=? cp) eqn:E2, (fst p =? c) eqn:E3; lia.
  Qed.
  Lemma upto_first c : (forall p, In p P -> c <= fst p) -> upto_sum c = at_sum c.
  Proof.
    unfold upto_sum, at_sum. induction P as [|p l IH]; intros H; [reflexivity|].
    rewrite !zsum_cons. rewrite IH by (intros q Hq; apply H; now right).
    specialize (H p (or_introl eq_refl)). destruct (fst p <=? c) eqn:E1, (fst p =? c) eqn:E3; lia.
  Qed.

  Lemma clev_spec : forall C pre prev l0,
    Sorted Z.le (pre ++ C) -> Permutation (pre ++ C) (map fst P) ->
    match prev with
    | None => pre = [] /\ l0 = L0
    | Some cp => In cp pre /\ Forall (fun x => x <= cp) pre /\ l0 = L0 + upto_sum cp end ->
    Forall2 (fun l c => l = L0 + upto_sum c) (clev prev l0 C) C.
  Proof.
    induction C as [|c r IH]; intros pre prev l0 Hs Hp Hprev; [constructor|].
    cbn [clev].
    assert (Hpre : forall x, In x pre -> x <= c) by (intros x Hx; apply (sorted_app_le pre (c :: r) Hs x c Hx); now left).
    assert (Hr : forall y, In y r -> c <= y).
    { intros y Hy. replace (pre ++ c :: r) with ((pre ++ [c]) ++ r) in Hs by (now rewrite <- app_assoc).
      apply (sorted_app_le (pre ++ [c]) r Hs c y); [apply in_or_app; right; now left|exact Hy]. }
    assert (Hin : forall p, In p P -> In (fst p) pre \/ fst p = c \/ In (fst p) r).
    { intros p Hpin. assert (H : In (fst p) (pre ++ c :: r)) by (apply (Permutation_in _ (Permutation_sym Hp)); now apply in_map).
      apply in_app_or in H as [H|[H|H]]; auto. }
    set (l1 := match prev with Some cp => if c =? cp then l0 else l0 + at_sum c | None => l0 + at_sum c end).
    assert (Hl1 : l1 = L0 + upto_sum c).
    { unfold l1. destruct prev as [cp|].
      - destruct Hprev as (Hcp & Hall & ->). rewrite Forall_forall in Hall. destruct (c =? cp) eqn:E.
        + replace c with cp by lia. reflexivity.
        + assert (cp < c) by (specialize (Hpre cp Hcp); lia).
          rewrite (upto_step cp c); [lia|lia|]. intros p Hpin. destruct (Hin p Hpin) as [H1|[H1|H1]]; [left; auto|right; lia|right; auto].
      - destruct Hprev as [-> ->]. rewrite upto_first; [reflexivity|]. intros p Hpin.
        destruct (Hin p Hpin) as [[]|[H1|H1]]; [lia|auto]. }
    constructor; [exact Hl1|].
    apply (IH (pre ++ [c]) (Some c) l1).
    - now rewrite <- app_assoc.
    - now rewrite <- app_assoc.
    - split; [apply in_or_app; right; now left|]. split; [|exact Hl1].
      apply Forall_forall. intros x Hx. apply in_app_or in Hx as [Hx|[<-|[]]]; [auto|lia].
  Qed.
End ConcLevels.

(* ---------------- the model ---------------- *)
(* a quantity function is its quantity at the access instant and 0 elsewhere *)
Lemma fapp_notin g x : (forall v, ~ In (x, v) g) -> fapp g x = 0.
Proof.
  induction g as [|[k v] g IH]; intros H; [reflexivity|]. cbn [fapp]. destruct (k =? x) eqn:E.
  - exfalso. apply (H v). left. f_equal. lia.
  - apply IH. intros v' Hv. apply (H v'). now right.
Qed.
Lemma fapp_in_or_zero g x : fapp g x = 0 \/ exists v, In (x, v) g.
Proof.
  induction g as [|[k v] g IH]; [now left|]. cbn [fapp]. destruct (k =? x) eqn:E.
  - right. exists v. left. f_equal. lia.
  - destruct IH as [H|(v' & Hv)]; [now left|right; exists v'; now right].
Qed.
Lemma funpoint_sem e f t q : feval e (FFunPoint f t q) = true ->
  forall x, fapp (fv e f) x = if x =? teval e t then q else 0.
Proof.
  rewrite feval_eq. intros H x. apply andb_true_iff in H as [H1 H2]. rewrite forallb_forall in H2.
  destruct (x =? teval e t) eqn:E.
  - replace x with (teval e t) by lia. lia.
  - destruct (fapp_in_or_zero (fv e f) x) as [H0|(v & Hv)]; [exact H0|].
    specialize (H2 _ Hv). cbn [fst] in H2. lia.
Qed.

Definition ev_fn (id : nat) (b : bufrec) : list fname :=
  map (fun '(t, _) => FnUnload id t) (b_unload b) ++ map (fun '(t, _) => FnLoad id t) (b_load b).
Definition ev_pairs (e : env) (b : bufrec) : list (Z * Z) := map (fun ev => (teval e (ev_time ev), ev_delta ev)) (buf_events b).

Lemma funpoints_sum e (b : bufrec) :
  (forall f, In f (map (fun '(t, q) => FFunPoint (FnUnload (b_id b) t) (TV (VStart t)) (- q)) (b_unload b)
                   ++ map (fun '(t, q) => FFunPoint (FnLoad (b_id b) t) (TV (VEnd t)) q) (b_load b)) -> feval e f = true) ->
  forall c, tsum e (map (fun f => TApp f c) (ev_fn (b_id b) b)) = at_sum (ev_pairs e b) (teval e c).
Proof.
  intros H c. unfold ev_fn, ev_pairs, buf_events, at_sum. rewrite !map_app, !map_map.
  assert (Happ : forall l1 l2, tsum e (l1 ++ l2) = tsum e l1 + tsum e l2).
  { induction l1 as [|a l1 IH]; intros l2; cbn [app]; [rewrite tsum_nil; lia|rewrite !tsum_cons, IH; lia]. }
  assert (Zapp : forall (f : Z * Z -> Z) l1 l2, zsum f (l1 ++ l2) = zsum f l1 + zsum f l2).
  { intros f. induction l1 as [|a l1 IH]; intros l2; cbn [app]; [cbn; lia|rewrite !zsum_cons, IH; lia]. }
  rewrite Happ, Zapp. f_equal.
  - assert (G : forall l, (forall tq, In tq l -> In tq (b_unload b)) ->
        tsum e (map (fun x : nat * Z => TApp (let '(t, _) := x in FnUnload (b_id b) t) c) l)
        = zsum (fun p => if fst p =? teval e c then snd p else 0)
               (map (fun x : nat * Z => (teval e (ev_time (let '(t, q) := x in {| ev_task := t; ev_time := TV (VStart t); ev_delta := - q |})),
                                        ev_delta (let '(t, q) := x in {| ev_task := t; ev_time := TV (VStart t); ev_delta := - q |}))) l)).
    { induction l as [|[t q] l IH]; intros Hl; [reflexivity|]. cbn [map]. rewrite tsum_cons, zsum_cons, IH by (intros; apply Hl; now right).
      f_equal. rewrite (teval_eq e (TApp _ _)).
      assert (Hf : feval e (FFunPoint (FnUnload (b_id b) t) (TV (VStart t)) (- q)) = true).
      { apply H. apply in_or_app. left. apply in_map_iff. exists (t, q). split; [reflexivity|]. apply Hl. now left. }
      rewrite (funpoint_sem e _ _ _ Hf). cbn [fst snd ev_time ev_delta]. destruct (teval e c =? teval e (TV (VStart t))) eqn:E1;
        destruct (teval e (TV (VStart t)) =? teval e c) eqn:E2; lia. }
    apply G. auto.
  - assert (G : forall l, (forall tq, In tq l -> In tq (b_load b)) ->
        tsum e (map (fun x : nat * Z => TApp (let '(t, _) := x in FnLoad (b_id b) t) c) l)
        = zsum (fun p => if fst p =? teval e c then snd p else 0)
               (map (fun x : nat * Z => (teval e (ev_time (let '(t, q) := x in {| ev_task := t; ev_time := TV (VEnd t); ev_delta := q |})),
                                        ev_delta (let '(t, q) := x in {| ev_task := t; ev_time := TV (VEnd t); ev_delta := q |}))) l)).
    { induction l as [|[t q] l IH]; intros Hl; [reflexivity|]. cbn [map]. rewrite tsum_cons, zsum_cons, IH by (intros; apply Hl; now right).
      f_equal. rewrite (teval_eq e (TApp _ _)).
      assert (Hf : feval e (FFunPoint (FnLoad (b_id b) t) (TV (VEnd t)) q) = true).
      { apply H. apply in_or_app. right. apply in_map_iff. exists (t, q). split; [reflexivity|]. apply Hl. now left. }
      rewrite (funpoint_sem e _ _ _ Hf). cbn [fst snd ev_time ev_delta]. destruct (teval e c =? teval e (TV (VEnd t))) eqn:E1;
        destruct (teval e (TV (VEnd t)) =? teval e c) eqn:E2; lia. }
    apply G. auto.
Qed.

(* the recurrence of the model is clev *)
Lemma conc_steps_clev e P fns :
  (forall c, tsum e (map (fun f => TApp f c) fns) = at_sum P (teval e c)) ->
  forall (ls cs : list term) (l0 : term) prev i,
  List.length ls = List.length cs ->
  (forall f, In f (conc_steps fns prev (level_steps (l0 :: ls) cs i)) -> feval e f = true) ->
  map (teval e) ls = clev P (option_map (teval e) prev) (teval e l0) (map (teval e) cs).
Proof.
  intros Hg. induction ls as [|l1 ls IH]; intros [|c cs] l0 prev i Hl H; cbn in Hl; try lia; [reflexivity|].
  cbn [level_steps conc_steps] in H. cbn [map clev].
  assert (H1 := H _ (or_introl eq_refl)).
  assert (Hjump : feval e (FEq l1 (TAdd [l0; TAdd (map (fun f => TApp f c) fns)])) = true -> teval e l1 = teval e l0 + at_sum P (teval e c)).
  { intros Hj. apply feq_iff in Hj. rewrite Hj, teval_tadd, !tsum_cons, tsum_nil, teval_tadd, Hg. lia. }
  assert (Hv : teval e l1 = match option_map (teval e) prev with
                            | Some cp => if teval e c =? cp then teval e l0 else teval e l0 + at_sum P (teval e c)
                            | None => teval e l0 + at_sum P (teval e c) end).
  { destruct prev as [cp|]; cbn [option_map].
    - rewrite feval_eq, (feval_eq e (FEq c cp)) in H1. destruct (teval e c =? teval e cp); [now apply feq_iff in H1|auto].
    - auto. }
  rewrite <- Hv. f_equal.
  apply (IH cs l1 (Some c) (S i)); [lia|]. intros f Hf. apply H. now right.
Qed.

Lemma consecutive_sorted (l : list Z) : Sorted Z.le l -> forall a b, In (a, b) (consecutive l) -> a <= b.
Proof.
  induction l as [|x r IH]; intros Hs a b Hin; [destruct Hin|]. destruct r as [|y r']; [destruct Hin|].
  apply Sorted_inv in Hs as [Hs Hh]. apply HdRel_inv in Hh. cbn [consecutive] in Hin. destruct Hin as [[= <- <-]|Hin]; [exact Hh|]. now apply IH.
Qed.
Lemma consecutive_map {A B} (g : A -> B) (l : list A) : consecutive (map g l) = map (fun '(a, b) => (g a, g b)) (consecutive l).
Proof. induction l as [|x r IH]; [reflexivity|]. destruct r as [|y r']; [reflexivity|]. cbn [map consecutive] in *. now rewrite IH. Qed.

Lemma level_clause_sum_conc st e b (c : term) :
  buf_has_optional st b = false ->
  tsum e (map (fun ev => when_t (FAnd [task_act st (ev_task ev); FLe (ev_time ev) c]) (TC (ev_delta ev))) (buf_events b))
  = upto_sum (ev_pairs e b) (teval e c).
Proof.
  intros Hopt. unfold upto_sum, ev_pairs.
  assert (G : forall l, (forall ev, In ev l -> In ev (buf_events b)) ->
     tsum e (map (fun ev => when_t (FAnd [task_act st (ev_task ev); FLe (ev_time ev) c]) (TC (ev_delta ev))) l)
     = zsum (fun p => if fst p <=? teval e c then snd p else 0) (map (fun ev => (teval e (ev_time ev), ev_delta ev)) l)).
  { induction l as [|ev l IH]; intros Hl; [reflexivity|]. cbn [map]. rewrite tsum_cons, zsum_cons, IH by (intros; apply Hl; now right).
    f_equal. rewrite when_t_eval, ev_and2, (task_act_mandatory st e b ev Hopt (Hl ev (or_introl eq_refl))), ev_le, ev_tc.
    cbn [andb fst snd]. reflexivity. }
  apply G. auto.
Qed.

Lemma buffer_sound_conc e st (b : bufrec) :
  (forall f, In f (buffer_block b) -> feval e f = true) ->
  forall k f, In (k, f) (spec_C09_conc st b) -> feval e f = true.
Proof.
  intros H k f Hin. unfold spec_C09_conc in Hin.
  destruct (buf_proved_conc st b) eqn:Hp; [|destruct Hin].
  unfold buf_proved_conc in Hp. apply andb_true_iff in Hp as [Hp Hopt]. apply andb_true_iff in Hp as [Hreg Hc].
  apply negb_true_iff in Hopt.
  unfold buffer_block in H. rewrite Hc in H.
  pose proof (sort_dup_sem e (fun k0 => TV (VAux (OwBuf (b_id b)) k0)) (buf_times b)) as Hsd.
  destruct (sort_dup (fun k0 => TV (VAux (OwBuf (b_id b)) k0)) (buf_times b)) as [sorted sa] eqn:Hs. cbn [fst snd] in Hsd.
  destruct Hsd as (Hsorted & Hperm & Hlen). { intros g Hg. apply H. apply in_or_app. right. apply in_or_app. now left. }
  assert (Hl2 : List.length sorted = List.length (buf_changes b)).
  { unfold buf_regular in Hreg. apply andb_true_iff in Hreg as [Hr _]. apply Nat.eqb_eq in Hr.
    rewrite Hlen. unfold buf_times, buf_changes. rewrite app_length, !map_length. lia. }
  assert (Heq : map (teval e) sorted = map (teval e) (buf_changes b)).
  { apply combine_map_eq; [exact Hl2|]. intros s c Hsc. apply feq_iff. apply H. do 2 (apply in_or_app; right). apply in_or_app. left.
    apply in_map_iff. exists (s, c). split; [reflexivity|exact Hsc]. }
  set (A := map (teval e) (buf_changes b)) in *. rewrite Heq in Hsorted, Hperm.
  set (P := ev_pairs e b).
  assert (HT : map (teval e) (buf_times b) = map fst P).
  { unfold P, ev_pairs. rewrite <- events_times, !map_map. reflexivity. }
  rewrite HT in Hperm.
  (* function points and recurrence *)
  assert (Hblk : forall g, In g (map (fun '(t, q) => FFunPoint (FnUnload (b_id b) t) (TV (VStart t)) (- q)) (b_unload b)
                               ++ map (fun '(t, q) => FFunPoint (FnLoad (b_id b) t) (TV (VEnd t)) q) (b_load b)
                               ++ conc_steps (ev_fn (b_id b) b) None (level_steps (buf_levels b) (buf_changes b) 0))
                          -> feval e g = true).
  { intros g Hg. apply H. do 6 (apply in_or_app; right). exact Hg. }
  assert (Hg : forall c, tsum e (map (fun f0 => TApp f0 c) (ev_fn (b_id b) b)) = at_sum P (teval e c)).
  { apply funpoints_sum. intros g Hgin. apply Hblk. apply in_app_or in Hgin as [Hgin|Hgin]; apply in_or_app; [now left|right; apply in_or_app; now left]. }
  assert (Hcl : map (teval e) (tl (buf_levels b)) = clev P None (teval e (TV (VLevel0 (b_id b)))) A).
  { unfold buf_levels. cbn [tl]. apply (conc_steps_clev e P (ev_fn (b_id b) b) Hg _ (buf_changes b) _ None 0%nat).
    - unfold buf_changes. now rewrite !map_length.
    - intros g Hgin. apply Hblk. do 2 (apply in_or_app; right). exact Hgin. }
  pose proof (clev_spec P (teval e (TV (VLevel0 (b_id b)))) A [] None _ Hsorted Hperm (conj eq_refl eq_refl)) as Hspec.
  repeat (apply in_app_or in Hin as [Hin|Hin]).
  - (* level after change *)
    apply in_map_iff in Hin as ([l c] & [= <- <-] & Hlc). unfold level_clause. apply feq_iff.
    rewrite teval_tadd, tsum_cons, (level_clause_sum_conc st e b c Hopt). fold P.
    assert (Hpair : In (teval e l, teval e c) (combine (clev P None (teval e (TV (VLevel0 (b_id b)))) A) A)).
    { rewrite <- Hcl. unfold A. rewrite combine_map_pairs. apply in_map_iff. exists (l, c). split; [reflexivity|exact Hlc]. }
    clear - Hspec Hpair. induction Hspec as [|x y lx ly Hxy _ IH]; [destruct Hpair|].
    destruct Hpair as [[= -> ->]|Hpair]; [exact Hxy|now apply IH].
  - (* every access is a reported change *)
    apply in_map_iff in Hin as (ev & [= <- <-] & Hev'). rewrite feval_eq. apply existsb_exists.
    assert (Ht : In (teval e (ev_time ev)) (map fst P)).
    { unfold P, ev_pairs. rewrite map_map. cbn [fst]. apply in_map_iff. exists ev. auto. }
    apply (Permutation_in _ (Permutation_sym Hperm)) in Ht. unfold A in Ht. apply in_map_iff in Ht as (c & Hc' & Hcin).
    exists (FEq c (ev_time ev)). split; [apply in_map_iff; eauto|]. now apply feq_iff.
  - (* change times in non-decreasing order *)
    apply in_map_iff in Hin as ([c1 c2] & [= <- <-] & Hcc). rewrite feval_eq.
    assert (Hv : In (teval e c1, teval e c2) (consecutive A)).
    { unfold A. rewrite consecutive_map. apply in_map_iff. exists (c1, c2). auto. }
    pose proof (consecutive_sorted A Hsorted _ _ Hv). lia.
  - (* every reported change is an access instant *)
    apply in_map_iff in Hin as (c & [= <- <-] & Hcin). rewrite feval_eq. apply existsb_exists.
    assert (Ht : In (teval e c) A) by (unfold A; now apply in_map).
    apply (Permutation_in _ Hperm) in Ht. unfold P, ev_pairs in Ht. rewrite map_map in Ht. cbn [fst] in Ht.
    apply in_map_iff in Ht as (ev & Hev & Hevin).
    exists (FEq c (ev_time ev)). split; [apply in_map_iff; eauto|]. apply feq_iff. lia.
Qed.

Theorem C09_sound : forall st e, sat e (initialize st) ->
  forall k f, In (k, f) (spec_C09 st) -> feval e f = true.
Proof.
  intros st e Hs k f Hin. unfold spec_C09 in Hin.
  apply in_flat_map in Hin as (b & Hb & Hin). apply in_map_iff in Hin as ([k' f'] & [= <- <-] & Hin).
  apply sat_initialize_ext in Hs as [_ Hbuf]. unfold spec_C09_P in Hin. apply in_app_or in Hin as [Hin|Hin].
  - eapply buffer_sound_basic; eauto.
  - apply in_app_or in Hin as [Hin|Hin]; [eapply buffer_sound_levels; eauto|eapply buffer_sound_conc; eauto].
Qed.
