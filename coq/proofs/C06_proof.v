(* C06_proof.v -- optional tasks: rules honoured; an unscheduled task occupies no worker. *)
From Coq Require Import ZArith List Bool Lia ZifyBool.
From PS.model Require Import Smt Enc Ind Prog.
From PS.spec Require Import Spec.
From PS.proofs Require Import Base Cons_proof Res_proof Wf_proof.
Import ListNotations.
Open Scope Z_scope.

Lemma inert_areq e t a :
  ti_opt t = true -> 1 <= ti_rank t ->
  (forall s listed n k, a = AQSelect s listed n k -> forall r p, In (r, p) listed -> p < 0) ->
  (forall f, In f (task_core t) -> feval e f = true) ->
  (forall f, In f (enc_areq t a) -> feval e f = true) ->
  feval e (act t) = false ->
  match a with
  | AQDirect w _ _ _ => iv e (VBusyE (RW w) (ti_id t) false) < 0
  | AQSelect s listed _ _ => forall r p, In (r, p) listed -> iv e (VBusyE r (ti_id t) true) < 0
  end.
Proof.
  intros Ho Hr Hneg Hc H Ha. destruct (unsched_times e t Ho Hc Ha) as [HS HE].
  destruct a as [w dyn di eo|s listed n k]; cbn [enc_areq] in H.
  - destruct dyn.
    + assert (H1 := H _ (or_introl eq_refl)). ev. lia.
    + assert (H1 := H _ (or_introl eq_refl)). destruct (eo >? 0) eqn:He; ev; lia.
  - intros r p Hrp. assert (Hp : p < 0) by (eapply Hneg; eauto).
    assert (H1 : feval e (FIte (FB (BSel s r))
                  (FAnd [FEq (BS r (ti_id t) true) (S_ t); FEq (BE r (ti_id t) true) (E_ t)])
                  (FAnd [FEq (BS r (ti_id t) true) (TC p); FEq (BE r (ti_id t) true) (TC p)])) = true).
    { apply H. apply in_or_app. left. apply in_map_iff. exists (r, p). auto. }
    rewrite feval_eq in H1. destruct (feval e (FB (BSel s r))); ev; lia.
Qed.

Theorem C06_inert_sound : forall st e, wf st -> sat e (initialize st) ->
  forall k f, In (k, f) (spec_C06_inert st) -> feval e f = true.
Proof.
  intros st e [[_ Hneg] Hrank] Hs k f Hin. apply sat_initialize in Hs as (Ht & _).
  unfold spec_C06_inert in Hin. apply in_flat_map in Hin as (t & Hti & Hin).
  destruct (ti_opt t) eqn:Ho; [|destruct Hin]. apply in_flat_map in Hin as (a & Ha & Hin).
  destruct (Ht t Hti) as [Hta _].
  assert (Hcore : forall g, In g (task_core t) -> feval e g = true).
  { intros g Hg. apply Hta. unfold task_asserts. apply in_or_app. now left. }
  assert (Henc : forall g, In g (enc_areq t a) -> feval e g = true).
  { intros g Hg. apply Hta. unfold task_asserts. apply in_or_app. right. apply in_flat_map. eauto. }
  assert (Hn : forall s listed n k0, a = AQSelect s listed n k0 -> forall r p, In (r, p) listed -> p < 0).
  { intros s listed n k0 -> r p Hrp. apply get_list_in in Ha as (k' & l' & Hl' & Hx). eapply Hneg; eauto. }
  assert (Himp : forall g, (feval e (act t) = false -> feval e g = true) -> feval e (FImp (FNot (act t)) g) = true).
  { intros g Hg. rewrite feval_eq, (feval_eq e (FNot _)). destruct (feval e (act t)); cbn; auto. }
  destruct a as [w dyn di eo|s listed n k0].
  - destruct Hin as [[= <- <-]|[]]. apply Himp. intros Hact.
    pose proof (inert_areq e t _ Ho (Hrank t Hti) Hn Hcore Henc Hact) as H1. cbn beta iota in H1. ev. lia.
  - apply in_map_iff in Hin as ([r p] & [= <- <-] & Hrp). apply Himp. intros Hact.
    pose proof (inert_areq e t _ Ho (Hrank t Hti) Hn Hcore Henc Hact r p Hrp) as H1. ev. lia.
Qed.

Theorem C06_sound : forall st e, wf st -> sat e (initialize st) ->
  forall k f, In (k, f) (spec_C06 st) -> feval e f = true.
Proof.
  intros st e Hw Hs k f Hin. unfold spec_C06 in Hin. apply in_app_or in Hin as [Hin|Hin].
  - eapply C06_rules_sound; eauto.
  - eapply C06_inert_sound; eauto.
Qed.

(* scheduled like mandatory: every C01-C04 clause about an optional task is guarded only by its
   scheduled flag, so a scheduled optional task obeys exactly the clauses of a mandatory one *)
Lemma act_mandatory e t : ti_opt t = false -> feval e (act t) = true.
Proof. unfold act. now intros ->. Qed.
Lemma act_optional e t : ti_opt t = true -> feval e (act t) = bv e (BSched (ti_id t)).
Proof. unfold act. now intros ->. Qed.
