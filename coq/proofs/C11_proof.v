(* C11_proof.v -- laws of the report built by build_solution from one admitted valuation. *)
From Coq Require Import ZArith List Bool Lia ZifyBool String.
From PS.model Require Import Smt Enc Ind Prog Solution.
From PS.spec Require Import Spec.
From PS.proofs Require Import Base Cons_proof C01_proof.
Import ListNotations.
Open Scope Z_scope.

Lemma sched_is_act e t : task_scheduled e t = feval e (act t).
Proof. unfold task_scheduled, act. destruct (ti_opt t); reflexivity. Qed.

(* end - start = reported duration, for every task reported as scheduled *)
Theorem duration_consistent : forall st e delta t0 t,
  sat e (initialize st) -> In t (ps_tasks st) ->
  let s := task_solution st e delta t0 t in
  ts_sched s = true -> ts_end s - ts_start s = ts_dur s.
Proof.
  intros st e delta t0 t Hs Hin s Hsch. subst s. cbn [task_solution ts_sched ts_end ts_start ts_dur] in *.
  rewrite sched_is_act in Hsch.
  destruct (C01_values st e Hs t Hin Hsch) as (_ & _ & Hd & _).
  unfold task_duration. destruct (ti_kind t) as [|d|mn mx al]; [lia|lia|]. destruct Hd as [Hd _]. lia.
Qed.

(* the reported horizon is not earlier than any reported task end (scheduled or not) *)
Theorem horizon_covers : forall c st e delta t0 ts,
  sat e (initialize st) -> In ts (so_tasks (build_solution c st e delta t0)) ->
  ts_end ts <= so_horizon (build_solution c st e delta t0).
Proof.
  intros c st e delta t0 ts Hs Hin. cbn [build_solution so_tasks so_horizon] in *.
  apply in_map_iff in Hin as (t & <- & Ht). cbn [task_solution ts_end].
  apply sat_initialize in Hs as (Hta & _ & _ & _ & Hh). destruct (Hta t Ht) as [_ He].
  rewrite feval_eq in He. cbn in He.
  destruct (ps_horizon st) as [h|] eqn:Eh; [|lia].
  specialize (Hh h eq_refl). rewrite feval_eq in Hh. cbn in Hh. lia.
Qed.

(* calendar times = start time + integer times * time step (integer microseconds) *)
Theorem calendar_times : forall st e dt t0 t a b d,
  ts_times (task_solution st e (Some dt) t0 t) = Some (a, b, d) ->
  a = (match t0 with Some z => z | None => 0 end) + ts_start (task_solution st e (Some dt) t0 t) * dt
  /\ d = ts_dur (task_solution st e (Some dt) t0 t) * dt
  /\ b - a = ts_dur (task_solution st e (Some dt) t0 t) * dt.
Proof.
  intros st e dt t0 t a b d H. cbn [task_solution ts_times ts_start ts_dur] in *.
  injection H as <- <- <-. destruct t0; lia.
Qed.
Theorem no_calendar_without_step : forall st e t0 t, ts_times (task_solution st e None t0 t) = None.
Proof. reflexivity. Qed.

(* every resource report carries the name of a worker or of a cumulative worker, never of one of its units *)
Definition report_names (st : pstate) : list resobj := map (fun w => wref_key (w_ref w)) (ps_workers st).

Lemma resource_fold_names e st (ws : list wrec) : forall acc,
  (forall r, In r acc -> In (rs_name r) (report_names st)) ->
  (forall w, In w ws -> In w (ps_workers st)) ->
  forall r, In r (fold_left (fun acc wr =>
      let w := w_ref wr in
      let name := wref_key w in
      if is_unit w && existsb (fun r => resobj_beq (rs_name r) name) acc then
        map (fun r => if resobj_beq (rs_name r) name
                      then {| rs_name := name; rs_assignments := worker_assignments st e w (rs_assignments r) |} else r) acc
      else if negb (is_unit w) && existsb (fun r => resobj_beq (rs_name r) name) acc then
        map (fun r => if resobj_beq (rs_name r) name
                      then {| rs_name := name; rs_assignments := worker_assignments st e w [] |} else r) acc
      else acc ++ [{| rs_name := name; rs_assignments := worker_assignments st e w [] |}]) ws acc) ->
  In (rs_name r) (report_names st).
Proof.
  induction ws as [|w ws IH]; intros acc Hacc Hws r Hr; cbn [fold_left] in Hr; [auto|].
  eapply IH; [| |exact Hr]; [|intros; apply Hws; now right].
  assert (Hw : In (wref_key (w_ref w)) (report_names st)).
  { unfold report_names. apply in_map_iff. exists w. split; [reflexivity|]. apply Hws. now left. }
  intros r' Hr'.
  destruct (is_unit (w_ref w) && existsb _ acc).
  - apply in_map_iff in Hr' as (r0 & <- & H0). destruct (resobj_beq _ _); cbn [rs_name]; auto.
  - destruct (negb (is_unit (w_ref w)) && existsb _ acc).
    + apply in_map_iff in Hr' as (r0 & <- & H0). destruct (resobj_beq _ _); cbn [rs_name]; auto.
    + apply in_app_or in Hr' as [H0|[<-|[]]]; cbn [rs_name]; auto.
Qed.

Theorem resource_names : forall c st e delta t0 r,
  In r (so_resources (build_solution c st e delta t0)) -> In (rs_name r) (report_names st).
Proof.
  intros c st e delta t0 r Hr. cbn [build_solution so_resources] in Hr. unfold resource_solutions in Hr.
  eapply resource_fold_names; [| |exact Hr]; [intros ? []|auto].
Qed.
(* and the name of a unit worker is reported as the name of its cumulative worker *)
Theorem unit_reported_as_cumulative : forall c i, wref_key (WUnit c i) = rref_key (RC c) /\ wref_key (WUnit c i) = ResC c.
Proof. split; reflexivity. Qed.

(* a listed assignment carries the busy interval of the schedule, and only non-negative ones are listed *)
Lemma worker_assignments_in (e : env) (w : wref) : forall (l : list (nat * bool)) (acc : list (nat * Z * Z)) x,
  In x (fold_left (fun acc '(t, m) =>
      let s := iv e (VBusyS (RW w) t m) in let y := iv e (VBusyE (RW w) t m) in
      if (s >=? 0) && (y >=? 0) && negb (existsb (triple_eqb (t, s, y)) acc) then acc ++ [(t, s, y)] else acc) l acc) ->
  In x acc \/ exists t m, In (t, m) l /\ x = (t, iv e (VBusyS (RW w) t m), iv e (VBusyE (RW w) t m))
                          /\ 0 <= iv e (VBusyS (RW w) t m) /\ 0 <= iv e (VBusyE (RW w) t m).
Proof.
  induction l as [|[t m] l IH]; intros acc x Hx; cbn [fold_left] in Hx; [now left|].
  apply IH in Hx as [Hx|(t' & m' & Hin & -> & H1 & H2)].
  - destruct ((_ >=? 0) && (_ >=? 0) && _) eqn:Hc; [|now left].
    apply in_app_or in Hx as [Hx|[<-|[]]]; [now left|]. right. exists t, m.
    rewrite !andb_true_iff in Hc. destruct Hc as [[Ha Hb] _]. split; [now left|]. split; [reflexivity|]. lia.
  - right. exists t', m'. split; [now right|]. auto.
Qed.

Theorem assignment_is_busy_interval : forall st e w x,
  In x (worker_assignments st e w []) ->
  exists t m, In (t, m) (busy_of st (RW w)) /\ x = (t, iv e (VBusyS (RW w) t m), iv e (VBusyE (RW w) t m))
              /\ 0 <= iv e (VBusyS (RW w) t m) /\ 0 <= iv e (VBusyE (RW w) t m).
Proof.
  intros st e w x Hx. unfold worker_assignments in Hx. apply worker_assignments_in in Hx as [[]|H]. exact H.
Qed.
