(* C15_proof.v -- solver options never change what counts as a valid schedule; C19: the debug map. *)
From Coq Require Import ZArith List Bool Lia.
From PS.model Require Import Smt Enc Ind Prog.
From PS.spec Require Import Spec.
From PS.proofs Require Import Base Coincidence.
Import ListNotations.
Open Scope Z_scope.

(* ---- the assertion set only depends on the configuration through "is the equivalent weighted objective built" ---- *)
Lemma setup_asserts_cases c st :
  su_asserts (solver_setup c st) = initialize st ++ (if uses_equivalent c st then tagged TgObj (equivalent_asserts st) else []).
Proof. reflexivity. Qed.

Theorem options_do_not_change_assertions : forall c1 c2 st,
  cf_optimizer c1 = cf_optimizer c2 -> cf_priority c1 = cf_priority c2 ->
  su_asserts (solver_setup c1 st) = su_asserts (solver_setup c2 st)
  /\ su_directives (solver_setup c1 st) = su_directives (solver_setup c2 st)
  /\ su_objective (solver_setup c1 st) = su_objective (solver_setup c2 st).
Proof.
  intros c1 c2 st Ho Hp. unfold solver_setup, uses_equivalent. cbn [su_asserts su_directives su_objective].
  rewrite Ho, Hp. auto.
Qed.

(* debug mode only switches tracking on; the logic only selects the solver class *)
Theorem debug_only_tracks : forall c st,
  let c' := {| cf_optimizer := cf_optimizer c; cf_priority := cf_priority c; cf_debug := negb (cf_debug c);
               cf_logic := cf_logic c; cf_parallel := cf_parallel c; cf_random := cf_random c; cf_verbosity := cf_verbosity c |} in
  su_asserts (solver_setup c' st) = su_asserts (solver_setup c st)
  /\ su_kind (solver_setup c' st) = su_kind (solver_setup c st)
  /\ su_directives (solver_setup c' st) = su_directives (solver_setup c st)
  /\ su_tracked (solver_setup c' st) = negb (su_tracked (solver_setup c st)).
Proof. intros c st. cbn. auto. Qed.

(* a solver built for a logic is used only when the logic covers the encoding: with a non-concurrent buffer (whose level
   is an array) the logic has arrays, otherwise the general solver is used (fix of finding F44) *)
Theorem logic_covers_encoding : forall c st n,
  su_kind (solver_setup c st) = SkSolverFor n ->
  exists l, cf_logic c = Some l /\ lg_id l = n /\ (needs_arrays st = true -> lg_arrays l = true).
Proof.
  intros c st n. unfold solver_setup. cbn [su_kind].
  assert (Hk : match cf_logic c with
               | None => SkSolver
               | Some l => if needs_arrays st && negb (lg_arrays l) then SkSolver else SkSolverFor (lg_id l)
               end = SkSolverFor n ->
               exists l, cf_logic c = Some l /\ lg_id l = n /\ (needs_arrays st = true -> lg_arrays l = true)).
  { destruct (cf_logic c) as [l|]; [|discriminate].
    destruct (needs_arrays st); destruct (lg_arrays l) eqn:Hl; cbn; try discriminate;
      intros H; injection H as <-; exists l; repeat split; auto; discriminate. }
  destruct (objectives st) as [|o os]; [exact Hk|]. destruct (cf_optimizer c); [exact Hk|discriminate].
Qed.
Theorem needs_arrays_iff st : needs_arrays st = true <-> exists b, In b (x_bufs (ps_ext st)) /\ b_conc b = false.
Proof.
  unfold needs_arrays. rewrite existsb_exists. split; intros (b & Hb & Hc); exists b; split; auto.
  - now destruct (b_conc b).
  - now rewrite Hc.
Qed.

(* ---- every configuration admits exactly the schedules of the configuration-independent assertion set ---- *)
(* (1) any valuation admitted under any configuration is admitted by initialize st *)
Theorem any_configuration_is_valid : forall c st e, sat e (su_asserts (solver_setup c st)) -> sat e (initialize st).
Proof. intros c st e. apply sat_setup. Qed.

(* (2) conversely the extra assertions only define two fresh variables (conservative extension) *)
Definition equiv_fresh (st : pstate) : Prop :=
  (forall g f, In (g, f) (initialize st) -> ~ In VEquivObj (fiv f) /\ ~ In VEquivInd (fiv f))
  /\ (forall o, In o (objectives st) -> ~ In VEquivObj (tiv (o_target o)) /\ ~ In VEquivInd (tiv (o_target o))).

Definition set_equiv (e : env) (v : Z) : env :=
  {| iv := fun x => match x with VEquivObj | VEquivInd => v | _ => iv e x end; bv := bv e; av := av e; fv := fv e |}.

Lemma set_equiv_other e v x : x <> VEquivObj -> x <> VEquivInd -> iv (set_equiv e v) x = iv e x.
Proof. intros H1 H2. destruct x; try reflexivity; congruence. Qed.

Lemma feval_set_equiv e v f : ~ In VEquivObj (fiv f) -> ~ In VEquivInd (fiv f) -> feval (set_equiv e v) f = feval e f.
Proof.
  intros H1 H2. apply feval_coincidence; try reflexivity.
  intros x Hx. apply set_equiv_other; intros ->; contradiction.
Qed.
Lemma teval_set_equiv e v t : ~ In VEquivObj (tiv t) -> ~ In VEquivInd (tiv t) -> teval (set_equiv e v) t = teval e t.
Proof.
  intros H1 H2. apply teval_coincidence; try reflexivity.
  intros x Hx. apply set_equiv_other; intros ->; contradiction.
Qed.

Definition weighted_sum (e : env) (st : pstate) : Z :=
  tsum e (map (fun o => TMul (TC (o_weight o)) (o_target o)) (objectives st)).

Theorem configuration_is_conservative : forall c st e,
  equiv_fresh st -> sat e (initialize st) ->
  exists e', (forall x, x <> VEquivObj -> x <> VEquivInd -> iv e' x = iv e x)
             /\ bv e' = bv e /\ av e' = av e /\ fv e' = fv e
             /\ sat e' (su_asserts (solver_setup c st)).
Proof.
  intros c st e [Hf Ho] Hs. exists (set_equiv e (weighted_sum e st)).
  split; [intros; now apply set_equiv_other|]. repeat (split; [reflexivity|]).
  rewrite setup_asserts_cases. apply sat_app. split.
  - intros g f Hin. destruct (Hf g f Hin) as [H1 H2]. rewrite feval_set_equiv by assumption. exact (Hs g f Hin).
  - destruct (uses_equivalent c st); [|intros ? ? []].
    apply sat_tagged. unfold equivalent_asserts. intros f [<-|[<-|[]]]; rewrite feval_eq, !teval_eq; cbn [iv set_equiv].
    + apply Z.eqb_eq. unfold weighted_sum. symmetry.
      assert (H : forall l, (forall o, In o l -> In o (objectives st)) ->
                tsum (set_equiv e (tsum e (map (fun o => TMul (TC (o_weight o)) (o_target o)) (objectives st))))
                     (map (fun o => TMul (TC (o_weight o)) (o_target o)) l)
                = tsum e (map (fun o => TMul (TC (o_weight o)) (o_target o)) l)).
      { induction l as [|o l IH]; intros Hl; cbn [map]; [reflexivity|]. rewrite !tsum_cons, IH by (intros; apply Hl; now right).
        f_equal. rewrite !(teval_eq _ (TMul _ _)), !(teval_eq _ (TC _)). f_equal.
        destruct (Ho o (Hl o (or_introl eq_refl))). now apply teval_set_equiv. }
      apply H. auto.
    + apply Z.eqb_eq. reflexivity.
Qed.

(* (3) hence two configurations that both give a definite answer agree on feasibility: a model under c1 and an
   unsat verdict under c2 are contradictory (z3's contract: sat answers are models, unsat answers are truthful) *)
Theorem definite_answers_agree : forall c1 c2 st e1,
  equiv_fresh st ->
  sat e1 (su_asserts (solver_setup c1 st)) ->
  (forall e2, ~ sat e2 (su_asserts (solver_setup c2 st))) -> False.
Proof.
  intros c1 c2 st e1 Hf H1 H2. apply sat_setup in H1.
  destruct (configuration_is_conservative c2 st e1 Hf H1) as (e' & _ & _ & _ & _ & H). exact (H2 e' H).
Qed.

(* (4) and on the values a single objective can take: same achievable set, hence same optimum *)
Theorem achievable_objective_values_agree : forall c1 c2 st o v,
  equiv_fresh st -> In o (objectives st) ->
  (exists e, sat e (su_asserts (solver_setup c1 st)) /\ teval e (o_target o) = v) ->
  (exists e, sat e (su_asserts (solver_setup c2 st)) /\ teval e (o_target o) = v).
Proof.
  intros c1 c2 st o v Hf Hin (e & Hs & Hv). apply sat_setup in Hs.
  destruct (configuration_is_conservative c2 st e Hf Hs) as (e' & Hi & Hb & Ha & Hfn & H).
  exists e'. split; [exact H|]. rewrite <- Hv. apply teval_coincidence.
  - intros a i. now rewrite Ha.
  - intros f. now rewrite Hfn.
  - intros x Hx. apply Hi; intros ->; destruct Hf as [_ Ho]; destruct (Ho o Hin); contradiction.
  - intros b _. now rewrite Hb.
Qed.

(* ================================================================== *)
(* C19: debug mode.  Every assertion gets a fresh tracking literal (its position); only the literals of
   constraint assertions are mapped to a constraint name; the report lists the constraints of the core. *)
Definition core_assertions (A : list (tag * form)) (K : list nat) : list (tag * form) :=
  flat_map (fun i => match nth_error A i with Some gf => [gf] | None => [] end) K.
Definition reported_constraints (A : list (tag * form)) (K : list nat) : list nat :=
  flat_map (fun gf => match fst gf with TgCons c => [c] | _ => [] end) (core_assertions A K).
Definition is_cons_tag (g : tag) : bool := match g with TgCons _ => true | _ => false end.

Lemma core_in A K gf : In gf (core_assertions A K) -> In gf A.
Proof.
  unfold core_assertions. intros H. apply in_flat_map in H as (i & _ & Hi).
  destruct (nth_error A i) as [x|] eqn:E; [|destruct Hi]. destruct Hi as [<-|[]]. eapply nth_error_In; eauto.
Qed.

Ltac nocons H := unfold tagged in H; apply in_map_iff in H as (? & Heq & _); inversion Heq.

Lemma initialize_cons_tag st n f : In (TgCons n, f) (initialize st) ->
  exists r, In r (ps_cons st) /\ c_id r = n /\ c_flag r = false.
Proof.
  unfold initialize. intros H.
  apply in_app_or in H as [H|H].
  { apply in_flat_map in H as (t & _ & H). apply in_app_or in H as [H|[H|[]]]; [nocons H|inversion H]. }
  apply in_app_or in H as [H|H].
  { apply in_flat_map in H as (w & _ & H). nocons H. }
  apply in_app_or in H as [H|H].
  { apply in_flat_map in H as (r & Hr & H). destruct (c_flag r) eqn:Hfl; [destruct H|].
    unfold tagged in H. apply in_map_iff in H as (f' & Heq & _). inversion Heq. exists r. auto. }
  apply in_app_or in H as [H|H].
  { apply in_flat_map in H as (i & _ & H). nocons H. }
  apply in_app_or in H as [H|H].
  { apply in_flat_map in H as (t & _ & H). nocons H. }
  apply in_app_or in H as [H|H].
  { apply in_flat_map in H as (b & _ & H). nocons H. }
  destruct (ps_horizon st); [destruct H as [H|[]]; inversion H|destruct H].
Qed.

(* every reported name is a constraint of the problem (one that is not an operand of a logical combination) *)
Theorem reported_are_constraints : forall c st K n,
  In n (reported_constraints (su_asserts (solver_setup c st)) K) ->
  exists r, In r (ps_cons st) /\ c_id r = n /\ c_flag r = false.
Proof.
  intros c st K n Hin. unfold reported_constraints in Hin. apply in_flat_map in Hin as ([g f] & Hc & Hn).
  cbn [fst] in Hn. destruct g; try (destruct Hn; fail). destruct Hn as [<-|[]].
  apply core_in in Hc. rewrite setup_asserts_cases in Hc. apply in_app_or in Hc as [Hc|Hc].
  - eapply initialize_cons_tag; eauto.
  - destruct (uses_equivalent c st); [|destruct Hc]. nocons Hc.
Qed.

(* if the core is unsatisfiable, so are the reported constraints together with the basic (non-constraint) rules *)
Theorem reported_constraints_conflict : forall (A : list (tag * form)) (K : list nat),
  (forall e, ~ (forall g f, In (g, f) (core_assertions A K) -> feval e f = true)) ->
  forall e,
    ~ ((forall g f, In (g, f) A -> is_cons_tag g = false -> feval e f = true)
       /\ (forall n, In n (reported_constraints A K) -> forall f, In (TgCons n, f) A -> feval e f = true)).
Proof.
  intros A K Hcore e [Hbasic Hcons]. apply (Hcore e). intros g f Hin.
  destruct (is_cons_tag g) eqn:Hg.
  - destruct g; try discriminate. apply (Hcons c).
    + unfold reported_constraints. apply in_flat_map. exists (TgCons c, f). split; [exact Hin|now left].
    + eapply core_in; eauto.
  - apply (Hbasic g f); [eapply core_in; eauto|exact Hg].
Qed.

(* decidable form of the freshness side condition, and a state that meets it *)
Definition not_equiv (x : ivar) : bool := match x with VEquivObj | VEquivInd => false | _ => true end.
Definition equiv_freshb (st : pstate) : bool :=
  forallb (fun gf => forallb not_equiv (fiv (snd gf))) (initialize st)
  && forallb (fun o => forallb not_equiv (tiv (o_target o))) (objectives st).
Lemma not_equiv_notin l : forallb not_equiv l = true -> ~ In VEquivObj l /\ ~ In VEquivInd l.
Proof. intros H. rewrite forallb_forall in H. split; intros Hin; apply H in Hin; discriminate. Qed.
Lemma equiv_freshb_sound st : equiv_freshb st = true -> equiv_fresh st.
Proof.
  unfold equiv_freshb, equiv_fresh. intros H. apply andb_true_iff in H as [H1 H2].
  rewrite forallb_forall in H1, H2. split.
  - intros g f Hin. apply not_equiv_notin. exact (H1 (g, f) Hin).
  - intros o Hin. apply not_equiv_notin. exact (H2 o Hin).
Qed.
