(* Cons_proof.v -- soundness of the constraint encoders against the per-constraint
   clauses of Spec.v (C03 task constraints, C06 rules, C10 logic). *)
From Coq Require Import ZArith List Bool Lia ZifyBool.
From Coq Require String.
Notation string := String.string.
From PS.model Require Import Smt Enc Ind Prog.
From PS.spec Require Import Spec.
From PS.proofs Require Import Base C03_contig.
Import ListNotations.
Open Scope Z_scope.

(* ---- generic: a mandatory, unflagged constraint's raw assertions hold ---- *)
Lemma cemit_false c l : map (cemit c false) l = l.
Proof. induction l as [|a l IH]; cbn; [reflexivity|]. now rewrite IH. Qed.

Lemma live_raw_holds st e c :
  sat e (initialize st) -> In c (ps_cons st) -> mandatory_live c = true ->
  forall f, In f (enc_raw (c_id c) (c_expr c)) -> feval e f = true.
Proof.
  intros Hs Hin Hl f Hf. apply sat_initialize in Hs as (_ & _ & Hc & _).
  unfold mandatory_live in Hl. apply andb_true_iff in Hl as [Ho Hfl].
  apply negb_true_iff in Ho. apply negb_true_iff in Hfl.
  apply (Hc c Hin Hfl). unfold conrec_asserts, enc_cons. now rewrite Ho, cemit_false.
Qed.

Lemma per_cons_sound p (F : rcexpr -> list (string * form)) st e :
  (forall c x, (forall f, In f (enc_raw c x) -> feval e f = true) ->
               forall k f, In (k, f) (F x) -> feval e f = true) ->
  sat e (initialize st) ->
  forall k f, In (k, f) (per_cons p F st) -> feval e f = true.
Proof.
  intros HF Hs k f Hin. unfold per_cons in Hin. apply in_flat_map in Hin as (c & Hc & Hin).
  destruct (mandatory_live c) eqn:Hl; [|destruct Hin].
  apply in_map_iff in Hin as ([k' f'] & [= <- <-] & Hin).
  eapply (HF (c_id c) (c_expr c)); eauto. intros g Hg. eapply live_raw_holds; eauto.
Qed.

(* ---- guards ---- *)
Lemma act_sched t : sched_f t = act t.
Proof. reflexivity. Qed.

Lemma guard1_elim e t x : feval e (guard1 t x) = true -> feval e (act t) = true -> feval e x = true.
Proof.
  unfold guard1, act, sched_f, has_sched. destruct (ti_opt t); [|auto].
  rewrite (feval_eq e (FImp _ _)). intros H Ha. rewrite Ha in H. exact H.
Qed.
Lemma guard2_elim e a b x :
  feval e (guard2 a b x) = true -> feval e (act a) = true -> feval e (act b) = true -> feval e x = true.
Proof.
  unfold guard2. destruct (ti_opt a || ti_opt b); [|auto].
  rewrite (feval_eq e (FImp _ _)), (feval_eq e (FAnd _)). cbn [forallb].
  change (sched_f a) with (act a). change (sched_f b) with (act b).
  intros H Ha Hb. rewrite Ha, Hb in H. exact H.
Qed.
Lemma whenact_intro e t g : (feval e (act t) = true -> feval e g = true) -> feval e (whenact t g) = true.
Proof. intros H. unfold whenact. rewrite feval_eq. destruct (feval e (act t)); cbn; auto. Qed.
Lemma whenact2_intro e a b g :
  (feval e (act a) = true -> feval e (act b) = true -> feval e g = true) -> feval e (whenact2 a b g) = true.
Proof.
  intros H. unfold whenact2. rewrite feval_eq, (feval_eq e (FAnd _)). cbn [forallb].
  destruct (feval e (act a)), (feval e (act b)); cbn; auto.
Qed.

Lemma one e (f : form) (l : list form) : (forall g, In g (f :: l) -> feval e g = true) -> feval e f = true.
Proof. intros H. apply H. now left. Qed.

Lemma fand_in e l f : feval e (FAnd l) = true -> In f l -> feval e f = true.
Proof. rewrite feval_eq. intros H Hin. rewrite forallb_forall in H. auto. Qed.

(* ---- ScheduleN: counting ---- *)
Lemma b2z_le (a b : bool) : (a = true -> b = true) -> b2z a <= b2z b.
Proof. destruct a, b; cbn; intros H; lia. Qed.

Lemma fcount_app e l1 l2 : fcount e (l1 ++ l2) = fcount e l1 + fcount e l2.
Proof. induction l1 as [|a l IH]; cbn [app]; rewrite ?fcount_nil, ?fcount_cons; lia. Qed.
Lemma fcount_nonneg e l : 0 <= fcount e l.
Proof. induction l as [|a l IH]; rewrite ?fcount_nil, ?fcount_cons. { lia. } destruct (feval e a); unfold b2z; lia. Qed.
Lemma fcount_pos_ex e l : 1 <= fcount e l -> exists f, In f l /\ feval e f = true.
Proof.
  induction l as [|a l IH]; rewrite ?fcount_nil, ?fcount_cons. { lia. }
  destruct (feval e a) eqn:Ha; unfold b2z.
  - intros _. exists a. split; [now left|auto].
  - intros H. destruct IH as (f & Hf & Hv); [lia|]. exists f. split; [now right|auto].
Qed.

Lemma sn_task_count e c ivs ti t :
  (forall f, In f (sn_task c ivs ti t) -> feval e f = true) ->
  fcount e (sn_bools c (length ivs) ti) <= b2z (feval e (inside_any t ivs)).
Proof.
  intros H.
  assert (Hle : fcount e (sn_bools c (length ivs) ti) <= 1).
  { assert (Hp : feval e (FPbLe (sn_bools c (length ivs) ti) 1) = true).
    { apply H. unfold sn_task. apply in_or_app. right. now left. }
    rewrite feval_eq in Hp. lia. }
  destruct (Z.le_gt_cases 1 (fcount e (sn_bools c (length ivs) ti))) as [Hge|Hlt].
  2:{ pose proof (fcount_nonneg e (sn_bools c (length ivs) ti)). destruct (feval e (inside_any t ivs)); unfold b2z; lia. }
  destruct (fcount_pos_ex _ _ Hge) as (b & Hb & Hbv).
  assert (Hins : feval e (inside_any t ivs) = true).
  { unfold inside_any. rewrite feval_eq. apply existsb_exists.
    (* find the interval paired with b *)
    assert (Hlen : length (sn_bools c (length ivs) ti) = length ivs).
    { unfold sn_bools. now rewrite map_length, seq_length. }
    destruct (In_nth _ _ FF Hb) as (j & Hj & Hnth).
    rewrite Hlen in Hj.
    assert (Hiv : In (nth j ivs (0, 0)) ivs) by (apply nth_In; lia).
    set (iv := nth j ivs (0, 0)) in *.
    assert (Hc : In (b, iv) (combine (sn_bools c (length ivs) ti) ivs)).
    { rewrite <- Hnth. unfold iv. rewrite <- combine_nth by exact Hlen. apply nth_In.
      rewrite combine_length, Hlen. lia. }
    destruct iv as [lo hi] eqn:Eiv.
    assert (Himp : feval e (FImp b (sn_inside t lo hi)) = true).
    { apply H. unfold sn_task. apply in_or_app. left. apply in_map_iff. exists (b, (lo, hi)). auto. }
    rewrite feval_eq, Hbv in Himp. cbn [implb] in Himp.
    exists (FAnd [FLe (TC lo) (S_ t); FLe (E_ t) (TC hi)]). split.
    - apply in_map_iff. exists (lo, hi). split; auto.
    - unfold sn_inside in Himp. cbn in Himp. cbn. lia. }
  rewrite Hins. unfold b2z. lia.
Qed.

(* ================================================================== *)
(* C03: per-kind soundness *)

Lemma consec_in_tasks ts a b : In (a, b) (consec_tasks ts) -> In a ts /\ In b ts.
Proof.
  induction ts as [|x [|y r] IH]; cbn [consec_tasks]; intros H; try (destruct H; fail).
  destruct H as [[= <- <-]|H].
  - split; [now left|right; now left].
  - destruct (IH H) as [Ha Hb]. split; right; auto.
Qed.

Lemma scheduleN_lower_sound e c ts ivs k n :
  (forall f, In f (enc_raw c (CScheduleN ts n ivs k)) -> feval e f = true) ->
  fcount e (flat_map (fun '(ti, _) => sn_bools c (length ivs) ti) (combine (seq 0 (length ts)) ts))
  <= fcount e (map (fun t => inside_any t ivs) ts).
Proof.
  cbn [enc_raw]. intros H.
  assert (H' : forall ti t, In (ti, t) (combine (seq 0 (length ts)) ts) ->
                forall f, In f (sn_task c ivs ti t) -> feval e f = true).
  { intros ti t Hin f Hf. apply H. apply in_or_app. left. apply in_flat_map. exists (ti, t). auto. }
  clear H. revert H'. generalize (seq 0 (length ts)) as idx.
  induction ts as [|t ts IH]; intros idx H'.
  - destruct idx; cbn; lia.
  - destruct idx as [|i idx]; [cbn [combine flat_map]; rewrite fcount_nil; apply fcount_nonneg|].
    cbn [combine flat_map map]. rewrite fcount_app, fcount_cons.
    pose proof (sn_task_count e c ivs i t (H' i t (or_introl eq_refl))).
    specialize (IH idx). assert (forall ti t0, In (ti, t0) (combine idx ts) -> forall f, In f (sn_task c ivs ti t0) -> feval e f = true).
    { intros ti t0 Hin. apply H'. now right. }
    specialize (IH H0). lia.
Qed.

(* membership of a task group: unconditional for a mandatory task, under its scheduled flag for an optional one *)
Lemma group_body e gs ge ts :
  (forall f, In f (flat_map (fun t => if ti_opt t then [FImp (sched_f t) (FAnd [FGe (S_ t) gs; FLe (E_ t) ge])]
                                     else [FGe (S_ t) gs; FLe (E_ t) ge]) ts) -> feval e f = true) ->
  forall t, In t ts -> feval e (act t) = true -> feval e (FGe (S_ t) gs) = true /\ feval e (FLe (E_ t) ge) = true.
Proof.
  intros H t Ht Ha. destruct (ti_opt t) eqn:Ho.
  - assert (Hi : feval e (FImp (sched_f t) (FAnd [FGe (S_ t) gs; FLe (E_ t) ge])) = true).
    { apply H. apply in_flat_map. exists t. split; [exact Ht|]. rewrite Ho. now left. }
    rewrite feval_eq in Hi. change (sched_f t) with (act t) in Hi. rewrite Ha in Hi. cbn [implb] in Hi.
    rewrite feval_eq in Hi. cbn [forallb] in Hi. rewrite !andb_true_iff in Hi. tauto.
  - split; apply H; apply in_flat_map; exists t; (split; [exact Ht|]); rewrite Ho; [now left|right; now left].
Qed.

Lemma C03_kind_sound e c x :
  (forall f, In f (enc_raw c x) -> feval e f = true) ->
  forall k f, In (k, f) (spec_C03_P x) -> feval e f = true.
Proof.
  intros H k f Hin.
  destruct x; cbn [spec_C03_P] in Hin; try (destruct Hin; fail); cbn [enc_raw] in H.
  - (* start_at *) destruct Hin as [[= <- <-]|[]]. apply whenact_intro; intros Ha.
    exact (guard1_elim _ _ _ (one _ _ _ H) Ha).
  - (* start_after *) destruct Hin as [[= <- <-]|[]]. apply whenact_intro; intros Ha.
    pose proof (guard1_elim _ _ _ (one _ _ _ H) Ha) as H1. destruct strict; ev; lia.
  - (* end_at *) destruct Hin as [[= <- <-]|[]]. apply whenact_intro; intros Ha.
    exact (guard1_elim _ _ _ (one _ _ _ H) Ha).
  - (* end_before *) destruct Hin as [[= <- <-]|[]]. apply whenact_intro; intros Ha.
    pose proof (guard1_elim _ _ _ (one _ _ _ H) Ha) as H1. destruct strict; ev; lia.
  - (* precedence *) destruct Hin as [[= <- <-]|[]]. apply whenact2_intro; intros Ha Hb.
    pose proof (guard2_elim _ _ _ _ (one _ _ _ H) Ha Hb) as H1.
    unfold nonneg_part. destruct (off >? 0) eqn:Hoff; destruct k0; ev; lia.
  - (* start_synced *) destruct Hin as [[= <- <-]|[]]. apply whenact2_intro; intros Ha Hb.
    exact (guard2_elim _ _ _ _ (one _ _ _ H) Ha Hb).
  - (* end_synced *) destruct Hin as [[= <- <-]|[]]. apply whenact2_intro; intros Ha Hb.
    exact (guard2_elim _ _ _ _ (one _ _ _ H) Ha Hb).
  - (* dont_overlap *) destruct Hin as [[= <- <-]|[]]. apply whenact2_intro; intros Ha Hb.
    pose proof (guard2_elim _ _ _ _ (one _ _ _ H) Ha Hb) as H1. ev. lia.
  - (* contiguous *)
    apply in_app_or in Hin as [Hin|Hin].
    + apply in_map_iff in Hin as ([a b] & [= <- <-] & Hab). rewrite feval_eq.
      destruct (feval e (running ts)) eqn:Hr; [cbn [implb]|reflexivity].
      destruct (contiguous_sound e c ts H Hr) as [Hd _]. specialize (Hd a b Hab). ev. lia.
    + apply in_map_iff in Hin as ([t others] & [= <- <-] & Hto). rewrite feval_eq.
      destruct (feval e (running ts)) eqn:Hr; [cbn [implb]|reflexivity].
      destruct (contiguous_sound e c ts H Hr) as [_ Hsu]. specialize (Hsu t others Hto).
      rewrite feval_eq. cbn [existsb]. rewrite orb_false_r. apply orb_true_iff. destruct Hsu as [Hall|(u & Hu & Heq)].
      * left. rewrite feval_eq. apply forallb_forall. intros f Hf. apply in_map_iff in Hf as (u & <- & Hu).
        specialize (Hall u Hu). rewrite feval_eq. lia.
      * right. rewrite feval_eq. apply existsb_exists. exists (FEq (S_ u) (E_ t)). split; [exact (in_map (fun u0 => FEq (S_ u0) (E_ t)) others u Hu)|]. rewrite feval_eq. lia.
  - (* unordered group *)
    pose proof (one _ _ _ H) as HA. clear H. rewrite app_nil_r in Hin.
    pose proof (group_body e (aux c 0) (aux c 1) ts) as Hbody.
    assert (Hb' : forall t, In t ts -> feval e (act t) = true ->
                  feval e (FGe (S_ t) (aux c 0)) = true /\ feval e (FLe (E_ t) (aux c 1)) = true).
    { intros t Ht Ha. apply Hbody; auto. intros g Hg. apply (fand_in _ _ _ HA). apply in_or_app; right. rewrite app_nil_r. exact Hg. }
    destruct win as [[lo hi]|].
    + apply in_map_iff in Hin as (t & [= <- <-] & Ht). apply whenact_intro; intros Ha.
      destruct (Hb' t Ht Ha) as [H1 H2].
      assert (H3 : feval e (FGe (aux c 0) (TC lo)) = true) by (apply (fand_in _ _ _ HA); now left).
      assert (H4 : feval e (FLe (aux c 1) (TC hi)) = true) by (apply (fand_in _ _ _ HA); right; now left).
      ev. lia.
    + destruct len as [l|]; [|destruct Hin].
      apply in_map_iff in Hin as ([a b] & [= <- <-] & Hab). apply in_prod_iff in Hab as [Ha Hb].
      apply whenact2_intro; intros Haa Hab.
      destruct (Hb' a Ha Haa) as [_ H2]. destruct (Hb' b Hb Hab) as [H1 _].
      assert (H3 : feval e (FLe (aux c 1) (TAdd [aux c 0; TC l])) = true) by (apply (fand_in _ _ _ HA); now left).
      ev. lia.
  - (* ordered group *)
    pose proof (one _ _ _ H) as HA. clear H.
    pose proof (group_body e (aux c 0) (aux c 1) ts) as Hbody.
    assert (Hb' : forall t, In t ts -> feval e (act t) = true ->
                  feval e (FGe (S_ t) (aux c 0)) = true /\ feval e (FLe (E_ t) (aux c 1)) = true).
    { intros t Ht Ha. apply Hbody; auto. intros g Hg. apply (fand_in _ _ _ HA). apply in_or_app; right. apply in_or_app; left. exact Hg. }
    apply in_app_or in Hin as [Hin|Hin].
    + destruct win as [[lo hi]|].
      * apply in_map_iff in Hin as (t & [= <- <-] & Ht). apply whenact_intro; intros Ha.
        destruct (Hb' t Ht Ha) as [H1 H2].
        assert (H3 : feval e (FGe (aux c 0) (TC lo)) = true) by (apply (fand_in _ _ _ HA); now left).
        assert (H4 : feval e (FLe (aux c 1) (TC hi)) = true) by (apply (fand_in _ _ _ HA); right; now left).
        ev. lia.
      * destruct len as [l|]; [|destruct Hin].
        apply in_map_iff in Hin as ([a b] & [= <- <-] & Hab). apply in_prod_iff in Hab as [Ha Hb].
        apply whenact2_intro; intros Haa Hab.
        destruct (Hb' a Ha Haa) as [_ H2]. destruct (Hb' b Hb Hab) as [H1 _].
        assert (H3 : feval e (FLe (aux c 1) (TAdd [aux c 0; TC l])) = true) by (apply (fand_in _ _ _ HA); now left).
        ev. lia.
    + apply in_map_iff in Hin as ([a b] & [= <- <-] & Hab). apply whenact2_intro; intros Haa Hbb.
      apply (guard2_elim e a b); auto.
      apply (fand_in _ _ _ HA). apply in_or_app; right; apply in_or_app; right.
      apply in_map_iff. exists (a, b). auto.
  - (* scheduleN, lower half *)
    pose proof (scheduleN_lower_sound e c ts ivs k0 n H) as Hle.
    assert (Hpb : feval e (pb k0 (flat_map (fun '(ti, _) => sn_bools c (length ivs) ti)
                                           (combine (seq 0 (length ts)) ts)) n) = true).
    { apply H. cbn [enc_raw]. apply in_or_app. right. now left. }
    destruct k0; cbn [pb] in Hpb; try (destruct Hin; fail); destruct Hin as [[= <- <-]|[]];
      rewrite feval_eq in Hpb; rewrite feval_eq; lia.
Qed.

Theorem C03_sound : forall st e, sat e (initialize st) ->
  forall k f, In (k, f) (spec_C03 st) -> feval e f = true.
Proof. intros st e Hs. apply per_cons_sound; auto. intros c x. apply C03_kind_sound. Qed.

(* ================================================================== *)
(* C06: rules on optional tasks *)
Lemma C06_kind_sound e c x :
  (forall f, In f (enc_raw c x) -> feval e f = true) ->
  forall k f, In (k, f) (spec_C06_P x) -> feval e f = true.
Proof.
  intros H k f Hin.
  destruct x; cbn [spec_C06_P] in Hin; try (destruct Hin; fail); cbn [enc_raw] in H;
    destruct Hin as [[= <- <-]|[]]; pose proof (one _ _ _ H) as H1; clear H.
  - exact H1.
  - change (sched_f t) with (act t) in H1. rewrite feval_eq in H1. rewrite feval_eq.
    destruct (feval e cond); rewrite feval_eq in H1; destruct (feval e (act t)); cbn in *; congruence.
  - exact H1.
  - exact H1.
Qed.

Theorem C06_rules_sound : forall st e, sat e (initialize st) ->
  forall k f, In (k, f) (spec_C06_rules st) -> feval e f = true.
Proof. intros st e Hs. apply per_cons_sound; auto. intros c x. apply C06_kind_sound. Qed.

(* ================================================================== *)
(* C10: connectives, optional constraints, no leak *)
Definition meaning (e : env) (x : operand opres) : bool := forallb (feval e) (op_asserts x).

Lemma op_meaning_eval e x : feval e (op_meaning x) = meaning e x.
Proof.
  unfold meaning, op_meaning, op_asserts. destruct x as [o|f].
  - now rewrite feval_eq.
  - cbn [forallb]. now rewrite andb_true_r.
Qed.
Lemma fand_op_asserts e x : feval e (FAnd (op_asserts x)) = meaning e x.
Proof. now rewrite feval_eq. Qed.

Lemma forallb_map {A B} (g : A -> B) (p : B -> bool) l : forallb p (map g l) = forallb (fun a => p (g a)) l.
Proof. induction l as [|a l IH]; cbn; [reflexivity|]. now rewrite IH. Qed.
Lemma existsb_map {A B} (g : A -> B) (p : B -> bool) l : existsb p (map g l) = existsb (fun a => p (g a)) l.
Proof. induction l as [|a l IH]; cbn; [reflexivity|]. now rewrite IH. Qed.
Lemma forallb_ext_in {A} (p q : A -> bool) l : (forall a, p a = q a) -> forallb p l = forallb q l.
Proof. intros H. induction l as [|a l IH]; cbn; [reflexivity|]. now rewrite H, IH. Qed.
Lemma existsb_ext_in {A} (p q : A -> bool) l : (forall a, p a = q a) -> existsb p l = existsb q l.
Proof. intros H. induction l as [|a l IH]; cbn; [reflexivity|]. now rewrite H, IH. Qed.

Lemma and_meanings e xs : feval e (FAnd (ops_flat xs)) = forallb (meaning e) xs.
Proof. rewrite feval_eq. unfold ops_flat. rewrite forallb_map. apply forallb_ext_in. apply op_meaning_eval. Qed.
Lemma or_meanings e xs : feval e (FOr (ops_flat xs)) = existsb (meaning e) xs.
Proof. rewrite feval_eq. unfold ops_flat. rewrite existsb_map. apply existsb_ext_in. apply op_meaning_eval. Qed.

Lemma holds_single e f : holds_all e [f] = feval e f.
Proof. unfold holds_all. cbn. apply andb_true_r. Qed.

Lemma C10_not_sem e c x : holds_all e (enc_raw c (CNot x)) = negb (meaning e x).
Proof. cbn [enc_raw]. rewrite holds_single, feval_eq. now rewrite fand_op_asserts. Qed.
Lemma C10_or_sem e c xs : holds_all e (enc_raw c (COr xs)) = existsb (meaning e) xs.
Proof. cbn [enc_raw]. rewrite holds_single. apply or_meanings. Qed.
Lemma C10_and_sem e c xs : holds_all e (enc_raw c (CAnd xs)) = forallb (meaning e) xs.
Proof. cbn [enc_raw]. rewrite holds_single. apply and_meanings. Qed.
Lemma C10_xor_sem e c x y : holds_all e (enc_raw c (CXor x y)) = xorb (meaning e x) (meaning e y).
Proof. cbn [enc_raw]. rewrite holds_single, feval_eq. now rewrite !fand_op_asserts. Qed.
Lemma C10_implies_sem e c cond xs :
  holds_all e (enc_raw c (CImplies cond xs)) = implb (feval e cond) (forallb (meaning e) xs).
Proof. cbn [enc_raw]. rewrite holds_single, feval_eq. now rewrite and_meanings. Qed.
Lemma C10_ite_sem e c cond xs ys :
  holds_all e (enc_raw c (CIte cond xs ys)) =
  if feval e cond then forallb (meaning e) xs else forallb (meaning e) ys.
Proof. cbn [enc_raw]. rewrite holds_single, feval_eq. now rewrite !and_meanings. Qed.
Lemma C10_expr_sem e c f : holds_all e (enc_raw c (CExpr f)) = feval e f.
Proof. cbn [enc_raw]. apply holds_single. Qed.
Lemma C10_force_apply_sem e c cs n k :
  holds_all e (enc_raw c (CForceApplyN cs n k)) =
  let cnt := fcount e (map (fun o => FB (BApplied (or_id o))) cs) in
  match k with PbMin => cnt >=? n | PbMax => cnt <=? n | PbExact => cnt =? n end.
Proof. cbn [enc_raw]. rewrite holds_single. destruct k; reflexivity. Qed.

(* an optional constraint binds exactly when its `applied` flag is set *)
Lemma holds_cemit e c l :
  holds_all e (map (cemit c true) l) = implb (bv e (BApplied c)) (holds_all e l).
Proof.
  unfold holds_all. induction l as [|a l IH]; cbn [map forallb].
  - now destruct (bv e (BApplied c)).
  - rewrite IH. unfold cemit at 1. rewrite feval_eq. change (feval e (FB (BApplied c))) with (bv e (BApplied c)).
    destruct (bv e (BApplied c)); cbn; auto.
Qed.
Lemma holds_app e l1 l2 : holds_all e (l1 ++ l2) = holds_all e l1 && holds_all e l2.
Proof. unfold holds_all. apply forallb_app. Qed.
Lemma C10_optional_sem e c x :
  holds_all e (enc_cons c true x) =
  implb (bv e (BApplied c)) (holds_all e (enc_raw c x)).
Proof. unfold enc_cons. now rewrite holds_cemit. Qed.
Lemma C10_mandatory_sem e c x :
  holds_all e (enc_cons c false x) = holds_all e (enc_raw c x).
Proof. unfold enc_cons. now rewrite cemit_false. Qed.

(* no leak: the own assertions of a constraint used as an operand reach the solver nowhere *)
Definition drop_flagged (st : pstate) : pstate :=
  {| ps_horizon := ps_horizon st; ps_tasks := ps_tasks st; ps_workers := ps_workers st;
     ps_cumuls := ps_cumuls st; ps_selects := ps_selects st; ps_reqs := ps_reqs st;
     ps_areqs := ps_areqs st; ps_busy := ps_busy st;
     ps_cons := filter (fun c => negb (c_flag c)) (ps_cons st);
     ps_neg := ps_neg st; ps_nauto := ps_nauto st; ps_ext := ps_ext st |}.

Lemma flat_map_filter_flag (F : conrec -> list (tag * form)) l :
  flat_map (fun c => if c_flag c then [] else F c) l
  = flat_map (fun c => if c_flag c then [] else F c) (filter (fun c => negb (c_flag c)) l).
Proof.
  induction l as [|c l IH]; cbn [flat_map filter]; [reflexivity|].
  destruct (c_flag c) eqn:Hf; cbn [negb app].
  - exact IH.
  - cbn [flat_map]. rewrite Hf. now rewrite IH.
Qed.

Theorem C10_no_leak_eq st : initialize st = initialize (drop_flagged st).
Proof.
  unfold initialize. cbn [drop_flagged ps_tasks ps_workers ps_cons ps_horizon ps_ext].
  rewrite (flat_map_filter_flag (fun c => tagged (TgCons (c_id c)) (conrec_asserts c))).
  reflexivity.
Qed.

(* the constructor of a logical combination flags its operand constraints *)
Lemma step_flags_operands st id opt x st' :
  step_problem st (ONewConstraint id opt x) = Ok st' ->
  exists re, resolve st x = Some re /\
    forall c, In c (ps_cons st) -> In (c_id c) (operand_ids re) ->
      exists c', In c' (ps_cons st') /\ c_id c' = c_id c /\ c_flag c' = true /\ c_expr c' = c_expr c.
Proof.
  cbn [step_problem]. destruct (find_cons st id); [discriminate|].
  destruct (resolve st x) as [re|]; [|discriminate].
  destruct (negb (buffer_known st re)); [discriminate|].
  destruct (negb (check_c re)); [discriminate|].
  destruct (negb (nodup_forms (enc_cons id opt re))); [discriminate|].
  intros [= <-]. exists re. split; [reflexivity|]. intros c Hc Hid. cbn [ps_cons].
  eexists. split.
  - apply in_or_app. left. apply in_map_iff. exists c. split; [reflexivity|exact Hc].
  - assert (Hex : existsb (Nat.eqb (c_id c)) (operand_ids re) = true).
    { apply existsb_exists. exists (c_id c). split; auto. apply Nat.eqb_refl. }
    rewrite Hex. cbn. auto.
Qed.

Lemma C10_kind_sound e c x :
  (forall f, In f (enc_raw c x) -> feval e f = true) ->
  forall k f, In (k, f) (spec_C10_P x) -> feval e f = true.
Proof.
  intros H k f Hin.
  destruct x; cbn [spec_C10_P] in Hin; try (destruct Hin; fail); cbn [enc_raw] in H;
    destruct Hin as [[= <- <-]|[]]; pose proof (one _ _ _ H) as H1; clear H; try exact H1.
  - (* not *) rewrite feval_eq in H1. rewrite feval_eq. now rewrite op_meaning_eval, <- fand_op_asserts.
  - (* xor *) rewrite feval_eq in H1. rewrite feval_eq. now rewrite !op_meaning_eval, <- !fand_op_asserts.
Qed.

Theorem C10_sound : forall st e, sat e (initialize st) ->
  forall k f, In (k, f) (spec_C10 st) -> feval e f = true.
Proof. intros st e Hs. apply per_cons_sound; auto. intros c x. apply C10_kind_sound. Qed.
