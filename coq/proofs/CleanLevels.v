(* CleanLevels.v -- util.clean_buffer_levels (Solution.clean_levels): the report keeps one (level, instant) pair per distinct change
   instant, in the order of the model, loses no instant and invents none; hence every reported level is the level the level
   clause gives for its instant. *)
From Coq Require Import ZArith List Bool Lia ZifyBool.
From Coq Require Import String.
From PS.model Require Import Smt Enc Ind Prog Solution.
From PS.spec Require Import Spec.
From PS.proofs Require Import Base C08_proof.
Import ListNotations.
Open Scope Z_scope.

Lemma combine_snoc {A B} (l1 : list A) (l2 : list B) a b : List.length l1 = List.length l2 ->
  combine (l1 ++ [a]) (l2 ++ [b]) = combine l1 l2 ++ [(a, b)].
Proof.
  revert l2. induction l1 as [|x l1 IH]; intros [|y l2] H; try discriminate; [reflexivity|].
  cbn [app combine]. f_equal. apply IH. cbn in H. lia.
Qed.

Lemma existsb_eqb_in b l : existsb (Z.eqb b) l = true <-> In b l.
Proof.
  rewrite existsb_exists. split.
  - intros (x & Hx & He). apply Z.eqb_eq in He. now subst.
  - intros H. exists b. split; [exact H|apply Z.eqb_refl].
Qed.

Lemma NoDup_app_snoc {A} (l : list A) b : NoDup l -> ~ In b l -> NoDup (l ++ [b]).
Proof.
  induction l as [|x l IH]; intros Hn Hb; cbn [app]; [constructor; [intros []|constructor]|].
  inversion Hn as [|? ? Hx Hn']; subst. constructor.
  - intros H. apply in_app_or in H as [H|[H|[]]]; [now apply Hx|]. subst. apply Hb. now left.
  - apply IH; [exact Hn'|]. intros H. apply Hb. now right.
Qed.

Lemma clean_levels_acc pairs : forall l1 l2, List.length l1 = List.length l2 -> NoDup l2 ->
  let r := clean_levels pairs l1 l2 in
  List.length (fst r) = List.length (snd r) /\ NoDup (snd r) /\
  (forall a b, In (a, b) (combine (fst r) (snd r)) -> In (a, b) (combine l1 l2) \/ In (a, b) pairs) /\
  (forall b, In b l2 \/ In b (map snd pairs) -> In b (snd r)) /\
  (forall b, In b (snd r) -> In b l2 \/ In b (map snd pairs)).
Proof.
  induction pairs as [|[a b] pairs IH]; intros l1 l2 Hl Hn; cbn [clean_levels].
  - cbn [fst snd map]. repeat split; auto. intros b [H|[]]. exact H.
  - destruct (existsb (Z.eqb b) l2) eqn:E.
    + destruct (IH l1 l2 Hl Hn) as (A1 & A2 & A3 & A4 & A5). cbn zeta in *. repeat split; auto.
      * intros x y H. destruct (A3 x y H) as [H1|H1]; [now left|right; now right].
      * intros y [H|H]; [apply A4; now left|]. cbn [map] in H. destruct H as [<-|H]; [|apply A4; now right].
        apply A4. left. now apply existsb_eqb_in.
      * intros y H. destruct (A5 y H) as [H1|H1]; [now left|right; cbn [map]; now right].
    + assert (Hnb : ~ In b l2). { intros H. apply existsb_eqb_in in H. congruence. }
      destruct (IH (l1 ++ [a]) (l2 ++ [b])) as (A1 & A2 & A3 & A4 & A5).
      * rewrite !app_length. cbn. lia.
      * apply NoDup_app_snoc; auto.
      * cbn zeta in *. repeat split; auto.
        -- intros x y H. destruct (A3 x y H) as [H1|H1]; [|right; now right].
           rewrite combine_snoc in H1 by exact Hl. apply in_app_or in H1 as [H1|[[= <- <-]|[]]]; [now left|right; now left].
        -- intros y [H|H]; [apply A4; left; apply in_or_app; now left|]. cbn [map] in H. destruct H as [<-|H]; [|apply A4; now right].
           apply A4. left. apply in_or_app. right. now left.
        -- intros y H. destruct (A5 y H) as [H1|H1]; [|right; cbn [map]; now right].
           apply in_app_or in H1 as [H1|[<-|[]]]; [now left|right; cbn [map]; now left].
Qed.

(* the level the level clause gives for an instant t (a number): initial level + the accesses of acting tasks at instants <= t *)
Definition level_at (st : pstate) (e : env) (b : bufrec) (t : Z) : Z :=
  teval e (TAdd (TV (VLevel0 (b_id b))
                 :: map (fun ev => when_t (FAnd [task_act st (ev_task ev); FLe (ev_time ev) (TC t)]) (TC (ev_delta ev))) (buf_events b))).

Lemma level_clause_at st e b l c : feval e (level_clause st b l c) = true -> teval e l = level_at st e b (teval e c).
Proof.
  unfold level_clause, level_at. rewrite feval_eq. intros H. apply Z.eqb_eq in H. rewrite H.
  rewrite !teval_tadd, !tsum_cons. f_equal. apply tsum_map_ext. intros ev _.
  rewrite !when_t_eval. rewrite !ev_and2, !ev_le, (ev_tc e (teval e c)). reflexivity.
Qed.

Lemma combine_map {A B C D} (f : A -> C) (g : B -> D) (l1 : list A) (l2 : list B) :
  combine (map f l1) (map g l2) = map (fun p => (f (fst p), g (snd p))) (combine l1 l2).
Proof. revert l2. induction l1 as [|x l1 IH]; intros [|y l2]; cbn; try reflexivity. f_equal. apply IH. Qed.

Lemma buffer_solution_eq e (b : bufrec) :
  buffer_solution e b =
  let '(l1, l2) := clean_levels (combine (map (teval e) (map (fun t => TV (VLevel (b_id b) t)) (b_slots b)))
                                         (map (teval e) (buf_changes b))) [] [] in
  {| bs_id := b_id b; bs_levels := iv e (VLevel0 (b_id b)) :: l1; bs_times := l2 |}.
Proof. reflexivity. Qed.

(* what the user reads for a buffer: no instant twice, exactly the change instants of the schedule, and after each of them the
   level the level clause states *)
Theorem reported_levels_sound e st (b : bufrec) :
  (forall l c, In (l, c) (combine (tl (buf_levels b)) (buf_changes b)) -> feval e (level_clause st b l c) = true) ->
  let r := buffer_solution e b in
  NoDup (bs_times r)
  /\ hd_error (bs_levels r) = Some (iv e (VLevel0 (b_id b)))
  /\ List.length (tl (bs_levels r)) = List.length (bs_times r)
  /\ (forall t, In t (bs_times r) -> In t (map (teval e) (buf_changes b)))
  /\ (List.length (buf_changes b) <= List.length (tl (buf_levels b)) ->
      forall t, In t (map (teval e) (buf_changes b)) -> In t (bs_times r))%nat
  /\ (forall lv t, In (lv, t) (combine (tl (bs_levels r)) (bs_times r)) -> lv = level_at st e b t).
Proof.
  intros H. cbn zeta. rewrite buffer_solution_eq.
  set (rest := map (teval e) (map (fun t => TV (VLevel (b_id b) t)) (b_slots b))).
  set (times := map (teval e) (buf_changes b)).
  pose proof (clean_levels_acc (combine rest times) [] [] eq_refl (NoDup_nil _)) as A. cbn zeta in A.
  destruct (clean_levels (combine rest times) [] []) as [l1 l2] eqn:E. cbn [fst snd] in A.
  destruct A as (A1 & A2 & A3 & A4 & A5). cbn [bs_levels bs_times tl hd_error].
  assert (Hpairs : forall a t, In (a, t) (combine rest times) -> a = level_at st e b t).
  { intros a t Hin. unfold rest, times in Hin. rewrite combine_map in Hin. apply in_map_iff in Hin as ([l c] & [= <- <-] & Hlc).
    cbn [fst snd]. apply level_clause_at. apply H. unfold buf_levels. cbn [tl]. exact Hlc. }
  split; [exact A2|]. split; [reflexivity|]. split; [exact A1|]. split; [|split].
  - intros t Ht. destruct (A5 t Ht) as [[]|Ht']. apply in_map_iff in Ht' as ([a t'] & <- & Hin). cbn [snd].
    apply in_combine_r in Hin. exact Hin.
  - intros Hlen t Ht. apply A4. right.
    assert (Hl : (List.length times <= List.length rest)%nat).
    { unfold times, rest. rewrite !map_length. unfold buf_levels in Hlen. cbn [tl] in Hlen. rewrite map_length in Hlen. exact Hlen. }
    clearbody rest times. clear - Ht Hl. revert rest Hl. induction times as [|x ts IH]; intros rest Hl; [destruct Ht|].
    destruct rest as [|y rest]; [cbn in Hl; lia|]. cbn [combine map snd]. destruct Ht as [<-|Ht]; [now left|right].
    apply IH; [exact Ht|cbn in Hl; lia].
  - intros lv t Hin. destruct (A3 lv t Hin) as [[]|Hp]. now apply Hpairs.
Qed.

From PS.proofs Require Import C09_conc.

(* for every admitted valuation of a problem state: the buffers accessed by mandatory tasks only, each access in its own slot *)
Theorem reported_levels_of_state st e (b : bufrec) :
  sat e (initialize st) -> In b (x_bufs (ps_ext st)) -> buf_regular b = true -> buf_has_optional st b = false ->
  let r := buffer_solution e b in
  NoDup (bs_times r)
  /\ hd_error (bs_levels r) = Some (iv e (VLevel0 (b_id b)))
  /\ List.length (tl (bs_levels r)) = List.length (bs_times r)
  /\ (forall t, In t (bs_times r) <-> In t (map (teval e) (buf_changes b)))
  /\ (forall lv t, In (lv, t) (combine (tl (bs_levels r)) (bs_times r)) -> lv = level_at st e b t).
Proof.
  intros Hs Hb Hreg Hopt.
  assert (Hcl : forall l c, In (l, c) (combine (tl (buf_levels b)) (buf_changes b)) -> feval e (level_clause st b l c) = true).
  { intros l c Hin. apply (C09_sound st e Hs (bkey b "level_after_change"%string)). unfold spec_C09. apply in_flat_map. exists b. split; [exact Hb|].
    apply in_map_iff. exists ("level_after_change"%string, level_clause st b l c). split; [reflexivity|].
    unfold spec_C09_P. apply in_or_app. right. destruct (b_conc b) eqn:Hc.
    - apply in_or_app. right. unfold spec_C09_conc, buf_proved_conc. rewrite Hreg, Hc, Hopt. cbn [andb negb].
      apply in_or_app. left. apply in_map_iff. exists (l, c). split; [reflexivity|exact Hin].
    - apply in_or_app. left. unfold spec_C09_levels, buf_proved_levels. rewrite Hreg, Hc, Hopt. cbn [andb negb].
      apply in_or_app. left. apply in_map_iff. exists (l, c). split; [reflexivity|exact Hin]. }
  destruct (reported_levels_sound e st b Hcl) as (R1 & R2 & R3 & R4 & R5 & R6). cbn zeta.
  split; [exact R1|]. split; [exact R2|]. split; [exact R3|]. split; [|exact R6].
  intros t. split; [apply R4|apply R5].
  unfold buf_regular in Hreg. apply andb_true_iff in Hreg as [Hlen _]. apply Nat.eqb_eq in Hlen.
  unfold buf_levels, buf_changes. cbn [tl]. rewrite !map_length. lia.
Qed.

From PS.proofs Require Import Examples3.
(* non-vacuity: buffer 1 of the example state (5 units; task 1 takes 3 at its start 2, task 3 brings 4 at its end 7) *)
Example reported_levels_example : exists st b,
  reaches ex3_prog st /\ sat ex3_env (initialize st) /\ In b (x_bufs (ps_ext st)) /\ buf_regular b = true /\ buf_has_optional st b = false
  /\ bs_levels (buffer_solution ex3_env b) = [5; 2; 6] /\ bs_times (buffer_solution ex3_env b) = [2; 7]
  /\ level_at st ex3_env b 2 = 2 /\ level_at st ex3_env b 7 = 6.
Proof.
  unfold reaches. vm_compute run. eexists. eexists. split; [reflexivity|]. split; [apply sat_bool; vm_compute; reflexivity|].
  split; [cbn [x_bufs ps_ext]; left; reflexivity|]. repeat split; vm_compute; reflexivity.
Qed.
