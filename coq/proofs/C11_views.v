(* C11_views.v -- the two views of a solution agree: a task lists a resource among its assigned resources exactly
   when the report of that resource lists an assignment for the task.  Part 1: the run invariant linking required
   resources, busy dictionaries and requirement assertions. *)
From Coq Require Import ZArith List Bool Lia ZifyBool String.
From PS.model Require Import Smt Enc Ind Prog Solution.
From PS.spec Require Import Spec.
From PS.proofs Require Import Base Cons_proof Res_proof Wf_proof C01_proof.
Import ListNotations.
Open Scope Z_scope.

(* ---------------- association lists ---------------- *)
Section AL.
Context {V : Type}.
Lemma al_get_set_same (l : list (nat * V)) k v : al_get Nat.eqb (al_set Nat.eqb l k v) k = Some v.
Proof. induction l as [|[k' v'] l IH]; cbn; [now rewrite Nat.eqb_refl|]. destruct (Nat.eqb k' k) eqn:E; cbn; rewrite E; auto. Qed.
Lemma al_get_set_other (l : list (nat * V)) k k' v : k' <> k -> al_get Nat.eqb (al_set Nat.eqb l k v) k' = al_get Nat.eqb l k'.
Proof.
  intros Hne. induction l as [|[k0 v0] l IH]; cbn.
  - destruct (Nat.eqb k k') eqn:E; [apply Nat.eqb_eq in E; congruence|reflexivity].
  - destruct (Nat.eqb k0 k) eqn:E; cbn.
    + apply Nat.eqb_eq in E. subst. destruct (Nat.eqb k k') eqn:E2; [apply Nat.eqb_eq in E2; congruence|reflexivity].
    + destruct (Nat.eqb k0 k'); auto.
Qed.
End AL.

Lemma rref_beq_refl r : rref_beq r r = true.
Proof. apply internal_rref_dec_lb. reflexivity. Qed.
Lemma rref_beq_true r r' : rref_beq r r' = true -> r = r'.
Proof. apply internal_rref_dec_bl. Qed.
Lemma rref_beq_false r r' : r <> r' -> rref_beq r r' = false.
Proof. intros H. destruct (rref_beq r r') eqn:E; [apply rref_beq_true in E; contradiction|reflexivity]. Qed.

Lemma al_get_r_set_same {V} (l : list (rref * V)) k v : al_get rref_beq (al_set rref_beq l k v) k = Some v.
Proof. induction l as [|[k' v'] l IH]; cbn; [now rewrite rref_beq_refl|]. destruct (rref_beq k' k) eqn:E; cbn; rewrite E; auto. Qed.
Lemma al_get_r_set_other {V} (l : list (rref * V)) k k' v : k' <> k -> al_get rref_beq (al_set rref_beq l k v) k' = al_get rref_beq l k'.
Proof.
  intros Hne. induction l as [|[k0 v0] l IH]; cbn.
  - rewrite rref_beq_false; [reflexivity|congruence].
  - destruct (rref_beq k0 k) eqn:E; cbn.
    + apply rref_beq_true in E. subst. rewrite rref_beq_false; [reflexivity|congruence].
    + destruct (rref_beq k0 k'); auto.
Qed.

(* busy dictionary of a resource, as a partial function task -> flag *)
Definition busy_flag (st : pstate) (r : rref) (t : nat) : option bool := al_get Nat.eqb (busy_of st r) t.

Lemma busy_add_same b r t m : al_get Nat.eqb (get_list rref_beq (busy_add b r t m) r) t = Some m.
Proof. unfold busy_add, get_list. rewrite al_get_r_set_same. apply al_get_set_same. Qed.
Lemma busy_add_other_task b r t m t' : t' <> t ->
  al_get Nat.eqb (get_list rref_beq (busy_add b r t m) r) t' = al_get Nat.eqb (get_list rref_beq b r) t'.
Proof. intros H. unfold busy_add, get_list at 1. rewrite al_get_r_set_same. now apply al_get_set_other. Qed.
Lemma busy_add_other_res b r t m r' : r' <> r -> get_list rref_beq (busy_add b r t m) r' = get_list rref_beq b r'.
Proof. intros H. unfold busy_add, get_list. now rewrite al_get_r_set_other. Qed.

Lemma busy_add_flag b r t m r' t' :
  al_get Nat.eqb (get_list rref_beq (busy_add b r t m) r') t' =
  if rref_beq r' r && Nat.eqb t' t then Some m else al_get Nat.eqb (get_list rref_beq b r') t'.
Proof.
  destruct (rref_beq r' r) eqn:Er.
  - apply rref_beq_true in Er. subst. destruct (Nat.eqb t' t) eqn:Et; cbn [andb].
    + apply Nat.eqb_eq in Et. subst. apply busy_add_same.
    + apply busy_add_other_task. intros ->. now rewrite Nat.eqb_refl in Et.
  - cbn [andb]. rewrite busy_add_other_res; [reflexivity|]. intros ->. now rewrite rref_beq_refl in Er.
Qed.

(* ---------------- the invariant ---------------- *)
Definition governs (a : areq) (r : rref) (m : bool) : Prop :=
  match a with
  | AQDirect w _ _ _ => r = RW w /\ m = false
  | AQSelect _ listed _ _ => m = true /\ exists p, In (r, p) listed
  end.

Definition link_inv (st : pstate) : Prop :=
  (forall r t m, busy_flag st r t = Some m -> In r (reqs_of st t) /\ exists a, In a (areqs_of st t) /\ governs a r m)
  /\ (forall t r, In r (reqs_of st t) -> exists m, busy_flag st r t = Some m).

Lemma link_empty h : link_inv (empty_problem h).
Proof. split; [intros r t m H; discriminate|intros t r []]. Qed.

Lemma get_list_push {V} (l : list (nat * list V)) k x k' :
  get_list Nat.eqb (push_list Nat.eqb l k x) k' = if Nat.eqb k' k then get_list Nat.eqb l k ++ [x] else get_list Nat.eqb l k'.
Proof.
  unfold push_list, get_list. destruct (Nat.eqb k' k) eqn:E.
  - apply Nat.eqb_eq in E. subst. now rewrite al_get_set_same.
  - rewrite al_get_set_other; [reflexivity|]. intros ->. now rewrite Nat.eqb_refl in E.
Qed.
Lemma get_list_set {V} (l : list (nat * list V)) k (x : list V) k' :
  get_list Nat.eqb (al_set Nat.eqb l k x) k' = if Nat.eqb k' k then x else get_list Nat.eqb l k'.
Proof.
  unfold get_list. destruct (Nat.eqb k' k) eqn:E.
  - apply Nat.eqb_eq in E. subst. now rewrite al_get_set_same.
  - rewrite al_get_set_other; [reflexivity|]. intros ->. now rewrite Nat.eqb_refl in E.
Qed.

(* the SelectWorkers branch, seen through busy_flag / reqs_of / areqs_of *)
Lemma select_fold_flag (listed : list rref) id : forall busy neg acc busy' neg' acc',
  fold_left (fun '(busy, neg, acc) r => (busy_add busy r id true, neg - 1, acc ++ [(r, neg - 1)])) listed (busy, neg, acc) = (busy', neg', acc') ->
  (forall r t, al_get Nat.eqb (get_list rref_beq busy' r) t =
               if existsb (rref_beq r) listed && Nat.eqb t id then Some true else al_get Nat.eqb (get_list rref_beq busy r) t)
  /\ map fst acc' = map fst acc ++ listed.
Proof.
  induction listed as [|r0 l IH]; intros busy neg acc busy' neg' acc' H; cbn [fold_left] in H.
  - injection H as <- <- <-. split; [intros; reflexivity|now rewrite app_nil_r].
  - apply IH in H as [H1 H2]. split.
    + intros r t. rewrite H1, busy_add_flag. cbn [existsb].
      destruct (rref_beq r r0) eqn:E0; destruct (existsb (rref_beq r) l) eqn:El; destruct (Nat.eqb t id) eqn:Et; cbn; reflexivity.
    + rewrite H2, map_app. cbn [map fst]. now rewrite <- app_assoc.
Qed.

Lemma add_select_link st t s :
  link_inv st -> link_inv (add_select st t s).
Proof.
  intros [H1 H2]. unfold add_select.
  destruct (fold_left _ (s_listed s) (ps_busy st, ps_neg st, [])) as [[busy neg] listed] eqn:Ef.
  apply select_fold_flag in Ef as [Hf Hm]. cbn [map app] in Hm.
  unfold link_inv, busy_flag, busy_of, reqs_of, areqs_of. cbn [ps_busy ps_reqs ps_areqs]. split.
  - intros r t0 m Hb. rewrite Hf in Hb. rewrite get_list_set, get_list_push.
    destruct (existsb (rref_beq r) (s_listed s) && Nat.eqb t0 (ti_id t)) eqn:E.
    + apply andb_true_iff in E as [Ee Et]. rewrite Et. injection Hb as <-. apply existsb_exists in Ee as (r' & Hr' & Heq).
      apply rref_beq_true in Heq. subst r'. split; [apply in_or_app; now right|].
      exists (AQSelect (s_ref s) listed (s_n s) (s_kind s)). split; [apply in_or_app; right; now left|].
      cbn [governs]. split; [reflexivity|]. rewrite <- Hm in Hr'. apply in_map_iff in Hr' as ([r'' p] & <- & Hin). exists p. exact Hin.
    + destruct (H1 r t0 m Hb) as (Hr & a & Ha & Hg). destruct (Nat.eqb t0 (ti_id t)) eqn:Et.
      * apply Nat.eqb_eq in Et. subst t0. split; [apply in_or_app; now left|]. exists a. split; [apply in_or_app; now left|exact Hg].
      * split; [exact Hr|]. exists a. split; assumption.
  - intros t0 r Hr. rewrite get_list_set in Hr. rewrite Hf.
    destruct (Nat.eqb t0 (ti_id t)) eqn:Et.
    + apply in_app_or in Hr as [Hr|Hr].
      * destruct (existsb (rref_beq r) (s_listed s)); cbn [andb]; [eauto|]. apply Nat.eqb_eq in Et. subst. apply (H2 _ _ Hr).
      * assert (existsb (rref_beq r) (s_listed s) = true) by (apply existsb_exists; exists r; split; [exact Hr|apply rref_beq_refl]).
        rewrite H. cbn [andb]. eauto.
    + rewrite andb_false_r. apply (H2 _ _ Hr).
Qed.

Lemma step_link st o st' : link_inv st -> step_problem st o = Ok st' -> link_inv st'.
Proof.
  intros Hl H. destruct o; cbn [step_problem] in H.
  - break H; injection H as <-; apply link_empty.
  - break H. injection H as <-. exact Hl.
  - break H. injection H as <-. exact Hl.
  - break H. injection H as <-. exact Hl.
  - break H. injection H as <-. exact Hl.
  - break H; injection H as <-.
    + (* direct *) destruct Hl as [H1 H2]. unfold link_inv, busy_flag, busy_of, reqs_of, areqs_of. cbn [ps_busy ps_reqs ps_areqs]. split.
      * intros rr tt mm Hb. rewrite busy_add_flag in Hb. rewrite !get_list_push.
        destruct (rref_beq rr (RW w) && Nat.eqb tt t) eqn:E.
        -- apply andb_true_iff in E as [Er Et]. rewrite Et. injection Hb as <-. apply rref_beq_true in Er. subst rr.
           split; [apply in_or_app; right; now left|]. exists (AQDirect w dynamic delay_in early_out).
           split; [apply in_or_app; right; now left|]. cbn. auto.
        -- destruct (H1 rr tt mm Hb) as (Hr & a & Ha & Hg). destruct (Nat.eqb tt t) eqn:Et.
           ++ apply Nat.eqb_eq in Et. subst tt. split; [apply in_or_app; now left|]. exists a. split; [apply in_or_app; now left|exact Hg].
           ++ split; [exact Hr|]. exists a. split; assumption.
      * intros tt rr Hr. rewrite get_list_push in Hr. rewrite busy_add_flag.
        destruct (Nat.eqb tt t) eqn:Et.
        -- apply in_app_or in Hr as [Hr|[<-|[]]].
           ++ destruct (rref_beq rr (RW w)); cbn [andb]; [eauto|]. apply Nat.eqb_eq in Et. subst. apply (H2 _ _ Hr).
           ++ rewrite rref_beq_refl. cbn [andb]. eauto.
        -- rewrite andb_false_r. apply (H2 _ _ Hr).
    + (* cumulative *)
      match goal with |- link_inv ?S => change (link_inv (add_select st t0 {| s_ref := SAuto (ps_nauto st); s_listed := map RW (units_of c0); s_n := 1; s_kind := PbMin |})) || idtac end.
      pose proof (add_select_link st t0 {| s_ref := SAuto (ps_nauto st); s_listed := map RW (units_of c0); s_n := 1; s_kind := PbMin |} Hl) as [A1 A2].
      split; [exact A1|exact A2].
    + now apply add_select_link.
  - break H. injection H as <-. exact Hl.
  - break H. injection H as <-. exact Hl.
  - break H. injection H as <-. unfold add_indicator in *. break Heqo1. injection Heqo1 as <-. exact Hl.
  - break H; injection H as <-;
      try (unfold add_indicator in *;
           match goal with Ha : (if key_taken _ _ then _ else _) = Some _ |- _ => break Ha; injection Ha as <- end); exact Hl.
Qed.

Lemma run_from_link ops : forall st idx st',
  (match st with Some s => link_inv s | None => True end) ->
  run_from st idx ops = RunOk (Some st') -> link_inv st'.
Proof.
  induction ops as [|o ops IH]; cbn [run_from]; intros st idx st' Hw H.
  - injection H as ->. exact Hw.
  - destruct (step st o) as [s1| |] eqn:Hs; try discriminate.
    apply (IH (Some s1) (S idx) st'); [|exact H].
    unfold step in Hs. destruct o, st as [s0|]; try discriminate;
      try (eapply step_link; [|exact Hs]; first [exact Hw | apply link_empty]).
Qed.
Theorem reachable_link ops st : reaches ops st -> link_inv st.
Proof. unfold reaches, run. apply run_from_link. exact I. Qed.

(* every task of a reachable state passed the field validation of its class *)
Definition kinds_ok (st : pstate) : Prop := forall t, In t (ps_tasks st) -> tkind_ok (ti_kind t) = true.
Lemma step_kinds st o st' : kinds_ok st -> step_problem st o = Ok st' -> kinds_ok st'.
Proof.
  intros Hk H. destruct o; cbn [step_problem] in H.
  - break H; injection H as <-; intros t [].
  - break H. injection H as <-. intros t Ht. cbn [ps_tasks] in Ht. apply in_app_or in Ht as [Ht|[<-|[]]]; [auto|]. cbn [ti_kind].
    apply negb_false_iff in Heqb. apply andb_true_iff in Heqb as [Hb _]. now apply andb_true_iff in Hb as [Hb _].
  - break H. injection H as <-. exact Hk.
  - break H. injection H as <-. exact Hk.
  - break H. injection H as <-. exact Hk.
  - break H; injection H as <-; try exact Hk; unfold add_select; destruct (fold_left _ _ _) as [[? ?] ?]; exact Hk.
  - break H. injection H as <-. exact Hk.
  - break H. injection H as <-. exact Hk.
  - break H. injection H as <-. unfold add_indicator in *. break Heqo1. injection Heqo1 as <-. exact Hk.
  - break H; injection H as <-;
      try (unfold add_indicator in *;
           match goal with Ha : (if key_taken _ _ then _ else _) = Some _ |- _ => break Ha; injection Ha as <- end); exact Hk.
Qed.
Lemma run_from_kinds ops : forall st idx st',
  (match st with Some s => kinds_ok s | None => True end) ->
  run_from st idx ops = RunOk (Some st') -> kinds_ok st'.
Proof.
  induction ops as [|o ops IH]; cbn [run_from]; intros st idx st' Hw H.
  - injection H as ->. exact Hw.
  - destruct (step st o) as [s1| |] eqn:Hs; try discriminate.
    apply (IH (Some s1) (S idx) st'); [|exact H].
    unfold step in Hs. destruct o, st as [s0|]; try discriminate;
      try (eapply step_kinds; [|exact Hs]; first [exact Hw | intros t []]).
Qed.
Theorem reachable_kinds ops st : reaches ops st -> kinds_ok st.
Proof. unfold reaches, run. apply run_from_kinds. exact I. Qed.

(* ---------------- what the assertions say about one busy entry ---------------- *)
(* guard of the theorem: no static requirement with an early_out (finding F26) *)
Definition no_early_out (st : pstate) : Prop :=
  forall t w di eo, In (AQDirect w false di eo) (areqs_of st t) -> eo <= 0.

Section Entry.
Variables (st : pstate) (e : env).
Hypothesis Hwf : wf st.
Hypothesis Hkinds : kinds_ok st.
Hypothesis Hsat : sat e (initialize st).
Hypothesis Hneo : no_early_out st.

Lemma areq_holds t a : In t (ps_tasks st) -> In a (areqs_of st (ti_id t)) -> forall f, In f (enc_areq t a) -> feval e f = true.
Proof.
  intros Ht Ha f Hf. apply sat_initialize in Hsat as (Hta & _). destruct (Hta t Ht) as [H _].
  apply H. unfold task_asserts. apply in_or_app. right. apply in_flat_map. eauto.
Qed.

Lemma task_times t : In t (ps_tasks st) ->
  (feval e (act t) = true -> 0 <= iv e (VStart (ti_id t)) /\ iv e (VStart (ti_id t)) <= iv e (VEnd (ti_id t)))
  /\ (feval e (act t) = false -> iv e (VStart (ti_id t)) < 0 /\ iv e (VEnd (ti_id t)) < 0).
Proof.
  intros Ht. split.
  - intros Ha. destruct (C01_values st e Hsat t Ht Ha) as (H0 & _ & Hd & _). split; [exact H0|].
    pose proof (Hkinds t Ht) as Hk. destruct (ti_kind t) as [|d|mn mx al] eqn:Ek; cbn [tkind_ok] in Hk.
    + lia.
    + unfold posz in Hk. lia.
    + destruct Hd as (Hd & Hmn & _). unfold nonneg in Hk. rewrite !andb_true_iff in Hk. destruct Hk as [[Hk _] _]. lia.
  - intros Ha. apply sat_initialize in Hsat as (Hta & _). destruct (Hta t Ht) as [Hc _].
    assert (Hopt : ti_opt t = true). { unfold act in Ha. destruct (ti_opt t); [reflexivity|discriminate]. }
    destruct (unsched_times e t Hopt) as [Hs He]; auto.
    { intros f Hf. apply Hc. unfold task_asserts. apply in_or_app. now left. }
    destruct Hwf as [_ Hr]. specialize (Hr t Ht). lia.
Qed.
End Entry.

Section Views.
Variables (st : pstate) (e : env).
Hypothesis Hwf : wf st.
Hypothesis Hkinds : kinds_ok st.
Hypothesis Hlink : link_inv st.
Hypothesis Hsat : sat e (initialize st).
Hypothesis Hneo : no_early_out st.

(* (A) a scheduled task whose busy interval on r starts at a non-negative instant also ends at one;
   (B) a busy interval with non-negative start and end belongs to a scheduled task *)
Lemma entry_facts t r m : In t (ps_tasks st) -> busy_flag st r (ti_id t) = Some m ->
  (feval e (act t) = true -> 0 <= iv e (VBusyS r (ti_id t) m) -> 0 <= iv e (VBusyE r (ti_id t) m))
  /\ (0 <= iv e (VBusyS r (ti_id t) m) -> 0 <= iv e (VBusyE r (ti_id t) m) -> feval e (act t) = true).
Proof.
  intros Ht Hb. destruct Hlink as [H1 _]. destruct (H1 r (ti_id t) m Hb) as (_ & a & Ha & Hg).
  pose proof (areq_holds st e Hsat t a Ht Ha) as Hen.
  destruct (task_times st e Hwf Hkinds Hsat t Ht) as [Hact Hun].
  destruct a as [w dyn di eo|s listed n k]; cbn [governs] in Hg.
  - destruct Hg as [-> ->]. cbn [enc_areq] in Hen. destruct dyn.
    + assert (F1 := Hen _ (or_introl eq_refl)). assert (F2 := Hen _ (or_intror (or_introl eq_refl))).
      assert (F3 := Hen _ (or_intror (or_intror (or_introl eq_refl)))). rewrite feval_eq in F1, F2, F3. cbn [teval BS BE S_ E_] in F1, F2, F3.
      split; [intros; lia|]. intros Hs He. destruct (feval e (act t)) eqn:Ea; [reflexivity|]. destruct (Hun eq_refl). lia.
    + assert (Heo : eo <= 0) by (eapply Hneo; eauto).
      assert (F1 := Hen _ (or_introl eq_refl)). assert (F2 := Hen _ (or_intror (or_introl eq_refl))).
      replace (eo >? 0) with false in F1 by lia. rewrite feval_eq in F1. cbn [teval BE E_] in F1.
      destruct (di >? 0) eqn:Ed; rewrite feval_eq in F2; cbn [teval BS S_ fold_right] in F2.
      * split; [intros Hact' _; destruct (Hact Hact'); lia|]. intros Hs He. destruct (feval e (act t)) eqn:Ea; [reflexivity|]. destruct (Hun eq_refl). lia.
      * split; [intros Hact' _; destruct (Hact Hact'); lia|]. intros Hs He. destruct (feval e (act t)) eqn:Ea; [reflexivity|]. destruct (Hun eq_refl). lia.
  - destruct Hg as [-> (p & Hp)]. cbn [enc_areq] in Hen.
    assert (Hite : feval e (FIte (FB (BSel s r))
                    (FAnd [FEq (BS r (ti_id t) true) (S_ t); FEq (BE r (ti_id t) true) (E_ t)])
                    (FAnd [FEq (BS r (ti_id t) true) (TC p); FEq (BE r (ti_id t) true) (TC p)])) = true).
    { apply Hen. apply in_or_app. left. apply in_map_iff. exists (r, p). auto. }
    assert (Hneg : p < 0).
    { destruct Hwf as [[_ Hn] _]. unfold areqs_of, get_list in Ha.
      destruct (al_get Nat.eqb (ps_areqs st) (ti_id t)) as [l|] eqn:El; [|destruct Ha].
      eapply (Hn (ti_id t) l); eauto. clear - El. induction (ps_areqs st) as [|[k v] L IH]; cbn in El; [discriminate|].
      destruct (Nat.eqb k (ti_id t)) eqn:E; [apply Nat.eqb_eq in E; injection El as <-; subst; now left|right; auto]. }
    rewrite feval_eq in Hite. destruct (feval e (FB (BSel s r))); rewrite feval_eq in Hite; cbn [forallb] in Hite;
      rewrite !andb_true_iff in Hite; destruct Hite as (F1 & F2 & _); rewrite feval_eq in F1, F2; cbn [teval BS BE S_ E_] in F1, F2.
    + split; [intros Hact' _; destruct (Hact Hact'); lia|]. intros Hs He. destruct (feval e (act t)) eqn:Ea; [reflexivity|]. destruct (Hun eq_refl). lia.
    + split; intros; lia.
Qed.

(* ---------------- membership in the two folds of build_solution ---------------- *)
Lemma resobj_beq_eq a b : resobj_beq a b = true <-> a = b.
Proof.
  destruct a as [x|x], b as [y|y]; cbn; split; intros H; try discriminate.
  - f_equal. now apply internal_wref_dec_bl.
  - injection H as <-. now apply internal_wref_dec_lb.
  - f_equal. now apply Nat.eqb_eq.
  - injection H as <-. apply Nat.eqb_refl.
Qed.
Lemma mem_key_in k l : mem_key k l = true <-> In k l.
Proof.
  unfold mem_key. rewrite existsb_exists. split.
  - intros (x & Hx & Hk). apply resobj_beq_eq in Hk. now subst.
  - intros H. exists k. split; [exact H|]. now apply resobj_beq_eq.
Qed.

Lemma assigned_fold t (l : list rref) : forall acc k,
  In k (fold_left (fun acc r =>
      match al_get Nat.eqb (busy_of st r) (ti_id t) with
      | Some m => if task_scheduled e t && (iv e (VBusyS r (ti_id t) m) >=? 0) && negb (mem_key (rref_key r) acc)
                  then acc ++ [rref_key r] else acc
      | None => acc end) l acc)
  <-> In k acc \/ exists r m, In r l /\ rref_key r = k /\ busy_flag st r (ti_id t) = Some m
                               /\ task_scheduled e t = true /\ 0 <= iv e (VBusyS r (ti_id t) m).
Proof.
  induction l as [|r l IH]; intros acc k; cbn [fold_left].
  - split; [now left|]. intros [H|(r & m & [] & _)]. exact H.
  - rewrite IH. unfold busy_flag. destruct (al_get Nat.eqb (busy_of st r) (ti_id t)) as [m|] eqn:Eb.
    + destruct (task_scheduled e t && (iv e (VBusyS r (ti_id t) m) >=? 0) && negb (mem_key (rref_key r) acc)) eqn:Ec.
      * rewrite !andb_true_iff in Ec. destruct Ec as [[Es Ev] Em]. split.
        -- intros [H|(r' & m' & Hr' & Hk & Hb & Hs & Hv)].
           ++ apply in_app_or in H as [H|[<-|[]]]; [now left|]. right. exists r, m. repeat split; auto; [now left|lia].
           ++ right. exists r', m'. repeat split; auto. now right.
        -- intros [H|(r' & m' & [<-|Hr'] & Hk & Hb & Hs & Hv)].
           ++ left. apply in_or_app. now left.
           ++ left. apply in_or_app. right. left. exact Hk.
           ++ right. exists r', m'. repeat split; auto.
      * split.
        -- intros [H|(r' & m' & Hr' & Hk & Hb & Hs & Hv)]; [now left|]. right. exists r', m'. repeat split; auto. now right.
        -- intros [H|(r' & m' & [<-|Hr'] & Hk & Hb & Hs & Hv)]; [now left| |].
           ++ rewrite Eb in Hb. injection Hb as <-. rewrite Hs in Ec. replace (iv e (VBusyS r (ti_id t) m) >=? 0) with true in Ec by lia.
              cbn [andb] in Ec. apply negb_false_iff in Ec. apply mem_key_in in Ec. left. now rewrite <- Hk.
           ++ right. exists r', m'. repeat split; auto.
    + split.
      * intros [H|(r' & m' & Hr' & Hk & Hb & Hs & Hv)]; [now left|]. right. exists r', m'. repeat split; auto. now right.
      * intros [H|(r' & m' & [<-|Hr'] & Hk & Hb & Hs & Hv)]; [now left|congruence|]. right. exists r', m'. repeat split; auto.
Qed.

Lemma assigned_resources_in t k :
  In k (assigned_resources st e t) <->
  exists r m, In r (reqs_of st (ti_id t)) /\ rref_key r = k /\ busy_flag st r (ti_id t) = Some m
              /\ task_scheduled e t = true /\ 0 <= iv e (VBusyS r (ti_id t) m).
Proof. unfold assigned_resources. rewrite assigned_fold. split; [intros [[]|H]; exact H|intros H; now right]. Qed.
End Views.

(* ---------------- more invariants: one busy entry per task, one worker record per worker ---------------- *)
Definition units_known (st : pstate) : Prop :=
  forall c i, In (WUnit c i) (map w_ref (ps_workers st)) -> find_cumul st c <> None.
Definition uniq_inv (st : pstate) : Prop :=
  (forall r, NoDup (map fst (busy_of st r))) /\ (NoDup (map w_ref (ps_workers st)) /\ units_known st).

Lemma al_set_keys {V} (l : list (nat * V)) k v : NoDup (map fst l) -> NoDup (map fst (al_set Nat.eqb l k v)).
Proof.
  induction l as [|[k' v'] l IH]; intros H; cbn; [repeat constructor; auto|].
  cbn in H. inversion H as [|? ? Hn Hd]; subst. destruct (Nat.eqb k' k) eqn:E; cbn; constructor; auto.
  intros Hin. apply Hn. clear - Hin E. induction l as [|[k0 v0] l IH]; cbn in *.
  - destruct Hin as [<-|[]]. now rewrite Nat.eqb_refl in E.
  - destruct (Nat.eqb k0 k) eqn:E0; cbn in Hin; destruct Hin as [<-|Hin]; auto.
Qed.
Lemma busy_add_keys b r t m : (forall r', NoDup (map fst (get_list rref_beq b r'))) ->
  forall r', NoDup (map fst (get_list rref_beq (busy_add b r t m) r')).
Proof.
  intros H r'. destruct (rref_eq_dec r' r) as [->|Hne].
  - unfold busy_add, get_list at 1. rewrite al_get_r_set_same. apply al_set_keys. apply H.
  - rewrite busy_add_other_res; auto.
Qed.
Lemma select_fold_keys (listed : list rref) id : forall busy neg acc busy' neg' acc',
  fold_left (fun '(busy, neg, acc) r => (busy_add busy r id true, neg - 1, acc ++ [(r, neg - 1)])) listed (busy, neg, acc) = (busy', neg', acc') ->
  (forall r', NoDup (map fst (get_list rref_beq busy r'))) -> forall r', NoDup (map fst (get_list rref_beq busy' r')).
Proof.
  induction listed as [|r0 l IH]; intros busy neg acc busy' neg' acc' H Hn; cbn [fold_left] in H.
  - now injection H as <- <- <-.
  - eapply IH; [exact H|]. now apply busy_add_keys.
Qed.

Lemma find_worker_none_notin st w : find_worker st w = None -> ~ In w (map w_ref (ps_workers st)).
Proof.
  unfold find_worker. intros H Hin. apply in_map_iff in Hin as (x & <- & Hx).
  apply (find_none _ _ H) in Hx. rewrite (internal_wref_dec_lb _ _ eq_refl) in Hx. discriminate.
Qed.

Lemma nodup_app_fresh {A} (l l' : list A) : NoDup l -> NoDup l' -> (forall x, In x l -> ~ In x l') -> NoDup (l ++ l').
Proof.
  induction l as [|a l IH]; intros H1 H2 H; [exact H2|]. inversion H1; subst. cbn. constructor.
  - intros Hin. apply in_app_or in Hin as [Hin|Hin]; [contradiction|]. apply (H a); [now left|exact Hin].
  - apply IH; auto. intros x Hx. apply H. now right.
Qed.

Lemma find_app_some {A} (p : A -> bool) l l' : find p l <> None -> find p (l ++ l') <> None.
Proof. induction l as [|a l IH]; cbn; [congruence|]. destruct (p a); [congruence|auto]. Qed.

Lemma step_uniq st o st' : uniq_inv st -> step_problem st o = Ok st' -> uniq_inv st'.
Proof.
  intros (Hb & Hw & Hu) H. destruct o; cbn [step_problem] in H.
  - break H; injection H as <-; (split; [intros r; unfold busy_of, get_list; cbn; constructor|split; [constructor|intros c i []]]).
  - break H. injection H as <-. split; [exact Hb|split; [exact Hw|exact Hu]].
  - break H. injection H as <-. split; [exact Hb|]. split.
    + cbn [ps_workers]. rewrite map_app. cbn [map w_ref].
      apply nodup_app_fresh; [exact Hw|repeat constructor; auto|].
      intros x Hx [<-|[]]. exact (find_worker_none_notin st _ Heqo Hx).
    + intros c i Hin. cbn [ps_workers] in Hin. rewrite map_app in Hin. apply in_app_or in Hin as [Hin|[Hin|[]]]; [|discriminate].
      unfold find_cumul. cbn [ps_cumuls]. exact (Hu c i Hin).
  - break H. injection H as <-. split; [exact Hb|]. split.
    + cbn [ps_workers]. rewrite map_app. apply nodup_app_fresh; [exact Hw| |].
      * rewrite map_map. clear. generalize (combine (distribute prod (Z.to_nat size)) (distribute v (Z.to_nat size))).
        intros L. assert (G : forall n s (L : list (Z * Z)), NoDup (map (fun x : nat * (Z * Z) => w_ref (let '(i, (p, c)) := x in {| w_ref := WUnit id i; w_prod := p; w_cost := CostConst c |})) (combine (seq s n) L))).
        { induction n as [|n IH]; intros s [|q L']; cbn; try constructor; [|apply IH].
          destruct q. intros Hin. apply in_map_iff in Hin as ([i [p c]] & Hi & Hc). cbn in Hi. injection Hi as Hi.
          apply in_combine_l in Hc. apply in_seq in Hc. lia. }
        apply G.
      * intros x Hx Hin. rewrite map_map in Hin. apply in_map_iff in Hin as ([i [p c]] & <- & _). cbn [w_ref] in Hx.
        apply Hu in Hx. congruence.
    + intros c i Hin. cbn [ps_workers] in Hin. rewrite map_app in Hin. unfold find_cumul. cbn [ps_cumuls].
      apply in_app_or in Hin as [Hin|Hin].
      * apply find_app_some. exact (Hu c i Hin).
      * rewrite map_map in Hin. apply in_map_iff in Hin as ([j [p q]] & Hj & _). cbn in Hj. injection Hj as <- <-.
        clear. induction (ps_cumuls st) as [|a l IH]; cbn; [rewrite Nat.eqb_refl; discriminate|]. destruct (Nat.eqb (cu_id a) id); [discriminate|exact IH].
  - break H. injection H as <-. split; [exact Hb|split; [exact Hw|exact Hu]].
  - break H; injection H as <-.
    + split; [|split; [exact Hw|exact Hu]]. unfold busy_of. cbn [ps_busy]. now apply busy_add_keys.
    + split; [|split].
      * unfold busy_of, add_select. destruct (fold_left _ _ _) as [[busy neg] listed] eqn:Ef. cbn [ps_busy].
        eapply select_fold_keys; [exact Ef|exact Hb].
      * unfold add_select. destruct (fold_left _ _ _) as [[busy neg] listed]. exact Hw.
      * unfold add_select. destruct (fold_left _ _ _) as [[busy neg] listed]. exact Hu.
    + split; [|split].
      * unfold busy_of, add_select. destruct (fold_left _ _ _) as [[busy neg] listed] eqn:Ef. cbn [ps_busy].
        eapply select_fold_keys; [exact Ef|exact Hb].
      * unfold add_select. destruct (fold_left _ _ _) as [[busy neg] listed]. exact Hw.
      * unfold add_select. destruct (fold_left _ _ _) as [[busy neg] listed]. exact Hu.
  - break H. injection H as <-. split; [exact Hb|split; [exact Hw|exact Hu]].
  - break H. injection H as <-. split; [exact Hb|split; [exact Hw|exact Hu]].
  - break H. injection H as <-. unfold add_indicator in *. break Heqo1. injection Heqo1 as <-. split; [exact Hb|split; [exact Hw|exact Hu]].
  - break H; injection H as <-;
      try (unfold add_indicator in *;
           match goal with Ha : (if key_taken _ _ then _ else _) = Some _ |- _ => break Ha; injection Ha as <- end);
      (split; [exact Hb|split; [exact Hw|exact Hu]]).
Qed.

Lemma run_from_uniq ops : forall st idx st',
  (match st with Some s => uniq_inv s | None => True end) ->
  run_from st idx ops = RunOk (Some st') -> uniq_inv st'.
Proof.
  induction ops as [|o ops IH]; cbn [run_from]; intros st idx st' Hw H.
  - injection H as ->. exact Hw.
  - destruct (step st o) as [s1| |] eqn:Hs; try discriminate.
    apply (IH (Some s1) (S idx) st'); [|exact H].
    assert (He : uniq_inv (empty_problem None)).
    { split; [intros r; unfold busy_of, get_list; cbn; constructor|split; [constructor|intros c i []]]. }
    unfold step in Hs. destruct o, st as [s0|]; try discriminate;
      try (eapply step_uniq; [|exact Hs]; first [exact Hw | exact He]).
Qed.
Theorem reachable_uniq ops st : reaches ops st -> uniq_inv st.
Proof. unfold reaches, run. apply run_from_uniq. exact I. Qed.

Lemma al_get_of_in {V} (l : list (nat * V)) k v : NoDup (map fst l) -> In (k, v) l -> al_get Nat.eqb l k = Some v.
Proof.
  induction l as [|[k' v'] l IH]; intros Hn Hin; [destruct Hin|]. cbn in Hn. inversion Hn as [|? ? Hx Hn']; subst.
  cbn. destruct Hin as [[= -> ->]|Hin]; [now rewrite Nat.eqb_refl|].
  destruct (Nat.eqb k' k) eqn:E; [|auto]. apply Nat.eqb_eq in E. subst. exfalso. apply Hx.
  change k with (fst (k, v)). now apply in_map.
Qed.
Lemma al_get_in' {V} (l : list (nat * V)) k v : al_get Nat.eqb l k = Some v -> In (k, v) l.
Proof.
  induction l as [|[k' v'] l IH]; cbn; [discriminate|]. destruct (Nat.eqb k' k) eqn:E.
  - intros [= <-]. apply Nat.eqb_eq in E. subst. now left.
  - intros H. right. auto.
Qed.

Section Views2.
Variables (st : pstate) (e : env).

(* an assignment (task, start, end) is listed by worker w *)
Definition listed_by (w : wref) (x : nat * Z * Z) : Prop :=
  exists m, In (fst (fst x), m) (busy_of st (RW w))
            /\ snd (fst x) = iv e (VBusyS (RW w) (fst (fst x)) m) /\ snd x = iv e (VBusyE (RW w) (fst (fst x)) m)
            /\ 0 <= snd (fst x) /\ 0 <= snd x.

Lemma triple_eqb_eq a b : triple_eqb a b = true <-> a = b.
Proof.
  destruct a as [[t1 s1] e1], b as [[t2 s2] e2]. cbn. rewrite !andb_true_iff, Nat.eqb_eq, !Z.eqb_eq. split.
  - intros [[-> ->] ->]. reflexivity.
  - intros [= -> -> ->]. auto.
Qed.

Lemma wa_fold w (l : list (nat * bool)) : forall acc x,
  In x (fold_left (fun acc '(t, m) =>
      let s := iv e (VBusyS (RW w) t m) in let y := iv e (VBusyE (RW w) t m) in
      if (s >=? 0) && (y >=? 0) && negb (existsb (triple_eqb (t, s, y)) acc) then acc ++ [(t, s, y)] else acc) l acc)
  <-> In x acc \/ exists t m, In (t, m) l /\ x = (t, iv e (VBusyS (RW w) t m), iv e (VBusyE (RW w) t m))
                               /\ 0 <= iv e (VBusyS (RW w) t m) /\ 0 <= iv e (VBusyE (RW w) t m).
Proof.
  induction l as [|[t m] l IH]; intros acc x; cbn [fold_left].
  - split; [now left|]. intros [H|(t & m & [] & _)]. exact H.
  - rewrite IH. set (s := iv e (VBusyS (RW w) t m)). set (y := iv e (VBusyE (RW w) t m)).
    destruct ((s >=? 0) && (y >=? 0) && negb (existsb (triple_eqb (t, s, y)) acc)) eqn:Ec.
    + rewrite !andb_true_iff in Ec. destruct Ec as [[E1 E2] _]. split.
      * intros [H|(t' & m' & Hin & Hx & H1 & H2)].
        -- apply in_app_or in H as [H|[<-|[]]]; [now left|]. right. exists t, m. repeat split; auto; [now left| |]; lia.
        -- right. exists t', m'. repeat split; auto. now right.
      * intros [H|(t' & m' & [[= <- <-]|Hin] & Hx & H1 & H2)].
        -- left. apply in_or_app. now left.
        -- left. apply in_or_app. right. left. now rewrite Hx.
        -- right. exists t', m'. repeat split; auto.
    + split.
      * intros [H|(t' & m' & Hin & Hx & H1 & H2)]; [now left|]. right. exists t', m'. repeat split; auto. now right.
      * intros [H|(t' & m' & [[= <- <-]|Hin] & Hx & H1 & H2)]; [now left| |].
        -- fold s y in H1, H2, Hx. replace (s >=? 0) with true in Ec by lia. replace (y >=? 0) with true in Ec by lia. cbn [andb] in Ec.
           apply negb_false_iff in Ec. apply existsb_exists in Ec as (z & Hz & Hzeq). apply triple_eqb_eq in Hzeq. left. now rewrite Hx, Hzeq.
        -- right. exists t', m'. repeat split; auto.
Qed.

Lemma worker_assignments_iff w acc x :
  In x (worker_assignments st e w acc) <-> In x acc \/ listed_by w x.
Proof.
  unfold worker_assignments. rewrite wa_fold. unfold listed_by. split; (intros [H|H]; [now left|right]).
  - destruct H as (t & m & Hin & -> & H1 & H2). exists m. cbn. auto.
  - destruct x as [[t s] y]. destruct H as (m & Hin & Hs & Hy & H1 & H2). cbn in *. exists t, m. subst. auto.
Qed.

(* the loop over the workers of the problem *)
Definition step_res (acc : list ressol) (wr : wrec) : list ressol :=
  let w := w_ref wr in
  let name := wref_key w in
  if is_unit w && existsb (fun r => resobj_beq (rs_name r) name) acc then
    map (fun r => if resobj_beq (rs_name r) name
                  then {| rs_name := name; rs_assignments := worker_assignments st e w (rs_assignments r) |} else r) acc
  else if negb (is_unit w) && existsb (fun r => resobj_beq (rs_name r) name) acc then
    map (fun r => if resobj_beq (rs_name r) name
                  then {| rs_name := name; rs_assignments := worker_assignments st e w [] |} else r) acc
  else acc ++ [{| rs_name := name; rs_assignments := worker_assignments st e w [] |}].

Lemma resource_solutions_eq : resource_solutions st e = fold_left step_res (ps_workers st) [].
Proof. reflexivity. Qed.

Definition lists (acc : list ressol) (k : resobj) (x : nat * Z * Z) : Prop :=
  exists rep, In rep acc /\ rs_name rep = k /\ In x (rs_assignments rep).
Definition from_workers (ws : list wref) (k : resobj) (x : nat * Z * Z) : Prop :=
  exists w, In w ws /\ wref_key w = k /\ listed_by w x.

Lemma wref_key_plain_inj w w' : is_unit w = false -> wref_key w' = wref_key w -> w' = w.
Proof. destruct w, w'; cbn; intros H Heq; try discriminate; congruence. Qed.

Lemma res_fold (ws : list wrec) : forall acc done,
  NoDup (map rs_name acc) -> NoDup (done ++ map w_ref ws) ->
  (forall rep, In rep acc -> exists w, In w done /\ wref_key w = rs_name rep) ->
  (forall k x, lists acc k x <-> from_workers done k x) ->
  forall k x, lists (fold_left step_res ws acc) k x <-> from_workers (done ++ map w_ref ws) k x.
Proof.
  induction ws as [|wr ws IH]; intros acc done Hnd Hnw Hkeys Hinv k x; cbn [fold_left map].
  - rewrite app_nil_r. apply Hinv.
  - cbn [map] in Hnw.
    replace (done ++ w_ref wr :: map w_ref ws) with ((done ++ [w_ref wr]) ++ map w_ref ws) by (rewrite <- app_assoc; reflexivity).
    replace (done ++ w_ref wr :: map w_ref ws) with ((done ++ [w_ref wr]) ++ map w_ref ws) in Hnw by (rewrite <- app_assoc; reflexivity).
    set (w := w_ref wr) in *. set (name := wref_key w).
    apply IH; clear IH.
    + (* keys stay distinct *)
      unfold step_res. fold w name.
      destruct (is_unit w && existsb (fun r => resobj_beq (rs_name r) name) acc) eqn:E1.
      * rewrite map_map. erewrite map_ext_in; [exact Hnd|]. intros r Hr. cbn. destruct (resobj_beq (rs_name r) name) eqn:Er; [|reflexivity].
        cbn. symmetry. now apply resobj_beq_eq.
      * destruct (negb (is_unit w) && existsb (fun r => resobj_beq (rs_name r) name) acc) eqn:E2.
        -- rewrite map_map. erewrite map_ext_in; [exact Hnd|]. intros r Hr. cbn. destruct (resobj_beq (rs_name r) name) eqn:Er; [|reflexivity].
           cbn. symmetry. now apply resobj_beq_eq.
        -- rewrite map_app. cbn [map rs_name]. apply nodup_app_fresh; [exact Hnd|repeat constructor; auto|].
           intros y Hy [<-|[]]. apply in_map_iff in Hy as (r & Hr & Hin).
           assert (Hex : existsb (fun r0 => resobj_beq (rs_name r0) name) acc = true).
           { apply existsb_exists. exists r. split; [exact Hin|]. now apply resobj_beq_eq. }
           rewrite Hex in E1, E2. rewrite andb_true_r in E1, E2. destruct (is_unit w); discriminate.
    + exact Hnw.
    + (* every report comes from a processed worker *)
      intros rep Hrep. unfold step_res in Hrep. fold w name in Hrep.
      destruct (is_unit w && existsb (fun r => resobj_beq (rs_name r) name) acc).
      * apply in_map_iff in Hrep as (r & <- & Hr). destruct (Hkeys r Hr) as (w0 & Hw0 & Hk0).
        destruct (resobj_beq (rs_name r) name) eqn:Er; cbn [rs_name].
        -- exists w. split; [apply in_or_app; right; now left|reflexivity].
        -- exists w0. split; [apply in_or_app; now left|exact Hk0].
      * destruct (negb (is_unit w) && existsb (fun r => resobj_beq (rs_name r) name) acc).
        -- apply in_map_iff in Hrep as (r & <- & Hr). destruct (Hkeys r Hr) as (w0 & Hw0 & Hk0).
           destruct (resobj_beq (rs_name r) name) eqn:Er; cbn [rs_name].
           ++ exists w. split; [apply in_or_app; right; now left|reflexivity].
           ++ exists w0. split; [apply in_or_app; now left|exact Hk0].
        -- apply in_app_or in Hrep as [Hr|[<-|[]]].
           ++ destruct (Hkeys rep Hr) as (w0 & Hw0 & Hk0). exists w0. split; [apply in_or_app; now left|exact Hk0].
           ++ exists w. split; [apply in_or_app; right; now left|reflexivity].
    + (* the membership invariant *)
      intros k' x'. unfold step_res. fold w name.
      assert (Hfw : from_workers (done ++ [w]) k' x' <-> from_workers done k' x' \/ (name = k' /\ listed_by w x')).
      { unfold from_workers. split.
        - intros (w0 & Hin & Hk & Hl). apply in_app_or in Hin as [Hin|[<-|[]]]; [left; eauto|right; auto].
        - intros [(w0 & Hin & Hk & Hl)|[Hk Hl]]; [exists w0; split; [apply in_or_app; now left|auto]|exists w; split; [apply in_or_app; right; now left|auto]]. }
      rewrite Hfw. rewrite <- Hinv. clear Hfw.
      destruct (is_unit w && existsb (fun r => resobj_beq (rs_name r) name) acc) eqn:E1.
      * (* a further unit of an already reported cumulative worker: its assignments are appended *)
        unfold lists. split.
        -- intros (rep & Hrep & Hk & Hx). apply in_map_iff in Hrep as (r & <- & Hr).
           destruct (resobj_beq (rs_name r) name) eqn:Er; cbn [rs_name rs_assignments] in *.
           ++ apply worker_assignments_iff in Hx as [Hx|Hx]; [left; exists r; repeat split; auto; apply resobj_beq_eq in Er; congruence|right; auto].
           ++ left. exists r. auto.
        -- intros [(rep & Hrep & Hk & Hx)|[Hk Hl]].
           ++ exists (if resobj_beq (rs_name rep) name then {| rs_name := name; rs_assignments := worker_assignments st e w (rs_assignments rep) |} else rep).
              split; [apply in_map_iff; exists rep; auto|]. destruct (resobj_beq (rs_name rep) name) eqn:Er; cbn [rs_name rs_assignments].
              ** split; [apply resobj_beq_eq in Er; congruence|]. apply worker_assignments_iff. now left.
              ** auto.
           ++ apply andb_true_iff in E1 as [_ Hex]. apply existsb_exists in Hex as (r & Hr & Her).
              exists {| rs_name := name; rs_assignments := worker_assignments st e w (rs_assignments r) |}.
              split; [apply in_map_iff; exists r; rewrite Her; auto|]. cbn. split; [exact Hk|]. apply worker_assignments_iff. now right.
      * destruct (negb (is_unit w) && existsb (fun r => resobj_beq (rs_name r) name) acc) eqn:E2.
        -- (* impossible: a plain worker whose key is already reported would be a worker processed twice *)
           exfalso. apply andb_true_iff in E2 as [Hu Hex]. apply negb_true_iff in Hu.
           apply existsb_exists in Hex as (r & Hr & Her). apply resobj_beq_eq in Her.
           destruct (Hkeys r Hr) as (w0 & Hw0 & Hk0). rewrite Her in Hk0. apply (wref_key_plain_inj w w0 Hu) in Hk0. subst w0.
           clear - Hnw Hw0. rewrite <- app_assoc in Hnw. apply NoDup_remove_2 in Hnw. apply Hnw. apply in_or_app. now left.
        -- unfold lists. split.
           ++ intros (rep & Hrep & Hk & Hx). apply in_app_or in Hrep as [Hr|[<-|[]]]; [left; eauto|].
              cbn [rs_name rs_assignments] in *. apply worker_assignments_iff in Hx as [[]|Hx]. right. auto.
           ++ intros [(rep & Hrep & Hk & Hx)|[Hk Hl]].
              ** exists rep. split; [apply in_or_app; now left|auto].
              ** exists {| rs_name := name; rs_assignments := worker_assignments st e w [] |}. split; [apply in_or_app; right; now left|].
                 cbn. split; [exact Hk|]. apply worker_assignments_iff. now right.
Qed.

Theorem resource_reports_iff : NoDup (map w_ref (ps_workers st)) ->
  forall k x, lists (resource_solutions st e) k x <-> from_workers (map w_ref (ps_workers st)) k x.
Proof.
  intros Hn k x. rewrite resource_solutions_eq. apply (res_fold (ps_workers st) [] []); auto.
  - constructor.
  - intros rep [].
  - intros k' x'. split; [intros (rep & [] & _)|intros (w & [] & _)].
Qed.
End Views2.

(* ---------------- the two views agree ---------------- *)
(* guard: no cumulative worker listed inside a selection (finding F04): every required resource is a worker of the problem *)
Definition reqs_are_workers (st : pstate) : Prop :=
  forall t r, In r (reqs_of st t) -> exists w, r = RW w /\ In w (map w_ref (ps_workers st)).

Lemma sched_act e t : task_scheduled e t = feval e (act t).
Proof. unfold task_scheduled, act. destruct (ti_opt t); reflexivity. Qed.

Theorem views_agree : forall ops st e c delta t0 t,
  reaches ops st -> sat e (initialize st) -> no_early_out st -> reqs_are_workers st ->
  In t (ps_tasks st) ->
  forall k, In k (ts_assigned (task_solution st e delta t0 t))
            <-> exists rep s x, In rep (so_resources (build_solution c st e delta t0)) /\ rs_name rep = k
                                /\ In (ti_id t, s, x) (rs_assignments rep).
Proof.
  intros ops st e c delta t0 t Hr Hs Hneo Hrw Ht k.
  pose proof (reachable_wf ops st Hr) as Hwf. pose proof (reachable_kinds ops st Hr) as Hk.
  pose proof (reachable_link ops st Hr) as Hl. destruct (reachable_uniq ops st Hr) as (Hub & Hnw & _).
  cbn [task_solution ts_assigned build_solution so_resources].
  rewrite (assigned_resources_in st e t k). split.
  - intros (r & m & Hreq & Hkey & Hb & Hsch & Hv). destruct (Hrw _ _ Hreq) as (w & -> & Hw).
    rewrite sched_act in Hsch. destruct (entry_facts st e Hwf Hk Hl Hs Hneo t (RW w) m Ht Hb) as [HA _].
    specialize (HA Hsch Hv).
    assert (Hlist : lists (resource_solutions st e) k (ti_id t, iv e (VBusyS (RW w) (ti_id t) m), iv e (VBusyE (RW w) (ti_id t) m))).
    { apply (resource_reports_iff st e Hnw). exists w. split; [exact Hw|]. split; [exact Hkey|].
      exists m. cbn. split; [now apply al_get_in'|]. auto. }
    destruct Hlist as (rep & Hrep & Hn & Hx). exists rep. eexists. eexists. split; [exact Hrep|split; [exact Hn|exact Hx]].
  - intros (rep & s & x & Hrep & Hn & Hx).
    assert (Hlist : lists (resource_solutions st e) k (ti_id t, s, x)) by (exists rep; auto).
    apply (resource_reports_iff st e Hnw) in Hlist as (w & Hw & Hkey & m & Hin & Hs' & Hx' & H1 & H2). cbn in *.
    assert (Hb : busy_flag st (RW w) (ti_id t) = Some m) by (apply al_get_of_in; auto).
    destruct (entry_facts st e Hwf Hk Hl Hs Hneo t (RW w) m Ht Hb) as [_ HB].
    destruct Hl as [L1 _]. destruct (L1 _ _ _ Hb) as (Hreq & _).
    exists (RW w), m. split; [exact Hreq|]. split; [exact Hkey|]. split; [exact Hb|]. split.
    + rewrite sched_act. apply HB; lia.
    + lia.
Qed.

(* a task reported as not scheduled carries no assigned resource, and no resource report lists it *)
Theorem unscheduled_no_assignment : forall ops st e c delta t0 t,
  reaches ops st -> sat e (initialize st) -> no_early_out st -> In t (ps_tasks st) ->
  ts_sched (task_solution st e delta t0 t) = false ->
  ts_assigned (task_solution st e delta t0 t) = []
  /\ forall rep s x, In rep (so_resources (build_solution c st e delta t0)) -> ~ In (ti_id t, s, x) (rs_assignments rep).
Proof.
  intros ops st e c delta t0 t Hr Hs Hneo Ht Hsch. cbn [task_solution ts_sched ts_assigned build_solution so_resources] in *.
  pose proof (reachable_wf ops st Hr) as Hwf. pose proof (reachable_kinds ops st Hr) as Hk.
  pose proof (reachable_link ops st Hr) as Hl. destruct (reachable_uniq ops st Hr) as (Hub & Hnw & _).
  split.
  - destruct (assigned_resources st e t) as [|k l] eqn:Ea; [reflexivity|]. exfalso.
    assert (Hin : In k (assigned_resources st e t)) by (rewrite Ea; now left).
    apply assigned_resources_in in Hin as (r & m & _ & _ & _ & Hsc & _). congruence.
  - intros rep s x Hrep Hx.
    assert (Hlist : lists (resource_solutions st e) (rs_name rep) (ti_id t, s, x)) by (exists rep; auto).
    apply (resource_reports_iff st e Hnw) in Hlist as (w & Hw & Hkey & m & Hin & Hs' & Hx' & H1 & H2). cbn in *.
    assert (Hb : busy_flag st (RW w) (ti_id t) = Some m) by (apply al_get_of_in; auto).
    destruct (entry_facts st e Hwf Hk Hl Hs Hneo t (RW w) m Ht Hb) as [_ HB].
    rewrite sched_act in Hsch. rewrite HB in Hsch; [discriminate|lia|lia].
Qed.
