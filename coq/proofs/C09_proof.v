(* C09_proof.v -- buffers: initial / final level, bounds, and for non-concurrent buffers: the reported
   change times are access instants in strictly increasing order. *)
From Coq Require Import ZArith List Bool Lia ZifyBool String.
From PS.model Require Import Smt Enc Ind Prog.
From PS.spec Require Import Spec.
From PS.proofs Require Import Base Cons_proof C08_proof.
Import ListNotations.
Open Scope Z_scope.

Lemma in_combine_r_ex {A B} (a : list A) (c : list B) y :
  List.length a = List.length c -> In y c -> exists x, In (x, y) (combine a c).
Proof.
  revert c. induction a as [|x a IH]; intros [|z c] Hl Hin; cbn in *; try lia; try contradiction.
  destruct Hin as [->|Hin]; [exists x; now left|].
  destruct (IH c) as (x' & Hx); [lia|exact Hin|]. exists x'. now right.
Qed.

Lemma consecutive_combine {A B} (a : list A) (c : list B) y1 y2 :
  List.length a = List.length c -> In (y1, y2) (consecutive c) ->
  exists x1 x2, In (x1, x2) (consecutive a) /\ In (x1, y1) (combine a c) /\ In (x2, y2) (combine a c).
Proof.
  revert c. induction a as [|x a IH]; intros [|z c] Hl Hin; cbn in Hl; try lia; [destruct Hin|].
  destruct c as [|z' c]; [destruct Hin|]. destruct a as [|x' a]; [cbn in Hl; lia|].
  cbn [consecutive] in Hin. destruct Hin as [[= <- <-]|Hin].
  - exists x, x'. cbn. auto.
  - destruct (IH (z' :: c)) as (x1 & x2 & H1 & H2 & H3); [cbn in *; lia|exact Hin|].
    exists x1, x2. split; [now right|]. split; now right.
Qed.

Lemma pairs_lt_consecutive l f : In f (pairs_lt l) <-> exists x y, In (x, y) (consecutive l) /\ f = FLt x y.
Proof.
  unfold pairs_lt. induction l as [|x [|y r] IH]; cbn [consecutive].
  - split; [intros []|intros (? & ? & [] & _)].
  - split; [intros []|intros (? & ? & [] & _)].
  - split.
    + intros [<-|Hin]; [exists x, y; split; [now left|reflexivity]|].
      apply IH in Hin as (a & b & Hab & ->). exists a, b. split; [now right|reflexivity].
    + intros (a & b & [[= <- <-]|Hab] & ->); [now left|]. right. apply IH. eauto.
Qed.

Lemma dsort_shape mk base xs a cs :
  dsort mk base xs = (a, cs) ->
  List.length a = List.length xs
  /\ (forall ai, In ai a -> In (FOr (map (fun x => FEq ai x) xs)) cs)
  /\ In (FAnd (pairs_lt a)) cs.
Proof.
  unfold dsort. intros [= <- <-]. split; [now rewrite map_length, seq_length|]. split.
  - intros ai Hin. apply in_or_app. left. apply in_map_iff. eauto.
  - apply in_or_app. right. now left.
Qed.

Lemma events_times b : map ev_time (buf_events b) = buf_times b.
Proof.
  unfold buf_events, buf_times. rewrite map_app, !map_map. f_equal; apply map_ext; intros [t q]; reflexivity.
Qed.

Lemma buffer_sound_basic e (b : bufrec) :
  (forall f, In f (buffer_block b) -> feval e f = true) ->
  forall k f, In (k, f) (spec_C09_basic b) -> feval e f = true.
Proof.
  intros H k f Hin. unfold spec_C09_basic in Hin. unfold buffer_block in H.
  destruct (if b_conc b then sort_dup _ _ else dsort _ 0 _) as [sorted sa] eqn:Hs.
  repeat (apply in_app_or in Hin as [Hin|Hin]).
  - destruct (b_init b) as [v|]; [|destruct Hin]. destruct Hin as [[= <- <-]|[]]. apply H. apply in_or_app. left. now left.
  - destruct (b_final b) as [v|]; [|destruct Hin]. destruct Hin as [[= <- <-]|[]]. apply H.
    do 3 (apply in_or_app; right). apply in_or_app. left. now left.
  - destruct (b_lo b) as [v|]; [|destruct Hin]. apply in_map_iff in Hin as (l & [= <- <-] & Hl).
    assert (Hf : feval e (FGe l (TC v)) = true).
    { apply H. do 4 (apply in_or_app; right). apply in_or_app. left. apply in_map_iff. eauto. }
    rewrite feval_eq in *. lia.
  - destruct (b_hi b) as [v|]; [|destruct Hin]. apply in_map_iff in Hin as (l & [= <- <-] & Hl).
    apply H. do 5 (apply in_or_app; right). apply in_or_app. left. apply in_map_iff. eauto.
  - destruct (buf_regular b && negb (b_conc b)) eqn:Hreg; [|destruct Hin].
    apply andb_true_iff in Hreg as [Hreg Hnc]. apply negb_true_iff in Hnc. rewrite Hnc in Hs.
    apply dsort_shape in Hs as (Hlen & Hmem & Hord).
    assert (Hl2 : List.length sorted = List.length (buf_changes b)).
    { unfold buf_regular in Hreg. apply andb_true_iff in Hreg as [Hr _]. apply Nat.eqb_eq in Hr.
      rewrite Hlen. unfold buf_times, buf_changes. rewrite app_length, !map_length. lia. }
    assert (Heq : forall s c, In (s, c) (combine sorted (buf_changes b)) -> teval e s = teval e c).
    { intros s c Hsc. apply feq_iff. apply H. do 2 (apply in_or_app; right). apply in_or_app. left.
      apply in_map_iff. exists (s, c). split; [reflexivity|exact Hsc]. }
    assert (Hsa : forall g, In g sa -> feval e g = true).
    { intros g Hg. apply H. apply in_or_app. right. apply in_or_app. now left. }
    apply in_app_or in Hin as [Hin|Hin].
    + (* change_is_access *)
      apply in_map_iff in Hin as (c & [= <- <-] & Hc).
      destruct (in_combine_r_ex sorted (buf_changes b) c Hl2 Hc) as (s & Hsc).
      assert (Hor := Hsa _ (Hmem s (in_combine_l _ _ _ _ Hsc))).
      rewrite feval_eq in Hor. apply existsb_exists in Hor as (g & Hg & Hgv).
      apply in_map_iff in Hg as (x & <- & Hx). apply feq_iff in Hgv.
      rewrite feval_eq. apply existsb_exists. rewrite <- events_times in Hx.
      apply in_map_iff in Hx as (ev & <- & Hev).
      exists (FEq c (ev_time ev)). split; [apply in_map_iff; eauto|]. apply feq_iff. rewrite <- (Heq s c Hsc). exact Hgv.
    + (* strictly increasing *)
      apply in_map_iff in Hin as ([c1 c2] & [= <- <-] & Hc).
      destruct (consecutive_combine sorted (buf_changes b) c1 c2 Hl2 Hc) as (s1 & s2 & Hss & H1 & H2).
      assert (Ha := Hsa _ Hord). rewrite feval_eq in Ha. rewrite forallb_forall in Ha.
      assert (Hlt : feval e (FLt s1 s2) = true) by (apply Ha; apply pairs_lt_consecutive; eauto).
      rewrite feval_eq in *. rewrite <- (Heq _ _ H1), <- (Heq _ _ H2). exact Hlt.
Qed.

