(* C16_proof.v -- the export layouts can be read back exactly. *)
From Coq Require Import ZArith List Bool Lia ZifyBool String.
From PS.model Require Import Smt Enc Ind Prog Solution Export.
From PS.proofs Require Import Base.
Import ListNotations.
Open Scope Z_scope.

(* data frame / CSV rows: every reported task field is there, row by row, in task order *)
Theorem df_roundtrip : forall s,
  map df_decode (df_rows s)
  = map (fun t => (ts_id t, ts_assigned t, ts_start t, ts_end t, ts_dur t, ts_sched t)) (so_tasks s).
Proof. intros s. unfold df_rows. rewrite map_map. reflexivity. Qed.

(* a bar of length >= 1 starting at a non-negative instant is read back exactly *)
Lemma bar_roundtrip row s e text : 1 <= e - s -> bar_decode (bar row s e text) = (row, text, s, e).
Proof.
  intros H. unfold bar, bar_decode. destruct (e - s >? 1) eqn:E; cbn [ce_row ce_text ce_c1 ce_c2]; repeat f_equal; lia.
Qed.
(* and it lies to the right of the name column (column 0) exactly when it starts at a non-negative instant *)
Lemma bar_right_of_names row s e text : 0 <= s -> 1 <= ce_c1 (bar row s e text).
Proof. intros H. unfold bar. destruct (e - s >? 1); cbn [ce_c1]; lia. Qed.

Lemma indexed_in {A} (l : list A) : forall i k x, In (k, x) (indexed i l) -> In x l.
Proof. induction l as [|a l IH]; intros i k x H; cbn in H; [contradiction|]. destruct H as [[= _ <-]|H]; [now left|right; eauto]. Qed.

(* Excel resource view: every bar decodes to the assignment it was written for, provided every listed assignment
   has length >= 1 (a zero-length assignment is written as one cell, like a unit-length one: known finding F25) *)
Theorem resource_sheet_roundtrip : forall s,
  (forall r t a b, In r (so_resources s) -> In (t, a, b) (rs_assignments r) -> 1 <= b - a) ->
  map bar_decode (resource_sheet s)
  = flat_map (fun '(i, r) => map (fun '(t, a, b) => (S i, show_task t, a, b)) (rs_assignments r)) (indexed 0 (so_resources s)).
Proof.
  intros s H. unfold resource_sheet.
  assert (G : forall l, (forall i r, In (i, r) l -> In r (so_resources s)) ->
    map bar_decode (flat_map (fun '(i, r) => map (fun '(t, a, b) => bar (S i) a b (show_task t)) (rs_assignments r)) l)
    = flat_map (fun '(i, r) => map (fun '(t, a, b) => (S i, show_task t, a, b)) (rs_assignments r)) l).
  { induction l as [|[i r] l IH]; intros Hl; cbn [flat_map]; [reflexivity|].
    rewrite map_app, IH by (intros; eapply Hl; right; eauto). f_equal.
    rewrite map_map. apply map_ext_in. intros [[t a] b] Hin. apply bar_roundtrip. eapply H; eauto. eapply Hl. now left. }
  apply G. intros i r Hin. eapply indexed_in; eauto.
Qed.

(* Excel task view: the bar of every task of length >= 1 decodes to its row, resources, start and end *)
Theorem task_sheet_roundtrip : forall s,
  (forall t, In t (so_tasks s) -> 1 <= ts_end t - ts_start t) ->
  map bar_decode (task_sheet s)
  = map (fun '(i, t) => (S i, join "," (map resobj_name (ts_assigned t)), ts_start t, ts_end t)) (indexed 0 (so_tasks s)).
Proof.
  intros s H. unfold task_sheet. rewrite map_map. apply map_ext_in. intros [i t] Hin. apply bar_roundtrip.
  apply H. eapply indexed_in; eauto.
Qed.

(* indicator sheet: names and values, row by row *)
Theorem indicator_sheet_roundtrip : forall s,
  map (fun '(_, k, v) => (k, v)) (indicator_sheet s) = so_indicators s.
Proof.
  intros s. unfold indicator_sheet. generalize 0%nat. induction (so_indicators s) as [|[k v] l IH]; intros n; cbn; [reflexivity|].
  now rewrite IH.
Qed.

(* two bars of one row written for disjoint intervals occupy disjoint cells (no assignment overwrites another) *)
Theorem disjoint_bars_do_not_overlap : forall row s1 e1 t1 s2 e2 t2 col,
  1 <= e1 - s1 -> 1 <= e2 - s2 -> (e1 <= s2 \/ e2 <= s1) ->
  covers (bar row s1 e1 t1) row col = true -> covers (bar row s2 e2 t2) row col = true -> False.
Proof.
  intros row s1 e1 t1 s2 e2 t2 col H1 H2 Hd. unfold covers, bar.
  destruct (e1 - s1 >? 1) eqn:E1, (e2 - s2 >? 1) eqn:E2; cbn [ce_row ce_c1 ce_c2]; rewrite Nat.eqb_refl; cbn [andb]; lia.
Qed.
