(* C05_proof.v -- no valid schedule is lost: completeness of the encoding on the fragment
   { tasks of the three kinds (optional or not, release dates, deadlines, duration bounds and lists),
     mandatory task constraints start/end at/after/before, precedence (lax/strict/tight, offset), synchronised
     starts / ends, and the optional-task rules force / dependency / force-N },
   without resources, buffers and indicators.  For every schedule that satisfies the Spec clauses there is a
   valuation of ALL the variables of the encoding (unscheduled tasks parked at their point in the past, the
   horizon variable set) that satisfies every assertion of initialize, and it coincides with the schedule on every
   acting task and on every flag. *)
From Coq Require Import ZArith List Bool Lia ZifyBool String.
From PS.model Require Import Smt Enc Ind Prog.
From PS.spec Require Import Spec.
From PS.proofs Require Import Base Cons_proof C01_proof Wf_proof.
Import ListNotations.
Open Scope Z_scope.

(* ---------------- the fragment ---------------- *)
Definition frag_c (e : rcexpr) : bool :=
  match e with
  | CStartAt _ _ | CStartAfter _ _ _ | CEndAt _ _ | CEndBefore _ _ _ | CPrecedence _ _ _ _
  | CStartSynced _ _ | CEndSynced _ _ | CForceSched _ _ | CDependency _ _ | CForceN _ _ _ => true
  | _ => false
  end.
Definition cons_tasks (e : rcexpr) : list tinfo :=
  match e with
  | CStartAt t _ | CStartAfter t _ _ | CEndAt t _ | CEndBefore t _ _ | CForceSched t _ => [t]
  | CPrecedence a b _ _ | CStartSynced a b | CEndSynced a b | CDependency a b | CDontOverlap a b => [a; b]
  | CForceN ts _ _ | CContiguous ts | CUGroup ts _ _ | COGroup ts _ _ _ | CScheduleN ts _ _ _ => ts
  | _ => []
  end.
Record fragment (st : pstate) : Prop := {
  fr_noreq : ps_areqs st = [] /\ ps_reqs st = [] /\ ps_workers st = [];
  fr_noext : x_inds (ps_ext st) = [] /\ x_bufs (ps_ext st) = [];
  fr_cons : forall c, In c (ps_cons st) -> c_flag c = false -> c_opt c = false /\ frag_c (c_expr c) = true
                      /\ (forall t, In t (cons_tasks (c_expr c)) -> In t (ps_tasks st));
  fr_nodup : NoDup (map ti_id (ps_tasks st));
  fr_rank : forall t, In t (ps_tasks st) -> 1 <= ti_rank t;
  fr_horizon : forall h, ps_horizon st = Some h -> 0 <= h }.

(* ---------------- the witness ---------------- *)
Definition parked (st : pstate) (e : env) (id : nat) : option tinfo :=
  match find_task st id with
  | Some t => if ti_opt t && negb (bv e (BSched id)) then Some t else None
  | None => None end.
Definition acting_ends (st : pstate) (e : env) : list Z :=
  map (fun t => iv e (VEnd (ti_id t))) (filter (fun t => negb (ti_opt t && negb (bv e (BSched (ti_id t))))) (ps_tasks st)).
Definition horizon_value (st : pstate) (e : env) : Z :=
  match ps_horizon st with Some h => h | None => fold_right Z.max 0 (acting_ends st e) end.
Definition park (st : pstate) (e : env) : env :=
  {| iv := fun x => match x with
                    | VStart id | VEnd id => match parked st e id with Some t => - ti_rank t | None => iv e x end
                    | VDur id => match parked st e id with Some _ => 0 | None => iv e x end
                    | VHorizon => horizon_value st e
                    | _ => iv e x end;
     bv := bv e; av := av e; fv := fv e |}.

Lemma find_task_in st t : NoDup (map ti_id (ps_tasks st)) -> In t (ps_tasks st) -> find_task st (ti_id t) = Some t.
Proof.
  unfold find_task. induction (ps_tasks st) as [|a l IH]; intros Hn Hin; [destruct Hin|].
  cbn [map] in Hn. inversion Hn as [|x xs Hx Hn']; subst. cbn [find]. destruct Hin as [->|Hin].
  - now rewrite Nat.eqb_refl.
  - destruct (Nat.eqb (ti_id a) (ti_id t)) eqn:E; [|auto].
    apply Nat.eqb_eq in E. exfalso. apply Hx. rewrite E. now apply in_map.
Qed.

Lemma fold_max_ge l : 0 <= fold_right Z.max 0 l /\ forall x, In x l -> x <= fold_right Z.max 0 l.
Proof.
  induction l as [|a l [IH0 IH]]; cbn [fold_right]; split; try lia.
  - intros ? [].
  - intros x [->|Hx]; [lia|specialize (IH x Hx); lia].
Qed.

Section Complete.
Variables (st : pstate) (e : env).
Hypothesis Hfr : fragment st.
(* the schedule is valid: every Spec clause about tasks, task constraints and optional-task rules holds *)
Hypothesis Hv1 : forall k f, In (k, f) (spec_C01 st) -> feval e f = true.
Hypothesis Hv3 : forall k f, In (k, f) (spec_C03 st) -> feval e f = true.
Hypothesis Hv6 : forall k f, In (k, f) (spec_C06_rules st) -> feval e f = true.

Let e' := park st e.

Lemma act_park t : feval e' (act t) = feval e (act t).
Proof. unfold act. destruct (ti_opt t); reflexivity. Qed.

Lemma not_parked t : In t (ps_tasks st) -> feval e (act t) = true -> parked st e (ti_id t) = None.
Proof.
  intros Hin Ha. unfold parked. rewrite (find_task_in st t (fr_nodup st Hfr) Hin).
  unfold act in Ha. destruct (ti_opt t); cbn in *; [rewrite Ha|]; reflexivity.
Qed.
Lemma is_parked t : In t (ps_tasks st) -> feval e (act t) = false -> parked st e (ti_id t) = Some t.
Proof.
  intros Hin Ha. unfold parked. rewrite (find_task_in st t (fr_nodup st Hfr) Hin).
  unfold act in Ha. destruct (ti_opt t); cbn in *; [rewrite Ha; reflexivity|discriminate].
Qed.

Lemma vals_acting t : In t (ps_tasks st) -> feval e (act t) = true ->
  iv e' (VStart (ti_id t)) = iv e (VStart (ti_id t)) /\ iv e' (VEnd (ti_id t)) = iv e (VEnd (ti_id t))
  /\ iv e' (VDur (ti_id t)) = iv e (VDur (ti_id t)).
Proof. intros Hin Ha. subst e'. cbn [park iv]. rewrite (not_parked t Hin Ha). auto. Qed.

(* the Spec clauses of one task, read on values *)
Lemma task_clauses t : In t (ps_tasks st) -> forall k f, In (k, f) (spec_C01_task st t) -> feval e f = true.
Proof.
  intros Hin k f Hf. apply (Hv1 (("C01/task:" ++ show_nat (ti_id t) ++ "/") ++ k)%string f).
  unfold spec_C01. apply in_flat_map. exists t. split; auto. unfold keyed. apply in_map_iff. exists (k, f). auto.
Qed.

(* an acting task satisfies its own assertions under the witness *)
Lemma acting_task_rules t : In t (ps_tasks st) -> feval e (act t) = true ->
  forall f, In f (task_window t ++ task_body t) -> feval e' f = true.
Proof.
  intros Hin Ha f Hf. destruct (vals_acting t Hin Ha) as (Hs & He & Hd).
  assert (Hw : forall k g, In (k, whenact t g) (spec_C01_task st t) -> feval e g = true).
  { intros k g Hg. pose proof (task_clauses t Hin _ _ Hg) as H. unfold whenact in H. rewrite feval_eq, Ha in H. exact H. }
  unfold spec_C01_task in Hw.
  assert (H1 := Hw "start_ge_0"%string (FLe (TC 0) (S_ t)) (or_introl eq_refl)).
  assert (H3 := Hw "duration"%string (spec_duration t) (or_intror (or_intror (or_introl eq_refl)))).
  cbn in H1.
  apply in_app_or in Hf as [Hf|Hf].
  - (* window *) unfold task_window in Hf. apply in_app_or in Hf as [Hf|Hf].
    + destruct (ti_release t) as [r|] eqn:Er; [|destruct Hf]. destruct (r >? 0) eqn:Hr; [|destruct Hf].
      destruct Hf as [<-|[]].
      assert (H4 := Hw "release"%string (FLe (TC r) (S_ t))). try rewrite Er in H4.
      assert (Hx : feval e (FLe (TC r) (S_ t)) = true) by (apply H4; apply in_or_app; right; apply in_or_app; left; now left).
      cbn in Hx. rewrite feval_eq. cbn [teval S_]. rewrite Hs. cbn. lia.
    + destruct (ti_due t) as [d|] eqn:Ed; [|destruct Hf]. destruct (ti_deadline t) eqn:Edl; [|destruct Hf].
      destruct Hf as [<-|[]].
      assert (H4 := Hw "deadline"%string (FLe (E_ t) (TC d))). try rewrite Ed in H4; try rewrite Edl in H4.
      assert (Hx : feval e (FLe (E_ t) (TC d)) = true) by (apply H4; apply in_or_app; right; apply in_or_app; right; now left).
      cbn in Hx. rewrite feval_eq. cbn [teval E_]. rewrite He. cbn. lia.
  - (* body *) unfold task_body in Hf. unfold spec_duration in H3. destruct (ti_kind t) as [|d|mn mx al].
    + cbn in H3. destruct Hf as [<-|[<-|[]]]; rewrite feval_eq; cbn [teval S_ E_]; rewrite ?Hs, ?He; cbn; lia.
    + cbn in H3. destruct Hf as [<-|[<-|[]]]; rewrite feval_eq; cbn [teval S_ E_]; rewrite ?(teval_eq e' (TSub _ _)); cbn [teval]; rewrite ?Hs, ?He; cbn; lia.
    + rewrite feval_eq in H3. rewrite forallb_forall in H3.
      assert (Ha1 := H3 (FEq (TSub (E_ t) (S_ t)) (D_ t)) (or_introl eq_refl)).
      assert (Ha2 := H3 (FLe (TC mn) (D_ t)) (or_intror (or_introl eq_refl))). cbn in Ha1, Ha2.
      repeat (apply in_app_or in Hf as [Hf|Hf]).
      * destruct Hf as [<-|[<-|[<-|[]]]]; rewrite feval_eq; cbn [teval S_ E_ D_ fold_right]; rewrite ?Hs, ?He, ?Hd; cbn; lia.
      * destruct al as [l|]; [|destruct Hf]. destruct Hf as [<-|[]].
        assert (Hal : feval e (FOr (map (fun a => FEq (D_ t) (TC a)) l)) = true).
        { apply H3. cbn. right. right. apply in_or_app. right. now left. }
        rewrite feval_eq in Hal. apply existsb_exists in Hal as (g & Hg & Hgv).
        apply in_map_iff in Hg as (a & <- & Hal). rewrite feval_eq. apply existsb_exists.
        exists (FEq (D_ t) (TC a)). split; [apply in_map_iff; eauto|]. cbn in Hgv. rewrite feval_eq. cbn [teval D_]. rewrite Hd. cbn. lia.
      * destruct mx as [m|]; [|destruct Hf]. destruct Hf as [<-|[]].
        assert (Hm : feval e (FLe (D_ t) (TC m)) = true).
        { apply H3. cbn. right. right. now left. }
        cbn in Hm. rewrite feval_eq. cbn [teval D_]. rewrite Hd. cbn. lia.
Qed.

Lemma task_core_holds t : In t (ps_tasks st) -> forall f, In f (task_core t) -> feval e' f = true.
Proof.
  intros Hin f Hf. unfold task_core in Hf. destruct (ti_opt t) eqn:Eo.
  - destruct Hf as [<-|[]]. rewrite feval_eq. change (feval e' (FB (BSched (ti_id t)))) with (bv e (BSched (ti_id t))).
    destruct (bv e (BSched (ti_id t))) eqn:Eb.
    + rewrite feval_eq. apply forallb_forall. apply (acting_task_rules t); auto. unfold act. rewrite Eo. exact Eb.
    + assert (Hp : parked st e (ti_id t) = Some t) by (apply is_parked; auto; unfold act; rewrite Eo; exact Eb).
      unfold task_unsched. rewrite feval_eq. apply forallb_forall. intros g Hg.
      apply in_app_or in Hg as [Hg|Hg].
      * destruct Hg as [<-|[<-|[]]]; rewrite feval_eq; subst e'; cbn [teval S_ E_ park iv]; rewrite Hp; cbn; lia.
      * destruct (is_var t); [|destruct Hg]. destruct Hg as [<-|[]]. rewrite feval_eq. subst e'. cbn [teval D_ park iv]. rewrite Hp. reflexivity.
  - apply (acting_task_rules t); auto. unfold act. now rewrite Eo.
Qed.

Lemma horizon_holds t : In t (ps_tasks st) -> feval e' (FLe (E_ t) (TV VHorizon)) = true.
Proof.
  intros Hin. rewrite feval_eq. cbn [teval E_]. subst e'. cbn [park iv].
  destruct (feval e (act t)) eqn:Ha.
  - rewrite (not_parked t Hin Ha). unfold horizon_value. destruct (ps_horizon st) as [h|] eqn:Eh.
    + assert (Hc : feval e (whenact t (FLe (E_ t) (horizon_t st))) = true).
      { apply (task_clauses t Hin "end_le_horizon"%string). unfold spec_C01_task. right. left. reflexivity. }
      unfold whenact in Hc. rewrite feval_eq, Ha in Hc. unfold horizon_t in Hc. rewrite Eh in Hc. cbn in Hc. lia.
    + destruct (fold_max_ge (acting_ends st e)) as [_ Hm]. apply Z.leb_le. apply Hm. unfold acting_ends.
      apply in_map_iff. exists t. split; [reflexivity|]. apply filter_In. split; [exact Hin|].
      unfold act in Ha. destruct (ti_opt t); cbn in *; [rewrite Ha|]; reflexivity.
  - rewrite (is_parked t Hin Ha). pose proof (fr_rank st Hfr t Hin) as Hr. unfold horizon_value.
    destruct (ps_horizon st) as [h|] eqn:Eh.
    + pose proof (fr_horizon st Hfr h Eh). lia.
    + destruct (fold_max_ge (acting_ends st e)) as [H0 _]. lia.
Qed.

(* guards under the witness *)
Lemma guard1_park t x : In t (ps_tasks st) ->
  (feval e (act t) = true -> feval e' x = true) -> feval e' (guard1 t x) = true.
Proof.
  intros Hin H. unfold guard1. destruct (ti_opt t) eqn:Eo.
  - rewrite feval_eq. change (sched_f t) with (act t). rewrite act_park. destruct (feval e (act t)); cbn; auto.
  - apply H. unfold act. now rewrite Eo.
Qed.
Lemma guard2_park a b x : In a (ps_tasks st) -> In b (ps_tasks st) ->
  (feval e (act a) = true -> feval e (act b) = true -> feval e' x = true) -> feval e' (guard2 a b x) = true.
Proof.
  intros Ha Hb H. unfold guard2. destruct (ti_opt a || ti_opt b) eqn:Eo.
  - rewrite feval_eq, (feval_eq e' (FAnd _)). cbn [forallb]. change (sched_f a) with (act a). change (sched_f b) with (act b).
    rewrite !act_park. destruct (feval e (act a)), (feval e (act b)); cbn; auto.
  - apply orb_false_iff in Eo as [Ea Eb]. apply H; unfold act; [now rewrite Ea|now rewrite Eb].
Qed.

Lemma cons_clause c k f : In c (ps_cons st) -> c_flag c = false -> c_opt c = false ->
  In (k, f) (spec_C03_P (c_expr c)) -> feval e f = true.
Proof.
  intros Hc Hfl Ho Hin. apply (Hv3 (ckey "C03" c k) f). unfold spec_C03, per_cons. apply in_flat_map. exists c. split; auto.
  unfold mandatory_live. rewrite Ho, Hfl. cbn. apply in_map_iff. exists (k, f). auto.
Qed.
Lemma rule_clause c k f : In c (ps_cons st) -> c_flag c = false -> c_opt c = false ->
  In (k, f) (spec_C06_P (c_expr c)) -> feval e f = true.
Proof.
  intros Hc Hfl Ho Hin. apply (Hv6 (ckey "C06" c k) f). unfold spec_C06_rules, per_cons. apply in_flat_map. exists c. split; auto.
  unfold mandatory_live. rewrite Ho, Hfl. cbn. apply in_map_iff. exists (k, f). auto.
Qed.

Lemma whenact_elim t g : feval e (whenact t g) = true -> feval e (act t) = true -> feval e g = true.
Proof. unfold whenact. rewrite feval_eq. intros H Ha. now rewrite Ha in H. Qed.
Lemma whenact2_elim a b g : feval e (whenact2 a b g) = true -> feval e (act a) = true -> feval e (act b) = true -> feval e g = true.
Proof. unfold whenact2. rewrite feval_eq, (feval_eq e (FAnd _)). cbn [forallb]. intros H Ha Hb. now rewrite Ha, Hb in H. Qed.

Lemma fcount_sched ts : fcount e' (map sched_f ts) = fcount e (map act ts).
Proof. induction ts as [|t ts IH]; [reflexivity|]. cbn [map]. rewrite !fcount_cons, IH. change (sched_f t) with (act t). now rewrite act_park. Qed.

Lemma constraint_holds c : In c (ps_cons st) -> c_flag c = false ->
  forall f, In f (conrec_asserts c) -> feval e' f = true.
Proof.
  intros Hc Hfl f Hf. destruct (fr_cons st Hfr c Hc Hfl) as (Ho & Hk & Htasks).
  unfold conrec_asserts, enc_cons in Hf. rewrite Ho, cemit_false in Hf.
  assert (Hcl := cons_clause c). assert (Hrl := rule_clause c).
  destruct (c_expr c) as [t v|t v s|t v|t v s|tb ta off pk|a b|a b|a b|ts|ts w l|ts w l pk|t b|t cd|a b|ts n pk|ts n ivs pk|g|cs n pk|x|xs|xs|x y|cd xs|cd xs ys|r ivs pk|r ivs|r ivs p s o en|r ivs|r ivs p s o en|r|r d ivs m|s1 s2|s1 s2|t b q|t b q|i v|i lo hi];
    try discriminate Hk; cbn [enc_raw app] in Hf; cbn [cons_tasks] in Htasks; cbn [spec_C03_P spec_C06_P] in Hcl, Hrl.
  - (* start at *) destruct Hf as [<-|[]]. assert (Ht : In t (ps_tasks st)) by (apply Htasks; now left).
    apply guard1_park; auto. intros Ha. pose proof (whenact_elim _ _ (Hcl _ _ Hc Hfl Ho (or_introl eq_refl)) Ha) as H.
    destruct (vals_acting t Ht Ha) as (Hs & _). cbn in H. rewrite feval_eq. cbn [teval S_]. rewrite Hs. cbn. lia.
  - (* start after *) destruct Hf as [<-|[]]. assert (Ht : In t (ps_tasks st)) by (apply Htasks; now left).
    apply guard1_park; auto. intros Ha. pose proof (whenact_elim _ _ (Hcl _ _ Hc Hfl Ho (or_introl eq_refl)) Ha) as H.
    destruct (vals_acting t Ht Ha) as (Hs & _). destruct s; cbn in H; rewrite feval_eq; cbn [teval S_]; rewrite Hs; cbn; lia.
  - (* end at *) destruct Hf as [<-|[]]. assert (Ht : In t (ps_tasks st)) by (apply Htasks; now left).
    apply guard1_park; auto. intros Ha. pose proof (whenact_elim _ _ (Hcl _ _ Hc Hfl Ho (or_introl eq_refl)) Ha) as H.
    destruct (vals_acting t Ht Ha) as (_ & He & _). cbn in H. rewrite feval_eq. cbn [teval E_]. rewrite He. cbn. lia.
  - (* end before *) destruct Hf as [<-|[]]. assert (Ht : In t (ps_tasks st)) by (apply Htasks; now left).
    apply guard1_park; auto. intros Ha. pose proof (whenact_elim _ _ (Hcl _ _ Hc Hfl Ho (or_introl eq_refl)) Ha) as H.
    destruct (vals_acting t Ht Ha) as (_ & He & _). destruct s; cbn in H; rewrite feval_eq; cbn [teval E_]; rewrite He; cbn; lia.
  - (* precedence *) destruct Hf as [<-|[]].
    assert (Hb : In tb (ps_tasks st)) by (apply Htasks; now left). assert (Ha' : In ta (ps_tasks st)) by (apply Htasks; right; now left).
    apply guard2_park; auto. intros Ha Hb'. pose proof (whenact2_elim _ _ _ (Hcl _ _ Hc Hfl Ho (or_introl eq_refl)) Ha Hb') as H.
    destruct (vals_acting tb Hb Ha) as (_ & He & _). destruct (vals_acting ta Ha' Hb') as (Hs & _).
    unfold nonneg_part in H. destruct (off >? 0) eqn:Eo; destruct pk; cbn [prec_rel] in *; rewrite feval_eq in H; rewrite feval_eq;
      cbn [teval S_ E_ fold_right] in *; rewrite ?Hs, ?He; lia.
  - (* start synced *) destruct Hf as [<-|[]].
    assert (Ha' : In a (ps_tasks st)) by (apply Htasks; now left). assert (Hb : In b (ps_tasks st)) by (apply Htasks; right; now left).
    apply guard2_park; auto. intros Ha Hb'. pose proof (whenact2_elim _ _ _ (Hcl _ _ Hc Hfl Ho (or_introl eq_refl)) Ha Hb') as H.
    destruct (vals_acting a Ha' Ha) as (Hs1 & _). destruct (vals_acting b Hb Hb') as (Hs2 & _).
    cbn in H. rewrite feval_eq. cbn [teval S_]. rewrite Hs1, Hs2. cbn. lia.
  - (* end synced *) destruct Hf as [<-|[]].
    assert (Ha' : In a (ps_tasks st)) by (apply Htasks; now left). assert (Hb : In b (ps_tasks st)) by (apply Htasks; right; now left).
    apply guard2_park; auto. intros Ha Hb'. pose proof (whenact2_elim _ _ _ (Hcl _ _ Hc Hfl Ho (or_introl eq_refl)) Ha Hb') as H.
    destruct (vals_acting a Ha' Ha) as (_ & He1 & _). destruct (vals_acting b Hb Hb') as (_ & He2 & _).
    cbn in H. rewrite feval_eq. cbn [teval E_]. rewrite He1, He2. cbn. lia.
  - (* force schedule *) destruct Hf as [<-|[]]. pose proof (Hrl _ _ Hc Hfl Ho (or_introl eq_refl)) as H.
    rewrite feval_eq in *. change (sched_f t) with (act t). rewrite act_park. destruct b; exact H.
  - (* dependency *) destruct Hf as [<-|[]]. pose proof (Hrl _ _ Hc Hfl Ho (or_introl eq_refl)) as H.
    rewrite feval_eq in *. change (sched_f a) with (act a). change (sched_f b) with (act b). rewrite !act_park. exact H.
  - (* force n *) destruct Hf as [<-|[]]. pose proof (Hrl _ _ Hc Hfl Ho (or_introl eq_refl)) as H.
    destruct pk; cbn [pb] in *; rewrite feval_eq in *; rewrite fcount_sched; exact H.
Qed.

Theorem witness_satisfies : sat e' (initialize st).
Proof.
  destruct (fr_noreq st Hfr) as (Har & Hrq & Hw). destruct (fr_noext st Hfr) as (Hi & Hb).
  unfold initialize. rewrite Hw, Hi, Hb. cbn [flat_map app].
  apply sat_app. split; [|apply sat_app; split; [|apply sat_app; split]].
  - apply sat_flat_map. intros t Hin. apply sat_app. split.
    + apply sat_tagged. intros f Hf. unfold task_asserts, areqs_of, get_list in Hf. rewrite Har in Hf. cbn in Hf.
      rewrite app_nil_r in Hf. now apply (task_core_holds t).
    + intros g f [[= <- <-]|[]]. now apply (horizon_holds t).
  - apply sat_flat_map. intros c Hc. destruct (c_flag c) eqn:Hfl; [intros ? ? []|].
    apply sat_tagged. now apply (constraint_holds c).
  - apply sat_flat_map. intros t Hin. apply sat_tagged. intros f Hf.
    unfold work_assert, reqs_of, get_list in Hf. rewrite Hrq in Hf. cbn in Hf. destruct (ti_work t >? 0); destruct Hf.
  - destruct (ps_horizon st) as [h|] eqn:Eh; [|intros ? ? []]. intros g f [[= <- <-]|[]].
    rewrite feval_eq. subst e'. cbn [teval park iv]. unfold horizon_value. rewrite Eh. cbn. lia.
Qed.

(* the witness is the same schedule: same flags, same times for every acting task *)
Theorem witness_same_schedule :
  bv e' = bv e /\ forall t, In t (ps_tasks st) -> feval e (act t) = true ->
    iv e' (VStart (ti_id t)) = iv e (VStart (ti_id t)) /\ iv e' (VEnd (ti_id t)) = iv e (VEnd (ti_id t))
    /\ iv e' (VDur (ti_id t)) = iv e (VDur (ti_id t)).
Proof. split; [reflexivity|]. intros t Hin Ha. now apply vals_acting. Qed.
End Complete.

Theorem complete_on_fragment : forall st e,
  fragment st ->
  (forall k f, In (k, f) (spec_C01 st) -> feval e f = true) ->
  (forall k f, In (k, f) (spec_C03 st) -> feval e f = true) ->
  (forall k f, In (k, f) (spec_C06_rules st) -> feval e f = true) ->
  exists e', sat e' (initialize st) /\ bv e' = bv e
    /\ forall t, In t (ps_tasks st) -> feval e (act t) = true ->
         iv e' (VStart (ti_id t)) = iv e (VStart (ti_id t)) /\ iv e' (VEnd (ti_id t)) = iv e (VEnd (ti_id t))
         /\ iv e' (VDur (ti_id t)) = iv e (VDur (ti_id t)).
Proof.
  intros st e Hfr H1 H3 H6. exists (park st e). split; [now apply witness_satisfies|].
  now apply witness_same_schedule.
Qed.
