(* C14_proof.v -- meaning is independent of earlier problems, of declaration order and of task numbers. *)
From Coq Require Import ZArith List Bool Lia String Permutation.
From PS.model Require Import Smt Enc Ind Prog.
From PS.spec Require Import Spec.
From PS.proofs Require Import Base Cons_proof C01_proof C05_proof.
Import ListNotations.
Open Scope Z_scope.

(* ---------------- earlier problems ---------------- *)
(* outcome of a run, forgetting at which position an error occurred *)
Definition outcome (r : runres) : option (option pstate) :=
  match r with RunOk st => Some st | _ => None end.

Lemma run_from_new_problem st1 st2 i j h ops :
  outcome (run_from st1 i (ONewProblem h :: ops)) = outcome (run_from st2 j (ONewProblem h :: ops)).
Proof.
  cbn [run_from step]. destruct (step_problem (empty_problem None) (ONewProblem h)) as [s| |]; try reflexivity.
  generalize (Some s). generalize (S i), (S j). induction ops as [|o ops IH]; intros a b s0; cbn [run_from]; [reflexivity|].
  destruct (step s0 o); try reflexivity. apply IH.
Qed.

Lemma run_from_app pre : forall st i rest,
  run_from st i (pre ++ rest) =
  match run_from st i pre with RunOk st' => run_from st' (i + List.length pre) rest | r => r end.
Proof.
  induction pre as [|o pre IH]; intros st i rest; cbn [app run_from List.length].
  - now rewrite Nat.add_0_r.
  - destruct (step st o); try reflexivity. rewrite IH. replace (S i + List.length pre)%nat with (i + S (List.length pre))%nat by lia. reflexivity.
Qed.

(* whatever was built before (any program that ran without error), a new SchedulingProblem followed by ops gives
   the state it gives in a fresh process *)
Theorem fresh_problem : forall pre h ops st,
  run pre = RunOk st ->
  outcome (run (pre ++ ONewProblem h :: ops)) = outcome (run (ONewProblem h :: ops)).
Proof.
  intros pre h ops st Hpre. unfold run in *. rewrite run_from_app, Hpre. apply run_from_new_problem.
Qed.

(* ---------------- declaration order and task numbers ---------------- *)
Definition valid (st : pstate) (e : env) : Prop :=
  forall k f, In (k, f) (spec_C01 st ++ spec_C03 st ++ spec_C06_rules st ++ spec_C04 st ++ spec_C10 st) -> feval e f = true.

Lemma in_flat_map_perm {A B} (F : A -> list B) l1 l2 y : Permutation l1 l2 -> In y (flat_map F l1) -> In y (flat_map F l2).
Proof.
  intros Hp Hin. apply in_flat_map in Hin as (x & Hx & Hy). apply in_flat_map. exists x. split; [|exact Hy].
  eapply Permutation_in; eauto.
Qed.

Lemma per_cons_perm p F st1 st2 y : Permutation (ps_cons st1) (ps_cons st2) -> In y (per_cons p F st1) -> In y (per_cons p F st2).
Proof. unfold per_cons. apply in_flat_map_perm. Qed.

Lemma spec_C01_perm st1 st2 y : ps_horizon st1 = ps_horizon st2 -> Permutation (ps_tasks st1) (ps_tasks st2) ->
  In y (spec_C01 st1) -> In y (spec_C01 st2).
Proof.
  intros Hh Hp Hin. unfold spec_C01 in *. apply in_flat_map in Hin as (t & Ht & Hy). apply in_flat_map. exists t.
  split; [eapply Permutation_in; eauto|]. unfold spec_C01_task, horizon_t in *. now rewrite <- Hh.
Qed.

(* the Spec of a problem does not depend on the order in which its tasks and constraints were declared *)
Theorem valid_order_independent : forall st1 st2 e,
  ps_horizon st1 = ps_horizon st2 ->
  Permutation (ps_tasks st1) (ps_tasks st2) -> Permutation (ps_cons st1) (ps_cons st2) ->
  valid st1 e -> valid st2 e.
Proof.
  intros st1 st2 e Hh Ht Hc Hv k f Hin. apply (Hv k f).
  apply in_app_or in Hin as [Hin|Hin]; [apply in_or_app; left; apply (spec_C01_perm st2 st1); [symmetry; exact Hh|apply Permutation_sym; exact Ht|exact Hin]|].
  apply in_or_app; right.
  apply in_app_or in Hin as [Hin|Hin]; [apply in_or_app; left; apply (per_cons_perm _ _ st2 st1); [apply Permutation_sym; exact Hc|exact Hin]|].
  apply in_or_app; right.
  apply in_app_or in Hin as [Hin|Hin]; [apply in_or_app; left; apply (per_cons_perm _ _ st2 st1); [apply Permutation_sym; exact Hc|exact Hin]|].
  apply in_or_app; right.
  apply in_app_or in Hin as [Hin|Hin]; [apply in_or_app; left; apply (per_cons_perm _ _ st2 st1); [apply Permutation_sym; exact Hc|exact Hin]|].
  apply in_or_app; right. apply (per_cons_perm _ _ st2 st1); [apply Permutation_sym; exact Hc|exact Hin].
Qed.

(* nor on the task numbers (creation ranks): the clauses about a task are those of the same task with any other number *)
Definition with_rank (t : tinfo) (r : Z) : tinfo :=
  {| ti_id := ti_id t; ti_rank := r; ti_kind := ti_kind t; ti_opt := ti_opt t; ti_work := ti_work t;
     ti_release := ti_release t; ti_due := ti_due t; ti_deadline := ti_deadline t; ti_prio := ti_prio t |}.
Theorem task_clauses_rank_independent : forall st t r, spec_C01_task st (with_rank t r) = spec_C01_task st t.
Proof. intros st t r. reflexivity. Qed.
Theorem unary_constraint_clauses_rank_independent : forall t r v s,
  spec_C03_P (CStartAt (with_rank t r) v) = spec_C03_P (CStartAt t v)
  /\ spec_C03_P (CStartAfter (with_rank t r) v s) = spec_C03_P (CStartAfter t v s)
  /\ spec_C03_P (CEndAt (with_rank t r) v) = spec_C03_P (CEndAt t v)
  /\ spec_C03_P (CEndBefore (with_rank t r) v s) = spec_C03_P (CEndBefore t v s).
Proof. intros. repeat split; reflexivity. Qed.
Theorem binary_constraint_clauses_rank_independent : forall a b ra rb off k,
  spec_C03_P (CPrecedence (with_rank a ra) (with_rank b rb) off k) = spec_C03_P (CPrecedence a b off k)
  /\ spec_C03_P (CStartSynced (with_rank a ra) (with_rank b rb)) = spec_C03_P (CStartSynced a b)
  /\ spec_C03_P (CEndSynced (with_rank a ra) (with_rank b rb)) = spec_C03_P (CEndSynced a b)
  /\ spec_C03_P (CDontOverlap (with_rank a ra) (with_rank b rb)) = spec_C03_P (CDontOverlap a b).
Proof. intros. repeat split; reflexivity. Qed.

(* ---------------- the sandwich: on the fragment where the encoding is proved sound AND complete, two
   presentations of a problem with the same Spec admit the same schedules ---------------- *)
Definition fragment_valid (st : pstate) (e : env) : Prop :=
  (forall k f, In (k, f) (spec_C01 st) -> feval e f = true)
  /\ (forall k f, In (k, f) (spec_C03 st) -> feval e f = true)
  /\ (forall k f, In (k, f) (spec_C06_rules st) -> feval e f = true).

Theorem same_spec_same_schedules : forall st1 st2,
  fragment st2 ->
  (forall e, fragment_valid st1 e -> fragment_valid st2 e) ->
  forall e1, sat e1 (initialize st1) ->
  exists e2, sat e2 (initialize st2) /\ bv e2 = bv e1
    /\ forall t, In t (ps_tasks st2) -> feval e1 (act t) = true ->
         iv e2 (VStart (ti_id t)) = iv e1 (VStart (ti_id t)) /\ iv e2 (VEnd (ti_id t)) = iv e1 (VEnd (ti_id t))
         /\ iv e2 (VDur (ti_id t)) = iv e1 (VDur (ti_id t)).
Proof.
  intros st1 st2 Hf2 Hsame e1 Hs.
  assert (Hv1 : fragment_valid st1 e1).
  { split; [|split]; intros k f Hin.
    - eapply C01_timing_sound; eauto.
    - eapply C03_sound; eauto.
    - eapply C06_rules_sound; eauto. }
  destruct (Hsame e1 Hv1) as (H1 & H3 & H6).
  exact (complete_on_fragment st2 e1 Hf2 H1 H3 H6).
Qed.
