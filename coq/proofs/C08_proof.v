(* C08_proof.v -- every indicator equals its documented definition (soundness of the indicator encoders
   against Spec.spec_C08), for all states and all valuations admitted by the assertion set. *)
From Coq Require Import ZArith List Bool Lia ZifyBool String.
From PS.model Require Import Smt Enc Ind Prog.
From PS.spec Require Import Spec.
From PS.proofs Require Import Base Cons_proof.
Import ListNotations.
Open Scope Z_scope.

Ltac Zify.zify_post_hook ::= Z.to_euclidean_division_equations.

Lemma teval_tadd e l : teval e (TAdd l) = tsum e l.
Proof. reflexivity. Qed.

Lemma tsum_map_ext {A} e (f g : A -> term) l :
  (forall x, In x l -> teval e (f x) = teval e (g x)) -> tsum e (map f l) = tsum e (map g l).
Proof.
  induction l as [|a l IH]; intros H; cbn [map]; [reflexivity|].
  rewrite !tsum_cons. rewrite (H a (or_introl eq_refl)), IH; [reflexivity|]. intros x Hx. apply H. now right.
Qed.

Lemma feq_iff e a b : feval e (FEq a b) = true <-> teval e a = teval e b.
Proof. rewrite feval_eq. apply Z.eqb_eq. Qed.

Lemma forall_fand e l : (forall f, In f l -> feval e f = true) -> feval e (FAnd l) = true.
Proof. intros H. rewrite feval_eq. apply forallb_forall. exact H. Qed.

(* get_maximum / get_minimum *)
Lemma get_maximum_sound e m (l : list term) :
  (forall f, In f (get_maximum m l) -> feval e f = true) ->
  (forall x, In x l -> teval e x <= teval e m) /\ (exists x, In x l /\ teval e m = teval e x).
Proof.
  unfold get_maximum. intros H. split.
  - intros x Hx. assert (Hf : feval e (FGe m x) = true) by (apply H; right; apply in_map_iff; eauto).
    rewrite feval_eq in Hf. lia.
  - assert (Hf := H _ (or_introl eq_refl)). rewrite feval_eq in Hf. apply existsb_exists in Hf as (f & Hin & Hf).
    apply in_map_iff in Hin as (x & <- & Hx). exists x. split; auto. now apply feq_iff.
Qed.
Lemma get_minimum_sound e m (l : list term) :
  (forall f, In f (get_minimum m l) -> feval e f = true) ->
  (forall x, In x l -> teval e m <= teval e x) /\ (exists x, In x l /\ teval e m = teval e x).
Proof.
  unfold get_minimum. intros H. split.
  - intros x Hx. assert (Hf : feval e (FLe m x) = true) by (apply H; right; apply in_map_iff; eauto).
    rewrite feval_eq in Hf. lia.
  - assert (Hf := H _ (or_introl eq_refl)). rewrite feval_eq in Hf. apply existsb_exists in Hf as (f & Hin & Hf).
    apply in_map_iff in Hin as (x & <- & Hx). exists x. split; auto. now apply feq_iff.
Qed.

(* spec shape: bound + attained, for a maximum over (map g ts) *)
Lemma max_spec {A} e (I : term) (g : A -> term) (ts : list A) v :
  teval e I = v ->
  (forall x, In x (map g ts) -> teval e x <= v) -> (exists x, In x (map g ts) /\ v = teval e x) ->
  feval e (FAnd (map (fun t => FLe (g t) I) ts)) = true /\ feval e (FOr (map (fun t => FEq I (g t)) ts)) = true.
Proof.
  intros HI Hb (x & Hx & Hv). split.
  - apply forall_fand. intros f Hf. apply in_map_iff in Hf as (t & <- & Ht). rewrite feval_eq.
    specialize (Hb (g t) (in_map g ts t Ht)). lia.
  - rewrite feval_eq. apply existsb_exists. apply in_map_iff in Hx as (t & <- & Ht).
    exists (FEq I (g t)). split; [apply in_map_iff; eauto|]. apply feq_iff. lia.
Qed.
Lemma min_spec {A} e (I : term) (g : A -> term) (ts : list A) v :
  teval e I = v ->
  (forall x, In x (map g ts) -> v <= teval e x) -> (exists x, In x (map g ts) /\ v = teval e x) ->
  feval e (FAnd (map (fun t => FLe I (g t)) ts)) = true /\ feval e (FOr (map (fun t => FEq I (g t)) ts)) = true.
Proof.
  intros HI Hb (x & Hx & Hv). split.
  - apply forall_fand. intros f Hf. apply in_map_iff in Hf as (t & <- & Ht). rewrite feval_eq.
    specialize (Hb (g t) (in_map g ts t Ht)). lia.
  - rewrite feval_eq. apply existsb_exists. apply in_map_iff in Hx as (t & <- & Ht).
    exists (FEq I (g t)). split; [apply in_map_iff; eauto|]. apply feq_iff. lia.
Qed.

(* ---- resource cost: the two accumulators of the Python loops, as sums ---- *)
Definition entry_const (e : env) (rc : rcsnap) (wb : wref * busyent) : Z :=
  match cost_of rc (fst wb) with
  | CostConst v => v * (teval e (bev (fst wb) (snd wb)) - teval e (bsv (fst wb) (snd wb)))
  | _ => 0 end.
Definition entry_var (e : env) (rc : rcsnap) (wb : wref * busyent) : Z :=
  match cost_of rc (fst wb) with
  | CostConst _ => 0
  | c => teval e (cost_area2 c (bsv (fst wb) (snd wb)) (bev (fst wb) (snd wb))) end.
Definition zsum {A} (f : A -> Z) (l : list A) : Z := fold_right (fun a acc => f a + acc) 0 l.

Lemma zsum_cons {A} (f : A -> Z) a l : zsum f (a :: l) = f a + zsum f l.
Proof. reflexivity. Qed.
Lemma zsum_nil {A} (f : A -> Z) : zsum f [] = 0.
Proof. reflexivity. Qed.
Lemma zsum_app {A} (f : A -> Z) l1 l2 : zsum f (l1 ++ l2) = zsum f l1 + zsum f l2.
Proof. unfold zsum. induction l1 as [|a l IH]; cbn [app fold_right]; [reflexivity|]. rewrite IH. lia. Qed.

Lemma resource_fold e rc l : forall cc vc cc' vc',
  fold_left (fun '(cc, vc) '(w, b) =>
      let lo := bsv w b in let up := bev w b in
      match cost_of rc w with
      | CostConst v =>
          if v =? 0 then (cc, vc)
          else if v =? 1 then (cc ++ [TSub up lo], vc)
          else (cc ++ [TMul (TC v) (TSub up lo)], vc)
      | c => (cc, vc ++ [TMul (TAdd [cost_apply c lo; cost_apply c up]) (TSub up lo)])
      end) l (cc, vc) = (cc', vc') ->
  tsum e cc' = tsum e cc + zsum (entry_const e rc) l /\ tsum e vc' = tsum e vc + zsum (entry_var e rc) l.
Proof.
  induction l as [|[w b] l IH]; intros cc vc cc' vc' H; cbn [fold_left] in H.
  - injection H as <- <-. unfold zsum. cbn [fold_right]. split; lia.
  - rewrite !zsum_cons. unfold entry_const at 1, entry_var at 1. cbn [fst snd].
    destruct (cost_of rc w) as [v|s i|cs] eqn:Hc; cbv iota beta.
    + destruct (v =? 0) eqn:H0; [apply Z.eqb_eq in H0; subst v|destruct (v =? 1) eqn:H1; [apply Z.eqb_eq in H1; subst v|]];
        apply IH in H as [Ha Hb]; rewrite Ha, Hb;
        rewrite ?tsum_app, ?tsum_cons, ?tsum_nil.
      * split; lia.
      * rewrite (teval_eq e (TSub _ _)). split; lia.
      * rewrite (teval_eq e (TMul _ _)), (teval_eq e (TSub _ _)), (teval_eq e (TC _)). split; lia.
    + apply IH in H as [Ha Hb]. rewrite Ha, Hb. rewrite tsum_app, tsum_cons, tsum_nil. unfold cost_area2. split; lia.
    + apply IH in H as [Ha Hb]. rewrite Ha, Hb. rewrite tsum_app, tsum_cons, tsum_nil. unfold cost_area2. split; lia.
Qed.

Lemma cost_fold e rs : forall cc vc cc' vc',
  fold_left (fun '(cc, vc) r => let '(c1, v1) := resource_cost_terms r in (cc ++ c1, vc ++ v1)) rs (cc, vc) = (cc', vc') ->
  tsum e cc' = tsum e cc + zsum (fun rc => zsum (entry_const e rc) (all_busy (rc_snap rc))) rs
  /\ tsum e vc' = tsum e vc + zsum (fun rc => zsum (entry_var e rc) (all_busy (rc_snap rc))) rs.
Proof.
  induction rs as [|rc rs IH]; intros cc vc cc' vc' H; cbn [fold_left] in H.
  - injection H as <- <-. unfold zsum. cbn [fold_right]. split; lia.
  - destruct (resource_cost_terms rc) as [c1 v1] eqn:Hr. unfold resource_cost_terms in Hr.
    apply (resource_fold e) in Hr as [H1 H2]. apply IH in H as [Ha Hb]. rewrite Ha, Hb, !tsum_app, H1, H2.
    rewrite !zsum_cons, !tsum_nil. split; lia.
Qed.

(* the spec's doubled sums over the flattened entry list *)
Lemma spec_sums e rs :
  tsum e (map (fun '(c, lo, up) => if is_const c then TMul (TC 2) (TMul (TC (const_val c)) (TSub up lo)) else TC 0)
              (flat_map (fun rc => map (fun '(w, b) => (cost_of rc w, bsv w b, bev w b)) (all_busy (rc_snap rc))) rs))
  = 2 * zsum (fun rc => zsum (entry_const e rc) (all_busy (rc_snap rc))) rs
  /\ tsum e (map (fun '(c, lo, up) => if is_const c then TC 0 else cost_area2 c lo up)
              (flat_map (fun rc => map (fun '(w, b) => (cost_of rc w, bsv w b, bev w b)) (all_busy (rc_snap rc))) rs))
  = zsum (fun rc => zsum (entry_var e rc) (all_busy (rc_snap rc))) rs.
Proof.
  induction rs as [|rc rs [IH1 IH2]]; cbn [flat_map map]; [split; reflexivity|].
  rewrite !zsum_cons, !map_app, !tsum_app, IH1, IH2.
  assert (H : forall l,
    tsum e (map (fun '(c, lo, up) => if is_const c then TMul (TC 2) (TMul (TC (const_val c)) (TSub up lo)) else TC 0)
                (map (fun '(w, b) => (cost_of rc w, bsv w b, bev w b)) l)) = 2 * zsum (entry_const e rc) l
    /\ tsum e (map (fun '(c, lo, up) => if is_const c then TC 0 else cost_area2 c lo up)
                (map (fun '(w, b) => (cost_of rc w, bsv w b, bev w b)) l)) = zsum (entry_var e rc) l).
  { induction l as [|[w b] l [Ha Hb]]; cbn [map]; [split; reflexivity|].
    rewrite !zsum_cons, !tsum_cons, Ha, Hb. unfold entry_const at 2, entry_var at 2. cbn [fst snd].
    destruct (cost_of rc w); cbn [is_const const_val];
      rewrite ?(teval_eq e (TMul _ _)), ?(teval_eq e (TSub _ _)), ?(teval_eq e (TC _)); split; lia. }
  destruct (H (all_busy (rc_snap rc))) as [Ha Hb]. rewrite Ha, Hb. split; lia.
Qed.

(* ---- evaluation helpers ---- *)
Lemma ev_tc e z : teval e (TC z) = z. Proof. reflexivity. Qed.
Lemma ev_tv e x : teval e (TV x) = iv e x. Proof. reflexivity. Qed.
Lemma ev_sub e a b : teval e (TSub a b) = teval e a - teval e b. Proof. reflexivity. Qed.
Lemma ev_mul e a b : teval e (TMul a b) = teval e a * teval e b. Proof. reflexivity. Qed.
Lemma ev_div e a b : teval e (TDiv a b) = teval e a / teval e b. Proof. reflexivity. Qed.
Lemma ev_ite e c a b : teval e (TIte c a b) = if feval e c then teval e a else teval e b. Proof. reflexivity. Qed.
Lemma ev_le e a b : feval e (FLe a b) = (teval e a <=? teval e b). Proof. reflexivity. Qed.
Lemma ev_lt e a b : feval e (FLt a b) = (teval e a <? teval e b). Proof. reflexivity. Qed.
Lemma ev_ge e a b : feval e (FGe a b) = (teval e a >=? teval e b). Proof. reflexivity. Qed.
Lemma ev_gt e a b : feval e (FGt a b) = (teval e a >? teval e b). Proof. reflexivity. Qed.
Lemma ev_not e f : feval e (FNot f) = negb (feval e f). Proof. reflexivity. Qed.
Lemma ev_and2 e a b : feval e (FAnd [a; b]) = feval e a && feval e b.
Proof. rewrite feval_eq. cbn [forallb]. now rewrite andb_true_r. Qed.
Lemma ev_or2 e a b : feval e (FOr [a; b]) = feval e a || feval e b.
Proof. rewrite feval_eq. cbn [existsb]. now rewrite orb_false_r. Qed.
Ltac ev := rewrite ?ev_ite, ?ev_and2, ?ev_or2, ?ev_not, ?ev_le, ?ev_lt, ?ev_ge, ?ev_gt, ?ev_sub, ?ev_mul, ?ev_div, ?ev_tc.
Lemma when_t_eval e c x : teval e (when_t c x) = if feval e c then teval e x else 0.
Proof. reflexivity. Qed.
Lemma t_pos_eval e x : teval e (t_pos x) = Z.max 0 (teval e x).
Proof. unfold t_pos, t_max. rewrite teval_eq, feval_eq, (teval_eq e (TC 0)). destruct (0 <=? teval e x) eqn:H; lia. Qed.
Lemma act_eval e t : feval e (act t) = if ti_opt t then bv e (BSched (ti_id t)) else true.
Proof. unfold act. destruct (ti_opt t); reflexivity. Qed.
Lemma sched_mul_eval e t x : teval e (sched_mul t x) = if feval e (act t) then teval e x else 0.
Proof. unfold sched_mul. rewrite act_eval. destruct (ti_opt t); reflexivity. Qed.

Lemma all_mandatory_act e ts t : all_mandatory ts = true -> In t ts -> feval e (act t) = true.
Proof.
  unfold all_mandatory. intros H Hin. rewrite forallb_forall in H. specialize (H t Hin).
  rewrite act_eval. destruct (ti_opt t); [discriminate|reflexivity].
Qed.

(* ---- one indicator ---- *)
Lemma ind_sound e (r : indrec) :
  (forall f, In f (ind_asserts r) -> feval e f = true) ->
  forall k f, In (k, f) (spec_C08_P r) -> feval e f = true.
Proof.
  unfold ind_asserts, spec_C08_P. intros H k f Hin.
  destruct (i_expr r) as [t|rc|rc|rc|ts|ts|ts|ts|rs|b|b|ts|ts| |ts| |rc iv]; cbn [enc_ind] in H.
  - (* expression *) destruct Hin as [[= <- <-]|[]]. apply H. now left.
  - (* utilization *) destruct Hin as [[= <- <-]|[]].
    assert (H1 := H _ (or_introl eq_refl)). apply feq_iff in H1.
    rewrite (teval_eq e (TDiv _ _)), (teval_eq e (TMul _ _)), teval_tadd, (teval_eq e (TC 100)) in H1.
    rewrite (teval_eq e (TV _)) in H1.
    rewrite feval_eq, (feval_eq e (FLt _ _)), (feval_eq e (FAnd _)). cbn [forallb].
    rewrite (feval_eq e (FLe _ _)), (feval_eq e (FLt _ _)).
    rewrite !(teval_eq e (TMul _ _)), !teval_tadd, !tsum_cons, tsum_nil, !(teval_eq e (TC _)), !(teval_eq e (TV _)).
    unfold horizon_of. set (S := tsum e _) in *.
    destruct (i_hz r) as [h|]; rewrite ?(teval_eq e (TC _)), ?(teval_eq e (TV _)) in *; rewrite H1; nia.
  - (* number of tasks assigned *) destruct Hin as [[= <- <-]|[]].
    assert (H1 := H _ (or_introl eq_refl)). apply feq_iff in H1. apply feq_iff. rewrite H1, !teval_tadd.
    apply tsum_map_ext. intros [s x] _. unfold when_t. ev.
    destruct (teval e s >? -1) eqn:Ha, (0 <=? teval e s) eqn:Hb; lia.
  - (* idle: swept only *) destruct Hin.
  - (* tardiness *) destruct Hin as [[= <- <-]|[]].
    assert (H1 := H _ (or_introl eq_refl)). apply feq_iff in H1. apply feq_iff. rewrite H1, !teval_tadd.
    apply tsum_map_ext. intros t _. unfold when_t, lateness. change (sched_f t) with (act t). ev.
    destruct (feval e (act t)); cbn [negb orb andb];
      destruct (teval e (E_ t) <=? due_of t) eqn:Ha, (due_of t <? teval e (E_ t)) eqn:Hb; cbn [negb orb andb]; lia.
  - (* earliness *) destruct Hin as [[= <- <-]|[]].
    assert (H1 := H _ (or_introl eq_refl)). apply feq_iff in H1. apply feq_iff. rewrite H1, !teval_tadd.
    apply tsum_map_ext. intros t _. rewrite when_t_eval, t_pos_eval. change (sched_f t) with (act t). ev.
    destruct (feval e (act t)); rewrite ?andb_true_r, ?andb_false_r;
      [destruct (due_of t - teval e (E_ t) >=? 0) eqn:Ha; lia | reflexivity].
  - (* number of tardy tasks *) destruct (all_mandatory _); [|destruct Hin]. destruct Hin as [[= <- <-]|[]].
    assert (H1 := H _ (or_introl eq_refl)). apply feq_iff in H1. apply feq_iff. rewrite H1, !teval_tadd.
    apply tsum_map_ext. intros t _. unfold when_t. ev.
    destruct (teval e (E_ t) >? due_of t) eqn:Ha, (due_of t <? teval e (E_ t)) eqn:Hb; lia.
  - (* maximum lateness *) destruct (all_mandatory _); [|destruct Hin].
    apply get_maximum_sound in H as [Hb Ha].
    destruct (max_spec e (TV (VInd (i_id r))) lateness (tasks_of (i_all r) ts) _ eq_refl Hb) as [H1 H2].
    { destruct Ha as (x & Hx & Hv). exists x. split; auto. }
    destruct Hin as [[= <- <-]|[[= <- <-]|[]]]; assumption.
  - (* cost *) destruct Hin as [[= <- <-]|[]].
    destruct (fold_left _ rs ([], [])) as [cc vc] eqn:Hf.
    apply (cost_fold e) in Hf as [Hc Hv]. rewrite tsum_nil in Hc, Hv.
    assert (H1 := H _ (or_introl eq_refl)). apply feq_iff in H1.
    rewrite teval_tadd, !tsum_cons, tsum_nil, (teval_eq e (TDiv _ _)), !teval_tadd, (teval_eq e (TC 2)) in H1.
    rewrite Hc, Hv in H1.
    destruct (spec_sums e rs) as [S1 S2].
    rewrite feval_eq. cbn [forallb]. rewrite (feval_eq e (FLe _ _)), (feval_eq e (FLt _ _)).
    rewrite !teval_tadd, !tsum_cons, !tsum_nil, !(teval_eq e (TMul _ _)), !teval_tadd, !(teval_eq e (TC _)).
    rewrite S1, S2. lia.
  - (* max buffer level *) apply get_maximum_sound in H as [Hb Ha].
    destruct (max_spec e (TV (VInd (i_id r))) (fun l => l) (bn_levels b) _ eq_refl) as [H1 H2];
      [rewrite map_id; exact Hb|rewrite map_id; exact Ha|].
    destruct Hin as [[= <- <-]|[[= <- <-]|[]]]; assumption.
  - (* min buffer level *) apply get_minimum_sound in H as [Hb Ha].
    destruct (min_spec e (TV (VInd (i_id r))) (fun l => l) (bn_levels b) _ eq_refl) as [H1 H2];
      [rewrite map_id; exact Hb|rewrite map_id; exact Ha|].
    destruct Hin as [[= <- <-]|[[= <- <-]|[]]]; assumption.
  - (* minimum start *) assert (H0 := H _ (or_introl eq_refl)). apply feq_iff in H0.
    assert (Hm : forall f, In f (get_minimum (iaux (i_id r) 0) (map S_ (tasks_of (i_all r) ts))) -> feval e f = true)
      by (intros; apply H; now right).
    apply get_minimum_sound in Hm as [Hb Ha]. rewrite <- H0 in Hb, Ha.
    destruct (min_spec e (TV (VInd (i_id r))) S_ (tasks_of (i_all r) ts) _ eq_refl Hb Ha) as [H1 H2].
    destruct Hin as [[= <- <-]|[[= <- <-]|[]]]; assumption.
  - (* greatest start *) assert (H0 := H _ (or_introl eq_refl)). apply feq_iff in H0.
    assert (Hm : forall f, In f (get_maximum (iaux (i_id r) 0) (map S_ (tasks_of (i_all r) ts))) -> feval e f = true)
      by (intros; apply H; now right).
    apply get_maximum_sound in Hm as [Hb Ha]. rewrite <- H0 in Hb, Ha.
    destruct (max_spec e (TV (VInd (i_id r))) S_ (tasks_of (i_all r) ts) _ eq_refl Hb Ha) as [H1 H2].
    destruct Hin as [[= <- <-]|[[= <- <-]|[]]]; assumption.
  - (* weighted start times *) destruct Hin as [[= <- <-]|[]].
    assert (H1 := H _ (or_introl eq_refl)). apply feq_iff in H1. apply feq_iff. rewrite H1, !teval_tadd.
    apply tsum_map_ext. intros t _. rewrite when_t_eval, sched_mul_eval. ev.
    destruct (feval e (act t)); lia.
  - (* flow time *) destruct Hin as [[= <- <-]|[]].
    assert (H1 := H _ (or_introl eq_refl)). apply feq_iff in H1. apply feq_iff. rewrite H1, !teval_tadd.
    apply tsum_map_ext. intros t _. rewrite when_t_eval, sched_mul_eval. reflexivity.
  - (* weighted completion times *) destruct Hin as [[= <- <-]|[]].
    assert (H1 := H _ (or_introl eq_refl)). apply feq_iff in H1. apply feq_iff. rewrite H1, !teval_tadd.
    apply tsum_map_ext. intros t _. rewrite when_t_eval, sched_mul_eval. ev.
    destruct (feval e (act t)); lia.
  - (* flow time of a single resource: swept only *) destruct Hin.
Qed.

(* indicator targets and bounds *)
Lemma ind_cons_sound e c x :
  (forall f, In f (enc_raw c x) -> feval e f = true) ->
  forall k f, In (k, f) (spec_C08_cons x) -> feval e f = true.
Proof.
  intros H k f Hin. destruct x; cbn [spec_C08_cons] in Hin; try (destruct Hin; fail); cbn [enc_raw] in H.
  - destruct Hin as [[= <- <-]|[]]. apply H. now left.
  - destruct lo as [l|], hi as [h|]; cbn [app] in *;
      repeat match goal with Hin : In _ (_ :: _) |- _ => destruct Hin as [[= <- <-]|Hin] | Hin : In _ [] |- _ => destruct Hin end.
    + assert (H1 := H (FGe (TV (VInd i)) (TC l)) (or_introl eq_refl)). rewrite feval_eq in *. lia.
    + assert (H1 := H (FLe (TV (VInd i)) (TC h)) (or_intror (or_introl eq_refl))). exact H1.
    + assert (H1 := H (FGe (TV (VInd i)) (TC l)) (or_introl eq_refl)). rewrite feval_eq in *. lia.
    + assert (H1 := H (FLe (TV (VInd i)) (TC h)) (or_introl eq_refl)). exact H1.
Qed.

Theorem C08_sound : forall st e, sat e (initialize st) ->
  forall k f, In (k, f) (spec_C08 st) -> feval e f = true.
Proof.
  intros st e Hs k f Hin. unfold spec_C08 in Hin. apply in_app_or in Hin as [Hin|Hin].
  - apply in_flat_map in Hin as (r & Hr & Hin). apply in_map_iff in Hin as ([k' f'] & [= <- <-] & Hin).
    apply sat_initialize_ext in Hs as [Hi _]. eapply ind_sound; eauto.
  - unfold per_cons in Hin. apply in_flat_map in Hin as (c & Hc & Hin).
    destruct (mandatory_live c) eqn:Hl; [|destruct Hin].
    apply in_map_iff in Hin as ([k' f'] & [= <- <-] & Hin).
    eapply (ind_cons_sound e (c_id c)); [|exact Hin]. intros g Hg. eapply live_raw_holds; eauto.
Qed.
