(* C01 -- task timing: soundness of the task encoders against spec_C01. *)
From Coq Require Import ZArith List Bool Lia ZifyBool String.
From PS.model Require Import Smt Enc Ind Prog.
From PS.spec Require Import Spec.
From PS.proofs Require Import Base.
Import ListNotations.
Open Scope Z_scope.

Definition task_rules (e : env) (t : tinfo) : Prop :=
  forall f, In f (task_window t ++ task_body t) -> feval e f = true.

Lemma core_rules e t :
  (forall f, In f (task_core t) -> feval e f = true) -> feval e (act t) = true -> task_rules e t.
Proof.
  unfold task_core, act, task_rules. destruct (ti_opt t); intros H Ha.
  - specialize (H _ (or_introl eq_refl)). rewrite feval_eq in H.
    change (feval e (FB (BSched (ti_id t)))) with (bv e (BSched (ti_id t))) in *.
    rewrite Ha in H. rewrite feval_eq in H. apply forallb_In. exact H.
  - exact H.
Qed.

Lemma rules_window e t : task_rules e t -> forall f, In f (task_window t) -> feval e f = true.
Proof. intros H f Hf. apply H. apply in_or_app. now left. Qed.
Lemma rules_body e t : task_rules e t -> forall f, In f (task_body t) -> feval e f = true.
Proof. intros H f Hf. apply H. apply in_or_app. now right. Qed.

Lemma body_start_ge_0 e t : (forall f, In f (task_body t) -> feval e f = true) -> 0 <= iv e (VStart (ti_id t)).
Proof.
  unfold task_body. intros H.
  assert (H0 : feval e (FGe (S_ t) (TC 0)) = true).
  { apply H. destruct (ti_kind t) as [|d|mn mx al]; cbn; auto. }
  cbn in H0. lia.
Qed.

Lemma body_duration e t : (forall f, In f (task_body t) -> feval e f = true) -> feval e (spec_duration t) = true.
Proof.
  unfold task_body, spec_duration. intros H. destruct (ti_kind t) as [|d|mn mx al].
  - assert (H0 : feval e (FEq (S_ t) (E_ t)) = true) by (apply H; cbn; auto). cbn in *. lia.
  - assert (H0 : feval e (FEq (TSub (E_ t) (S_ t)) (TC d)) = true) by (apply H; cbn; auto). cbn in *. lia.
  - rewrite feval_eq. apply forallb_In. intros f Hf.
    assert (H1 : feval e (FEq (TAdd [S_ t; D_ t]) (E_ t)) = true) by (apply H; cbn; auto).
    assert (H2 : feval e (FGe (D_ t) (TC mn)) = true) by (apply H; cbn; auto).
    repeat (apply in_app_or in Hf as [Hf|Hf]).
    + destruct Hf as [<-|[<-|[]]]; cbn in *; lia.
    + destruct mx as [m|]; [|destruct Hf]. destruct Hf as [<-|[]].
      apply H. cbn. right. right. right. apply in_or_app. right. now left.
    + destruct al as [l|]; [|destruct Hf]. destruct Hf as [<-|[]].
      apply H. cbn. right. right. right. now left.
Qed.

Lemma C01_task_sound e st t :
  (forall f, In f (task_core t) -> feval e f = true) ->
  feval e (FLe (E_ t) (TV VHorizon)) = true ->
  (forall h, ps_horizon st = Some h -> feval e (FLe (TV VHorizon) (TC h)) = true) ->
  forall k f, In (k, f) (spec_C01_task st t) -> feval e f = true.
Proof.
  intros Hc Hh Hp k f Hin. unfold spec_C01_task in Hin.
  assert (Himp : forall g, (feval e (act t) = true -> feval e g = true) -> feval e (whenact t g) = true).
  { intros g Hg. unfold whenact. rewrite feval_eq. destruct (feval e (act t)); cbn; auto. }
  repeat (apply in_app_or in Hin as [Hin|Hin]).
  - destruct Hin as [[= <- <-]|[[= <- <-]|[[= <- <-]|[]]]]; apply Himp; intros Ha;
      pose proof (core_rules e t Hc Ha) as Hr.
    + pose proof (body_start_ge_0 e t (rules_body e t Hr)). cbn. lia.
    + unfold horizon_t. destruct (ps_horizon st) as [h|] eqn:Eh; [|exact Hh].
      specialize (Hp h eq_refl). cbn in *. lia.
    + apply body_duration. apply rules_body; auto.
  - destruct (ti_release t) as [r|] eqn:Er; [|destruct Hin]. destruct Hin as [[= <- <-]|[]].
    apply Himp; intros Ha. pose proof (core_rules e t Hc Ha) as Hr.
    pose proof (body_start_ge_0 e t (rules_body e t Hr)) as H0.
    destruct (r >? 0) eqn:Hr0.
    + assert (Hw := rules_window e t Hr (FGe (S_ t) (TC r))). unfold task_window in Hw.
      rewrite Er, Hr0 in Hw. specialize (Hw (or_introl eq_refl)). cbn in *. lia.
    + cbn. lia.
  - destruct (ti_due t) as [d|] eqn:Ed; [|destruct Hin]. destruct (ti_deadline t) eqn:Edl; [|destruct Hin].
    destruct Hin as [[= <- <-]|[]]. apply Himp; intros Ha. pose proof (core_rules e t Hc Ha) as Hr.
    apply (rules_window e t Hr). unfold task_window. rewrite Ed, Edl. apply in_or_app. right. now left.
Qed.

Theorem C01_timing_sound : forall st e, sat e (initialize st) ->
  forall k f, In (k, f) (spec_C01 st) -> feval e f = true.
Proof.
  intros st e Hs k f Hin. apply sat_initialize in Hs as (Ht & _ & _ & _ & Hh).
  unfold spec_C01 in Hin. apply in_flat_map in Hin as (t & Hti & Hin).
  unfold keyed in Hin. apply in_map_iff in Hin as ([k' f'] & [= <- <-] & Hin).
  destruct (Ht t Hti) as [Hta Hth].
  eapply C01_task_sound; eauto.
  intros g Hg. apply Hta. unfold task_asserts. apply in_or_app. now left.
Qed.

(* the theorem read on values (what the clauses say) *)
Corollary C01_values : forall st e, sat e (initialize st) ->
  forall t, In t (ps_tasks st) -> feval e (act t) = true ->
    0 <= iv e (VStart (ti_id t))
    /\ iv e (VEnd (ti_id t)) <= teval e (horizon_t st)
    /\ (match ti_kind t with
        | KZero => iv e (VEnd (ti_id t)) = iv e (VStart (ti_id t))
        | KFixed d => iv e (VEnd (ti_id t)) - iv e (VStart (ti_id t)) = d
        | KVar mn mx al =>
            iv e (VEnd (ti_id t)) - iv e (VStart (ti_id t)) = iv e (VDur (ti_id t))
            /\ mn <= iv e (VDur (ti_id t))
            /\ (forall m, mx = Some m -> iv e (VDur (ti_id t)) <= m)
            /\ (forall l, al = Some l -> In (iv e (VDur (ti_id t))) l)
        end)
    /\ (forall r, ti_release t = Some r -> r <= iv e (VStart (ti_id t)))
    /\ (forall d, ti_due t = Some d -> ti_deadline t = true -> iv e (VEnd (ti_id t)) <= d).
Proof.
  intros st e Hs t Hti Ha.
  assert (Hall : forall k f, In (k, f) (spec_C01_task st t) -> feval e f = true).
  { intros k f Hin. apply (C01_timing_sound st e Hs (("C01/task:" ++ show_nat (ti_id t) ++ "/") ++ k)%string f).
    unfold spec_C01. apply in_flat_map. exists t. split; auto. unfold keyed. apply in_map_iff.
    exists (k, f). auto. }
  assert (Hw : forall k g, In (k, whenact t g) (spec_C01_task st t) -> feval e g = true).
  { intros k g Hin. specialize (Hall _ _ Hin). unfold whenact in Hall. rewrite feval_eq, Ha in Hall. exact Hall. }
  unfold spec_C01_task in Hw.
  assert (H1 := Hw "start_ge_0"%string (FLe (TC 0) (S_ t))).
  assert (H2 := Hw "end_le_horizon"%string (FLe (E_ t) (horizon_t st))).
  assert (H3 := Hw "duration"%string (spec_duration t)).
  cbn in H1, H2, H3. specialize (H1 (or_introl eq_refl)). specialize (H2 (or_intror (or_introl eq_refl))).
  specialize (H3 (or_intror (or_intror (or_introl eq_refl)))).
  split; [lia|]. split; [lia|]. split.
  - unfold spec_duration in H3. destruct (ti_kind t) as [|d|mn mx al]; cbn in H3; try lia.
    rewrite !andb_true_iff in H3. destruct H3 as (Ha1 & Ha2 & Ha3).
    split; [lia|]. split; [lia|]. split.
    + intros m ->. cbn in Ha3. rewrite andb_true_iff in Ha3. destruct Ha3 as [Ha3 _]. lia.
    + intros l ->. assert (Hex : existsb (feval e) (map (fun a : Z => FEq (D_ t) (TC a)) l) = true).
      { destruct mx; cbn in Ha3; rewrite !andb_true_iff in Ha3; tauto. }
      apply existsb_exists in Hex as (g & Hg & Hev). apply in_map_iff in Hg as (a & <- & Hal).
      cbn in Hev. assert (iv e (VDur (ti_id t)) = a) by lia. now subst.
  - split.
    + intros r Hr. assert (H4 := Hw "release"%string (FLe (TC r) (S_ t))). rewrite Hr in H4.
      assert (feval e (FLe (TC r) (S_ t)) = true).
      { apply H4. apply in_or_app. right. apply in_or_app. left. now left. }
      cbn in H. lia.
    + intros d Hd Hdl. assert (H4 := Hw "deadline"%string (FLe (E_ t) (TC d))). rewrite Hd, Hdl in H4.
      assert (feval e (FLe (E_ t) (TC d)) = true).
      { apply H4. apply in_or_app. right. apply in_or_app. right. now left. }
      cbn in H. lia.
Qed.

(* ---- non-vacuity: a concrete program and a valuation satisfying the hypotheses ---- *)
From PS.model Require Import Driver.
Definition ex_prog : list op :=
  [ ONewProblem (Some 20);
    ONewTask 1 (KFixed 3) false 0 (Some 2) (Some 9) true 1;
    ONewTask 2 (KVar 1 (Some 5) (Some [2; 4])) true 0 None None true 1;
    ONewTask 3 KZero true 0 (Some 4) None true 1;
    ONewWorker 1 1 (CostConst 0);
    OAddRequired 1 (ArgW (WPlain 1)) false 0 0;
    ONewConstraint 1 false (CPrecedence 1%nat 2%nat 1 Lax) ].
Definition ex_env : env :=
  env_of [("T1_start", 2); ("T1_end", 5); ("T2_start", 6); ("T2_end", 10); ("T2_duration", 4);
          ("T3_start", -3); ("T3_end", -3); ("W1_busy_T1_start", 2); ("W1_busy_T1_end", 5); ("horizon", 12)]%string
         [("T2_scheduled", true); ("T3_scheduled", false)]%string.
Example C01_nonvacuous : exists st, reaches ex_prog st /\ sat ex_env (initialize st)
  /\ List.length (ps_tasks st) = 3%nat.
Proof.
  unfold reaches. vm_compute run. eexists. split; [reflexivity|]. split; [|reflexivity].
  apply sat_bool. vm_compute. reflexivity.
Qed.
