(* Res_proof.v -- soundness for resources (C02), resource constraints (C04) and the
   inertness of unscheduled tasks with respect to workers (C06). *)
From Coq Require Import ZArith List Bool Lia ZifyBool.
From Coq Require String.
From PS.model Require Import Smt Enc Ind Prog.
From PS.spec Require Import Spec.
From PS.proofs Require Import Base Cons_proof SortNoDup C04_periodic C04_distance.
Import ListNotations.
Open Scope Z_scope.
Notation string := String.string.

(* ================================================================== *)
(* C04 *)

Lemma overlap_eval e s t lo hi :
  teval e (t_overlap s t lo hi) = Z.max 0 (Z.min (teval e t) hi - Z.max (teval e s) lo).
Proof.
  unfold t_overlap, t_max, t_min. ev.
  destruct (teval e t <=? hi) eqn:H1; destruct (teval e s <=? lo) eqn:H2;
    match goal with |- context [if ?c then _ else _] => destruct c eqn:? end; lia.
Qed.

Lemma workload_one_overlap e d bs be lo hi :
  lo <= hi ->
  (forall f, In f (workload_one d bs be lo hi) -> feval e f = true) ->
  teval e d = Z.max 0 (Z.min (teval e be) hi - Z.max (teval e bs) lo).
Proof.
  intros Hl H. unfold workload_one in H.
  assert (H0 := H _ (or_introl eq_refl)).
  assert (H1 := H _ (or_intror (or_introl eq_refl))).
  assert (H2 := H _ (or_intror (or_intror (or_introl eq_refl)))).
  assert (H3 := H _ (or_intror (or_intror (or_intror (or_introl eq_refl))))).
  assert (H4 := H _ (or_intror (or_intror (or_intror (or_intror (or_introl eq_refl)))))).
  assert (H5 := H _ (or_intror (or_intror (or_intror (or_intror (or_intror (or_introl eq_refl))))))).
  clear H. ev. lia.
Qed.

Lemma workload_interval e (ds : list term) (busy : list (wref * busyent)) lo hi :
  length ds = length busy -> lo <= hi ->
  (forall f, In f (flat_map (fun '(d, (w, b)) => workload_one d (bsv w b) (bev w b) lo hi) (combine ds busy)) ->
             feval e f = true) ->
  tsum e ds = tsum e (map (fun '(w, b) => t_overlap (bsv w b) (bev w b) lo hi) busy).
Proof.
  revert busy. induction ds as [|d ds IH]; intros [|[w b] busy] Hlen Hl H; try discriminate; [reflexivity|].
  cbn [map]. rewrite !tsum_cons. cbn [combine flat_map] in H.
  rewrite (IH busy); [|now injection Hlen|exact Hl|].
  - rewrite overlap_eval.
    rewrite (workload_one_overlap e d (bsv w b) (bev w b) lo hi Hl); [reflexivity|].
    intros f Hf. apply H. apply in_or_app. now left.
  - intros f Hf. apply H. apply in_or_app. now right.
Qed.

Lemma workload_ivs_sound e c busy k ivs base :
  forallb (fun '(lo, hi, _) => lo <=? hi) ivs = true ->
  (forall f, In f (workload_ivs c busy k ivs base) -> feval e f = true) ->
  forall lo hi n, In (lo, hi, n) ivs ->
    feval e (cmp_sum k (TAdd (map (fun '(w, b) => t_overlap (bsv w b) (bev w b) lo hi) busy)) n) = true.
Proof.
  revert base. induction ivs as [|[[lo0 hi0] n0] ivs IH]; intros base Hw H lo hi n Hin; [destruct Hin|].
  cbn [forallb] in Hw. apply andb_true_iff in Hw as [Hl Hw]. cbn [workload_ivs] in H.
  destruct Hin as [[= <- <- <-]|Hin].
  - set (ds := map (fun i => aux c (base + i)%nat) (seq 0 (length busy))) in *.
    assert (Hsum : tsum e ds = tsum e (map (fun '(w, b) => t_overlap (bsv w b) (bev w b) lo0 hi0) busy)).
    { apply workload_interval.
      - unfold ds. now rewrite map_length, seq_length.
      - lia.
      - intros f Hf. apply H. apply in_or_app. now left. }
    assert (Hc : feval e (cmp_sum k (TAdd ds) n0) = true).
    { apply H. apply in_or_app. right. apply in_or_app. left. now left. }
    destruct k; cbn [cmp_sum] in *; rewrite feval_eq in Hc; rewrite feval_eq;
      rewrite (teval_eq e (TAdd _)) in *; rewrite <- Hsum; exact Hc.
  - apply (IH (base + length busy)%nat Hw); [|exact Hin].
    intros f Hf. apply H. apply in_or_app. right. apply in_or_app. now right.
Qed.

Lemma in_all_busy r w b : In (w, b) (all_busy r) <-> exists l, In (w, l) (rs_units r) /\ In b l.
Proof.
  unfold all_busy. rewrite in_flat_map. split.
  - intros ([w' l] & Hu & Hin). apply in_map_iff in Hin as (b' & [= <- <-] & Hb). eauto.
  - intros (l & Hu & Hb). exists (w, l). split; auto. apply in_map_iff. eauto.
Qed.

Lemma C04_kind_sound e c x :
  (forall f, In f (enc_raw c x) -> feval e f = true) ->
  forall k f, In (k, f) (spec_C04_P x) -> feval e f = true.
Proof.
  intros H k f Hin.
  destruct x; cbn [spec_C04_P] in Hin; try (destruct Hin; fail); cbn [enc_raw] in H.
  - (* workload *)
    destruct (forallb (fun '(lo, hi, _) => lo <=? hi) ivs) eqn:Hw; [|destruct Hin].
    apply in_map_iff in Hin as ([[lo hi] n] & [= <- <-] & Hin).
    eapply workload_ivs_sound; eauto.
  - (* unavailable *)
    apply in_flat_map in Hin as ([lo hi] & Hiv & Hin). apply in_map_iff in Hin as ([w b] & [= <- <-] & Hb).
    assert (H1 : feval e (FOr [FGe (bsv w b) (TC hi); FLe (bev w b) (TC lo)]) = true).
    { apply H. apply in_flat_map. exists (lo, hi). split; auto. apply in_map_iff. exists (w, b). auto. }
    ev. lia.
  - (* periodically unavailable *)
    destruct ((0 <? period) && forallb (window_ok period) ivs) eqn:Hg; [|destruct Hin].
    apply andb_true_iff in Hg as [HP Hw]. rewrite forallb_forall in Hw.
    apply in_flat_map in Hin as ([lo hi] & Hiv & Hin). apply in_map_iff in Hin as ([w b] & [= <- <-] & Hb).
    specialize (Hw _ Hiv). unfold window_ok in Hw.
    apply punavail_one_sound; try lia.
    apply H. apply in_flat_map. exists (lo, hi). split; auto. apply in_map_iff. exists (w, b). auto.
  - (* interrupted *)
    apply in_flat_map in Hin as ([w b] & Hb & Hin).
    apply in_all_busy in Hb as (l & Hu & Hb).
    assert (HA : feval e (interrupted_worker w l ivs) = true).
    { apply H. apply in_map_iff. exists (w, l). auto. }
    unfold interrupted_worker in HA.
    destruct (ti_kind (be_task b)) as [|d|mn mx al] eqn:Hk; cbv iota beta in Hin.
    3: { (* variable duration *)
      destruct (forallb (fun '(lo, hi) => lo <? hi) ivs) eqn:Hw; [|destruct Hin].
      assert (Hel : forall g, In g (flat_map (fun '(lo, hi) =>
                        [FXor (FLe (bsv w b) (TC lo)) (FGe (bsv w b) (TC hi)); FXor (FLe (bev w b) (TC lo)) (FGe (bev w b) (TC hi))]) ivs
                      ++ [FGe (D_ (be_task b)) (TAdd [TC mn; TAdd (map (fun '(lo, hi) =>
                             TIte (FNot (FXor (FGe (bsv w b) (TC hi)) (FLe (bev w b) (TC lo)))) (TC (hi - lo)) (TC 0)) ivs)])]
                      ++ (match mx with Some m => [FLe (D_ (be_task b)) (TAdd [TC m; TAdd (map (fun '(lo, hi) =>
                             TIte (FNot (FXor (FGe (bsv w b) (TC hi)) (FLe (bev w b) (TC lo)))) (TC (hi - lo)) (TC 0)) ivs)])] | None => [] end))
                    -> feval e g = true).
      { intros g Hg. apply (fand_in _ _ _ HA). apply in_flat_map. exists b. split; [exact Hb|]. rewrite Hk. exact Hg. }
      apply in_app_or in Hin as [Hin|Hin].
      - (* neither end inside an interruption *)
        apply in_flat_map in Hin as ([lo hi] & Hiv & [[= <- <-]|[]]).
        assert (X1 : feval e (FXor (FLe (bsv w b) (TC lo)) (FGe (bsv w b) (TC hi))) = true).
        { apply Hel. apply in_or_app. left. apply in_flat_map. exists (lo, hi). split; [exact Hiv|now left]. }
        assert (X2 : feval e (FXor (FLe (bev w b) (TC lo)) (FGe (bev w b) (TC hi))) = true).
        { apply Hel. apply in_or_app. left. apply in_flat_map. exists (lo, hi). split; [exact Hiv|right; now left]. }
        ev. lia.
      - (* lengthened by the interruptions it overlaps *)
        assert (Hov : teval e (bsv w b) <= teval e (bev w b) ->
                  tsum e (map (fun '(lo, hi) => TIte (FNot (FXor (FGe (bsv w b) (TC hi)) (FLe (bev w b) (TC lo)))) (TC (hi - lo)) (TC 0)) ivs)
                  = tsum e (map (fun '(lo, hi) => TIte (FAnd [FLt (bsv w b) (TC hi); FGt (bev w b) (TC lo)]) (TC (hi - lo)) (TC 0)) ivs)).
        { intros Hle. clear - Hw Hle. induction ivs as [|[lo hi] r IH]; [reflexivity|].
          cbn [forallb] in Hw. apply andb_true_iff in Hw as [Hlh Hr]. cbn [map]. rewrite !tsum_cons, (IH Hr). f_equal.
          rewrite !(teval_eq e (TIte _ _ _)), (feval_eq e (FNot _)), (feval_eq e (FXor _ _)), (feval_eq e (FAnd _)). cbn [forallb].
          rewrite !(feval_eq e (FGe _ _)), !(feval_eq e (FLe _ _)), !(feval_eq e (FLt _ _)), !(feval_eq e (FGt _ _)), !(teval_eq e (TC _)).
          destruct (teval e (bsv w b) >=? hi) eqn:E1, (teval e (bev w b) <=? lo) eqn:E2, (teval e (bsv w b) <? hi) eqn:E3, (teval e (bev w b) >? lo) eqn:E4; cbn; try reflexivity; lia. }
        apply in_app_or in Hin as [Hin|Hin].
        + destruct Hin as [[= <- <-]|[]]. rewrite feval_eq. destruct (feval e (FLe (bsv w b) (bev w b))) eqn:Hp; [cbn [implb]|reflexivity].
          rewrite feval_eq in Hp.
          assert (X : feval e (FGe (D_ (be_task b)) (TAdd [TC mn; TAdd (map (fun '(lo, hi) =>
                             TIte (FNot (FXor (FGe (bsv w b) (TC hi)) (FLe (bev w b) (TC lo)))) (TC (hi - lo)) (TC 0)) ivs)])) = true).
          { apply Hel. apply in_or_app. right. apply in_or_app. left. now left. }
          rewrite feval_eq in X. rewrite feval_eq. rewrite !(teval_eq e (TAdd [_; _])), !tsum_cons, !tsum_nil, !(teval_eq e (TAdd (map _ _))) in *.
          rewrite <- Hov by lia. lia.
        + destruct mx as [m|]; [|destruct Hin]. destruct Hin as [[= <- <-]|[]]. rewrite feval_eq.
          destruct (feval e (FLe (bsv w b) (bev w b))) eqn:Hp; [cbn [implb]|reflexivity]. rewrite feval_eq in Hp.
          assert (X : feval e (FLe (D_ (be_task b)) (TAdd [TC m; TAdd (map (fun '(lo, hi) =>
                             TIte (FNot (FXor (FGe (bsv w b) (TC hi)) (FLe (bev w b) (TC lo)))) (TC (hi - lo)) (TC 0)) ivs)])) = true).
          { apply Hel. apply in_or_app. right. apply in_or_app. right. now left. }
          rewrite feval_eq in X. rewrite feval_eq. rewrite !(teval_eq e (TAdd [_; _])), !tsum_cons, !tsum_nil, !(teval_eq e (TAdd (map _ _))) in *.
          rewrite <- Hov by lia. lia. }
    all: apply in_map_iff in Hin as ([lo hi] & [= <- <-] & Hiv);
      (assert (H1 : feval e (FXor (FGe (bsv w b) (TC hi)) (FLe (bev w b) (TC lo))) = true);
       [apply (fand_in _ _ _ HA); apply in_flat_map; exists b; split; [exact Hb|]; rewrite Hk;
        apply in_map_iff; exists (lo, hi); auto|]); ev; lia.
  - (* periodically interrupted, tasks that are not of variable duration *)
    destruct ((0 <? period) && forallb (window_ok period) ivs) eqn:Hg; [|destruct Hin].
    apply andb_true_iff in Hg as [HP Hw]. rewrite forallb_forall in Hw.
    apply in_flat_map in Hin as ([w b] & Hb & Hin).
    apply in_all_busy in Hb as (l & Hu & Hb).
    assert (HA : feval e (pinterrupted_worker w l ivs period start offset end_) = true).
    { apply H. apply in_map_iff. exists (w, l). auto. }
    destruct (ti_kind (be_task b)) as [|d|mn mx al] eqn:Hk; cbv iota beta in Hin.
    3: destruct Hin.
    all: apply in_map_iff in Hin as ([lo hi] & [= <- <-] & Hiv); specialize (Hw _ Hiv); unfold window_ok in Hw;
      apply (pinterrupted_fixed_sound e w l ivs period start offset end_ b lo hi); try lia; auto; rewrite Hk; exact I.
  - (* non-delay *)
    apply in_map_iff in Hin as ([[a b] others] & [= <- <-] & Hab). rewrite feval_eq.
    match goal with |- implb (feval e ?p) _ = true => destruct (feval e p) eqn:Hp; [cbn [implb]|reflexivity] end.
    rewrite feval_eq in Hp. cbn [forallb] in Hp. rewrite !andb_true_iff in Hp. destruct Hp as (P1 & P2 & P3 & _).
    destruct (consecutive_pair_constrained e c r _ a b others H Hab P1 P2 P3) as (bp & ai & Hmk & Hbp & Hai & Ha & Hb & Hle).
    unfold bspan in Hbp, Hai, Ha, Hb. unfold assigned in Ha, Hb. cbn [fst snd] in Hbp, Hai, Ha, Hb.
    rewrite feval_eq, (feval_eq e (FAnd _)) in Hmk. cbn [forallb] in Hmk.
    rewrite !(feval_eq e (FGe _ _)), (feval_eq e (FEq _ _)), !(teval_eq e (TC 0)) in Hmk. rewrite feval_eq. lia.
  - (* distance *)
    apply in_map_iff in Hin as ([[a b] others] & [= <- <-] & Hab). rewrite feval_eq.
    match goal with |- implb (feval e ?p) _ = true => destruct (feval e p) eqn:Hp; [cbn [implb]|reflexivity] end.
    rewrite feval_eq in Hp. cbn [forallb] in Hp. rewrite !andb_true_iff in Hp. destruct Hp as (P1 & P2 & P3 & P4 & _).
    destruct (consecutive_pair_constrained e c r _ a b others H Hab P1 P2 P3) as (bp & ai & Hmk & Hbp & Hai & Ha & Hb & Hle).
    unfold bspan in Hbp, Hai, Ha, Hb, Hle. unfold assigned in Ha, Hb. cbn [fst snd] in Hbp, Hai, Ha, Hb, Hle.
    rewrite feval_eq in Hmk.
    assert (Hc : feval e (FOr (match ivs with
                        | Some l => map (fun '(lo, hi) => FAnd [FGe ai (TC lo); FGe bp (TC lo); FLe ai (TC hi); FLe bp (TC hi)]) l
                        | None => [FAnd [FGe bp (TC 0); FGe ai (TC 0)]] end)) = true).
    { destruct ivs as [l|].
      - rewrite feval_eq in P4. apply existsb_exists in P4 as (g & Hg & Hev). apply in_map_iff in Hg as ([lo hi] & <- & Hlh).
        rewrite feval_eq. apply existsb_exists.
        exists (FAnd [FGe ai (TC lo); FGe bp (TC lo); FLe ai (TC hi); FLe bp (TC hi)]). split.
        + apply in_map_iff. exists (lo, hi). auto.
        + rewrite feval_eq in Hev. cbn [forallb] in Hev. rewrite !(feval_eq e (FLe _ _)), !(teval_eq e (TC _)) in Hev.
          rewrite feval_eq. cbn [forallb]. rewrite !(feval_eq e (FLe _ _)), !(feval_eq e (FGe _ _)), !(teval_eq e (TC _)). lia.
      - rewrite feval_eq. cbn [existsb]. rewrite feval_eq. cbn [forallb]. rewrite !(feval_eq e (FGe _ _)), !(teval_eq e (TC _)). lia. }
    rewrite Hc in Hmk. cbn [implb] in Hmk.
    destruct mode; cbn [cmp_sum] in Hmk |- *; rewrite feval_eq in Hmk; rewrite feval_eq;
      rewrite (teval_eq e (TSub _ _)) in Hmk; rewrite (teval_eq e (TSub _ _)); rewrite (teval_eq e (TC _)) in *; lia.
  - (* same workers *)
    apply in_map_iff in Hin as (r & [= <- <-] & Hr). apply H. apply in_map_iff. eauto.
  - (* distinct workers *)
    apply in_map_iff in Hin as (r & [= <- <-] & Hr). apply H. apply in_map_iff. eauto.
Qed.

Theorem C04_sound : forall st e, sat e (initialize st) ->
  forall k f, In (k, f) (spec_C04 st) -> feval e f = true.
Proof. intros st e Hs. apply per_cons_sound; auto. intros c x. apply C04_kind_sound. Qed.

(* the endpoint formula says what the property says instant by instant *)
Lemma unavailable_instants bs be lo hi :
  ((hi <= bs \/ be <= lo) -> forall tau, ~ (bs <= tau < be /\ lo <= tau < hi))
  /\ (bs < be -> lo < hi -> (forall tau, ~ (bs <= tau < be /\ lo <= tau < hi)) -> hi <= bs \/ be <= lo).
Proof.
  split.
  - intros [H|H] tau [H1 H2]; lia.
  - intros Hb Hl H. destruct (Z_le_gt_dec hi bs) as [|H1]; [now left|].
    destruct (Z_le_gt_dec be lo) as [|H2]; [now right|]. exfalso.
    apply (H (Z.max bs lo)). lia.
Qed.

(* ================================================================== *)
(* C02 *)

Lemma areq_in_task st t a f :
  In t (ps_tasks st) -> In a (areqs_of st (ti_id t)) -> In f (enc_areq t a) -> In f (task_asserts st t).
Proof.
  intros _ Ha Hf. unfold task_asserts. apply in_or_app. right. apply in_flat_map. eauto.
Qed.

Lemma pb_same e k l1 l2 n : map (feval e) l1 = map (feval e) l2 -> feval e (pb k l1 n) = feval e (pb k l2 n).
Proof.
  intros H. assert (Hc : fcount e l1 = fcount e l2).
  { revert l2 H. induction l1 as [|a l IH]; intros [|b l2] H; try discriminate; [reflexivity|].
    injection H as Hab Hl. rewrite !fcount_cons, Hab. now rewrite (IH l2 Hl). }
  destruct k; cbn [pb]; rewrite !feval_eq; now rewrite Hc.
Qed.

(* every point in the past handed out by get_unique_negative_integer is negative *)
Definition neg_ok (st : pstate) : Prop :=
  ps_neg st <= -1 /\
  forall t l, In (t, l) (ps_areqs st) -> forall s listed n k, In (AQSelect s listed n k) l ->
    forall r p, In (r, p) listed -> p < 0.

Lemma C02_areq_sound e t a :
  (forall s listed n k, a = AQSelect s listed n k -> forall r p, In (r, p) listed -> p < 0) ->
  (forall f, In f (enc_areq t a) -> feval e f = true) ->
  forall k f, In (k, f) (spec_C02_areq t a) -> feval e f = true.
Proof.
  intros Hneg H k f Hin. destruct a as [w dyn di eo|s listed n pk]; cbn [spec_C02_areq] in Hin; cbn [enc_areq] in H.
  - destruct dyn.
    + destruct Hin as [[= <- <-]|[]]. apply whenact_intro; intros _.
      assert (H1 := H _ (or_introl eq_refl)). assert (H2 := H _ (or_intror (or_introl eq_refl))).
      assert (H3 := H _ (or_intror (or_intror (or_introl eq_refl)))). ev. lia.
    + destruct Hin as [[= <- <-]|[]]. apply whenact_intro; intros _.
      assert (H1 := H _ (or_introl eq_refl)). assert (H2 := H _ (or_intror (or_introl eq_refl))).
      unfold nonneg_part. destruct (eo >? 0), (di >? 0); ev; lia.
  - destruct Hin as [[= <- <-]|Hin].
    + apply H. apply in_or_app. right. now left.
    + apply in_flat_map in Hin as ([r p] & Hr & Hin).
      assert (Hp : p < 0) by (eapply Hneg; eauto).
      assert (H1 : feval e (FIte (FB (BSel s r))
                  (FAnd [FEq (BS r (ti_id t) true) (S_ t); FEq (BE r (ti_id t) true) (E_ t)])
                  (FAnd [FEq (BS r (ti_id t) true) (TC p); FEq (BE r (ti_id t) true) (TC p)])) = true).
      { apply H. apply in_or_app. left. apply in_map_iff. exists (r, p). auto. }
      destruct Hin as [[= <- <-]|[[= <- <-]|[]]].
      * rewrite feval_eq in H1. rewrite feval_eq. destruct (feval e (FB (BSel s r))); cbn [implb]; auto.
      * rewrite feval_eq in H1. rewrite feval_eq, (feval_eq e (FNot _)).
        destruct (feval e (FB (BSel s r))); cbn [implb negb]; auto. ev. lia.
Qed.

Lemma pairs_of_in {A} (l : list A) x y : In (x, y) (pairs_of l) -> In x l /\ In y l.
Proof.
  induction l as [|a l IH]; cbn [pairs_of]; intros H; [destruct H|].
  apply in_app_or in H as [H|H].
  - apply in_map_iff in H as (z & [= <- <-] & Hz). split; [now left|now right].
  - destruct (IH H). split; now right.
Qed.

Lemma pairs_no_overlap_spec e r l :
  (forall f, In f (pairs_no_overlap r l) -> feval e f = true) ->
  forall ti mi tk mk, In ((ti, mi), (tk, mk)) (pairs_of l) ->
    feval e (FOr [FLe (BE r ti mi) (BS r tk mk); FLe (BE r tk mk) (BS r ti mi)]) = true.
Proof.
  induction l as [|[t0 m0] l IH]; cbn [pairs_of pairs_no_overlap]; intros H ti mi tk mk Hin; [destruct Hin|].
  apply in_app_or in Hin as [Hin|Hin].
  - apply in_map_iff in Hin as ([tk' mk'] & Heq & Hz). injection Heq as -> -> -> ->.
    assert (H1 : feval e (FOr [FGe (BS r tk mk) (BE r ti mi); FGe (BS r ti mi) (BE r tk mk)]) = true).
    { apply H. apply in_or_app. left. apply in_map_iff. exists (tk, mk). auto. }
    ev. lia.
  - apply IH; auto. intros f Hf. apply H. apply in_or_app. now right.
Qed.

Theorem C02_sound : forall st e, neg_ok st -> sat e (initialize st) ->
  forall k f, In (k, f) (spec_C02 st) -> feval e f = true.
Proof.
  intros st e [_ Hneg] Hs k f Hin. apply sat_initialize in Hs as (Ht & Hw & _ & Hk & _).
  unfold spec_C02 in Hin. apply in_app_or in Hin as [Hin|Hin]; [|apply in_app_or in Hin as [Hin|Hin]].
  - apply in_flat_map in Hin as (t & Hti & Hin). unfold keyed in Hin.
    apply in_map_iff in Hin as ([k' f'] & [= <- <-] & Hin).
    apply in_flat_map in Hin as (a & Ha & Hin).
    eapply (C02_areq_sound e t a); [| |exact Hin].
    + intros s listed n pk -> r p Hr.
      unfold areqs_of, get_list in Ha. destruct (al_get Nat.eqb (ps_areqs st) (ti_id t)) as [l|] eqn:Hg; [|destruct Ha].
      assert (Hl : exists t', In (t', l) (ps_areqs st)).
      { clear -Hg. induction (ps_areqs st) as [|[k0 v0] L IH]; cbn in Hg; [discriminate|].
        destruct (Nat.eqb k0 (ti_id t)); [injection Hg as <-; exists k0; now left|].
        destruct (IH Hg) as [t' Ht']. exists t'. now right. }
      destruct Hl as [t' Hl]. eapply Hneg; eauto.
    + intros g Hg. apply (proj1 (Ht t Hti)). unfold task_asserts. apply in_or_app. right.
      apply in_flat_map. eauto.
  - unfold spec_C02_overlap in Hin. apply in_flat_map in Hin as (w & Hwi & Hin).
    apply in_map_iff in Hin as ([[ti mi] [tk mk]] & [= <- <-] & Hp).
    apply (pairs_no_overlap_spec e _ _ (Hw w Hwi)). exact Hp.
  - unfold spec_C02_work in Hin. apply in_flat_map in Hin as (t & Hti & Hin).
    apply in_map_iff in Hin as (g & [= <- <-] & Hg). apply (Hk t Hti). exact Hg.
Qed.

(* pairwise disjointness, instant by instant: a worker never serves two busy intervals at once *)
Lemma exclusive_instants e1 s1 e2 s2 :
  (e1 <= s2 \/ e2 <= s1) -> forall tau, ~ (s1 <= tau < e1 /\ s2 <= tau < e2).
Proof. intros [H|H] tau [H1 H2]; lia. Qed.

(* ================================================================== *)
(* C06: an unscheduled optional task occupies no worker at any time >= 0 *)
Lemma unsched_times e t :
  ti_opt t = true -> (forall f, In f (task_core t) -> feval e f = true) -> feval e (act t) = false ->
  iv e (VStart (ti_id t)) = - ti_rank t /\ iv e (VEnd (ti_id t)) = - ti_rank t.
Proof.
  intros Ho H Ha. unfold task_core in H. rewrite Ho in H. specialize (H _ (or_introl eq_refl)).
  unfold act in Ha. rewrite Ho in Ha. rewrite feval_eq in H.
  change (feval e (FB (BSched (ti_id t)))) with (bv e (BSched (ti_id t))) in *. rewrite Ha in H.
  unfold task_unsched in H. rewrite feval_eq in H. cbn [app forallb] in H.
  apply andb_true_iff in H as [H1 H]. apply andb_true_iff in H as [H2 _]. ev. lia.
Qed.
