(* Solver_proof.v -- theorems about the solver state machine for an arbitrary oracle meeting the
   contract (sound on sat, complete on unsat).  C07 (optimisation loop), C12 (enumeration),
   C13 (histories). *)
From Coq Require Import ZArith List Bool Lia.
From PS.model Require Import SolverSM.
Import ListNotations.
Open Scope Z_scope.

Section Proofs.
  Context {A M : Type}.
  Variable sat : M -> A -> Prop.
  Variable oracle : nat -> list A -> @answer M.
  Hypothesis oracle_sound : forall k l m, oracle k l = Sat m -> Forall (sat m) l.
  Hypothesis oracle_complete : forall k l, oracle k l = Unsat -> forall m, ~ Forall (sat m) l.

  Variable d : dir.
  Variable bound : option Z.
  Variable value : M -> Z.
  Variable better_than : Z -> A.
  Definition improves (v z : Z) : Prop := match d with Minimize => v < z | Maximize => v > z end.
  Definition noworse (v z : Z) : Prop := match d with Minimize => v <= z | Maximize => v >= z end.
  Hypothesis better_sem : forall m z, sat m (better_than z) <-> improves (value m) z.

  Variable stop_now : nat -> bool.
  Variable max_iter : option nat.

  Notation loop := (opt_loop oracle (Some (d, bound)) value better_than stop_now max_iter).

  Lemma improves_noworse v z : improves v z -> noworse v z.
  Proof. unfold improves, noworse. destruct d; lia. Qed.
  Lemma noworse_refl v : noworse v v.
  Proof. unfold noworse. destruct d; lia. Qed.
  Lemma noworse_trans a b c : noworse a b -> noworse b c -> noworse a c.
  Proof. unfold noworse. destruct d; lia. Qed.
  Lemma not_improves_noworse v z : ~ improves z v -> noworse v z.
  Proof. unfold improves, noworse. destruct d; lia. Qed.

  Definition sat_models (evs : list (@event A M)) : list M :=
    flat_map (fun e => match e with ECheck _ (Sat m) => [m] | _ => [] end) evs.
  Definition pushes (evs : list (@event A M)) : nat :=
    length (filter (fun e => match e with EPush => true | _ => false end) evs).

  Lemma sat_models_app a b : sat_models (a ++ b) = sat_models a ++ sat_models b.
  Proof. unfold sat_models. apply flat_map_app. Qed.
  Lemma pushes_app a b : pushes (a ++ b) = (pushes a + pushes b)%nat.
  Proof. unfold pushes. now rewrite filter_app, app_length. Qed.

  (* ---------------------------------------------------------------- *)
  (* C07: the incremental loop.  perm = permanent assertions; the stack is
     (bounds pushed so far) ++ perm *)
  Definition Inv (perm asserts : list A) (inc : option M) (evs : list (@event A M)) : Prop :=
    exists bs, asserts = map better_than bs ++ perm /\
    (forall h, In h (sat_models evs) -> Forall (sat h) perm) /\
    match inc with
    | None => bs = [] /\ sat_models evs = []
    | Some m => In m (sat_models evs) /\ In (value m) bs /\ (forall b, In b bs -> noworse (value m) b)
                /\ (forall h, In h (sat_models evs) -> noworse (value m) (value h))
    end.

  Lemma Forall_app_r {X} (P : X -> Prop) l1 l2 : Forall P (l1 ++ l2) -> Forall P l2.
  Proof. intros H. apply Forall_app in H. tauto. Qed.

  Lemma loop_spec perm fuel : forall iter k asserts inc pushed evs r st k' pushed' evs',
    Inv perm asserts inc evs ->
    loop fuel iter k asserts inc pushed evs = (r, st, k', pushed', evs') ->
    (* every exit: the returned incumbent satisfies the permanent assertions and is no worse than
       any model found during the loop *)
    (forall m, r = Some m -> Forall (sat m) perm /\ forall h, In h (sat_models evs') -> noworse (value m) (value h)) /\
    (r = None -> sat_models evs' = []) /\
    (* complete run: optimal *)
    (st = Completed -> exists m, r = Some m /\ forall m', Forall (sat m') perm -> noworse (value m) (value m')) /\
    (* no solution: truly infeasible *)
    (st = NoSolution -> r = None /\ forall m', ~ Forall (sat m') perm) /\
    (* stop on the declared bound: the value is the bound *)
    (st = BoundStop -> exists m b, r = Some m /\ bound = Some b /\ value m = b) /\
    (* pushes are counted *)
    (pushed' + pushes evs = pushed + pushes evs')%nat.
  Proof.
    induction fuel as [|f IH]; cbn [opt_loop]; intros iter k asserts inc pushed evs r st k' pushed' evs' HI Hl.
    - injection Hl as <- <- <- <- <-. destruct HI as (bs & -> & Hh & Hi).
      repeat split; try discriminate; try reflexivity.
      + destruct inc as [m0|]; [|discriminate]. injection H as <-. apply Hh. tauto.
      + destruct inc as [m0|]; [|discriminate]. injection H as <-. intros h Hin. apply Hi; auto.
      + intros ->. tauto.
    - destruct (match max_iter with Some n => Nat.ltb n (S iter) | None => false end).
      { injection Hl as <- <- <- <- <-. destruct HI as (bs & -> & Hh & Hi).
        repeat split; try discriminate; try reflexivity.
        + destruct inc as [m0|]; [|discriminate]. injection H as <-. apply Hh. tauto.
        + destruct inc as [m0|]; [|discriminate]. injection H as <-. intros h Hin. apply Hi; auto.
        + intros ->. tauto. }
      destruct (oracle k asserts) as [m| |] eqn:Ho.
      + pose proof (oracle_sound _ _ _ Ho) as Hs. destruct HI as (bs & -> & Hh & Hi).
        assert (Hmb : Forall (sat m) perm) by (eapply Forall_app_r; eauto).
        assert (Himp : forall b, In b bs -> improves (value m) b).
        { intros b Hb. apply better_sem. apply Forall_app in Hs as [Hs _]. rewrite Forall_forall in Hs.
          apply Hs. now apply in_map. }
        assert (Hle : forall h, In h (sat_models evs) -> noworse (value m) (value h)).
        { intros h Hin. destruct inc as [m0|]; [|destruct Hi as [_ Hnil]; rewrite Hnil in Hin; destruct Hin].
          destruct Hi as (_ & Hvb & _ & Hmin). apply (noworse_trans _ (value m0)); [|auto].
          apply improves_noworse. auto. }
        assert (Hsm : sat_models (evs ++ [ECheck k (Sat m)]) = sat_models evs ++ [m]).
        { rewrite sat_models_app. reflexivity. }
        assert (Hfin : forall m1, Some m = Some m1 ->
                   Forall (sat m1) perm /\ forall h, In h (sat_models (evs ++ [ECheck k (Sat m)])) -> noworse (value m1) (value h)).
        { intros m1 [= <-]. split; auto. intros h Hin. rewrite Hsm in Hin.
          apply in_app_or in Hin as [Hin|[<-|[]]]; [auto|apply noworse_refl]. }
        assert (Hpush : pushes (evs ++ [ECheck k (Sat m)]) = pushes evs).
        { rewrite pushes_app. match goal with |- (_ + ?x)%nat = _ => change x with 0%nat end. lia. }
        destruct (stop_now k).
        { injection Hl as <- <- <- <- <-. repeat split; try discriminate; try (apply Hfin; auto); try lia. }
        destruct bound as [b|].
        * destruct (value m =? b) eqn:Hvb.
          { injection Hl as <- <- <- <- <-. repeat split; try discriminate; try (apply Hfin; auto); try lia.
            intros _. exists m, b. repeat split. lia. }
          eapply IH in Hl.
          { destruct Hl as (H1 & H2 & H3 & H4 & H5 & H6).
            split; [exact H1|]. split; [exact H2|]. split; [exact H3|]. split; [exact H4|]. split; [exact H5|].
            rewrite !pushes_app in H6. change (pushes [ECheck k (Sat m)]) with 0%nat in H6.
            change (pushes [EPush; EAdd (better_than (value m))]) with 1%nat in H6. lia. }
          exists (value m :: bs). split; [reflexivity|]. split.
          { intros h Hin. rewrite sat_models_app, Hsm in Hin. cbn in Hin. rewrite app_nil_r in Hin.
            apply in_app_or in Hin as [Hin|[<-|[]]]; auto. }
          rewrite sat_models_app, Hsm. cbn [sat_models flat_map]. rewrite app_nil_r.
          split; [apply in_or_app; right; now left|]. split; [now left|]. split.
          { intros b0 [<-|Hb]; [apply noworse_refl|apply improves_noworse; auto]. }
          intros h Hin. apply in_app_or in Hin as [Hin|[<-|[]]]; [auto|apply noworse_refl].
        * eapply IH in Hl.
          { destruct Hl as (H1 & H2 & H3 & H4 & H5 & H6).
            split; [exact H1|]. split; [exact H2|]. split; [exact H3|]. split; [exact H4|]. split; [exact H5|].
            rewrite !pushes_app in H6. change (pushes [ECheck k (Sat m)]) with 0%nat in H6.
            change (pushes [EPush; EAdd (better_than (value m))]) with 1%nat in H6. lia. }
          exists (value m :: bs). split; [reflexivity|]. split.
          { intros h Hin. rewrite sat_models_app, Hsm in Hin. cbn in Hin. rewrite app_nil_r in Hin.
            apply in_app_or in Hin as [Hin|[<-|[]]]; auto. }
          rewrite sat_models_app, Hsm. cbn [sat_models flat_map]. rewrite app_nil_r.
          split; [apply in_or_app; right; now left|]. split; [now left|]. split.
          { intros b0 [<-|Hb]; [apply noworse_refl|apply improves_noworse; auto]. }
          intros h Hin. apply in_app_or in Hin as [Hin|[<-|[]]]; [auto|apply noworse_refl].
      + pose proof (oracle_complete _ _ Ho) as Hc. injection Hl as <- <- <- <- <-.
        destruct HI as (bs & -> & Hh & Hi).
        assert (Hsm : sat_models (evs ++ [ECheck k Unsat]) = sat_models evs).
        { rewrite sat_models_app. cbn. now rewrite app_nil_r. }
        assert (Hpush : pushes (evs ++ [ECheck k Unsat]) = pushes evs).
        { rewrite pushes_app. match goal with |- (_ + ?x)%nat = _ => change x with 0%nat end. lia. }
        destruct inc as [m0|].
        * destruct Hi as (Hin & Hvb & Hb & Hmin). repeat split; try discriminate; try lia.
          { injection H as <-. auto. }
          { injection H as <-. intros h Hh'. rewrite Hsm in Hh'. auto. }
          { intros _. exists m0. split; [reflexivity|]. intros m' Hm'.
            apply not_improves_noworse. intros Himp. apply (Hc m'). apply Forall_app; split; auto.
            apply Forall_forall. intros a Ha. apply in_map_iff in Ha as (b & <- & Hbin). apply better_sem.
            specialize (Hb _ Hbin). unfold improves, noworse in *. destruct d; lia. }
        * destruct Hi as [-> Hnil]. repeat split; try discriminate; try lia.
          { intros _. now rewrite Hsm. }
          { intros m' Hm'. apply (Hc m'). exact Hm'. }
      + injection Hl as <- <- <- <- <-. destruct HI as (bs & -> & Hh & Hi).
        assert (Hsm : sat_models (evs ++ [ECheck k Unknown]) = sat_models evs).
        { rewrite sat_models_app. cbn. now rewrite app_nil_r. }
        assert (Hpush : pushes (evs ++ [ECheck k Unknown]) = pushes evs).
        { rewrite pushes_app. match goal with |- (_ + ?x)%nat = _ => change x with 0%nat end. lia. }
        repeat split; try discriminate; try lia.
        * destruct inc as [m0|]; [|discriminate]. injection H as <-. apply Hh; tauto.
        * destruct inc as [m0|]; [|discriminate]. injection H as <-. intros h Hh'. rewrite Hsm in Hh'. apply Hi; auto.
        * intros ->. rewrite Hsm. tauto.
  Qed.

  Theorem opt_loop_correct perm fuel k r st k' pushed' evs' :
    loop fuel 0%nat k perm None 0%nat [] = (r, st, k', pushed', evs') ->
    (forall m, r = Some m -> Forall (sat m) perm /\ forall h, In h (sat_models evs') -> noworse (value m) (value h)) /\
    (st = Completed -> exists m, r = Some m /\ forall m', Forall (sat m') perm -> noworse (value m) (value m')) /\
    (st = NoSolution -> r = None /\ forall m', ~ Forall (sat m') perm) /\
    (st = BoundStop -> exists m b, r = Some m /\ bound = Some b /\ value m = b) /\
    pushed' = pushes evs'.
  Proof.
    intros H. eapply loop_spec in H.
    - destruct H as (H1 & _ & H3 & H4 & H5 & H6).
      split; [exact H1|]. split; [exact H3|]. split; [exact H4|]. split; [exact H5|].
      change (pushes []) with 0%nat in H6. lia.
    - exists []. cbn. repeat split; auto. intros ? [].
  Qed.

  (* a stop on the declared bound is optimal exactly when the declared bound is a true bound *)
  Corollary bound_stop_optimal perm fuel k r st k' pushed' evs' b :
    loop fuel 0%nat k perm None 0%nat [] = (r, st, k', pushed', evs') -> st = BoundStop -> bound = Some b ->
    (forall m', Forall (sat m') perm -> noworse b (value m')) ->
    exists m, r = Some m /\ forall m', Forall (sat m') perm -> noworse (value m) (value m').
  Proof.
    intros H Hst Hb Htrue. apply opt_loop_correct in H as (_ & _ & _ & H5 & _).
    destruct (H5 Hst) as (m & b' & -> & Hb' & Hv). exists m. split; [reflexivity|].
    intros m' Hm'. rewrite Hv. rewrite Hb in Hb'. injection Hb' as <-. auto.
  Qed.
End Proofs.

(* ================================================================== *)
(* C13 / C12: histories of calls on one solver object *)
Section Histories.
  Context {A M P : Type}.
  Variable sat : M -> A -> Prop.
  Variable oracle : nat -> list A -> @answer M.
  Hypothesis oracle_sound : forall k l m, oracle k l = Sat m -> Forall (sat m) l.
  Hypothesis oracle_complete : forall k l, oracle k l = Unsat -> forall m, ~ Forall (sat m) l.
  Variable objective : option (dir * option Z).
  Variable value : M -> Z.
  Variable better_than : Z -> A.
  Variable differs : M -> A.
  Variable differs_var : nat -> M -> A.
  Variable stop_now : nat -> bool.
  Variable max_iter : option nat.
  Variable base : list A.

  (* what a schedule is for find_another_solution: start, end, scheduled flag of every task *)
  Variable proj : M -> P.
  Variable proj_eq_dec : forall p q : P, {p = q} + {p <> q}.
  Hypothesis differs_sem : forall m' m, sat m' (differs m) <-> proj m' <> proj m.
  Variable varval : nat -> M -> Z.
  Hypothesis differs_var_sem : forall x m' m, sat m' (differs_var x m) <-> varval x m' <> varval x m.

  Notation solve := (solve oracle objective value better_than stop_now max_iter base).
  Notation sstep := (sstep oracle objective value better_than differs differs_var stop_now max_iter base).
  Notation srun := (srun oracle objective value better_than differs differs_var stop_now max_iter base).
  Notation loop := (opt_loop oracle objective value better_than stop_now max_iter).
  Notation do_init := (@do_init A M base).
  Notation ensure_init := (@ensure_init A M base).

  Lemma ensure_init_init s : ss_init (ensure_init s) = true.
  Proof. unfold SolverSM.ensure_init. destruct (ss_init s) eqn:E; [exact E|reflexivity]. Qed.

  (* solve never changes the permanent assertions: every bound pushed by the optimiser is popped *)
  Lemma solve_perm fuel s s' o evs :
    solve fuel s = (s', o, evs) -> ss_perm s' = ss_perm (ensure_init s) /\ ss_init s' = true.
  Proof.
    unfold SolverSM.solve. destruct objective as [ob|].
    - match goal with |- context [match ?X with _ => _ end] => destruct X as [[[[inc st] k] pushed] ev0] end.
      destruct st; destruct inc; intros [= <- <- <-]; cbn; split; auto using ensure_init_init.
    - destruct (oracle _ _); intros [= <- <- <-]; cbn; auto.
  Qed.

  Lemma loop_keeps_incumbent fuel : forall iter k asserts m pushed evs r st k' pushed' evs',
    loop fuel iter k asserts (Some m) pushed evs = (r, st, k', pushed', evs') -> r <> None.
  Proof.
    induction fuel as [|f IH]; cbn [opt_loop]; intros iter k asserts m pushed evs r st k' pushed' evs' H.
    - injection H as <- _ _ _ _. discriminate.
    - destruct (match max_iter with Some n => Nat.ltb n (S iter) | None => false end).
      { injection H as <- _ _ _ _. discriminate. }
      destruct (oracle k asserts) as [m1| |].
      + destruct (stop_now k); [injection H as <- _ _ _ _; discriminate|].
        destruct (match objective with Some (_, Some b) => value m1 =? b | _ => false end);
          [injection H as <- _ _ _ _; discriminate|]. eapply IH; eauto.
      + injection H as <- _ _ _ _. discriminate.
      + injection H as <- _ _ _ _. discriminate.
  Qed.

  (* C13: a solve() that reports "no solution" saw a first check that was not sat
     (or was told to do zero iterations) *)
  Theorem solve_none_reason fuel s s' evs :
    solve fuel s = (s', Ret None, evs) ->
    let s1 := ensure_init s in
    (objective <> None /\ max_iter = Some 0%nat) \/
    oracle (ss_calls s1) (ss_perm s1) = Unsat \/ oracle (ss_calls s1) (ss_perm s1) = Unknown.
  Proof.
    unfold SolverSM.solve. cbn zeta. destruct objective as [ob|] eqn:Eo.
    - match goal with |- context [match ?X with _ => _ end] => destruct X as [[[[inc st] k] pushed] ev0] eqn:El end.
      intros H.
      assert (Hinc : inc = None) by (destruct st, inc; try discriminate H; reflexivity). subst inc.
      assert (Hst : st <> OutOfFuel) by (intros ->; discriminate H). clear H.
      destruct fuel as [|f]; cbn [opt_loop] in El.
      { exfalso. apply Hst. congruence. }
      assert (Hsat : forall m1, oracle (ss_calls (ensure_init s)) (ss_perm (ensure_init s)) = Sat m1 ->
                (if match max_iter with Some n => Nat.ltb n 1 | None => false end then false else true) = true -> False).
      { intros m1 Eor Hmi. destruct (match max_iter with Some n => Nat.ltb n 1 | None => false end); [discriminate|].
        rewrite Eor in El. destruct (stop_now _); [discriminate El|].
        destruct (match ob with (_, Some b) => value m1 =? b | _ => false end); [discriminate El|].
        rewrite <- Eo in El. apply loop_keeps_incumbent in El. congruence. }
      destruct max_iter as [[|n]|] eqn:Em; cbn [Nat.ltb Nat.leb] in *.
      + left. split; [discriminate|reflexivity].
      + destruct (oracle _ _) as [m1| |] eqn:Eor; [exfalso; eapply Hsat; eauto|auto|auto].
      + destruct (oracle _ _) as [m1| |] eqn:Eor; [exfalso; eapply Hsat; eauto|auto|auto].
    - destruct (oracle _ _) as [m1| |] eqn:Eor; intros H; [discriminate H|auto|auto].
  Qed.

  (* the permanent assertions of a reached state: the base plus blocking clauses of models
     returned earlier by this very object *)
  Inductive blocker : A -> Prop :=
  | BlkAll m : blocker (differs m)
  | BlkVar x m : blocker (differs_var x m).

  Definition perm_ok (s : @sstate A M) : Prop :=
    ss_init s = true -> exists bl, ss_perm s = bl ++ base /\ Forall blocker bl.

  Lemma perm_ok_init s : perm_ok (do_init s).
  Proof. intros _. exists []. split; [reflexivity|constructor]. Qed.
  Lemma perm_ok_ensure s : perm_ok s -> perm_ok (ensure_init s).
  Proof. unfold SolverSM.ensure_init. destruct (ss_init s); auto using perm_ok_init. Qed.

  Lemma solve_perm_ok fuel s s' o evs : perm_ok s -> solve fuel s = (s', o, evs) -> perm_ok s'.
  Proof.
    intros Hp H. apply solve_perm in H as [Hperm Hi]. intros _. rewrite Hperm.
    apply (perm_ok_ensure s Hp). apply ensure_init_init.
  Qed.

  Lemma add_perm_ok s a : ss_init s = true -> perm_ok s -> blocker a -> perm_ok (add_perm s a).
  Proof.
    intros Hi Hp Hb _. destruct (Hp Hi) as (bl & Hbl & Hf). exists (a :: bl). cbn [ss_perm add_perm].
    split; [now rewrite Hbl|constructor; auto].
  Qed.

  (* a model is only ever recorded by a solve, which initialises *)
  Definition model_init (s : @sstate A M) : Prop := ss_model s <> None -> ss_init s = true.

  Lemma sstep_ok fuel s o s' out evs :
    perm_ok s -> model_init s -> sstep fuel s o = (s', out, evs) -> perm_ok s' /\ model_init s'.
  Proof.
    intros Hp Hm H. destruct o; cbn [SolverSM.sstep] in H.
    - injection H as <- _ _. split; [apply perm_ok_init|intros _; reflexivity].
    - destruct (solve fuel s) as [[s1 o1] e1] eqn:Es. injection H as <- _ _.
      split; [eapply solve_perm_ok; eauto|]. intros _. eapply solve_perm; eauto.
    - destruct (ss_model s) as [m|] eqn:Em; [|injection H as <- _ _; auto].
      destruct (solve fuel (add_perm s (differs m))) as [[s1 o1] e1] eqn:Es. injection H as <- _ _.
      assert (Hi : ss_init s = true) by (apply Hm; congruence).
      split; [|intros _; eapply solve_perm; eauto].
      eapply solve_perm_ok; [|exact Es]. apply add_perm_ok; auto. constructor.
    - destruct (ss_model s) as [m|] eqn:Em; [|injection H as <- _ _; auto].
      destruct (solve fuel (add_perm s (differs_var x m))) as [[s1 o1] e1] eqn:Es. injection H as <- _ _.
      assert (Hi : ss_init s = true) by (apply Hm; congruence).
      split; [|intros _; eapply solve_perm; eauto].
      eapply solve_perm_ok; [|exact Es]. apply add_perm_ok; auto. constructor.
    - injection H as <- _ _. split; [now apply perm_ok_ensure|intros _; apply ensure_init_init].
  Qed.

  Theorem srun_ok fuel ops : forall s s' tr,
    perm_ok s -> model_init s -> srun fuel s ops = (s', tr) -> perm_ok s' /\ model_init s'.
  Proof.
    induction ops as [|o ops IH]; cbn [SolverSM.srun]; intros s s' tr Hp Hm H.
    - injection H as <- _. auto.
    - destruct (sstep fuel s o) as [[s1 o1] e1] eqn:Es.
      destruct (sstep_ok _ _ _ _ _ _ Hp Hm Es) as [Hp1 Hm1].
      destruct o1; try (injection H as <- _; auto; fail);
        destruct (srun fuel s1 ops) as [s2 tr2] eqn:Er; injection H as <- _; eapply IH; eauto.
  Qed.

  Lemma s0_ok : perm_ok (@s0 A M) /\ model_init (@s0 A M).
  Proof. split; [intros H; discriminate|intros H; exfalso; apply H; reflexivity]. Qed.

  (* C13, main statement: after ANY history, a solve() that answers "no solution" does so only because
     the oracle said unsat / unknown on  base ++ (blocking clauses this object added itself), or was
     told to do zero iterations; with unsat, no schedule satisfies that set *)
  Theorem history_truthful fuel ops s tr s' evs :
    srun fuel s0 ops = (s, tr) -> sstep fuel s OpSolve = (s', Ret None, evs) ->
    exists bl, Forall blocker bl /\
      ((objective <> None /\ max_iter = Some 0%nat) \/
       (exists k, oracle k (bl ++ base) = Unsat /\ forall m, ~ Forall (sat m) (bl ++ base)) \/
       (exists k, oracle k (bl ++ base) = Unknown)).
  Proof.
    intros Hr Hs. destruct (srun_ok _ _ _ _ _ (proj1 s0_ok) (proj2 s0_ok) Hr) as [Hp _].
    cbn [SolverSM.sstep] in Hs. pose proof (solve_none_reason _ _ _ _ Hs) as Hn. cbn zeta in Hn.
    destruct (perm_ok_ensure s Hp (ensure_init_init s)) as (bl & Hbl & Hf).
    exists bl. split; auto. rewrite Hbl in Hn. destruct Hn as [Hn|[Hn|Hn]]; [now left| |].
    - right. left. eexists. split; [exact Hn|]. eapply oracle_complete; eauto.
    - right. right. eauto.
  Qed.

  (* histories without find_another: the assertion set is exactly the base, every time *)
  Definition plain (o : sop) : bool :=
    match o with OpInitialize | OpSolve | OpExport => true | _ => false end.
  Definition base_only (s : @sstate A M) : Prop := ss_init s = true -> ss_perm s = base.

  Lemma sstep_plain fuel s o s' out evs :
    plain o = true -> base_only s -> sstep fuel s o = (s', out, evs) -> base_only s'.
  Proof.
    intros Hpl Hb H. destruct o; try discriminate; cbn [SolverSM.sstep] in H.
    - injection H as <- _ _. intros _. reflexivity.
    - apply solve_perm in H as [Hperm _]. intros _. rewrite Hperm. unfold SolverSM.ensure_init.
      destruct (ss_init s) eqn:E; [auto|reflexivity].
    - injection H as <- _ _. intros _. unfold SolverSM.ensure_init. destruct (ss_init s) eqn:E; [auto|reflexivity].
  Qed.

  Lemma srun_plain fuel ops : forall s0' s tr,
    base_only s0' -> forallb plain ops = true -> srun fuel s0' ops = (s, tr) -> base_only s.
  Proof.
    induction ops as [|o ops IH]; cbn [SolverSM.srun forallb]; intros s0' s tr Hb Hpl Hr.
    - injection Hr as <- _. exact Hb.
    - apply andb_true_iff in Hpl as [Hpo Hpl].
      destruct (sstep fuel s0' o) as [[s1 o1] e1] eqn:Es.
      pose proof (sstep_plain _ _ _ _ _ _ Hpo Hb Es) as Hb1.
      destruct o1; try (injection Hr as <- _; exact Hb1);
        destruct (srun fuel s1 ops) as [s2 tr2] eqn:Er; injection Hr as <- _; eapply IH; eauto.
  Qed.

  (* C13: solving again (any mix of initialize / export / solve before) reports "no solution" only if
     the oracle says unsat / unknown on the base itself: a feasible problem is never reported
     infeasible by a later solve *)
  Theorem resolve_truthful fuel ops s tr s' evs :
    forallb plain ops = true -> srun fuel s0 ops = (s, tr) ->
    sstep fuel s OpSolve = (s', Ret None, evs) ->
    (objective <> None /\ max_iter = Some 0%nat) \/
    (exists k, oracle k base = Unsat /\ forall m, ~ Forall (sat m) base) \/ (exists k, oracle k base = Unknown).
  Proof.
    intros Hpl Hr Hs.
    assert (Hb : base_only s) by (eapply srun_plain; eauto; intros H; discriminate).
    cbn [SolverSM.sstep] in Hs. pose proof (solve_none_reason _ _ _ _ Hs) as Hn. cbn zeta in Hn.
    assert (Hperm : ss_perm (ensure_init s) = base).
    { unfold SolverSM.ensure_init. destruct (ss_init s) eqn:E; [auto|reflexivity]. }
    rewrite Hperm in Hn. destruct Hn as [Hn|[Hn|Hn]]; [now left| |].
    - right. left. eexists. split; [exact Hn|]. eapply oracle_complete; eauto.
    - right. right. eauto.
  Qed.

  Corollary feasible_never_infeasible fuel ops s tr s' evs m0 :
    Forall (sat m0) base -> forallb plain ops = true -> srun fuel s0 ops = (s, tr) ->
    sstep fuel s OpSolve = (s', Ret None, evs) ->
    (objective <> None /\ max_iter = Some 0%nat) \/ (exists k, oracle k base = Unknown).
  Proof.
    intros Hm Hpl Hr Hs. destruct (resolve_truthful _ _ _ _ _ _ Hpl Hr Hs) as [H|[(k & _ & H)|H]]; auto.
    exfalso. exact (H m0 Hm).
  Qed.

  (* ---------------------------------------------------------------- *)
  (* C12: enumeration by find_another_solution (no objective) *)
  Hypothesis no_objective : objective = None.

  Fixpoint enum (fuel n : nat) (s : @sstate A M) : list M * bool :=
    match n with
    | O => ([], false)
    | S n' =>
        match sstep fuel s OpFindAnother with
        | (s', Ret (Some m), _) => let '(l, e) := enum fuel n' s' in (m :: l, e)
        | (_, Ret None, evs) => ([], match last evs EPush with ECheck _ Unsat => true | _ => false end)
        | _ => ([], false)
        end
    end.

  (* seen: the schedules returned so far, most recent first *)
  Definition EnumInv (s : @sstate A M) (seen : list M) : Prop :=
    ss_init s = true /\ (exists mc rest, seen = mc :: rest /\ ss_model s = Some mc /\ ss_perm s = map differs rest ++ base) /\
    (forall m, In m seen -> Forall (sat m) base) /\ NoDup (map proj seen).

  Lemma not_all_differ seen m :
    ~ Forall (sat m) (map differs seen) -> exists s, In s seen /\ proj m = proj s.
  Proof.
    induction seen as [|x seen IH]; cbn [map]; intros H.
    - exfalso. apply H. constructor.
    - destruct (proj_eq_dec (proj m) (proj x)) as [E|E].
      + exists x. split; [now left|exact E].
      + destruct IH as (y & Hy & Hp).
        * intros Hf. apply H. constructor; [apply differs_sem; exact E|exact Hf].
        * exists y. split; [now right|exact Hp].
  Qed.

  Theorem enum_correct fuel n : forall s seen l ex,
    EnumInv s seen -> enum fuel n s = (l, ex) ->
    (forall m, In m l -> Forall (sat m) base) /\
    NoDup (map proj (rev l ++ seen)) /\
    (ex = true -> forall m, Forall (sat m) base -> In (proj m) (map proj (rev l ++ seen))).
  Proof.
    induction n as [|n IH]; cbn [enum]; intros s seen l ex HI He.
    - injection He as <- <-. destruct HI as (_ & _ & _ & Hnd). cbn. repeat split; auto; [intros ? []|discriminate].
    - destruct HI as (Hi & (mc & rest & -> & Hm & Hperm) & Hb & Hnd).
      cbn [SolverSM.sstep] in He. rewrite Hm in He. unfold SolverSM.solve in He. rewrite no_objective in He.
      unfold SolverSM.ensure_init, SolverSM.add_perm in He. cbn [ss_init ss_perm ss_calls ss_model] in He. rewrite Hi in He.
      cbn [ss_perm ss_calls ss_model ss_init] in He.
      assert (Hp' : differs mc :: ss_perm s = map differs (mc :: rest) ++ base) by (now rewrite Hperm).
      rewrite Hp' in He.
      destruct (oracle (ss_calls s) (map differs (mc :: rest) ++ base)) as [m| |] eqn:Eor.
      + pose proof (oracle_sound _ _ _ Eor) as Hs. apply Forall_app in Hs as [Hd Hbase].
        destruct (enum fuel n _) as [l0 e0] eqn:Een. injection He as <- <-.
        assert (Hnew : ~ In (proj m) (map proj (mc :: rest))).
        { intros Hin. apply in_map_iff in Hin as (y & Hpy & Hy). rewrite Forall_forall in Hd.
          assert (Hsd : sat m (differs y)) by (apply Hd; now apply in_map).
          apply differs_sem in Hsd. congruence. }
        eapply (IH _ (m :: mc :: rest)) in Een.
        * destruct Een as (H1 & H2 & H3). cbn [rev]. rewrite <- app_assoc. cbn [app].
          split; [intros m' [<-|Hin]; auto|]. split; [exact H2|exact H3].
        * split; [reflexivity|]. split.
          { exists m, (mc :: rest). cbn [ss_model ss_perm]. repeat split. }
          split.
          { intros m' [<-|Hin]; auto. }
          cbn [map]. constructor; auto.
      + injection He as <- <-. cbn [rev app last]. split; [intros ? []|]. split; [exact Hnd|]. intros _ m Hmb.
        destruct (not_all_differ (mc :: rest) m) as (y & Hy & Hp).
        { intros Hf. apply (oracle_complete _ _ Eor m). apply Forall_app. split; auto. }
        apply in_map_iff. exists y. auto.
      + injection He as <- <-. cbn [rev app last]. split; [intros ? []|]. split; [exact Hnd|]. discriminate.
  Qed.

  (* after a successful solve(), repeated find_another_solution() returns valid schedules that are
     pairwise distinct in (start, end, scheduled), and a failure by unsat means every valid schedule
     has been returned *)
  Theorem enumeration fuel n s1 m0 evs l ex :
    sstep fuel s0 OpSolve = (s1, Ret (Some m0), evs) -> enum fuel n s1 = (l, ex) ->
    (forall m, In m (m0 :: l) -> Forall (sat m) base) /\
    NoDup (map proj (rev l ++ [m0])) /\
    (ex = true -> forall m, Forall (sat m) base -> In (proj m) (map proj (rev l ++ [m0]))).
  Proof.
    intros Hs He. cbn [SolverSM.sstep] in Hs. unfold SolverSM.solve in Hs. rewrite no_objective in Hs.
    cbn in Hs. destruct (oracle 0%nat base) as [m| |] eqn:Eor; try discriminate. injection Hs as <- <- _.
    pose proof (oracle_sound _ _ _ Eor) as Hb.
    eapply (enum_correct fuel n _ [m]) in He.
    - destruct He as (H1 & H2 & H3). split; [intros m' [<-|Hin]; auto|]. split; auto.
    - split; [reflexivity|]. split; [exists m, []; repeat split|]. split.
      + intros m' [<-|[]]. exact Hb.
      + cbn. constructor; [intros []|constructor].
  Qed.

  (* with a finite space of schedules (a horizon), the number of successes is bounded by its size:
     the enumeration visits every distinct valid timing at most once, hence terminates *)
  Corollary enumeration_bounded fuel n s1 m0 evs l ex (U : list P) :
    (forall m, Forall (sat m) base -> In (proj m) U) ->
    sstep fuel s0 OpSolve = (s1, Ret (Some m0), evs) -> enum fuel n s1 = (l, ex) ->
    (S (length l) <= length U)%nat.
  Proof.
    intros HU Hs He. destruct (enumeration _ _ _ _ _ _ _ Hs He) as (H1 & H2 & _).
    assert (Hlen : length (map proj (rev l ++ [m0])) = S (length l)).
    { rewrite map_length, app_length, rev_length. cbn. lia. }
    rewrite <- Hlen. apply NoDup_incl_length; [exact H2|].
    intros p Hp. apply in_map_iff in Hp as (m & <- & Hm). apply HU. apply H1.
    apply in_app_or in Hm as [Hm|[<-|[]]]; [right; now apply in_rev|now left].
  Qed.

  (* find_another_solution_for_variable: the returned schedule is valid and the variable differs *)
  Theorem another_for_variable fuel s x mc s' m evs :
    ss_init s = true -> ss_model s = Some mc ->
    sstep fuel s (OpFindAnotherVar x) = (s', Ret (Some m), evs) ->
    Forall (sat m) (ss_perm s) /\ varval x m <> varval x mc.
  Proof.
    intros Hi Hm He. cbn [SolverSM.sstep] in He. rewrite Hm in He. unfold SolverSM.solve in He.
    rewrite no_objective in He. unfold SolverSM.ensure_init, SolverSM.add_perm in He.
    cbn [ss_init ss_perm ss_calls ss_model] in He. rewrite Hi in He.
    cbn [ss_perm ss_calls ss_model ss_init] in He.
    destruct (oracle (ss_calls s) (differs_var x mc :: ss_perm s)) as [m1| |] eqn:Eor; try discriminate.
    injection He as _ <- _. pose proof (oracle_sound _ _ _ Eor) as Hs. inversion Hs; subst.
    split; auto. now apply differs_var_sem.
  Qed.

End Histories.
