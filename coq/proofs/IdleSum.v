(* IdleSum.v -- what the idle-time encoding computes.  IndicatorResourceIdle sorts the busy starts and the busy ends of a
   resource separately (two strictly increasing copies) and sums a_{i+1} - b_i over the ranks where both are non-negative.
   For intervals that are parked (both ends negative) or assigned (non-negative start, positive length) and pairwise disjoint,
   that sum is the sum of the gaps between each assigned interval and the next one in time order. *)
From Coq Require Import ZArith List Bool Lia ZifyBool Permutation Sorted.
From PS.proofs Require Import SortNoDup.
Import ListNotations.
Open Scope Z_scope.

(* the sum the encoder writes: over the pairs (b_{i}, a_{i+1}) *)
Fixpoint idle_sum (A B : list Z) : Z :=
  match A, B with
  | _ :: ((ai :: _) as ar), bp :: br => (if (0 <=? bp) && (0 <=? ai) then ai - bp else 0) + idle_sum ar br
  | _, _ => 0
  end.

(* the documented value: gaps between consecutive intervals of a list in time order *)
Fixpoint gaps (L : list (Z * Z)) : Z :=
  match L with
  | p :: ((q :: _) as r) => (fst q - snd p) + gaps r
  | _ => 0
  end.

Lemma sorted_split A : StronglySorted Z.lt A -> A = filter (fun x => x <? 0) A ++ filter (fun x => 0 <=? x) A.
Proof.
  induction 1 as [|x A HA IH Hx]; [reflexivity|]. cbn [filter].
  destruct (x <? 0) eqn:E1; destruct (0 <=? x) eqn:E2; try lia.
  - cbn [app]. f_equal. exact IH.
  - assert (Hn : filter (fun y => y <? 0) A = []).
    { clear IH HA. induction A as [|y A IHA]; [reflexivity|]. inversion Hx as [|? ? Hy Hr]; subst. cbn [filter].
      destruct (y <? 0) eqn:E3; [lia|]. now apply IHA. }
    assert (Hp : filter (fun y => 0 <=? y) A = A).
    { clear IH HA Hn. induction A as [|y A IHA]; [reflexivity|]. inversion Hx as [|? ? Hy Hr]; subst. cbn [filter].
      destruct (0 <=? y) eqn:E3; [|lia]. f_equal. now apply IHA. }
    rewrite Hn, Hp. reflexivity.
Qed.

Lemma sorted_perm_eq l1 : forall l2, StronglySorted Z.lt l1 -> StronglySorted Z.lt l2 -> Permutation l1 l2 -> l1 = l2.
Proof.
  induction l1 as [|x r1 IH]; intros l2 H1 H2 Hp.
  - apply Permutation_nil in Hp. now subst.
  - destruct l2 as [|y r2]; [apply Permutation_sym, Permutation_nil in Hp; discriminate|].
    inversion H1 as [|? ? S1 F1]; subst. inversion H2 as [|? ? S2 F2]; subst.
    assert (x = y).
    { assert (Hx : In x (y :: r2)) by (eapply Permutation_in; [exact Hp|now left]).
      assert (Hy : In y (x :: r1)) by (eapply Permutation_in; [exact (Permutation_sym Hp)|now left]).
      destruct Hx as [->|Hx]; [reflexivity|]. destruct Hy as [->|Hy]; [reflexivity|].
      rewrite Forall_forall in F1, F2. specialize (F1 _ Hy). specialize (F2 _ Hx). lia. }
    subst y. f_equal. apply IH; auto. now apply Permutation_cons_inv in Hp.
Qed.

Lemma filter_sorted (f : Z -> bool) A : StronglySorted Z.lt A -> StronglySorted Z.lt (filter f A).
Proof.
  induction 1 as [|x A HA IH Hx]; [constructor|]. cbn [filter]. destruct (f x); [|exact IH].
  constructor; [exact IH|]. rewrite Forall_forall in *. intros y Hy. apply filter_In in Hy as [Hy _]. auto.
Qed.

Lemma filter_perm {A} (f : A -> bool) l l' : Permutation l l' -> Permutation (filter f l) (filter f l').
Proof.
  induction 1 as [|x l l' Hp IH|x y l|l l' l'' H1 IH1 H2 IH2]; cbn [filter].
  - constructor.
  - destruct (f x); [now constructor|exact IH].
  - destruct (f x), (f y); try apply Permutation_refl. apply perm_swap.
  - eapply Permutation_trans; eauto.
Qed.

Lemma filter_map_comm {A} (g : A -> Z) (f : Z -> bool) l : filter f (map g l) = map g (filter (fun x => f (g x)) l).
Proof. induction l as [|x l IH]; [reflexivity|]. cbn [map filter]. destruct (f (g x)); cbn [map]; congruence. Qed.

Lemma idle_sum_cons x ai ar bp br :
  idle_sum (x :: ai :: ar) (bp :: br) = (if (0 <=? bp) && (0 <=? ai) then ai - bp else 0) + idle_sum (ai :: ar) br.
Proof. reflexivity. Qed.
Lemma gaps_cons p q r : gaps (p :: q :: r) = (fst q - snd p) + gaps (q :: r).
Proof. reflexivity. Qed.

Lemma idle_sum_prefix A1 : forall B1 A2 B2, length A1 = length B1 -> Forall (fun y => y < 0) B1 ->
  idle_sum (A1 ++ A2) (B1 ++ B2) = idle_sum A2 B2.
Proof.
  induction A1 as [|x A1 IH]; intros B1 A2 B2 Hl Hn.
  - destruct B1; [reflexivity|discriminate].
  - destruct B1 as [|y B1]; [discriminate|]. inversion Hn as [|? ? Hy Hn']; subst.
    cbn [app]. specialize (IH B1 A2 B2 ltac:(cbn in Hl; lia) Hn').
    destruct (A1 ++ A2) as [|ai ar] eqn:E.
    + cbn [idle_sum]. apply app_eq_nil in E as [-> ->]. destruct B1; [|discriminate]. cbn [app]. destruct B2; reflexivity.
    + rewrite idle_sum_cons, IH. destruct (0 <=? y) eqn:E1; [lia|]. cbn [andb]. lia.
Qed.

Lemma idle_sum_gaps L : (forall p, In p L -> 0 <= fst p /\ 0 <= snd p) -> idle_sum (map fst L) (map snd L) = gaps L.
Proof.
  induction L as [|p L IH]; intros H; [reflexivity|].
  destruct L as [|q r]; [reflexivity|].
  cbn [map]. cbn [map] in IH. rewrite idle_sum_cons, gaps_cons, IH by (intros x Hx; apply H; now right).
  destruct (H p (or_introl eq_refl)) as [_ Hp]. destruct (H q (or_intror (or_introl eq_refl))) as [Hq _].
  destruct (0 <=? snd p) eqn:E1; [|lia]. destruct (0 <=? fst q) eqn:E2; [|lia]. reflexivity.
Qed.

(* the ends of disjoint positive-length intervals come in the order of their starts *)
Lemma ends_sorted (L : list (Z * Z)) :
  StronglySorted (fun p q => fst p < fst q) L ->
  (forall p, In p L -> assigned p) ->
  (forall p q, In p L -> In q L -> fst p <> fst q -> snd p <= fst q \/ snd q <= fst p) ->
  StronglySorted Z.lt (map snd L).
Proof.
  induction 1 as [|p L HL IH Hp]; intros Ha Hd; [constructor|]. cbn [map]. constructor.
  - apply IH; [intros x Hx; apply Ha; now right|intros x y Hx Hy; apply Hd; now right].
  - rewrite Forall_forall in *. intros v Hv. apply in_map_iff in Hv as (q & <- & Hq).
    specialize (Hp _ Hq). pose proof (Ha p (or_introl eq_refl)) as [A1 A2]. pose proof (Ha q (or_intror Hq)) as [A3 A4].
    destruct (Hd p q (or_introl eq_refl) (or_intror Hq) ltac:(lia)); lia.
Qed.

Lemma starts_sorted (L : list (Z * Z)) : StronglySorted (fun p q => fst p < fst q) L -> StronglySorted Z.lt (map fst L).
Proof.
  induction 1 as [|p L HL IH Hp]; [constructor|]. cbn [map]. constructor; [exact IH|].
  rewrite Forall_forall in *. intros v Hv. apply in_map_iff in Hv as (q & <- & Hq). auto.
Qed.

Theorem idle_value (P L : list (Z * Z)) A B :
  Permutation A (map fst P) -> StronglySorted Z.lt A -> Permutation B (map snd P) -> StronglySorted Z.lt B ->
  (forall p, In p P -> parked p \/ assigned p) ->
  (forall p q, In p P -> In q P -> assigned p -> assigned q -> fst p <> fst q -> snd p <= fst q \/ snd q <= fst p) ->
  Permutation L (filter (fun p => 0 <=? fst p) P) -> StronglySorted (fun p q => fst p < fst q) L ->
  idle_sum A B = gaps L.
Proof.
  intros PA SA PB SB Hk Hd PL SL.
  assert (HL : forall p, In p L -> In p P /\ assigned p).
  { intros p Hp. apply (Permutation_in _ PL) in Hp. apply filter_In in Hp as [Hp Hs]. split; [exact Hp|].
    destruct (Hk p Hp) as [[H _]|H]; [lia|exact H]. }
  (* the non-negative part of A is the starts of L *)
  assert (EA : filter (fun x => 0 <=? x) A = map fst L).
  { apply sorted_perm_eq; [now apply filter_sorted|now apply starts_sorted|].
    eapply Permutation_trans; [apply filter_perm; exact PA|]. rewrite filter_map_comm. apply Permutation_map. now apply Permutation_sym. }
  (* the non-negative part of B is the ends of L *)
  assert (Hsame : filter (fun p : Z * Z => 0 <=? snd p) P = filter (fun p => 0 <=? fst p) P).
  { apply filter_ext_in. intros p Hp. destruct (Hk p Hp) as [[H1 H2]|[H1 H2]]; lia. }
  assert (EB : filter (fun x => 0 <=? x) B = map snd L).
  { apply sorted_perm_eq; [now apply filter_sorted| |].
    - apply ends_sorted; [exact SL|intros p Hp; now apply HL|].
      intros p q Hp Hq Hne. destruct (HL p Hp), (HL q Hq). now apply Hd.
    - eapply Permutation_trans; [apply filter_perm; exact PB|]. rewrite filter_map_comm, Hsame. apply Permutation_map. now apply Permutation_sym. }
  rewrite (sorted_split A SA), (sorted_split B SB), EA, EB.
  rewrite idle_sum_prefix.
  - apply idle_sum_gaps. intros p Hp. destruct (HL p Hp) as [_ [H1 H2]]. lia.
  - (* as many negative starts as negative ends *)
    pose proof (filter_compl (fun x => x <? 0) A) as CA. pose proof (filter_compl (fun x => x <? 0) B) as CB.
    assert (FA : filter (fun x => negb (x <? 0)) A = filter (fun x => 0 <=? x) A) by (apply filter_ext; intros x; lia).
    assert (FB : filter (fun x => negb (x <? 0)) B = filter (fun x => 0 <=? x) B) by (apply filter_ext; intros x; lia).
    cbn beta in CA, CB. rewrite FA, EA in CA. rewrite FB, EB in CB. rewrite map_length in CA, CB.
    pose proof (Permutation_length PA) as LA. pose proof (Permutation_length PB) as LB. rewrite map_length in LA, LB. lia.
  - rewrite Forall_forall. intros y Hy. apply filter_In in Hy as [_ Hy]. lia.
Qed.
