(* C08_idle.v -- IndicatorResourceIdle: whenever the busy intervals of the resource are parked or assigned and pairwise
   disjoint (the shape C02 gives them), the indicator equals the sum of the gaps between each assigned interval and the next
   assigned one in time order. *)
From Coq Require Import ZArith List Bool Lia ZifyBool Permutation Sorted String.
From PS.model Require Import Smt Enc Ind Prog.
From PS.spec Require Import Spec.
From PS.proofs Require Import Base SortNoDup Sort_model IdleSum C04_distance C08_proof Examples3.
Import ListNotations.
Open Scope Z_scope.

(* the sum written by the encoder, evaluated: idle_sum of the two sorted copies *)
Lemma consec_cons (x ai : term) ar bp br : consec (x :: ai :: ar) (bp :: br) = (bp, ai) :: consec (ai :: ar) br.
Proof. reflexivity. Qed.
Lemma consec_sum e (a b : list term) :
  tsum e (map (fun '(bp, ai) => TIte (FAnd [FGe bp (TC 0); FGe ai (TC 0)]) (TSub ai bp) (TC 0)) (consec a b))
  = idle_sum (map (teval e) a) (map (teval e) b).
Proof.
  revert b. induction a as [|x r IH]; intros b; [reflexivity|].
  destruct r as [|ai ar]; [destruct b; reflexivity|]. destruct b as [|bp br]; [reflexivity|].
  rewrite consec_cons. rewrite !map_cons, tsum_cons. rewrite !map_cons in IH. rewrite IH. rewrite idle_sum_cons. f_equal.
  rewrite ev_ite, ev_and2, !ev_ge, ev_sub, !ev_tc.
  destruct (teval e bp >=? 0) eqn:E1, (teval e ai >=? 0) eqn:E2, (0 <=? teval e bp) eqn:E3, (0 <=? teval e ai) eqn:E4; cbn [andb]; try reflexivity; lia.
Qed.

Theorem idle_sound e (r : indrec) (rc : rcsnap) :
  i_expr r = IIdle rc ->
  (forall f, In f (ind_asserts r) -> feval e f = true) ->
  let o := own_w (rc_snap rc) in
  feval e (busy_shape o (rs_own (rc_snap rc))) = true ->
  feval e (busy_disjoint o (rs_own (rc_snap rc))) = true ->
  forall L, Permutation L (filter (fun p => 0 <=? fst p) (map (bspan e o) (rs_own (rc_snap rc)))) ->
            StronglySorted (fun p q => fst p < fst q) L ->
  iv e (VInd (i_id r)) = gaps L.
Proof.
  intros He H o Hshape Hdisj L PL SL.
  unfold ind_asserts in H. rewrite He in H. cbn [enc_ind] in H.
  set (ps := own_pairs (rc_snap rc)) in *.
  pose proof (dsort_sem e (iaux (i_id r)) 0 (map fst ps)) as H1.
  pose proof (dsort_sem e (iaux (i_id r)) (List.length ps) (map snd ps)) as H2.
  destruct (dsort (iaux (i_id r)) 0 (map fst ps)) as [a c1]. destruct (dsort (iaux (i_id r)) (List.length ps) (map snd ps)) as [b c2].
  cbn [fst snd] in *.
  destruct H1 as (PA & SA & _). { intros f Hf. apply H. apply in_or_app. now left. }
  destruct H2 as (PB & SB & _). { intros f Hf. apply H. apply in_or_app. right. apply in_or_app. now left. }
  assert (HI : feval e (FEq (TV (VInd (i_id r)))
                 (TAdd (map (fun '(bp, ai) => TIte (FAnd [FGe bp (TC 0); FGe ai (TC 0)]) (TSub ai bp) (TC 0)) (consec a b)))) = true).
  { apply H. apply in_or_app. right. apply in_or_app. right. now left. }
  apply feq_iff in HI. rewrite ev_tv, teval_tadd, consec_sum in HI. rewrite HI.
  set (P := map (bspan e o) (rs_own (rc_snap rc))) in *.
  assert (EA : map (teval e) (map fst ps) = map fst P).
  { unfold ps, P, own_pairs. rewrite !map_map. apply map_ext. intros x. reflexivity. }
  assert (EB : map (teval e) (map snd ps) = map snd P).
  { unfold ps, P, own_pairs. rewrite !map_map. apply map_ext. intros x. reflexivity. }
  rewrite EA in PA. rewrite EB in PB.
  pose proof (busy_shape_sem e o _ Hshape) as Hk. pose proof (busy_disjoint_sem e o _ Hdisj) as Hd.
  apply (idle_value P L); auto.
  - intros p Hp. apply in_map_iff in Hp as (x & <- & Hx). auto.
  - intros p q Hp Hq _ _ Hne. apply in_map_iff in Hp as (x & <- & Hx). apply in_map_iff in Hq as (y & <- & Hy).
    apply Hd; auto. intros ->. now apply Hne.
Qed.

(* from an admitted valuation of a problem state *)
Theorem idle_time_sound st e r rc :
  sat e (initialize st) -> In r (x_inds (ps_ext st)) -> i_expr r = IIdle rc ->
  let o := own_w (rc_snap rc) in
  feval e (busy_shape o (rs_own (rc_snap rc))) = true ->
  feval e (busy_disjoint o (rs_own (rc_snap rc))) = true ->
  forall L, Permutation L (filter (fun p => 0 <=? fst p) (map (bspan e o) (rs_own (rc_snap rc)))) ->
            StronglySorted (fun p q => fst p < fst q) L ->
  iv e (VInd (i_id r)) = gaps L.
Proof.
  intros Hs Hin He o. apply sat_initialize_ext in Hs as [Hi _].
  apply (idle_sound e r rc He). intros f Hf. exact (Hi r Hin f Hf).
Qed.

(* non-vacuity: in the example state, worker 2 holds [2,5) and [6,7); its idle time is 1 *)
Example idle_example : exists st r rc L,
  reaches ex3_prog st /\ sat ex3_env (initialize st) /\ In r (x_inds (ps_ext st)) /\ i_expr r = IIdle rc
  /\ feval ex3_env (busy_shape (own_w (rc_snap rc)) (rs_own (rc_snap rc))) = true
  /\ feval ex3_env (busy_disjoint (own_w (rc_snap rc)) (rs_own (rc_snap rc))) = true
  /\ Permutation L (filter (fun p => 0 <=? fst p) (map (bspan ex3_env (own_w (rc_snap rc))) (rs_own (rc_snap rc))))
  /\ StronglySorted (fun p q => fst p < fst q) L /\ L = [(2, 5); (6, 7)] /\ gaps L = 1 /\ iv ex3_env (VInd (i_id r)) = 1.
Proof.
  unfold reaches. vm_compute run. eexists. eexists. eexists. exists [(2, 5); (6, 7)].
  split; [reflexivity|]. split; [apply sat_bool; vm_compute; reflexivity|].
  split; [cbn [x_inds ps_ext]; do 7 right; left; reflexivity|].
  split; [reflexivity|]. split; [vm_compute; reflexivity|]. split; [vm_compute; reflexivity|].
  split; [vm_compute; apply perm_swap|].
  split; [repeat constructor|]. split; [reflexivity|]. split; vm_compute; reflexivity.
Qed.
