(* C02_reach.v -- the structural hypothesis cumul_ok of the capacity theorem holds in every state reached by a program
   in which no requirement names a unit worker of a cumulative worker directly. *)
From Coq Require Import ZArith List Bool Lia ZifyBool String.
From PS.model Require Import Smt Enc Ind Prog Solution.
From PS.spec Require Import Spec.
From PS.proofs Require Import Base Cons_proof Res_proof Wf_proof C01_proof C11_views C02_capacity.
Import ListNotations.
Open Scope Z_scope.

Definition cum_inv (st : pstate) : Prop :=
  (* automatic selections are over exactly the units of a cumulative worker, "at least one" *)
  (forall t a, In a (areqs_of st t) -> forall k listed n kd, a = AQSelect (SAuto k) listed n kd ->
     exists cu, In cu (ps_cumuls st) /\ map fst listed = map RW (units_of cu) /\ n = 1 /\ kd = PbMin)
  (* every resource listed by a selection requirement of a task is among its required resources *)
  /\ (forall t s listed n kd, In (AQSelect s listed n kd) (areqs_of st t) -> forall r p, In (r, p) listed -> In r (reqs_of st t))
  (* cumulative workers: distinct identifiers, at least one unit, units are workers of the problem *)
  /\ NoDup (map cu_id (ps_cumuls st))
  /\ (forall cu, In cu (ps_cumuls st) -> (1 <= cu_size cu)%nat /\ forall w, In w (units_of cu) -> In w (map w_ref (ps_workers st))).

Lemma cum_empty h : cum_inv (empty_problem h).
Proof. split; [intros t a []|]. split; [intros t s l n k []|]. split; [constructor|intros cu []]. Qed.

Lemma find_cumul_none_notin st c : find_cumul st c = None -> ~ In c (map cu_id (ps_cumuls st)).
Proof.
  unfold find_cumul. intros H Hin. apply in_map_iff in Hin as (x & <- & Hx).
  apply (find_none _ _ H) in Hx. now rewrite Nat.eqb_refl in Hx.
Qed.
Lemma find_cumul_in st c cu : find_cumul st c = Some cu -> In cu (ps_cumuls st) /\ cu_id cu = c.
Proof. unfold find_cumul. intros H. apply find_some in H as [H1 H2]. apply Nat.eqb_eq in H2. auto. Qed.

(* the listed-with-parking-points list built by the SelectWorkers branch has the listed resources as first components *)
Lemma add_select_parts st t s :
  exists listed, map fst listed = s_listed s
    /\ ps_areqs (add_select st t s) = push_list Nat.eqb (ps_areqs st) (ti_id t) (AQSelect (s_ref s) listed (s_n s) (s_kind s))
    /\ ps_reqs (add_select st t s) = al_set Nat.eqb (ps_reqs st) (ti_id t) (reqs_of st (ti_id t) ++ s_listed s)
    /\ ps_cumuls (add_select st t s) = ps_cumuls st /\ ps_workers (add_select st t s) = ps_workers st.
Proof.
  unfold add_select. destruct (fold_left _ (s_listed s) (ps_busy st, ps_neg st, [])) as [[busy neg] listed] eqn:Ef.
  exists listed. apply select_fold_flag in Ef as [_ Hm]. cbn in Hm. cbn. auto.
Qed.

Lemma add_select_cum st t s :
  cum_inv st ->
  (forall k, s_ref s = SAuto k -> exists cu, In cu (ps_cumuls st) /\ s_listed s = map RW (units_of cu) /\ s_n s = 1 /\ s_kind s = PbMin) ->
  cum_inv (add_select st t s).
Proof.
  intros (J1 & J6 & J2 & J3) Hauto. destruct (add_select_parts st t s) as (listed & Hl & Ha & Hr & Hc & Hw).
  unfold cum_inv, areqs_of, reqs_of. rewrite Ha, Hr, Hc, Hw. split; [|split; [|split; [exact J2|exact J3]]].
  - intros t0 a Hin k l n kd ->. rewrite get_list_push in Hin. destruct (Nat.eqb t0 (ti_id t)).
    + apply in_app_or in Hin as [Hin|[Hin|[]]]; [eapply J1; eauto|]. injection Hin as Hs <- <- <-.
      destruct (Hauto k Hs) as (cu & Hcu & Hls & Hn & Hk). exists cu. rewrite Hl. auto.
    + eapply J1; eauto.
  - intros t0 s0 l n kd Hin r p Hrp. rewrite get_list_push in Hin. rewrite get_list_set. destruct (Nat.eqb t0 (ti_id t)) eqn:Et.
    + apply in_app_or in Hin as [Hin|[Hin|[]]].
      * apply Nat.eqb_eq in Et. subst t0. apply in_or_app. left. eapply J6; eauto.
      * injection Hin as _ <- _ _. apply in_or_app. right. rewrite <- Hl. change r with (fst (r, p)). now apply in_map.
    + eapply J6; eauto.
Qed.

Lemma step_cum st o st' : cum_inv st -> step_problem st o = Ok st' -> cum_inv st'.
Proof.
  intros Hc H. pose proof Hc as (J1 & J6 & J2 & J3). destruct o; cbn [step_problem] in H.
  - break H; injection H as <-; apply cum_empty.
  - break H. injection H as <-. exact Hc.
  - (* worker: the list of workers grows *) break H. injection H as <-. split; [exact J1|split; [exact J6|split; [exact J2|]]].
    intros cu Hcu. destruct (J3 cu Hcu) as [Hs Hu]. split; [exact Hs|]. intros w Hw. cbn [ps_workers]. rewrite map_app. apply in_or_app. left. auto.
  - (* cumulative *) break H. injection H as <-. split; [|split; [exact J6|split]].
    + intros t a Hin k l n kd Ha. destruct (J1 t a Hin k l n kd Ha) as (cu & Hcu & Hrest). exists cu. split; [cbn; apply in_or_app; now left|exact Hrest].
    + cbn [ps_cumuls]. rewrite map_app. cbn [map cu_id]. apply nodup_app_fresh; [exact J2|repeat constructor; auto|].
      intros x Hx [<-|[]]. exact (find_cumul_none_notin st _ Heqo Hx).
    + intros cu Hcu. cbn [ps_cumuls] in Hcu. apply in_app_or in Hcu as [Hcu|[<-|[]]].
      * destruct (J3 cu Hcu) as [Hs Hu]. split; [exact Hs|]. intros w Hw. cbn [ps_workers]. rewrite map_app. apply in_or_app. left. auto.
      * cbn [cu_size]. apply negb_false_iff in Heqb. apply andb_true_iff in Heqb as [Hsz Hp]. split; [lia|].
        intros w Hw. cbn [ps_workers]. rewrite map_app. apply in_or_app. right. rewrite map_map.
        unfold units_of in Hw. cbn [cu_id cu_size] in Hw. apply in_map_iff in Hw as (i & <- & Hi). apply in_seq in Hi.
        (* the i-th record built by the constructor is unit i *)
        assert (Hlen : forall n p, List.length (distribute p n) = n).
        { intros n p. unfold distribute. destruct n; [reflexivity|]. cbn. now rewrite repeat_length. }
        set (n := Z.to_nat size) in *.
        assert (G : forall (L : list (Z * Z)) s m, List.length L = m -> (s <= i < s + m)%nat ->
                  In (WUnit id i) (map (fun x : nat * (Z * Z) => w_ref (let '(i0, (p, c)) := x in {| w_ref := WUnit id i0; w_prod := p; w_cost := CostConst c |})) (combine (seq s m) L))).
        { intros L s m. revert L s. induction m as [|m IHm]; intros [|q L'] s HL Hr; cbn in HL; try lia.
          destruct q as [p c]. cbn [seq combine map]. destruct (Nat.eq_dec s i) as [->|Hne]; [now left|right].
          apply IHm; [lia|lia]. }
        apply G; [|lia]. rewrite combine_length, !Hlen. lia.
  - break H. injection H as <-. exact Hc.
  - break H; injection H as <-.
    + (* direct *) unfold cum_inv, areqs_of, reqs_of. cbn [ps_areqs ps_reqs ps_cumuls ps_workers]. split; [|split; [|split; [exact J2|exact J3]]].
      * intros tt a Hin k l n kd ->. rewrite get_list_push in Hin. destruct (Nat.eqb tt t).
        -- apply in_app_or in Hin as [Hin|[Hin|[]]]; [eapply J1; eauto|discriminate].
        -- eapply J1; eauto.
      * intros tt s0 l n kd Hin rr p Hrp. rewrite get_list_push in Hin. rewrite get_list_push. destruct (Nat.eqb tt t) eqn:Et.
        -- apply in_app_or in Hin as [Hin|[Hin|[]]]; [|discriminate]. apply Nat.eqb_eq in Et. subst tt. apply in_or_app. left. eapply J6; eauto.
        -- eapply J6; eauto.
    + (* cumulative: the automatic selection *)
      assert (Hcu := find_cumul_in st c _ Heqo0).
      pose proof (add_select_cum st t0 {| s_ref := SAuto (ps_nauto st); s_listed := map RW (units_of c0); s_n := 1; s_kind := PbMin |} Hc) as Hs.
      assert (Hs' : cum_inv (add_select st t0 {| s_ref := SAuto (ps_nauto st); s_listed := map RW (units_of c0); s_n := 1; s_kind := PbMin |})).
      { apply Hs. intros k _. exists c0. cbn. destruct Hcu. auto. }
      destruct Hs' as (A1 & A6 & A2 & A3). split; [exact A1|split; [exact A6|split; [exact A2|exact A3]]].
    + (* user selection *) apply add_select_cum; [exact Hc|]. intros k Hk. apply find_some in Heqo0 as [_ Hsr].
      apply internal_sref_dec_bl in Hsr. rewrite Hsr in Hk. discriminate.
  - break H. injection H as <-. exact Hc.
  - break H. injection H as <-. exact Hc.
  - break H. injection H as <-. unfold add_indicator in *. break Heqo1. injection Heqo1 as <-. exact Hc.
  - break H; injection H as <-;
      try (unfold add_indicator in *;
           match goal with Ha : (if key_taken _ _ then _ else _) = Some _ |- _ => break Ha; injection Ha as <- end); exact Hc.
Qed.

Lemma run_from_cum ops : forall st idx st',
  (match st with Some s => cum_inv s | None => True end) ->
  run_from st idx ops = RunOk (Some st') -> cum_inv st'.
Proof.
  induction ops as [|o ops IH]; cbn [run_from]; intros st idx st' Hw H.
  - injection H as ->. exact Hw.
  - destruct (step st o) as [s1| |] eqn:Hs; try discriminate.
    apply (IH (Some s1) (S idx) st'); [|exact H].
    unfold step in Hs. destruct o, st as [s0|]; try discriminate;
      try (eapply step_cum; [|exact Hs]; first [exact Hw | apply cum_empty]).
Qed.
Theorem reachable_cum ops st : reaches ops st -> cum_inv st.
Proof. unfold reaches, run. apply run_from_cum. exact I. Qed.

(* ---------------- the guard and the derivation ---------------- *)
(* no requirement of the program names a unit of a cumulative worker directly (the library creates the units itself and
   hands out only the cumulative worker; a user can still reach them through CumulativeWorker.cumulative_workers) *)
Definition no_direct_unit (st : pstate) : Prop :=
  forall t w dyn di eo, In (AQDirect w dyn di eo) (areqs_of st t) -> is_unit w = false.

Lemma list_beq_refl {A} (eqb : A -> A -> bool) (Hr : forall x, eqb x x = true) l : list_beq eqb l l = true.
Proof. induction l as [|x l IH]; cbn; [reflexivity|]. now rewrite Hr, IH. Qed.

Lemma units_of_head cu : (1 <= cu_size cu)%nat -> exists rest, units_of cu = WUnit (cu_id cu) 0 :: rest.
Proof. unfold units_of. destruct (cu_size cu) as [|n]; [lia|]. intros _. cbn. eauto. Qed.

Lemma nodup_map_inj {A B} (f : A -> B) l x y : NoDup (map f l) -> In x l -> In y l -> f x = f y -> x = y.
Proof.
  induction l as [|a l IH]; intros Hn Hx Hy Hf; [destruct Hx|]. cbn in Hn. inversion Hn as [|? ? Hna Hn']; subst.
  destruct Hx as [->|Hx], Hy as [->|Hy]; auto.
  - exfalso. apply Hna. rewrite Hf. now apply in_map.
  - exfalso. apply Hna. rewrite <- Hf. now apply in_map.
Qed.

Theorem cumul_ok_of_inv st : cum_inv st -> link_inv st -> no_direct_unit st -> cumul_ok st = true.
Proof.
  intros (J1 & J6 & J2 & J3) [L1 L2] Hg. unfold cumul_ok. apply forallb_forall. intros cu Hcu.
  destruct (J3 cu Hcu) as [Hsz Hun]. apply andb_true_iff. split.
  - apply forallb_forall. intros u Hu. unfold cumul_uses in Hu. apply filter_In in Hu as [Hu Hex].
    change (existsb (is_use_of cu) (areqs_of st (ti_id u)) = true) in Hex.
    unfold use_ok. destruct (find (is_use_of cu) (areqs_of st (ti_id u))) as [a|] eqn:Ef.
    2:{ apply existsb_exists in Hex as (a & Ha & Hua). apply (find_none _ _ Ef) in Ha. congruence. }
    apply find_some in Ef as [Ha Hua]. destruct a as [w dyn di eo|s listed n kd]; [discriminate|].
    destruct s as [sid|k]; [discriminate|]. destruct listed as [|[[[wid|c' i]|c0] p0] rest] eqn:El; try discriminate.
    cbn in Hua. apply Nat.eqb_eq in Hua. subst c'.
    destruct (J1 _ _ Ha k _ n kd eq_refl) as (cu' & Hcu' & Hl & -> & ->).
    assert (cu' = cu) as ->.
    { destruct (J3 cu' Hcu') as [Hsz' _]. destruct (units_of_head cu' Hsz') as (r' & Hr'). rewrite Hr' in Hl. cbn in Hl.
      injection Hl as Hid _ _. eapply nodup_map_inj; eauto. }
    rewrite Hl. rewrite list_beq_refl by apply rref_beq_refl. cbn [andb Z.eqb is_min].
    apply forallb_forall. intros w Hw.
    assert (Hin : In (RW w) (reqs_of st (ti_id u))).
    { assert (Hm : In (RW w) (map fst ((RW (WUnit (cu_id cu) i), p0) :: rest))) by (rewrite Hl; now apply in_map).
      apply in_map_iff in Hm as ([r p] & Hr & Hrp). cbn in Hr. subst r. eapply J6; eauto. }
    destruct (L2 _ _ Hin) as [m Hm]. unfold busy_flag in Hm. rewrite Hm. destruct m; [reflexivity|].
    destruct (L1 _ _ _ Hm) as [_ (a & Ha' & Hgov)]. destruct a as [w' dyn di eo|s' l' n' k']; cbn in Hgov.
    + destruct Hgov as [[= <-] _]. apply Hg in Ha'. unfold units_of in Hw. apply in_map_iff in Hw as (j & <- & _). discriminate.
    + destruct Hgov as [Hgov _]. discriminate.
  - apply forallb_forall. intros w Hw. apply Hun in Hw. apply in_map_iff in Hw as (wr & <- & Hwr).
    apply existsb_exists. exists wr. split; [exact Hwr|]. destruct (w_ref wr); cbn; apply Nat.eqb_refl || (rewrite !Nat.eqb_refl; reflexivity).
Qed.

Theorem reachable_cumul_ok ops st : reaches ops st -> no_direct_unit st -> cumul_ok st = true.
Proof. intros Hr Hg. apply cumul_ok_of_inv; [exact (reachable_cum ops st Hr)|exact (reachable_link ops st Hr)|exact Hg]. Qed.

(* the guard, decided *)
Definition no_direct_unitb (st : pstate) : bool :=
  forallb (fun kl : nat * list areq =>
     forallb (fun a => match a with AQDirect w _ _ _ => negb (is_unit w) | _ => true end) (snd kl)) (ps_areqs st).
Lemma al_get_in {V} (l : list (nat * V)) k v : al_get Nat.eqb l k = Some v -> In (k, v) l.
Proof.
  induction l as [|[k' v'] l IH]; cbn; [discriminate|]. destruct (Nat.eqb k' k) eqn:E; [|auto].
  apply Nat.eqb_eq in E. intros [= ->]. subst. now left.
Qed.
Lemma no_direct_unitb_ok st : no_direct_unitb st = true -> no_direct_unit st.
Proof.
  intros H t w dyn di eo Hin. unfold areqs_of, get_list in Hin. destruct (al_get Nat.eqb (ps_areqs st) t) as [l|] eqn:E; [|destruct Hin].
  apply al_get_in in E. unfold no_direct_unitb in H. rewrite forallb_forall in H. specialize (H _ E). cbn in H.
  rewrite forallb_forall in H. specialize (H _ Hin). cbn in H. now apply negb_true_iff in H.
Qed.
