(* C03_reach.v -- contiguity without premises: in a state reached by a program, the tasks named by a TasksContiguous
   constraint are tasks of the problem, so C01 gives the "running" premise for the scheduled ones of positive duration. *)
From Coq Require Import ZArith List Bool Lia ZifyBool String.
From PS.model Require Import Smt Enc Ind Prog.
From PS.spec Require Import Spec.
From PS.proofs Require Import Base C01_proof SortNoDup Sort_model C03_contig Cons_proof C05_proof Reach_proof.
Import ListNotations.
Open Scope Z_scope.

Lemma running_of_C01 st e ts :
  (forall k f, In (k, f) (spec_C01 st) -> feval e f = true) ->
  (forall t, In t ts -> In t (ps_tasks st) /\ positive_duration t = true /\ feval e (act t) = true) ->
  feval e (running ts) = true.
Proof.
  intros H1 Hts. unfold running. rewrite feval_eq. apply forallb_forall. intros g Hg.
  apply in_map_iff in Hg as (t & <- & Ht). destruct (Hts t Ht) as (Hin & Hpos & Hact).
  assert (Hcl : forall k f, In (k, f) (spec_C01_task st t) -> feval e f = true).
  { intros k f Hkf. apply (H1 (("C01/task:" ++ show_nat (ti_id t) ++ "/") ++ k)%string f). unfold spec_C01.
    apply in_flat_map. exists t. split; [exact Hin|]. unfold keyed. apply in_map_iff. exists (k, f). auto. }
  assert (Hs : feval e (whenact t (FLe (TC 0) (S_ t))) = true) by (apply (Hcl "start_ge_0"%string); unfold spec_C01_task; now left).
  assert (Hd : feval e (whenact t (spec_duration t)) = true) by (apply (Hcl "duration"%string); unfold spec_C01_task; right; right; now left).
  unfold whenact in Hs, Hd. rewrite feval_eq in Hs, Hd. rewrite Hact in Hs, Hd. cbn [implb] in Hs, Hd.
  rewrite feval_eq. cbn [forallb]. rewrite andb_true_r. apply andb_true_iff. split; [exact Hs|].
  unfold positive_duration in Hpos. unfold spec_duration in Hd. rewrite (feval_eq e (FLt _ _)).
  destruct (ti_kind t) as [|d|mn mx al].
  - discriminate.
  - rewrite feval_eq in Hd. rewrite (teval_eq e (TSub _ _)), (teval_eq e (TC d)) in Hd. lia.
  - rewrite feval_eq in Hd. cbn [app forallb] in Hd. rewrite !andb_true_iff in Hd. destruct Hd as (D1 & D2 & _).
    rewrite feval_eq in D1, D2. rewrite (teval_eq e (TSub _ _)) in D1. rewrite (teval_eq e (TC mn)) in D2. lia.
Qed.

Theorem contiguous_reachable ops st e c ts :
  reaches ops st -> sat e (initialize st) ->
  In c (ps_cons st) -> mandatory_live c = true -> c_expr c = CContiguous ts ->
  (forall t, In t ts -> positive_duration t = true /\ feval e (act t) = true) ->
  (forall a b, In (a, b) (pairs_of ts) -> teval e (E_ a) <= teval e (S_ b) \/ teval e (E_ b) <= teval e (S_ a))
  /\ (forall t others, In (t, others) (with_others [] ts) ->
        (forall u, In u others -> teval e (S_ u) <= teval e (S_ t)) \/ (exists u, In u others /\ teval e (S_ u) = teval e (E_ t))).
Proof.
  intros Hr Hs Hc Hl He Hts.
  destruct (reachable_inv ops st Hr) as (_ & Hknown & _).
  apply (contiguous_sound e (c_id c) ts).
  - intros f Hf. apply (live_raw_holds st e c Hs Hc Hl). now rewrite He.
  - apply (running_of_C01 st e ts).
    + intros k f. apply C01_timing_sound. exact Hs.
    + intros t Ht. destruct (Hts t Ht) as [Hp Ha]. split; [|auto].
      apply (Hknown c Hc). rewrite He. exact Ht.
Qed.
