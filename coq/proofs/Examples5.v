(* Examples5.v -- non-vacuity for the deletion theorems of C06: a program of the C05 fragment with an optional task that
   three constraints name (start-after, force-N, force-schedule false), and a valid schedule that leaves it out. *)
From Coq Require Import ZArith List Bool Lia String.
From PS.model Require Import Smt Enc Ind Prog Driver.
From PS.spec Require Import Spec.
From PS.proofs Require Import Base C05_proof C06_delete.
Import ListNotations.
Open Scope Z_scope.

Definition ex5_prog : list op :=
  [ONewProblem (Some 12);
   ONewTask 1%nat (KFixed 3) false 0 (Some 1) (Some 10) true 1;
   ONewTask 2%nat (KVar 1 (Some 4) (Some [2; 3])) true 0 None None false 1;
   ONewTask 3%nat KZero false 0 None None false 1;
   ONewConstraint 1%nat false (CPrecedence 1%nat 3%nat 1 Lax);
   ONewConstraint 2%nat false (CStartAfter 2%nat 4 true);
   ONewConstraint 3%nat false (CEndBefore 1%nat 8 false);
   ONewConstraint 4%nat false (CForceN [2%nat] 1 PbMax);
   ONewConstraint 5%nat false (CForceSched 2%nat false)].
Definition ex5_schedule : env :=
  env_of [("T1_start", 2); ("T1_end", 5); ("T2_start", 7); ("T2_end", 9); ("T2_duration", 2); ("T3_start", 6); ("T3_end", 6)]%string
         [("T2_scheduled", false)]%string.

Example ex5_delete : exists st t, reaches ex5_prog st /\ fragment st /\ In t (ps_tasks st) /\ ti_opt t = true
  /\ bv ex5_schedule (BSched (ti_id t)) = false /\ rules_naming st t ex5_schedule
  /\ List.length (ps_tasks (del st t)) = 2%nat /\ List.length (ps_cons (del st t)) = 2%nat
  /\ valid13 st ex5_schedule.
Proof.
  unfold reaches. vm_compute run. eexists. eexists. split; [reflexivity|]. split; [|split; [right; left; reflexivity|]].
  - constructor; cbn.
    + auto.
    + auto.
    + intros c [<-|[<-|[<-|[<-|[<-|[]]]]]] _; cbn; (split; [reflexivity|split; [reflexivity|]]); intros t Ht; cbn in Ht; tauto.
    + repeat constructor; cbn; intuition discriminate.
    + intros t [<-|[<-|[<-|[]]]]; cbn; lia.
    + intros h [= <-]. lia.
  - split; [reflexivity|]. split; [reflexivity|]. split.
    + intros c [<-|[<-|[<-|[<-|[<-|[]]]]]] Hn Hl k f Hin; cbn in Hn; try discriminate; cbn in Hin;
        repeat match goal with H : _ \/ _ |- _ => destruct H as [H|H] | H : False |- _ => destruct H end;
        injection Hin as <- <-; vm_compute; reflexivity.
    + split; [vm_compute; reflexivity|]. split; [vm_compute; reflexivity|].
      split; intros k f Hin;
        match type of Hin with In _ ?L =>
          assert (H : forallb (fun kf : string * form => feval ex5_schedule (snd kf)) L = true) by (vm_compute; reflexivity) end;
        rewrite forallb_forall in H; exact (H (k, f) Hin).
Qed.
