(* C09_levels.v -- non-concurrent buffers: the level reported after the k-th change equals the initial level plus the
   quantities of all accesses up to that instant; accesses are pairwise distinct instants and each is a reported change.
   Value-level core (sorted distinct copy = permutation, cumulative sums), then the bridge from the assertions. *)
From Coq Require Import ZArith List Bool Lia ZifyBool String Permutation Sorted.
From PS.model Require Import Smt Enc Ind Prog.
From PS.spec Require Import Spec.
From PS.proofs Require Import Base Cons_proof C08_proof C09_proof.
Import ListNotations.
Open Scope Z_scope.

(* ---------------- value level ---------------- *)
Fixpoint incr (l : list Z) : Prop :=
  match l with x :: ((y :: _) as r) => x < y /\ incr r | _ => True end.

Lemma incr_lt_all a l : incr (a :: l) -> Forall (fun y => a < y) l.
Proof.
  revert a. induction l as [|b l IH]; intros a H; [constructor|]. destruct H as [Hab Hr]. constructor; [exact Hab|].
  specialize (IH b Hr). eapply Forall_impl; [|exact IH]. cbn. intros; lia.
Qed.
Lemma incr_tail a l : incr (a :: l) -> incr l.
Proof. destruct l as [|b l]; [trivial|]. now intros [_ H]. Qed.
Lemma incr_nodup l : incr l -> NoDup l.
Proof.
  induction l as [|a l IH]; intros H; constructor.
  - pose proof (incr_lt_all a l H) as Hf. rewrite Forall_forall in Hf. intros Hin. specialize (Hf a Hin). lia.
  - apply IH. eapply incr_tail; eauto.
Qed.

(* the levels produced by the recurrence level' = level + M(change) *)
Fixpoint cum (M : Z -> Z) (l0 : Z) (A : list Z) : list Z :=
  match A with [] => [] | a :: r => (l0 + M a) :: cum M (l0 + M a) r end.

Definition upto (M : Z -> Z) (x : Z) (a : Z) : Z := if a <=? x then M a else 0.

Lemma zsum_perm {X} (f : X -> Z) l1 l2 : Permutation l1 l2 -> zsum f l1 = zsum f l2.
Proof. induction 1; rewrite ?zsum_cons; try reflexivity; lia. Qed.

Lemma zsum_upto_all M x l : Forall (fun a => a <= x) l -> zsum (upto M x) l = zsum M l.
Proof. induction 1 as [|a l Ha _ IH]; [reflexivity|]. rewrite !zsum_cons, IH. unfold upto. destruct (a <=? x) eqn:E; lia. Qed.
Lemma zsum_upto_none M x l : Forall (fun a => x < a) l -> zsum (upto M x) l = 0.
Proof. induction 1 as [|a l Ha _ IH]; [reflexivity|]. rewrite zsum_cons, IH. unfold upto. destruct (a <=? x) eqn:E; lia. Qed.

Lemma cum_spec M : forall suf pre l0,
  incr (pre ++ suf) -> Forall (fun a => Forall (fun b => a < b) suf) pre ->
  forall l c, In (l, c) (combine (cum M (l0 + zsum M pre) suf) suf) ->
  l = l0 + zsum (upto M c) (pre ++ suf).
Proof.
  induction suf as [|a suf IH]; intros pre l0 Hs Hps l c Hin; [destruct Hin|].
  cbn [cum combine] in Hin. destruct Hin as [[= <- <-]|Hin].
  - rewrite zsum_app, zsum_cons.
    assert (H1 : zsum (upto M a) pre = zsum M pre).
    { apply zsum_upto_all. eapply Forall_impl; [|exact Hps]. cbn. intros x Hx. inversion Hx; subst. lia. }
    assert (H2 : zsum (upto M a) suf = 0).
    { apply zsum_upto_none. assert (Hi : incr (a :: suf)).
      { clear - Hs. induction pre as [|p pre IHp]; [exact Hs|]. apply IHp. eapply incr_tail; eauto. }
      apply incr_lt_all. exact Hi. }
    rewrite H1, H2. unfold upto at 1. rewrite Z.leb_refl. lia.
  - specialize (IH (pre ++ [a]) l0). rewrite <- app_assoc in IH. cbn [app] in IH.
    rewrite zsum_app, zsum_cons, zsum_nil in IH. replace (l0 + (zsum M pre + (M a + 0))) with (l0 + zsum M pre + M a) in IH by lia.
    apply IH; auto.
    assert (Hi : incr (a :: suf)).
    { clear - Hs. induction pre as [|p pre IHp]; [exact Hs|]. apply IHp. eapply incr_tail; eauto. }
    apply Forall_app. split.
    + eapply Forall_impl; [|exact Hps]. cbn. intros x Hx. now inversion Hx.
    + constructor; [|constructor]. apply incr_lt_all. exact Hi.
Qed.

(* a strictly increasing list of n values drawn from a list of n values is a permutation of it, so that list has no
   duplicates *)
Lemma sorted_copy_perm A T : incr A -> (forall a, In a A -> In a T) -> List.length A = List.length T ->
  Permutation A T /\ NoDup T.
Proof.
  intros Hi Hin Hl. assert (Hp : Permutation A T).
  { apply NoDup_Permutation_bis; [now apply incr_nodup|lia|exact Hin]. }
  split; [exact Hp|]. eapply Permutation_NoDup; [exact Hp|]. now apply incr_nodup.
Qed.

Theorem levels_value_level M l0 A T :
  incr A -> (forall a, In a A -> In a T) -> List.length A = List.length T ->
  (forall l c, In (l, c) (combine (cum M l0 A) A) -> l = l0 + zsum (upto M c) T) /\ NoDup T /\ (forall t, In t T -> In t A).
Proof.
  intros Hi Hin Hl. destruct (sorted_copy_perm A T Hi Hin Hl) as [Hp Hn]. split; [|split; [exact Hn|]].
  - intros l c Hlc. rewrite <- (zsum_perm (upto M c) A T Hp).
    apply (cum_spec M A [] l0); auto. cbn. now rewrite Z.add_0_r.
  - intros t Ht. eapply Permutation_in; [apply Permutation_sym; exact Hp|exact Ht].
Qed.

(* ---------------- from the assertions of the buffer block to the value-level facts ---------------- *)
Lemma pairs_lt_incr e (a : list term) :
  (forall f, In f (pairs_lt a) -> feval e f = true) -> incr (map (teval e) a).
Proof.
  induction a as [|x [|y r] IH]; intros H; cbn [map incr]; auto. split.
  - assert (Hf : feval e (FLt x y) = true) by (apply H; apply pairs_lt_consecutive; exists x, y; split; [now left|reflexivity]).
    rewrite feval_eq in Hf. lia.
  - apply IH. intros f Hf. apply H. apply pairs_lt_consecutive. apply pairs_lt_consecutive in Hf as (u & v & Huv & ->).
    exists u, v. split; [now right|reflexivity].
Qed.

Lemma combine_map_eq e (a c : list term) :
  List.length a = List.length c -> (forall s x, In (s, x) (combine a c) -> teval e s = teval e x) ->
  map (teval e) a = map (teval e) c.
Proof.
  revert c. induction a as [|s a IH]; intros [|x c] Hl H; cbn in Hl; try lia; [reflexivity|].
  cbn [map]. f_equal; [apply H; now left|]. apply IH; [lia|]. intros; apply H; now right.
Qed.

(* the recurrence level' = level + mapping[change], read on the whole list of levels *)
Lemma level_steps_cum e id : forall (ls cs : list term) (l0 : term) i,
  List.length ls = List.length cs ->
  (forall j a b c, In (j, a, b, c) (level_steps (l0 :: ls) cs i) -> teval e b = teval e a + av e id (teval e c)) ->
  map (teval e) ls = cum (av e id) (teval e l0) (map (teval e) cs).
Proof.
  induction ls as [|l1 ls IH]; intros [|c cs] l0 i Hl H; cbn in Hl; try lia; [reflexivity|].
  cbn [map cum]. assert (H1 : teval e l1 = teval e l0 + av e id (teval e c)).
  { apply (H i l0 l1 c). cbn [level_steps]. now left. }
  rewrite <- H1. f_equal. apply (IH cs l1 (S i)); [lia|]. intros j a b x Hin. apply (H j a b x).
  cbn [level_steps]. right. exact Hin.
Qed.

Lemma task_act_mandatory st e b ev :
  buf_has_optional st b = false -> In ev (buf_events b) -> feval e (task_act st (ev_task ev)) = true.
Proof.
  unfold buf_has_optional, task_act. intros H Hin.
  assert (Hx : (match find_task st (ev_task ev) with Some ti => ti_opt ti | None => false end) = false).
  { destruct (match find_task st (ev_task ev) with Some ti => ti_opt ti | None => false end) eqn:E; [|reflexivity].
    exfalso. assert (existsb (fun ev0 => match find_task st (ev_task ev0) with Some ti => ti_opt ti | None => false end) (buf_events b) = true)
      by (apply existsb_exists; exists ev; auto). congruence. }
  destruct (find_task st (ev_task ev)) as [ti|]; [|reflexivity]. unfold act. now rewrite Hx.
Qed.

(* the sum of the spec clause, as a sum over the access instants *)
Lemma level_clause_sum st e b (c : term) :
  buf_has_optional st b = false ->
  (forall ev, In ev (buf_events b) -> av e (b_id b) (teval e (ev_time ev)) = ev_delta ev) ->
  tsum e (map (fun ev => when_t (FAnd [task_act st (ev_task ev); FLe (ev_time ev) c]) (TC (ev_delta ev))) (buf_events b))
  = zsum (upto (av e (b_id b)) (teval e c)) (map (teval e) (map ev_time (buf_events b))).
Proof.
  intros Hopt Hm.
  assert (G : forall l, (forall ev, In ev l -> In ev (buf_events b)) ->
     tsum e (map (fun ev => when_t (FAnd [task_act st (ev_task ev); FLe (ev_time ev) c]) (TC (ev_delta ev))) l)
     = zsum (upto (av e (b_id b)) (teval e c)) (map (teval e) (map ev_time l))).
  { induction l as [|ev l IH]; intros Hl; [reflexivity|]. cbn [map]. rewrite tsum_cons, zsum_cons, IH by (intros; apply Hl; now right).
    f_equal. rewrite when_t_eval, ev_and2, (task_act_mandatory st e b ev Hopt (Hl ev (or_introl eq_refl))), ev_le, ev_tc.
    unfold upto. rewrite (Hm ev (Hl ev (or_introl eq_refl))). cbn [andb]. reflexivity. }
  apply G. auto.
Qed.

Lemma arrfix_events e b :
  (forall f, In f (map (fun '(t, q) => FArrFix (b_id b) (TV (VStart t)) (TC (- q))) (b_unload b)
                   ++ map (fun '(t, q) => FArrFix (b_id b) (TV (VEnd t)) (TC q)) (b_load b)) -> feval e f = true) ->
  forall ev, In ev (buf_events b) -> av e (b_id b) (teval e (ev_time ev)) = ev_delta ev.
Proof.
  intros H ev Hin. unfold buf_events in Hin. apply in_app_or in Hin as [Hin|Hin]; apply in_map_iff in Hin as ([t q] & <- & Htq); cbn [ev_time ev_delta].
  - assert (Hf : feval e (FArrFix (b_id b) (TV (VStart t)) (TC (- q))) = true).
    { apply H. apply in_or_app. left. apply in_map_iff. exists (t, q). auto. }
    rewrite feval_eq in Hf. cbn [teval] in *. lia.
  - assert (Hf : feval e (FArrFix (b_id b) (TV (VEnd t)) (TC q)) = true).
    { apply H. apply in_or_app. right. apply in_map_iff. exists (t, q). auto. }
    rewrite feval_eq in Hf. cbn [teval] in *. lia.
Qed.

Lemma pairs_of_nodup {A} (l : list A) x y : NoDup l -> In (x, y) (pairs_of l) -> x <> y.
Proof.
  induction l as [|a l IH]; intros Hn Hin; [destruct Hin|]. inversion Hn as [|? ? Ha Hn']; subst.
  cbn [pairs_of] in Hin. apply in_app_or in Hin as [Hin|Hin].
  - apply in_map_iff in Hin as (z & [= <- <-] & Hz). intros ->. contradiction.
  - now apply IH.
Qed.

Lemma nodup_map_pairs {A} (g : A -> Z) (l : list A) x y : NoDup (map g l) -> In (x, y) (pairs_of l) -> g x <> g y.
Proof.
  induction l as [|a l IH]; intros Hn Hin; [destruct Hin|]. cbn [map] in Hn. inversion Hn as [|? ? Ha Hn']; subst.
  cbn [pairs_of] in Hin. apply in_app_or in Hin as [Hin|Hin].
  - apply in_map_iff in Hin as (z & [= <- <-] & Hz). intros Heq. apply Ha. rewrite Heq. now apply in_map.
  - now apply IH.
Qed.

Lemma combine_map_pairs {A B} (g : A -> B) (l1 l2 : list A) :
  combine (map g l1) (map g l2) = map (fun p => (g (fst p), g (snd p))) (combine l1 l2).
Proof. revert l2. induction l1 as [|a l1 IH]; intros [|b l2]; cbn; try reflexivity. now rewrite IH. Qed.

(* ---------------- the level clauses of a non-concurrent buffer ---------------- *)
Lemma buffer_sound_levels e st (b : bufrec) :
  (forall f, In f (buffer_block b) -> feval e f = true) ->
  forall k f, In (k, f) (spec_C09_levels st b) -> feval e f = true.
Proof.
  intros H k f Hin. unfold spec_C09_levels in Hin.
  destruct (buf_proved_levels st b) eqn:Hp; [|destruct Hin].
  unfold buf_proved_levels in Hp. apply andb_true_iff in Hp as [Hp Hopt]. apply andb_true_iff in Hp as [Hreg Hnc].
  apply negb_true_iff in Hnc. apply negb_true_iff in Hopt.
  unfold buffer_block in H. rewrite Hnc in H.
  destruct (dsort (fun k0 => TV (VAux (OwBuf (b_id b)) k0)) 0 (buf_times b)) as [sorted sa] eqn:Hs.
  apply dsort_shape in Hs as (Hlen & Hmem & Hord).
  assert (Hl2 : List.length sorted = List.length (buf_changes b)).
  { unfold buf_regular in Hreg. apply andb_true_iff in Hreg as [Hr _]. apply Nat.eqb_eq in Hr.
    rewrite Hlen. unfold buf_times, buf_changes. rewrite app_length, !map_length. lia. }
  assert (Hsa : forall g, In g sa -> feval e g = true).
  { intros g Hg. apply H. apply in_or_app. right. apply in_or_app. now left. }
  assert (Heq : map (teval e) sorted = map (teval e) (buf_changes b)).
  { apply combine_map_eq; [exact Hl2|]. intros s c Hsc. apply feq_iff. apply H. do 2 (apply in_or_app; right). apply in_or_app. left.
    apply in_map_iff. exists (s, c). split; [reflexivity|exact Hsc]. }
  set (M := av e (b_id b)). set (A := map (teval e) (buf_changes b)). set (T := map (teval e) (buf_times b)).
  assert (HiA : incr A).
  { unfold A. rewrite <- Heq. apply pairs_lt_incr. assert (Ha := Hsa _ Hord). rewrite feval_eq in Ha. now rewrite forallb_forall in Ha. }
  assert (HinA : forall a, In a A -> In a T).
  { unfold A, T. rewrite <- Heq. intros a Ha. apply in_map_iff in Ha as (s & <- & Hs').
    assert (Hor := Hsa _ (Hmem s Hs')). rewrite feval_eq in Hor. apply existsb_exists in Hor as (g & Hg & Hgv).
    apply in_map_iff in Hg as (x & <- & Hx). apply feq_iff in Hgv. rewrite Hgv. now apply in_map. }
  assert (HlA : List.length A = List.length T).
  { unfold A, T. rewrite !map_length. lia. }
  (* array and recurrence blocks *)
  assert (Hblk : forall g, In g (map (fun '(t, q) => FArrFix (b_id b) (TV (VStart t)) (TC (- q))) (b_unload b)
                               ++ map (fun '(t, q) => FArrFix (b_id b) (TV (VEnd t)) (TC q)) (b_load b)
                               ++ map (fun '(_, l0, l1, c) => FEq l1 (TAdd [l0; TSel (b_id b) c])) (level_steps (buf_levels b) (buf_changes b) 0))
                          -> feval e g = true).
  { intros g Hg. apply H. do 6 (apply in_or_app; right). exact Hg. }
  assert (Hev := arrfix_events e b).
  assert (Hm : forall ev, In ev (buf_events b) -> M (teval e (ev_time ev)) = ev_delta ev).
  { apply Hev. intros g Hg. apply Hblk. apply in_app_or in Hg as [Hg|Hg]; apply in_or_app; [now left|right; apply in_or_app; now left]. }
  assert (Hcum : map (teval e) (tl (buf_levels b)) = cum M (teval e (TV (VLevel0 (b_id b)))) A).
  { unfold buf_levels. cbn [tl]. apply (level_steps_cum e (b_id b) _ (buf_changes b) _ 0%nat).
    - unfold buf_changes. now rewrite !map_length.
    - intros j a x c Hj. assert (Hf : feval e (FEq x (TAdd [a; TSel (b_id b) c])) = true).
      { apply Hblk. do 2 (apply in_or_app; right). apply in_map_iff. exists (j, a, x, c). split; [reflexivity|exact Hj]. }
      apply feq_iff in Hf. rewrite Hf, teval_tadd, !tsum_cons, tsum_nil, (teval_eq e (TSel _ _)). unfold M. lia. }
  destruct (levels_value_level M (teval e (TV (VLevel0 (b_id b)))) A T HiA HinA HlA) as (Hlev & Hnd & Hcov).
  assert (HT : T = map (teval e) (map ev_time (buf_events b))) by (unfold T; now rewrite events_times).
  repeat (apply in_app_or in Hin as [Hin|Hin]).
  - (* level after change *)
    apply in_map_iff in Hin as ([l c] & [= <- <-] & Hlc). unfold level_clause. apply feq_iff.
    rewrite teval_tadd, tsum_cons, (level_clause_sum st e b c Hopt Hm), <- HT.
    assert (Hpair : In (teval e l, teval e c) (combine (cum M (teval e (TV (VLevel0 (b_id b)))) A) A)).
    { rewrite <- Hcum. unfold A. rewrite combine_map_pairs. apply in_map_iff. exists (l, c). split; [reflexivity|exact Hlc]. }
    exact (Hlev _ _ Hpair).
  - (* every access is a reported change *)
    apply in_map_iff in Hin as (ev & [= <- <-] & Hev'). rewrite feval_eq. apply existsb_exists.
    assert (Ht : In (teval e (ev_time ev)) T). { rewrite HT. apply in_map. now apply in_map. }
    apply Hcov in Ht. unfold A in Ht. apply in_map_iff in Ht as (c & Hc & Hcin).
    exists (FEq c (ev_time ev)). split; [apply in_map_iff; eauto|]. now apply feq_iff.
  - (* accesses pairwise distinct *)
    apply in_map_iff in Hin as ([e1 e2] & [= <- <-] & Hp'). rewrite feval_eq, (feval_eq e (FEq _ _)). apply negb_true_iff. apply Z.eqb_neq.
    rewrite HT, map_map in Hnd. exact (nodup_map_pairs (fun ev => teval e (ev_time ev)) (buf_events b) e1 e2 Hnd Hp').
Qed.

