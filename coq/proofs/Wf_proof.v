(* Wf_proof.v -- invariants of every state reached by a program (induction over the
   list of constructor calls). *)
From Coq Require Import ZArith List Bool Lia ZifyBool.
From PS.model Require Import Smt Enc Ind Prog.
From PS.spec Require Import Spec.
From PS.proofs Require Import Base Cons_proof Res_proof.
Import ListNotations.
Open Scope Z_scope.

Definition rank_ok (st : pstate) : Prop := forall t, In t (ps_tasks st) -> 1 <= ti_rank t.
Definition wf (st : pstate) : Prop := neg_ok st /\ rank_ok st.

Lemma wf_empty h : wf (empty_problem h).
Proof. split; [split; cbn; [lia|intros ? ? []]|intros ? []]. Qed.

Lemma al_set_in {K V} (eqb : K -> K -> bool) (L : list (K * V)) k v k' v' :
  In (k', v') (al_set eqb L k v) -> v' = v \/ In (k', v') L.
Proof.
  induction L as [|[k0 v0] L IH]; cbn [al_set]; intros H.
  - destruct H as [[= <- <-]|[]]. now left.
  - destruct (eqb k0 k).
    + destruct H as [[= <- <-]|H]; [now left|right; now right].
    + destruct H as [H|H]; [right; now left|]. destruct (IH H); [now left|right; now right].
Qed.

Lemma get_list_in {K V} (eqb : K -> K -> bool) (L : list (K * list V)) k x :
  In x (get_list eqb L k) -> exists k', exists l, In (k', l) L /\ In x l.
Proof.
  unfold get_list. destruct (al_get eqb L k) as [l|] eqn:Hg; [|intros []].
  intros Hx. induction L as [|[k0 v0] L IH]; cbn in Hg; [discriminate|].
  destruct (eqb k0 k).
  - injection Hg as <-. exists k0, v0. split; [now left|auto].
  - destruct (IH Hg) as (k' & l' & Hin & Hx'). exists k', l'. split; [now right|auto].
Qed.

(* the fold of the SelectWorkers branch only hands out integers below the counter *)
Lemma select_fold_neg (listed : list rref) id :
  forall busy neg acc busy' neg' acc',
  fold_left (fun '(busy, neg, acc) r => (busy_add busy r id true, neg - 1, acc ++ [(r, neg - 1)]))
            listed (busy, neg, acc) = (busy', neg', acc') ->
  neg' <= neg /\ forall r p, In (r, p) acc' -> In (r, p) acc \/ p < neg.
Proof.
  induction listed as [|r0 listed IH]; cbn [fold_left]; intros busy neg acc busy' neg' acc' H.
  - injection H as <- <- <-. split; [lia|auto].
  - apply IH in H as [H1 H2]. split; [lia|]. intros r p Hin.
    destruct (H2 r p Hin) as [Hacc|Hlt]; [|right; lia].
    apply in_app_or in Hacc as [Hacc|[[= <- <-]|[]]]; [now left|right; lia].
Qed.

Lemma add_select_neg_ok st t s : neg_ok st -> neg_ok (add_select st t s).
Proof.
  intros [Hn Ha]. unfold add_select.
  destruct (fold_left _ (s_listed s) (ps_busy st, ps_neg st, [])) as [[busy neg] listed] eqn:Hf.
  apply select_fold_neg in Hf as [Hle Hacc]. split; cbn [ps_neg ps_areqs]; [lia|].
  intros t' l Hin s' listed' n k Hsel r p Hrp.
  unfold push_list in Hin. apply al_set_in in Hin as [->|Hin].
  - apply in_app_or in Hsel as [Hsel|[[= <- <- <- <-]|[]]].
    + apply get_list_in in Hsel as (k' & l' & Hl' & Hx). eapply Ha; eauto.
    + destruct (Hacc r p Hrp) as [[]|Hlt]. lia.
  - eapply Ha; eauto.
Qed.

Ltac break H := repeat match type of H with
  | context [match ?x with _ => _ end] => destruct x eqn:?; try discriminate
  end.

Lemma wf_with_ext st x : wf st -> wf (with_ext st x).
Proof. intros [[H1 H2] H3]. split; [split|]; cbn; auto. Qed.
Lemma add_indicator_wf st id key given b e st' : wf st -> add_indicator st id key given b e = Some st' -> wf st'.
Proof. unfold add_indicator. intros Hw H. break H. injection H as <-. now apply wf_with_ext. Qed.

Lemma step_wf st o st' : wf st -> step_problem st o = Ok st' -> wf st'.
Proof.
  intros [Hneg Hrank] H. destruct o; cbn [step_problem] in H.
  - (* problem *) break H; injection H as <-; apply wf_empty.
  - (* task *) break H. injection H as <-. split.
    + destruct Hneg as [H1 H2]. split; cbn; auto.
    + intros t Hin. cbn [ps_tasks] in Hin. apply in_app_or in Hin as [Hin|[<-|[]]]; [auto|cbn; lia].
  - (* worker *) break H. injection H as <-. split; [destruct Hneg; split; cbn; auto|exact Hrank].
  - (* cumulative *) break H. injection H as <-. split; [destruct Hneg; split; cbn; auto|exact Hrank].
  - (* select *) break H. injection H as <-. split; [destruct Hneg; split; cbn; auto|exact Hrank].
  - (* add_required *) break H; injection H as <-.
    + (* direct *) split; [|exact Hrank]. destruct Hneg as [H1 H2]. split; cbn [ps_neg ps_areqs]; [exact H1|].
      intros t' l Hin s' listed' n k Hsel r' p Hrp. unfold push_list in Hin.
      apply al_set_in in Hin as [->|Hin]; [|eapply H2; eauto].
      apply in_app_or in Hsel as [Hsel|[Hsel|[]]]; [|discriminate].
      apply get_list_in in Hsel as (k' & l' & Hl' & Hx). eapply H2; eauto.
    + (* cumulative *) pose proof (add_select_neg_ok st t0
        {| s_ref := SAuto (ps_nauto st); s_listed := map RW (units_of c0); s_n := 1; s_kind := PbMin |} Hneg) as [H1 H2].
      split; [split; cbn [ps_neg ps_areqs]; auto|].
      intros t' Hin. cbn [ps_tasks] in Hin. unfold add_select in Hin.
      destruct (fold_left _ _ _) as [[? ?] ?]. cbn [ps_tasks] in Hin. auto.
    + (* user selection *) split; [now apply add_select_neg_ok|].
      intros t' Hin. unfold add_select in Hin. destruct (fold_left _ _ _) as [[? ?] ?]. cbn [ps_tasks] in Hin. auto.
  - (* constraint *) break H. injection H as <-. split; [destruct Hneg; split; cbn; auto|exact Hrank].
  - (* buffer *) break H. injection H as <-. apply wf_with_ext. split; assumption.
  - (* indicator *) break H. injection H as <-. eapply add_indicator_wf; [|eassumption]. split; assumption.
  - (* objective *) break H; injection H as <-; apply wf_with_ext;
      first [split; assumption | eapply add_indicator_wf; [|eassumption]; split; assumption].
Qed.

Lemma run_from_wf ops : forall st idx st',
  (match st with Some s => wf s | None => True end) ->
  run_from st idx ops = RunOk (Some st') -> wf st'.
Proof.
  induction ops as [|o ops IH]; cbn [run_from]; intros st idx st' Hw H.
  - injection H as ->. exact Hw.
  - destruct (step st o) as [s1| |] eqn:Hs; try discriminate.
    apply (IH (Some s1) (S idx) st'); [|exact H].
    unfold step in Hs. destruct o, st as [s0|]; try discriminate;
      try (eapply step_wf; [|exact Hs]; first [exact Hw | apply wf_empty]).
Qed.

Theorem reachable_wf ops st : reaches ops st -> wf st.
Proof. unfold reaches, run. apply run_from_wf. exact I. Qed.
