(* Sort_model.v -- the model of util.sort_no_duplicates (Enc.dsort) and of the "sorted starts against sorted ends"
   pattern (Enc.nondelay_like), read through SortNoDup.v. *)
From Coq Require Import ZArith List Bool Lia ZifyBool Permutation Sorted.
From PS.model Require Import Smt Enc.
From PS.proofs Require Import Base SortNoDup.
Import ListNotations.
Open Scope Z_scope.

Lemma pairs_lt_chain e a : feval e (FAnd (pairs_lt a)) = true -> chain_lt (map (teval e) a).
Proof.
  rewrite feval_eq. unfold pairs_lt. induction a as [|x r IH]; intros H; [exact I|].
  destruct r as [|y r']; [exact I|]. cbn [forallb] in H. apply andb_true_iff in H as [H1 H2].
  cbn [map chain_lt]. split; [rewrite feval_eq in H1; lia|]. apply IH. exact H2.
Qed.

Lemma dsort_length mk base xs : length (fst (dsort mk base xs)) = length xs.
Proof. unfold dsort. cbn. now rewrite map_length, seq_length. Qed.

Theorem dsort_sem e mk base xs :
  (forall f, In f (snd (dsort mk base xs)) -> feval e f = true) ->
  let A := map (teval e) (fst (dsort mk base xs)) in let X := map (teval e) xs in
  Permutation A X /\ StronglySorted Z.lt A /\ NoDup X.
Proof.
  intros H A X. apply sort_no_dup_perm.
  - apply pairs_lt_chain. apply H. unfold dsort. cbn. apply in_or_app. right. now left.
  - unfold A, X. rewrite !map_length. apply dsort_length.
  - intros v Hv. unfold A in Hv. apply in_map_iff in Hv as (ai & <- & Hai).
    assert (Hor : feval e (FOr (map (fun x => FEq ai x) xs)) = true).
    { apply H. unfold dsort. cbn. apply in_or_app. left. apply in_map_iff. exists ai. split; [reflexivity|exact Hai]. }
    rewrite feval_eq in Hor. apply existsb_exists in Hor as (f & Hf & Hev). apply in_map_iff in Hf as (x & <- & Hx).
    rewrite feval_eq in Hev. unfold X. apply in_map_iff. exists x. split; [lia|exact Hx].
Qed.

Lemma consec_nth (a b : list term) d : length a = length b -> forall i, (S i < length a)%nat ->
  In (nth i b d, nth (S i) a d) (consec a b).
Proof.
  revert b. induction a as [|x r IH]; intros b Hl i Hi; [cbn in Hi; lia|].
  destruct r as [|y r']; [cbn in Hi; lia|]. destruct b as [|bp br]; [discriminate|].
  cbn [consec]. destruct i as [|i]; [left; reflexivity|right].
  cbn [nth]. change (In (nth i br d, nth (S i) (y :: r') d) (consec (y :: r') br)).
  apply IH; [cbn in Hl |- *; lia|cbn in Hi |- *; lia].
Qed.

Theorem nondelay_like_sem e c starts ends mk : length starts = length ends ->
  (forall f, In f (nondelay_like c starts ends mk) -> feval e f = true) ->
  exists a b,
    let A := map (teval e) a in let B := map (teval e) b in
    Permutation A (map (teval e) starts) /\ StronglySorted Z.lt A /\
    Permutation B (map (teval e) ends) /\ StronglySorted Z.lt B /\
    length a = length starts /\ length b = length starts /\
    forall i, (S i < length a)%nat -> feval e (mk (nth i b (TC 0)) (nth (S i) a (TC 0))) = true.
Proof.
  intros Hl H. unfold nondelay_like in H.
  pose proof (dsort_sem e (aux c) 0 starts) as H1. pose proof (dsort_sem e (aux c) (length starts) ends) as H2.
  pose proof (dsort_length (aux c) 0 starts) as L1. pose proof (dsort_length (aux c) (length starts) ends) as L2.
  destruct (dsort (aux c) 0 starts) as [a c1]. destruct (dsort (aux c) (length starts) ends) as [b c2]. cbn [fst snd] in *.
  exists a, b. cbn zeta.
  destruct H1 as (P1 & S1 & _). { intros f Hf. apply H. apply in_or_app. now left. }
  destruct H2 as (P2 & S2 & _). { intros f Hf. apply H. apply in_or_app. right. apply in_or_app. now left. }
  repeat split; auto; [lia|].
  intros i Hi. apply H. apply in_or_app. right. apply in_or_app. right.
  apply in_map_iff. exists (nth i b (TC 0), nth (S i) a (TC 0)). split; [reflexivity|]. apply consec_nth; [lia|exact Hi].
Qed.
