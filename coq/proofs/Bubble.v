(* Bubble.v -- util.sort_duplicates, value level: n bubble passes over a list of n integers sort it (with duplicates). *)
From Coq Require Import ZArith List Bool Lia Permutation Sorted.
Import ListNotations.
Open Scope Z_scope.

(* one bubble pass, value level: carry the running maximum to the right *)
Fixpoint bub (x : Z) (l : list Z) : list Z * Z :=
  match l with
  | [] => ([], x)
  | y :: r => let '(p, m) := bub (Z.max x y) r in (Z.min x y :: p, m)
  end.
Definition pass (l : list Z) : list Z :=
  match l with [] => [] | x :: r => let '(p, m) := bub x r in p ++ [m] end.

Lemma bub_length x l : length (fst (bub x l)) = length l.
Proof. revert x; induction l as [|y r IH]; intros x; cbn; [reflexivity|].
  specialize (IH (Z.max x y)). destruct (bub (Z.max x y) r). cbn in *. lia. Qed.

Lemma bub_perm x l : Permutation (fst (bub x l) ++ [snd (bub x l)]) (x :: l).
Proof.
  revert x; induction l as [|y r IH]; intros x; cbn; [reflexivity|].
  specialize (IH (Z.max x y)). destruct (bub (Z.max x y) r) as [p m]. cbn in *.
  destruct (Z.le_ge_cases x y).
  - rewrite Z.min_l, Z.max_r in * by lia. now constructor.
  - rewrite Z.min_r, Z.max_l in * by lia. rewrite IH. apply perm_swap.
Qed.

Lemma bub_max x l : x <= snd (bub x l) /\ Forall (fun z => z <= snd (bub x l)) l /\ Forall (fun z => z <= snd (bub x l)) (fst (bub x l)).
Proof.
  revert x; induction l as [|y r IH]; intros x; cbn; [repeat split; auto; lia|].
  specialize (IH (Z.max x y)). destruct (bub (Z.max x y) r) as [p m]. cbn in *.
  destruct IH as (H1 & H2 & H3). repeat split; try lia; constructor; auto; lia.
Qed.

Lemma bub_app x a b : bub x (a ++ b) =
  let '(p1, m1) := bub x a in let '(p2, m2) := bub m1 b in (p1 ++ p2, m2).
Proof.
  revert x; induction a as [|y r IH]; intros x; cbn.
  - destruct (bub x b); reflexivity.
  - rewrite IH. destruct (bub (Z.max x y) r) as [p1 m1]. destruct (bub m1 b) as [p2 m2]. reflexivity.
Qed.

Lemma last_irrel {X} (l : list X) d1 d2 : l <> [] -> last l d1 = last l d2.
Proof. induction l as [|a [|b r] IH]; intros H; [congruence|reflexivity|]. cbn in *. apply IH. discriminate. Qed.

(* a value below a sorted list just slides in front of it *)
Lemma bub_sorted x l : Sorted Z.le (x :: l) -> bub x l = (removelast (x :: l), last (x :: l) x).
Proof.
  revert x; induction l as [|y r IH]; intros x H; [reflexivity|].
  apply Sorted_inv in H as [Hs Hh]. apply HdRel_inv in Hh.
  cbn [bub]. rewrite Z.max_r, Z.min_l by lia. rewrite (IH y Hs).
  f_equal. change (last (x :: y :: r) x) with (last (y :: r) x). apply last_irrel. discriminate.
Qed.

Definition Inv (k : nat) (l : list Z) := exists a b, l = a ++ b /\ length b = k /\ Sorted Z.le b /\
  Forall (fun x => Forall (fun y => x <= y) b) a.

Lemma removelast_last_app {X} (l : list X) d : l <> [] -> removelast l ++ [last l d] = l.
Proof. intros H. symmetry. now apply app_removelast_last. Qed.

Lemma pass_inv k l : Inv k l -> (k < length l)%nat -> Inv (S k) (pass l).
Proof.
  intros (a & b & -> & Hk & Hs & Hab) Hlt. rewrite app_length in Hlt.
  destruct a as [|x a]; [cbn in Hlt; lia|]. cbn [app pass]. rewrite bub_app.
  pose proof (bub_perm x a) as Hp. pose proof (bub_max x a) as (Hm1 & Hm2 & Hm3).
  destruct (bub x a) as [p1 m1] eqn:E1. cbn [fst snd] in *.
  assert (Hm1b : Forall (fun y => m1 <= y) b).
  { assert (In m1 (x :: a)). { eapply Permutation_in; [exact Hp|]. apply in_or_app; right; now left. }
    rewrite Forall_forall in Hab. now apply Hab. }
  assert (Hsb : Sorted Z.le (m1 :: b)).
  { constructor; auto. destruct b; constructor. now inversion Hm1b. }
  rewrite (bub_sorted _ _ Hsb).
  exists p1, (m1 :: b). split.
  { rewrite <- app_assoc. f_equal. apply removelast_last_app. discriminate. }
  split; [cbn; lia|]. split; [exact Hsb|].
  apply Forall_forall. intros z Hz. constructor.
  - rewrite Forall_forall in Hm3. auto.
  - assert (In z (x :: a)). { eapply Permutation_in; [exact Hp|]. apply in_or_app; now left. }
    rewrite Forall_forall in Hab. specialize (Hab _ H). rewrite Forall_forall in Hm3. specialize (Hm3 _ Hz).
    eapply Forall_impl; [|exact Hm1b]. cbn. intros; lia.
Qed.

Lemma pass_perm l : Permutation (pass l) l.
Proof. destruct l as [|x r]; [reflexivity|]. cbn. pose proof (bub_perm x r). destruct (bub x r); exact H. Qed.

Lemma pass_length l : length (pass l) = length l.
Proof. apply Permutation_length, pass_perm. Qed.

Fixpoint passes (n : nat) (l : list Z) : list Z := match n with O => l | S k => pass (passes k l) end.

Lemma iter_pass n : forall l, (n <= length l)%nat -> Inv n (passes n l) /\ Permutation (passes n l) l.
Proof.
  induction n as [|n IH]; intros l Hn; cbn [passes].
  - split; [|reflexivity]. exists l, []. rewrite app_nil_r. repeat split; auto.
    apply Forall_forall; intros; constructor.
  - destruct (IH l) as [HI HP]; [lia|]. split.
    + apply pass_inv; auto. rewrite (Permutation_length HP). lia.
    + now rewrite pass_perm.
Qed.

Theorem bubble_network_sorts l :
  let r := passes (length l) l in Sorted Z.le r /\ Permutation r l.
Proof.
  cbn zeta. destruct (iter_pass (length l) l (le_n _)) as [(a & b & E & Hk & Hs & _) HP]. split; auto.
  pose proof (Permutation_length HP) as H.
  rewrite E in H. rewrite app_length in H. destruct a; [|cbn in H; lia]. now rewrite E.
Qed.
