(* UtilSrc_maxmin_proof.v -- the functions that harness/pytrans.py regenerates from processscheduler/util.py on every run are the functions
   of the hand-written model (Ind.get_maximum / get_minimum, Solution.clean_levels).  Compiled by the C08 / C09 checks against the
   freshly generated UtilSrc.v: a change of util.py that changes what these functions compute breaks one of these proofs. *)
From Coq Require Import ZArith List Bool Lia.
From PS.model Require Import Smt Enc Ind Prog Solution.
From PS.srctie Require Import UtilSrc.
Import ListNotations.
Open Scope Z_scope.

Theorem get_maximum_src_is_model m l : l <> [] -> get_maximum_src m l = Some (get_maximum m l).
Proof. destruct l as [|x l]; [congruence|]. intros _. reflexivity. Qed.
Theorem get_maximum_src_rejects_empty m : get_maximum_src m [] = None.
Proof. reflexivity. Qed.
Theorem get_minimum_src_is_model m l : l <> [] -> get_minimum_src m l = Some (get_minimum m l).
Proof. destruct l as [|x l]; [congruence|]. intros _. reflexivity. Qed.
Theorem get_minimum_src_rejects_empty m : get_minimum_src m [] = None.
Proof. reflexivity. Qed.

Print Assumptions get_maximum_src_is_model.
Print Assumptions get_maximum_src_rejects_empty.
Print Assumptions get_minimum_src_is_model.
Print Assumptions get_minimum_src_rejects_empty.
