(* UtilSrc_clean_proof.v -- the functions that harness/pytrans.py regenerates from processscheduler/util.py on every run are the functions
   of the hand-written model (Ind.get_maximum / get_minimum, Solution.clean_levels).  Compiled by the C08 / C09 checks against the
   freshly generated UtilSrc.v: a change of util.py that changes what these functions compute breaks one of these proofs. *)
From Coq Require Import ZArith List Bool Lia.
From PS.model Require Import Smt Enc Ind Prog Solution.
From PS.srctie Require Import UtilSrc.
Import ListNotations.
Open Scope Z_scope.

Lemma count_lt1 b l : (count_z b l <? 1) = negb (existsb (Z.eqb b) l).
Proof.
  unfold count_z. induction l as [|x l IH]; [reflexivity|]. cbn [count_occ existsb].
  destruct (Z.eq_dec x b) as [->|Hne].
  - rewrite Z.eqb_refl. cbn [orb negb]. apply Z.ltb_ge. lia.
  - assert (E : (b =? x) = false) by (apply Z.eqb_neq; congruence). rewrite E. cbn [orb]. exact IH.
Qed.

Lemma loop_is_clean_levels pairs : forall l1 l2,
  fold_left (fun '(new_l1, new_l2) '(a, b) =>
      let '(new_l1, new_l2) := if (count_z b new_l2 <? 1) then let new_l1 := new_l1 ++ [a] in let new_l2 := new_l2 ++ [b] in (new_l1, new_l2)
                               else (new_l1, new_l2) in (new_l1, new_l2)) pairs (l1, l2)
  = clean_levels pairs l1 l2.
Proof.
  induction pairs as [|[a b] pairs IH]; intros l1 l2; [reflexivity|]. cbn [fold_left clean_levels].
  rewrite count_lt1. destruct (existsb (Z.eqb b) l2); cbn [negb]; apply IH.
Qed.

Theorem clean_buffer_levels_src_is_model first rest times : List.length rest = List.length times ->
  clean_buffer_levels_src (first :: rest) times
  = let '(l1, l2) := clean_levels (combine rest times) [] [] in Some (first :: l1, l2).
Proof.
  intros Hl. unfold clean_buffer_levels_src.
  assert (E : (len_z (first :: rest) =? len_z times + 1) = true).
  { unfold len_z. cbn [List.length]. apply Z.eqb_eq. lia. }
  rewrite E. cbn [negb]. rewrite loop_is_clean_levels.
  destruct (clean_levels (combine rest times) [] []) as [l1 l2]. reflexivity.
Qed.
Theorem clean_buffer_levels_src_rejects levels times : List.length levels <> S (List.length times) ->
  clean_buffer_levels_src levels times = None.
Proof.
  intros Hl. unfold clean_buffer_levels_src.
  assert (E : (len_z levels =? len_z times + 1) = false).
  { unfold len_z. apply Z.eqb_neq. lia. }
  rewrite E. reflexivity.
Qed.
Print Assumptions clean_buffer_levels_src_is_model.
Print Assumptions clean_buffer_levels_src_rejects.
