(* UtilSrc_sortdup_proof.v -- util.sort_duplicates, regenerated from /repo's source on every run (harness/pytrans.py), is Ind.sort_dup:
   n bubble passes; each compare-exchange draws two fresh integers (numbered in creation order) and asserts that they are the two
   inputs in order.  The source works on a copy of the list by index (arr[i], arr[i + 1] := x1, y1); the model recurses on the list. *)
From Coq Require Import ZArith List Bool Lia.
From PS.model Require Import Smt Enc Ind.
From PS.srctie Require Import UtilSrc.
Import ListNotations.
Open Scope nat_scope.

Lemma upd_middle {A} (pre : list A) x r v : upd (List.length pre) v (pre ++ x :: r) = pre ++ v :: r.
Proof. induction pre as [|p pre IH]; [reflexivity|]. cbn [List.length app upd]. now rewrite IH. Qed.
Lemma nth_middle' {A} (pre : list A) x r d : nth (List.length pre) (pre ++ x :: r) d = x.
Proof. induction pre as [|p pre IH]; [reflexivity|]. exact IH. Qed.

Definition step (mk : nat -> term) :=
  (fun '(arr, local_asst, k_) i =>
      let x := (nth i arr (TC 0%Z)) in
      let y := (nth (i + 1) arr (TC 0%Z)) in
      let x1 := mk k_ in let k_ := S k_ in
      let y1 := mk k_ in let k_ := S k_ in
      let c := (FIte (FLe x y) (FAnd [(FEq x1 x); (FEq y1 y)]) (FAnd [(FEq x1 y); (FEq y1 x)])) in
      let arr := upd i x1 arr in
      let arr := upd (i + 1) y1 arr in
      let local_asst := local_asst ++ [c] in
      (arr, local_asst, k_)) : list term * list form * nat -> nat -> list term * list form * nat.

(* the index loop over pre ++ x :: rest, started at position |pre|, is the structural bubble_up on x :: rest *)
Lemma loop_is_bubble_up mk rest : forall pre x acc k,
  fold_left (step mk) (seq (List.length pre) (List.length rest)) (pre ++ x :: rest, acc, k)
  = let '(out, cs, k') := bubble_up mk k x rest in (pre ++ out, acc ++ cs, k').
Proof.
  induction rest as [|y r IH]; intros pre x acc k.
  - cbn [List.length seq fold_left bubble_up]. now rewrite app_nil_r.
  - cbn [List.length seq fold_left bubble_up]. unfold step at 2. cbn zeta.
    rewrite nth_middle'.
    replace (nth (List.length pre + 1) (pre ++ x :: y :: r) (TC 0%Z)) with y.
    2:{ replace (pre ++ x :: y :: r) with ((pre ++ [x]) ++ y :: r) by (now rewrite <- app_assoc).
        replace (List.length pre + 1) with (List.length (pre ++ [x])) by (rewrite app_length; reflexivity). now rewrite nth_middle'. }
    rewrite upd_middle.
    replace (upd (List.length pre + 1) (mk (S k)) (pre ++ mk k :: y :: r)) with ((pre ++ [mk k]) ++ mk (S k) :: r).
    2:{ replace (pre ++ mk k :: y :: r) with ((pre ++ [mk k]) ++ y :: r) by (now rewrite <- app_assoc).
        replace (List.length pre + 1) with (List.length (pre ++ [mk k])) by (rewrite app_length; reflexivity). now rewrite upd_middle. }
    replace (S (List.length pre)) with (List.length (pre ++ [mk k])) by (rewrite app_length; cbn; lia).
    rewrite (IH (pre ++ [mk k]) (mk (S k)) (acc ++ [FIte (FLe x y) (FAnd [FEq (mk k) x; FEq (mk (S k)) y]) (FAnd [FEq (mk k) y; FEq (mk (S k)) x])]) (S (S k))).
    destruct (bubble_up mk (S (S k)) (mk (S k)) r) as [[out cs] k']. now rewrite <- !app_assoc.
Qed.

Lemma pass_is_bubble_pass mk l k :
  fold_left (step mk) (seq 0 (List.length l - 1)) (l, [], k) = bubble_pass mk k l.
Proof.
  destruct l as [|x rest]; [reflexivity|]. cbn [bubble_pass].
  replace (List.length (x :: rest) - 1) with (List.length rest) by (cbn [List.length]; lia).
  pose proof (loop_is_bubble_up mk rest [] x [] k) as H. cbn [List.length app] in H. rewrite H.
  destruct (bubble_up mk k x rest) as [[out cs] k']. reflexivity.
Qed.

Lemma passes_is_bubble_passes mk n : forall a l acc k,
  fold_left (fun '(glob_asst, sorted_list, k_) (i_ : nat) =>
               let '(sorted_list, asst, k_) :=
                 (let '(arr, local_asst, k_) := fold_left (step mk) (seq 0 (List.length sorted_list - 1)) (sorted_list, [], k_) in
                  (arr, local_asst, k_)) in
               let glob_asst := glob_asst ++ asst in (glob_asst, sorted_list, k_)) (seq a n) (acc, l, k)
  = let '(l', cs) := bubble_passes mk n k l acc in (cs, l', snd (fold_left (fun '(l0, k0) (_ : nat) => let '(l1, _, k1) := bubble_pass mk k0 l0 in (l1, k1)) (seq a n) (l, k))).
Proof.
  induction n as [|n IH]; intros a l acc k; [reflexivity|].
  cbn [seq fold_left bubble_passes]. rewrite pass_is_bubble_pass.
  destruct (bubble_pass mk k l) as [[l' cs] k'] eqn:E. rewrite IH.
  destruct (bubble_passes mk n k' l' (acc ++ cs)) as [l'' cs'']. reflexivity.
Qed.

Theorem sort_duplicates_src_is_model mk l : sort_duplicates_src mk l = Some (sort_dup mk l).
Proof.
  unfold sort_duplicates_src, sort_dup. cbn zeta.
  match goal with |- context [fold_left ?F (seq 0 (List.length l)) ?I] =>
    assert (E : fold_left F (seq 0 (List.length l)) I
                = let '(l', cs) := bubble_passes mk (List.length l) 0 l [] in
                  (cs, l', snd (fold_left (fun '(l0, k0) (_ : nat) => let '(l1, _, k1) := bubble_pass mk k0 l0 in (l1, k1)) (seq 0 (List.length l)) (l, 0))))
      by exact (passes_is_bubble_passes mk (List.length l) 0 l [] 0);
    rewrite E end.
  destruct (bubble_passes mk (List.length l) 0 l []) as [l' cs]. reflexivity.
Qed.
Print Assumptions sort_duplicates_src_is_model.
