(* UtilSrc_sortnodup_proof.v -- util.sort_no_duplicates, regenerated from /repo's source on every run (harness/pytrans.py), is Enc.dsort:
   the n fresh integers, one disjunction "a_i is one of the inputs" per fresh integer, and the chain a_0 < a_1 < ... .
   (Used by TasksContiguous, ResourceNonDelay, ResourceTasksDistance, IndicatorResourceIdle and the non-concurrent buffers.) *)
From Coq Require Import ZArith List Bool Lia.
From PS.model Require Import Smt Enc.
From PS.srctie Require Import UtilSrc.
Import ListNotations.
Open Scope nat_scope.

Lemma map_nth_seq {A B} (g : A -> B) (l : list A) d : map (fun j => g (nth j l d)) (seq 0 (List.length l)) = map g l.
Proof.
  induction l as [|x l IH]; [reflexivity|]. cbn [List.length seq map nth]. f_equal.
  rewrite <- seq_shift, map_map. exact IH.
Qed.

Lemma pairs_lt_nth (a : list term) d :
  pairs_lt a = map (fun i => FLt (nth i a d) (nth (i + 1) a d)) (seq 0 (List.length a - 1)).
Proof.
  induction a as [|x a IH]; [reflexivity|]. destruct a as [|y r]; [reflexivity|].
  change (pairs_lt (x :: y :: r)) with (FLt x y :: pairs_lt (y :: r)). rewrite IH.
  replace (List.length (x :: y :: r) - 1) with (S (List.length (y :: r) - 1)) by (cbn [List.length]; lia).
  cbn [seq map]. f_equal. rewrite <- seq_shift, map_map. apply map_ext. intros i. reflexivity.
Qed.

Theorem sort_no_duplicates_src_is_model mk base xs : sort_no_duplicates_src mk base xs = Some (dsort mk base xs).
Proof.
  unfold sort_no_duplicates_src, dsort. cbn zeta.
  set (a := map (fun k_ => mk (base + k_)) (seq 0 (List.length xs))).
  assert (La : List.length xs = List.length a) by (unfold a; now rewrite map_length, seq_length).
  f_equal. f_equal. f_equal.
  - transitivity (map (fun i => (fun ai => FOr (map (fun x => FEq ai x) xs)) (nth i a (TC 0%Z))) (seq 0 (List.length a))).
    + rewrite <- La. apply map_ext. intros i. cbn beta. f_equal. apply (map_nth_seq (fun x => FEq (nth i a (TC 0%Z)) x) xs (TC 0%Z)).
    + apply (map_nth_seq (fun ai => FOr (map (fun x => FEq ai x) xs)) a (TC 0%Z)).
  - rewrite La. f_equal. f_equal. symmetry. apply pairs_lt_nth.
Qed.
Print Assumptions sort_no_duplicates_src_is_model.
