(* Prog.v -- a problem is the *program* of constructor calls that builds it.
   pstate mirrors what later calls read; step mirrors each constructor
   (accept / reject / effect).  Model file: no property proofs here. *)
From Coq Require Import ZArith List Bool.
From PS.model Require Import Smt Enc.
Import ListNotations.
Open Scope Z_scope.

(* ------------------------------------------------------------------ *)
Inductive costfn := CostConst (v : Z) | CostLinear (slope intercept : Z) | CostPoly (coefs : list Z).
Record wrec := { w_ref : wref; w_prod : Z; w_cost : costfn }.
Record curec := { cu_id : nat; cu_size : nat; cu_prod : Z; cu_cost : Z }.
Record conrec := { c_id : nat; c_opt : bool; c_flag : bool; c_expr : rcexpr }.

Record pstate := {
  ps_horizon : option Z;
  ps_tasks : list tinfo;                         (* creation order; rank = position + 1 *)
  ps_workers : list wrec;                        (* problem.workers, units included, insertion order *)
  ps_cumuls : list curec;
  ps_selects : list srec;
  ps_reqs : list (nat * list rref);              (* task._required_resources *)
  ps_areqs : list (nat * list areq);             (* assertions appended to the task by add_required_resource *)
  ps_busy : list (rref * list (nat * bool));     (* resource._busy_intervals: task id -> (maybe-)busy variables *)
  ps_cons : list conrec;
  ps_neg : Z;                                    (* problem._unique_integer *)
  ps_nauto : nat }.

Definition empty_problem (h : option Z) : pstate :=
  {| ps_horizon := h; ps_tasks := []; ps_workers := []; ps_cumuls := []; ps_selects := [];
     ps_reqs := []; ps_areqs := []; ps_busy := []; ps_cons := []; ps_neg := -1; ps_nauto := 0 |}.

(* ------------------------------------------------------------------ *)
(* user-level references *)
Inductive resarg := ArgW (w : wref) | ArgC (c : nat) | ArgS (s : nat).
Definition ucexpr := cexpr nat nat resobj nat.

Inductive op :=
| ONewProblem (h : option Z)
| ONewTask (id : nat) (k : tkind) (opt : bool) (work : Z) (release due : option Z) (deadline : bool) (prio : Z)
| ONewWorker (id : nat) (prod : Z) (cost : costfn)
| ONewCumulative (id : nat) (size : Z) (prod : Z) (cost : costfn)
| ONewSelect (id : nat) (listed : list rref) (n : Z) (k : pbkind)
| OAddRequired (t : nat) (r : resarg) (dynamic : bool) (delay_in early_out : Z)
| ONewConstraint (id : nat) (opt : bool) (e : ucexpr).

Inductive result := Ok (st : pstate) | Err | Unsupported.

(* ------------------------------------------------------------------ *)
(* lookups; Python dicts are association lists in insertion order, an
   overwrite keeps the original position *)
Definition find_task (st : pstate) (id : nat) : option tinfo :=
  find (fun t => Nat.eqb (ti_id t) id) (ps_tasks st).
Definition find_worker (st : pstate) (w : wref) : option wrec :=
  find (fun r => wref_beq (w_ref r) w) (ps_workers st).
Definition find_cumul (st : pstate) (c : nat) : option curec :=
  find (fun r => Nat.eqb (cu_id r) c) (ps_cumuls st).
Definition find_select (st : pstate) (s : sref) : option srec :=
  find (fun r => sref_beq (s_ref r) s) (ps_selects st).
Definition find_cons (st : pstate) (c : nat) : option conrec :=
  find (fun r => Nat.eqb (c_id r) c) (ps_cons st).

Section Alist.
  Context {K V : Type} (eqb : K -> K -> bool).
  Fixpoint al_get (l : list (K * V)) (k : K) : option V :=
    match l with [] => None | (k', v) :: r => if eqb k' k then Some v else al_get r k end.
  Fixpoint al_set (l : list (K * V)) (k : K) (v : V) : list (K * V) :=
    match l with
    | [] => [(k, v)]
    | (k', v') :: r => if eqb k' k then (k', v) :: r else (k', v') :: al_set r k v
    end.
End Alist.

Definition get_list {K V} (eqb : K -> K -> bool) (l : list (K * list V)) (k : K) : list V :=
  match al_get eqb l k with Some v => v | None => [] end.
Definition push_list {K V} (eqb : K -> K -> bool) (l : list (K * list V)) (k : K) (v : V) :=
  al_set eqb l k (get_list eqb l k ++ [v]).

Definition reqs_of (st : pstate) (t : nat) : list rref := get_list Nat.eqb (ps_reqs st) t.
Definition areqs_of (st : pstate) (t : nat) : list areq := get_list Nat.eqb (ps_areqs st) t.
Definition busy_of (st : pstate) (r : rref) : list (nat * bool) := get_list rref_beq (ps_busy st) r.

(* resource.add_busy_interval(task, vars): dict assignment *)
Definition busy_add (b : list (rref * list (nat * bool))) (r : rref) (t : nat) (m : bool) :=
  al_set rref_beq b r (al_set Nat.eqb (get_list rref_beq b r) t m).

Definition units_of (c : curec) : list wref := map (fun i => WUnit (cu_id c) i) (seq 0 (cu_size c)).

Definition rref_exists (st : pstate) (r : rref) : bool :=
  match r with
  | RW w => match find_worker st w with Some _ => true | None => false end
  | RC c => match find_cumul st c with Some _ => true | None => false end
  end.

(* ------------------------------------------------------------------ *)
(* resolution of user references against the current state *)
Fixpoint mapM {A B} (f : A -> option B) (l : list A) : option (list B) :=
  match l with
  | [] => Some []
  | a :: r => match f a, mapM f r with Some b, Some br => Some (b :: br) | _, _ => None end
  end.

Definition conrec_asserts (c : conrec) : list form := enc_cons (c_id c) (c_opt c) (c_expr c).

Definition res_task := find_task.
Definition res_cons (st : pstate) (c : nat) : option opres :=
  match find_cons st c with
  | Some r => Some {| or_id := c; or_opt := c_opt r; or_asserts := conrec_asserts r |}
  | None => None end.
Definition res_operand (st : pstate) (x : operand nat) : option (operand opres) :=
  match x with
  | OpC c => match res_cons st c with Some o => Some (OpC o) | None => None end
  | OpRaw f => Some (OpRaw f)
  end.
Definition res_busy (st : pstate) (r : rref) : option (list busyent) :=
  mapM (fun '(t, m) => match find_task st t with
                       | Some ti => Some {| be_task := ti; be_maybe := m |} | None => None end)
       (busy_of st r).
Definition res_resobj (st : pstate) (o : resobj) : option rsnap :=
  match o with
  | ResW w =>
      match find_worker st w, res_busy st (RW w) with
      | Some _, Some l => Some {| rs_obj := o; rs_units := [(w, l)]; rs_own := l |}
      | _, _ => None end
  | ResC c =>
      match find_cumul st c with
      | Some cu =>
          match mapM (fun w => match res_busy st (RW w) with Some l => Some (w, l) | None => None end)
                     (units_of cu), res_busy st (RC c) with
          | Some us, Some own => Some {| rs_obj := o; rs_units := us; rs_own := own |}
          | _, _ => None end
      | None => None end
  end.
Definition res_sel (st : pstate) (s : nat) : option srec := find_select st (SUser s).

Definition opt_bind {A B} (a : option A) (f : A -> option B) : option B :=
  match a with Some x => f x | None => None end.
Notation "'do' x <- a ; b" := (opt_bind a (fun x => b)) (at level 200, x name, a at level 100, b at level 200).

Definition resolve (st : pstate) (e : ucexpr) : option rcexpr :=
  let T := res_task st in let O := res_cons st in let P := res_operand st in
  let R := res_resobj st in let SS := res_sel st in
  match e with
  | CStartAt t v => do t' <- T t; Some (CStartAt t' v)
  | CStartAfter t v s => do t' <- T t; Some (CStartAfter t' v s)
  | CEndAt t v => do t' <- T t; Some (CEndAt t' v)
  | CEndBefore t v s => do t' <- T t; Some (CEndBefore t' v s)
  | CPrecedence a b off k => do a' <- T a; do b' <- T b; Some (CPrecedence a' b' off k)
  | CStartSynced a b => do a' <- T a; do b' <- T b; Some (CStartSynced a' b')
  | CEndSynced a b => do a' <- T a; do b' <- T b; Some (CEndSynced a' b')
  | CDontOverlap a b => do a' <- T a; do b' <- T b; Some (CDontOverlap a' b')
  | CContiguous ts => do ts' <- mapM T ts; Some (CContiguous ts')
  | CUGroup ts w l => do ts' <- mapM T ts; Some (CUGroup ts' w l)
  | COGroup ts w l k => do ts' <- mapM T ts; Some (COGroup ts' w l k)
  | CForceSched t b => do t' <- T t; Some (CForceSched t' b)
  | CCondSched t c => do t' <- T t; Some (CCondSched t' c)
  | CDependency a b => do a' <- T a; do b' <- T b; Some (CDependency a' b')
  | CForceN ts n k => do ts' <- mapM T ts; Some (CForceN ts' n k)
  | CScheduleN ts n ivs k => do ts' <- mapM T ts; Some (CScheduleN ts' n ivs k)
  | CExpr f => Some (CExpr f)
  | CForceApplyN cs n k => do cs' <- mapM O cs; Some (CForceApplyN cs' n k)
  | CNot x => do x' <- P x; Some (CNot x')
  | COr xs => do xs' <- mapM P xs; Some (COr xs')
  | CAnd xs => do xs' <- mapM P xs; Some (CAnd xs')
  | CXor x y => do x' <- P x; do y' <- P y; Some (CXor x' y')
  | CImplies c xs => do xs' <- mapM P xs; Some (CImplies c xs')
  | CIte c xs ys => do xs' <- mapM P xs; do ys' <- mapM P ys; Some (CIte c xs' ys')
  | CWorkLoad r ivs k => do r' <- R r; Some (CWorkLoad r' ivs k)
  | CUnavailable r ivs => do r' <- R r; Some (CUnavailable r' ivs)
  | CPeriodicUnavailable r ivs p s o e => do r' <- R r; Some (CPeriodicUnavailable r' ivs p s o e)
  | CInterrupted r ivs => do r' <- R r; Some (CInterrupted r' ivs)
  | CPeriodicInterrupted r ivs p s o e => do r' <- R r; Some (CPeriodicInterrupted r' ivs p s o e)
  | CNonDelay r => do r' <- R r; Some (CNonDelay r')
  | CDistance r d ivs m => do r' <- R r; Some (CDistance r' d ivs m)
  | CSameWorkers a b => do a' <- SS a; do b' <- SS b; Some (CSameWorkers a' b')
  | CDistinctWorkers a b => do a' <- SS a; do b' <- SS b; Some (CDistinctWorkers a' b')
  | CLoad t b q => do t' <- T t; Some (CLoad t' b q)
  | CUnload t b q => do t' <- T t; Some (CUnload t' b q)
  | CIndTarget i v => Some (CIndTarget i v)
  | CIndBounds i lo hi => Some (CIndBounds i lo hi)
  end.

(* constraint ids whose created_from_assertion flag the constructor sets *)
Definition operand_ids (e : rcexpr) : list nat :=
  let ids := flat_map (fun x => match x with OpC o => [or_id o] | OpRaw _ => [] end) in
  match e with
  | CNot x => ids [x] | COr xs | CAnd xs | CImplies _ xs => ids xs
  | CXor x y => ids [x; y] | CIte _ xs ys => ids (xs ++ ys)
  | _ => []
  end.

(* ------------------------------------------------------------------ *)
(* structural equality of formulas: NamedUIDObject.append_z3_assertion
   raises when the same formula is appended twice to one element *)
Fixpoint list_beq {A} (eqb : A -> A -> bool) (a b : list A) : bool :=
  match a, b with
  | [], [] => true
  | x :: a', y :: b' => eqb x y && list_beq eqb a' b'
  | _, _ => false
  end.
Fixpoint term_beq (a b : term) {struct a} : bool :=
  match a, b with
  | TC x, TC y => Z.eqb x y
  | TV x, TV y => ivar_beq x y
  | TAdd l, TAdd m =>
      (fix go (l m : list term) : bool :=
         match l, m with [], [] => true | x :: l', y :: m' => term_beq x y && go l' m' | _, _ => false end) l m
  | TSub a1 a2, TSub b1 b2 | TMul a1 a2, TMul b1 b2
  | TDiv a1 a2, TDiv b1 b2 | TMod a1 a2, TMod b1 b2 => term_beq a1 b1 && term_beq a2 b2
  | TIte c a1 a2, TIte d b1 b2 => form_beq c d && term_beq a1 b1 && term_beq a2 b2
  | TSel x i, TSel y j => Nat.eqb x y && term_beq i j
  | _, _ => false
  end
with form_beq (a b : form) {struct a} : bool :=
  let lb := fix go (l m : list form) : bool :=
         match l, m with [], [] => true | x :: l', y :: m' => form_beq x y && go l' m' | _, _ => false end in
  match a, b with
  | FT, FT | FF, FF => true
  | FB x, FB y => bvar_beq x y
  | FLe a1 a2, FLe b1 b2 | FLt a1 a2, FLt b1 b2 | FGe a1 a2, FGe b1 b2
  | FGt a1 a2, FGt b1 b2 | FEq a1 a2, FEq b1 b2 | FNe a1 a2, FNe b1 b2 => term_beq a1 b1 && term_beq a2 b2
  | FAnd l, FAnd m | FOr l, FOr m => lb l m
  | FNot x, FNot y => form_beq x y
  | FXor a1 a2, FXor b1 b2 | FImp a1 a2, FImp b1 b2 | FIff a1 a2, FIff b1 b2 => form_beq a1 b1 && form_beq a2 b2
  | FIte c a1 a2, FIte d b1 b2 => form_beq c d && form_beq a1 b1 && form_beq a2 b2
  | FPbLe l k, FPbLe m j | FPbGe l k, FPbGe m j | FPbEq l k, FPbEq m j => lb l m && Z.eqb k j
  | FArrFix x i v, FArrFix y j w => Nat.eqb x y && term_beq i j && term_beq v w
  | _, _ => false
  end.
Fixpoint nodup_forms (l : list form) : bool :=
  match l with [] => true | f :: r => negb (existsb (form_beq f) r) && nodup_forms r end.

(* ------------------------------------------------------------------ *)
(* field validation of the task classes (pydantic) *)
Definition tkind_ok (k : tkind) : bool :=
  match k with
  | KZero => true
  | KFixed d => posz d
  | KVar mn mx al =>
      nonneg mn && (match mx with Some m => posz m | None => true end)
      && (match al with Some l => forallb posz l | None => true end)
  end.

(* resource._distribute_p_over_n *)
Definition distribute (p : Z) (n : nat) : list Z :=
  let q := p / Z.of_nat n in
  match n with O => [] | S m => (q + p mod Z.of_nat n) :: repeat q m end.

Definition next_neg (st : pstate) : Z := ps_neg st - 1.

(* the SelectWorkers branch of add_required_resource *)
Definition add_select (st : pstate) (t : tinfo) (s : srec) : pstate :=
  let id := ti_id t in
  let '(busy, neg, listed) :=
    fold_left (fun '(busy, neg, acc) r => (busy_add busy r id true, neg - 1, acc ++ [(r, neg - 1)]))
              (s_listed s) (ps_busy st, ps_neg st, []) in
  {| ps_horizon := ps_horizon st; ps_tasks := ps_tasks st; ps_workers := ps_workers st;
     ps_cumuls := ps_cumuls st; ps_selects := ps_selects st;
     ps_reqs := al_set Nat.eqb (ps_reqs st) id (reqs_of st id ++ s_listed s);
     ps_areqs := push_list Nat.eqb (ps_areqs st) id (AQSelect (s_ref s) listed (s_n s) (s_kind s));
     ps_busy := busy; ps_cons := ps_cons st; ps_neg := neg; ps_nauto := ps_nauto st |}.

Definition step_problem (st : pstate) (o : op) : result :=
  match o with
  | ONewProblem h =>
      match h with Some z => if posz z then Ok (empty_problem h) else Err | None => Ok (empty_problem h) end
  | ONewTask id k opt work rel due dl prio =>
      if negb (tkind_ok k && nonneg work && nonneg prio) then Err
      else match find_task st id with
      | Some _ => Err
      | None =>
          let t := {| ti_id := id; ti_rank := Z.of_nat (S (length (ps_tasks st))); ti_kind := k; ti_opt := opt;
                      ti_work := work; ti_release := rel; ti_due := due; ti_deadline := dl; ti_prio := prio |} in
          Ok {| ps_horizon := ps_horizon st; ps_tasks := ps_tasks st ++ [t]; ps_workers := ps_workers st;
                ps_cumuls := ps_cumuls st; ps_selects := ps_selects st; ps_reqs := ps_reqs st;
                ps_areqs := ps_areqs st; ps_busy := ps_busy st; ps_cons := ps_cons st;
                ps_neg := ps_neg st; ps_nauto := ps_nauto st |}
      end
  | ONewWorker id prod cost =>
      if negb (nonneg prod) then Err
      else match find_worker st (WPlain id) with
      | Some _ => Err
      | None =>
          Ok {| ps_horizon := ps_horizon st; ps_tasks := ps_tasks st;
                ps_workers := ps_workers st ++ [{| w_ref := WPlain id; w_prod := prod; w_cost := cost |}];
                ps_cumuls := ps_cumuls st; ps_selects := ps_selects st; ps_reqs := ps_reqs st;
                ps_areqs := ps_areqs st; ps_busy := ps_busy st; ps_cons := ps_cons st;
                ps_neg := ps_neg st; ps_nauto := ps_nauto st |}
      end
  | ONewCumulative id size prod cost =>
      match cost with
      | CostConst cv =>
        if negb ((2 <=? size) && posz prod) then Err
        else match find_cumul st id with
        | Some _ => Err
        | None =>
            let n := Z.to_nat size in
            let units := map (fun '(i, (p, c)) => {| w_ref := WUnit id i; w_prod := p; w_cost := CostConst c |})
                             (combine (seq 0 n) (combine (distribute prod n) (distribute cv n))) in
            Ok {| ps_horizon := ps_horizon st; ps_tasks := ps_tasks st;
                  ps_workers := ps_workers st ++ units;
                  ps_cumuls := ps_cumuls st ++ [{| cu_id := id; cu_size := n; cu_prod := prod; cu_cost := cv |}];
                  ps_selects := ps_selects st; ps_reqs := ps_reqs st;
                  ps_areqs := ps_areqs st; ps_busy := ps_busy st; ps_cons := ps_cons st;
                  ps_neg := ps_neg st; ps_nauto := ps_nauto st |}
        end
      | _ => Err
      end
  | ONewSelect id listed n k =>
      if negb (forallb (rref_exists st) listed) then Unsupported
      else if negb ((2 <=? Z.of_nat (length listed)) && posz n && (n <=? Z.of_nat (length listed))) then Err
      else if negb (Nat.eqb (length (nodup rref_eq_dec listed)) (length listed)) then Unsupported
      else match find_select st (SUser id) with
      | Some _ => Err
      | None =>
          Ok {| ps_horizon := ps_horizon st; ps_tasks := ps_tasks st; ps_workers := ps_workers st;
                ps_cumuls := ps_cumuls st;
                ps_selects := ps_selects st ++ [{| s_ref := SUser id; s_listed := listed; s_n := n; s_kind := k |}];
                ps_reqs := ps_reqs st; ps_areqs := ps_areqs st; ps_busy := ps_busy st; ps_cons := ps_cons st;
                ps_neg := ps_neg st; ps_nauto := ps_nauto st |}
      end
  | OAddRequired tid r dyn di eo =>
      match find_task st tid with
      | None => Unsupported
      | Some t =>
        match r with
        | ArgW w =>
            match find_worker st w with
            | None => Unsupported
            | Some _ =>
              if existsb (rref_beq (RW w)) (reqs_of st tid) then Err
              else Ok {| ps_horizon := ps_horizon st; ps_tasks := ps_tasks st; ps_workers := ps_workers st;
                         ps_cumuls := ps_cumuls st; ps_selects := ps_selects st;
                         ps_reqs := push_list Nat.eqb (ps_reqs st) tid (RW w);
                         ps_areqs := push_list Nat.eqb (ps_areqs st) tid (AQDirect w dyn di eo);
                         ps_busy := busy_add (ps_busy st) (RW w) tid false;
                         ps_cons := ps_cons st; ps_neg := ps_neg st; ps_nauto := ps_nauto st |}
            end
        | ArgS s =>
            match find_select st (SUser s) with
            | None => Unsupported
            | Some sr =>
              (* the selection assertion would be appended a second time: AssertionError *)
              if existsb (fun a => match a with AQSelect s' _ _ _ => sref_beq s' (SUser s) | _ => false end)
                         (areqs_of st tid) then Err
              else Ok (add_select st t sr)
            end
        | ArgC c =>
            match find_cumul st c with
            | None => Unsupported
            | Some cu =>
              (* the cumulative object itself is in the required list when it was listed in a selection *)
              if existsb (rref_beq (RC c)) (reqs_of st tid) then Err else
              let sr := {| s_ref := SAuto (ps_nauto st); s_listed := map RW (units_of cu); s_n := 1; s_kind := PbMin |} in
              let st1 := add_select st t sr in
              Ok {| ps_horizon := ps_horizon st1; ps_tasks := ps_tasks st1; ps_workers := ps_workers st1;
                    ps_cumuls := ps_cumuls st1; ps_selects := ps_selects st1 ++ [sr];
                    ps_reqs := ps_reqs st1; ps_areqs := ps_areqs st1; ps_busy := ps_busy st1;
                    ps_cons := ps_cons st1; ps_neg := ps_neg st1; ps_nauto := S (ps_nauto st) |}
            end
        end
      end
  | ONewConstraint id opt e =>
      match find_cons st id with
      | Some _ => Err
      | None =>
        match resolve st e with
        | None => Unsupported
        | Some re =>
          if negb (check_c re) then Err
          else if negb (nodup_forms (enc_cons id opt re)) then Err
          else
            let flagged := operand_ids re in
            let cons' := map (fun c => if existsb (Nat.eqb (c_id c)) flagged
                                       then {| c_id := c_id c; c_opt := c_opt c; c_flag := true; c_expr := c_expr c |}
                                       else c) (ps_cons st) in
            Ok {| ps_horizon := ps_horizon st; ps_tasks := ps_tasks st; ps_workers := ps_workers st;
                  ps_cumuls := ps_cumuls st; ps_selects := ps_selects st; ps_reqs := ps_reqs st;
                  ps_areqs := ps_areqs st; ps_busy := ps_busy st;
                  ps_cons := cons' ++ [{| c_id := id; c_opt := opt; c_flag := false; c_expr := re |}];
                  ps_neg := ps_neg st; ps_nauto := ps_nauto st |}
        end
      end
  end.

(* no active problem: every constructor except SchedulingProblem raises *)
Definition step (st : option pstate) (o : op) : result :=
  match o, st with
  | ONewProblem _, _ => step_problem (empty_problem None) o
  | _, None => Err
  | _, Some s => step_problem s o
  end.

Inductive runres := RunOk (st : option pstate) | RunErr (idx : nat) | RunUnsup (idx : nat).
Fixpoint run_from (st : option pstate) (idx : nat) (ops : list op) : runres :=
  match ops with
  | [] => RunOk st
  | o :: r => match step st o with
              | Ok st' => run_from (Some st') (S idx) r
              | Err => RunErr idx
              | Unsupported => RunUnsup idx
              end
  end.
Definition run (ops : list op) : runres := run_from None 0 ops.

(* ------------------------------------------------------------------ *)
(* SchedulingSolver.initialize(): the assertion set handed to z3, each
   tagged with the element / block it comes from *)
Inductive tag :=
| TgTask (t : nat) | TgHorizon (t : nat) | TgOverlap (w : wref) | TgCons (c : nat)
| TgInd (i : nat) | TgWork (t : nat) | TgBuf (b : nat) | TgProblem | TgObj.

Definition task_asserts (st : pstate) (t : tinfo) : list form :=
  task_core t ++ flat_map (enc_areq t) (areqs_of st (ti_id t)).

Fixpoint pairs_no_overlap (r : rref) (l : list (nat * bool)) : list form :=
  match l with
  | [] => []
  | (ti, mi) :: rest =>
      map (fun '(tk, mk) => FOr [FGe (BS r tk mk) (BE r ti mi); FGe (BS r ti mi) (BE r tk mk)]) rest
      ++ pairs_no_overlap r rest
  end.

Definition prod_of (st : pstate) (r : rref) : Z :=
  match r with
  | RW w => match find_worker st w with Some x => w_prod x | None => 0 end
  | RC c => match find_cumul st c with Some x => cu_prod x | None => 0 end
  end.

Definition work_assert (st : pstate) (t : tinfo) : list form :=
  if ti_work t >? 0 then
    let contribs := flat_map (fun r =>
        match al_get Nat.eqb (busy_of st r) (ti_id t) with
        | Some m => [TMul (TC (prod_of st r)) (TSub (BE r (ti_id t) m) (BS r (ti_id t) m))]
        | None => [] end) (reqs_of st (ti_id t)) in
    match contribs with [] => [] | _ => [FGe (TAdd contribs) (TC (ti_work t))] end
  else [].

Definition tagged (g : tag) (l : list form) : list (tag * form) := map (pair g) l.

Definition initialize (st : pstate) : list (tag * form) :=
  flat_map (fun t => tagged (TgTask (ti_id t)) (task_asserts st t)
                     ++ [(TgHorizon (ti_id t), FLe (E_ t) (TV VHorizon))]) (ps_tasks st)
  ++ flat_map (fun w => tagged (TgOverlap (w_ref w)) (pairs_no_overlap (RW (w_ref w)) (busy_of st (RW (w_ref w)))))
              (ps_workers st)
  ++ flat_map (fun c => if c_flag c then [] else tagged (TgCons (c_id c)) (conrec_asserts c)) (ps_cons st)
  ++ flat_map (fun t => tagged (TgWork (ti_id t)) (work_assert st t)) (ps_tasks st)
  ++ (match ps_horizon st with Some h => [(TgProblem, FLe (TV VHorizon) (TC h))] | None => [] end).

Definition sat (e : env) (l : list (tag * form)) : Prop := forall g f, In (g, f) l -> feval e f = true.
