(* Prog.v -- a problem is the *program* of constructor calls that builds it.
   pstate mirrors what later calls read; step mirrors each constructor
   (accept / reject / effect).  Model file: no property proofs here. *)
From Coq Require Import ZArith List Bool String.
From PS.model Require Import Smt Enc Ind.
Import ListNotations.
Open Scope Z_scope.

(* ------------------------------------------------------------------ *)
Record wrec := { w_ref : wref; w_prod : Z; w_cost : costfn }.
Record curec := { cu_id : nat; cu_size : nat; cu_prod : Z; cu_cost : Z }.
Record conrec := { c_id : nat; c_opt : bool; c_flag : bool; c_expr : rcexpr }.

(* indicators, objectives, buffers *)
Record indrec := { i_id : nat; i_key : option string; i_given : string; i_bounds : option (Z * Z);
                   i_all : list tinfo; i_hz : option Z; i_expr : riexpr }.
Record objrec := { o_name : string; o_target : term; o_weight : Z; o_dir : dirn; o_bounds : option (Z * Z) }.
Record ext := { x_bufs : list bufrec; x_inds : list indrec; x_objs : list objrec }.
Definition empty_ext : ext := {| x_bufs := []; x_inds := []; x_objs := [] |}.

Record pstate := {
  ps_horizon : option Z;
  ps_tasks : list tinfo;                         (* creation order; rank = position + 1 *)
  ps_workers : list wrec;                        (* problem.workers, units included, insertion order *)
  ps_cumuls : list curec;
  ps_selects : list srec;
  ps_reqs : list (nat * list rref);              (* task._required_resources *)
  ps_areqs : list (nat * list areq);             (* assertions appended to the task by add_required_resource *)
  ps_busy : list (rref * list (nat * bool));     (* resource._busy_intervals: task id -> (maybe-)busy variables *)
  ps_cons : list conrec;
  ps_neg : Z;                                    (* problem._unique_integer *)
  ps_nauto : nat;
  ps_ext : ext }.

Definition empty_problem (h : option Z) : pstate :=
  {| ps_horizon := h; ps_tasks := []; ps_workers := []; ps_cumuls := []; ps_selects := [];
     ps_reqs := []; ps_areqs := []; ps_busy := []; ps_cons := []; ps_neg := -1; ps_nauto := 0; ps_ext := empty_ext |}.

(* ------------------------------------------------------------------ *)
(* user-level references *)
Inductive resarg := ArgW (w : wref) | ArgC (c : nat) | ArgS (s : nat).
Definition ucexpr := cexpr nat nat resobj nat.
Definition uiexpr := iexpr nat resobj nat.

Inductive oexpr (T R B : Type) :=
| OMakespan | OMaxUtilization (r : R) | OMinCost (rs : list R)
| OStartLatest (ts : option (list T)) | OStartEarliest | OGreatestStart (ts : option (list T))
| OFlowtime (ts : option (list T)) | OPriorities | OFlowtimeSingle (r : R) (iv : option (Z * Z))
| OMaxBufMax (b : B) | OMinBufMax (b : B)
| OMinIndicator (i : nat) (w : Z) | OMaxIndicator (i : nat) (w : Z)
| ORaw (n : nat) (t : term) (w : Z) (maximize : bool).      (* Objective(name, target = expression, weight, kind) *)
Arguments OMakespan {T R B}. Arguments OMaxUtilization {T R B}. Arguments OMinCost {T R B}.
Arguments OStartLatest {T R B}. Arguments OStartEarliest {T R B}. Arguments OGreatestStart {T R B}.
Arguments OFlowtime {T R B}. Arguments OPriorities {T R B}. Arguments OFlowtimeSingle {T R B}.
Arguments OMaxBufMax {T R B}. Arguments OMinBufMax {T R B}. Arguments OMinIndicator {T R B}.
Arguments OMaxIndicator {T R B}. Arguments ORaw {T R B}.
Definition uoexpr := oexpr nat resobj nat.

Inductive op :=
| ONewProblem (h : option Z)
| ONewTask (id : nat) (k : tkind) (opt : bool) (work : Z) (release due : option Z) (deadline : bool) (prio : Z)
| ONewWorker (id : nat) (prod : Z) (cost : costfn)
| ONewCumulative (id : nat) (size : Z) (prod : Z) (cost : costfn)
| ONewSelect (id : nat) (listed : list rref) (n : Z) (k : pbkind)
| OAddRequired (t : nat) (r : resarg) (dynamic : bool) (delay_in early_out : Z)
| ONewConstraint (id : nat) (opt : bool) (e : ucexpr)
| ONewBuffer (id : nat) (concurrent : bool) (init final lo hi : option Z)
| ONewIndicator (id : nat) (e : uiexpr) (bounds : option (Z * Z))
| ONewObjective (o : uoexpr) (ind : nat).      (* ind: id given to the indicator the objective creates, if any *)

Inductive result := Ok (st : pstate) | Err | Unsupported.

(* ------------------------------------------------------------------ *)
(* lookups; Python dicts are association lists in insertion order, an
   overwrite keeps the original position *)
Definition find_task (st : pstate) (id : nat) : option tinfo :=
  find (fun t => Nat.eqb (ti_id t) id) (ps_tasks st).
Definition find_worker (st : pstate) (w : wref) : option wrec :=
  find (fun r => wref_beq (w_ref r) w) (ps_workers st).
Definition find_cumul (st : pstate) (c : nat) : option curec :=
  find (fun r => Nat.eqb (cu_id r) c) (ps_cumuls st).
Definition find_select (st : pstate) (s : sref) : option srec :=
  find (fun r => sref_beq (s_ref r) s) (ps_selects st).
Definition find_cons (st : pstate) (c : nat) : option conrec :=
  find (fun r => Nat.eqb (c_id r) c) (ps_cons st).

Section Alist.
  Context {K V : Type} (eqb : K -> K -> bool).
  Fixpoint al_get (l : list (K * V)) (k : K) : option V :=
    match l with [] => None | (k', v) :: r => if eqb k' k then Some v else al_get r k end.
  Fixpoint al_set (l : list (K * V)) (k : K) (v : V) : list (K * V) :=
    match l with
    | [] => [(k, v)]
    | (k', v') :: r => if eqb k' k then (k', v) :: r else (k', v') :: al_set r k v
    end.
End Alist.

Definition get_list {K V} (eqb : K -> K -> bool) (l : list (K * list V)) (k : K) : list V :=
  match al_get eqb l k with Some v => v | None => [] end.
Definition push_list {K V} (eqb : K -> K -> bool) (l : list (K * list V)) (k : K) (v : V) :=
  al_set eqb l k (get_list eqb l k ++ [v]).

Definition reqs_of (st : pstate) (t : nat) : list rref := get_list Nat.eqb (ps_reqs st) t.
Definition areqs_of (st : pstate) (t : nat) : list areq := get_list Nat.eqb (ps_areqs st) t.
Definition busy_of (st : pstate) (r : rref) : list (nat * bool) := get_list rref_beq (ps_busy st) r.

(* resource.add_busy_interval(task, vars): dict assignment *)
Definition busy_add (b : list (rref * list (nat * bool))) (r : rref) (t : nat) (m : bool) :=
  al_set rref_beq b r (al_set Nat.eqb (get_list rref_beq b r) t m).

Definition units_of (c : curec) : list wref := map (fun i => WUnit (cu_id c) i) (seq 0 (cu_size c)).

Definition rref_exists (st : pstate) (r : rref) : bool :=
  match r with
  | RW w => match find_worker st w with Some _ => true | None => false end
  | RC c => match find_cumul st c with Some _ => true | None => false end
  end.

(* ------------------------------------------------------------------ *)
(* resolution of user references against the current state *)
Fixpoint mapM {A B} (f : A -> option B) (l : list A) : option (list B) :=
  match l with
  | [] => Some []
  | a :: r => match f a, mapM f r with Some b, Some br => Some (b :: br) | _, _ => None end
  end.

Definition conrec_asserts (c : conrec) : list form := enc_cons (c_id c) (c_opt c) (c_expr c).

Definition res_task := find_task.
Definition res_cons (st : pstate) (c : nat) : option opres :=
  match find_cons st c with
  | Some r => Some {| or_id := c; or_opt := c_opt r; or_asserts := conrec_asserts r |}
  | None => None end.
Definition res_operand (st : pstate) (x : operand nat) : option (operand opres) :=
  match x with
  | OpC c => match res_cons st c with Some o => Some (OpC o) | None => None end
  | OpRaw f => Some (OpRaw f)
  end.
Definition res_busy (st : pstate) (r : rref) : option (list busyent) :=
  mapM (fun '(t, m) => match find_task st t with
                       | Some ti => Some {| be_task := ti; be_maybe := m |} | None => None end)
       (busy_of st r).
Definition res_resobj (st : pstate) (o : resobj) : option rsnap :=
  match o with
  | ResW w =>
      match find_worker st w, res_busy st (RW w) with
      | Some _, Some l => Some {| rs_obj := o; rs_units := [(w, l)]; rs_own := l |}
      | _, _ => None end
  | ResC c =>
      match find_cumul st c with
      | Some cu =>
          match mapM (fun w => match res_busy st (RW w) with Some l => Some (w, l) | None => None end)
                     (units_of cu), res_busy st (RC c) with
          | Some us, Some own => Some {| rs_obj := o; rs_units := us; rs_own := own |}
          | _, _ => None end
      | None => None end
  end.
Definition res_sel (st : pstate) (s : nat) : option srec := find_select st (SUser s).

Definition find_buf (st : pstate) (b : nat) : option bufrec :=
  find (fun r => Nat.eqb (b_id r) b) (x_bufs (ps_ext st)).
Definition find_ind (st : pstate) (i : nat) : option indrec :=
  find (fun r => Nat.eqb (i_id r) i) (x_inds (ps_ext st)).
Definition res_rc (st : pstate) (o : resobj) : option rcsnap :=
  match res_resobj st o with
  | Some r => Some {| rc_snap := r;
                      rc_costs := flat_map (fun '(w, _) => match find_worker st w with
                                                           | Some x => [(w, w_cost x)] | None => [] end) (rs_units r) |}
  | None => None end.
Definition res_bsnap (st : pstate) (b : nat) : option bsnap :=
  match find_buf st b with Some r => Some {| bn_id := b; bn_levels := buf_levels r |} | None => None end.
Definition res_tasks (st : pstate) (ts : option (list nat)) : option (option (list tinfo)) :=
  match ts with None => Some None | Some l => match mapM (find_task st) l with Some l' => Some (Some l') | None => None end end.

Definition opt_bind {A B} (a : option A) (f : A -> option B) : option B :=
  match a with Some x => f x | None => None end.
Notation "'do' x <- a ; b" := (opt_bind a (fun x => b)) (at level 200, x name, a at level 100, b at level 200).

Definition resolve (st : pstate) (e : ucexpr) : option rcexpr :=
  let T := res_task st in let O := res_cons st in let P := res_operand st in
  let R := res_resobj st in let SS := res_sel st in
  match e with
  | CStartAt t v => do t' <- T t; Some (CStartAt t' v)
  | CStartAfter t v s => do t' <- T t; Some (CStartAfter t' v s)
  | CEndAt t v => do t' <- T t; Some (CEndAt t' v)
  | CEndBefore t v s => do t' <- T t; Some (CEndBefore t' v s)
  | CPrecedence a b off k => do a' <- T a; do b' <- T b; Some (CPrecedence a' b' off k)
  | CStartSynced a b => do a' <- T a; do b' <- T b; Some (CStartSynced a' b')
  | CEndSynced a b => do a' <- T a; do b' <- T b; Some (CEndSynced a' b')
  | CDontOverlap a b => do a' <- T a; do b' <- T b; Some (CDontOverlap a' b')
  | CContiguous ts => do ts' <- mapM T ts; Some (CContiguous ts')
  | CUGroup ts w l => do ts' <- mapM T ts; Some (CUGroup ts' w l)
  | COGroup ts w l k => do ts' <- mapM T ts; Some (COGroup ts' w l k)
  | CForceSched t b => do t' <- T t; Some (CForceSched t' b)
  | CCondSched t c => do t' <- T t; Some (CCondSched t' c)
  | CDependency a b => do a' <- T a; do b' <- T b; Some (CDependency a' b')
  | CForceN ts n k => do ts' <- mapM T ts; Some (CForceN ts' n k)
  | CScheduleN ts n ivs k => do ts' <- mapM T ts; Some (CScheduleN ts' n ivs k)
  | CExpr f => Some (CExpr f)
  | CForceApplyN cs n k => do cs' <- mapM O cs; Some (CForceApplyN cs' n k)
  | CNot x => do x' <- P x; Some (CNot x')
  | COr xs => do xs' <- mapM P xs; Some (COr xs')
  | CAnd xs => do xs' <- mapM P xs; Some (CAnd xs')
  | CXor x y => do x' <- P x; do y' <- P y; Some (CXor x' y')
  | CImplies c xs => do xs' <- mapM P xs; Some (CImplies c xs')
  | CIte c xs ys => do xs' <- mapM P xs; do ys' <- mapM P ys; Some (CIte c xs' ys')
  | CWorkLoad r ivs k => do r' <- R r; Some (CWorkLoad r' ivs k)
  | CUnavailable r ivs => do r' <- R r; Some (CUnavailable r' ivs)
  | CPeriodicUnavailable r ivs p s o e => do r' <- R r; Some (CPeriodicUnavailable r' ivs p s o e)
  | CInterrupted r ivs => do r' <- R r; Some (CInterrupted r' ivs)
  | CPeriodicInterrupted r ivs p s o e => do r' <- R r; Some (CPeriodicInterrupted r' ivs p s o e)
  | CNonDelay r => do r' <- R r; Some (CNonDelay r')
  | CDistance r d ivs m => do r' <- R r; Some (CDistance r' d ivs m)
  | CSameWorkers a b => do a' <- SS a; do b' <- SS b; Some (CSameWorkers a' b')
  | CDistinctWorkers a b => do a' <- SS a; do b' <- SS b; Some (CDistinctWorkers a' b')
  | CLoad t b q => do t' <- T t; Some (CLoad t' b q)
  | CUnload t b q => do t' <- T t; Some (CUnload t' b q)
  | CIndTarget i v => Some (CIndTarget i v)
  | CIndBounds i lo hi => Some (CIndBounds i lo hi)
  end.

Definition resolve_i (st : pstate) (e : uiexpr) : option riexpr :=
  match e with
  | IExpr t => Some (IExpr t)
  | IUtilization r => do r' <- res_rc st r; Some (IUtilization r')
  | INbTasks r => do r' <- res_rc st r; Some (INbTasks r')
  | IIdle r => do r' <- res_rc st r; Some (IIdle r')
  | ITardiness ts => do ts' <- res_tasks st ts; Some (ITardiness ts')
  | IEarliness ts => do ts' <- res_tasks st ts; Some (IEarliness ts')
  | INbTardy ts => do ts' <- res_tasks st ts; Some (INbTardy ts')
  | IMaxLateness ts => do ts' <- res_tasks st ts; Some (IMaxLateness ts')
  | ICost rs => do rs' <- mapM (res_rc st) rs; Some (ICost rs')
  | IMaxBuf b => do b' <- res_bsnap st b; Some (IMaxBuf b')
  | IMinBuf b => do b' <- res_bsnap st b; Some (IMinBuf b')
  | IMinStart ts => do ts' <- res_tasks st ts; Some (IMinStart ts')
  | IGreatestStart ts => do ts' <- res_tasks st ts; Some (IGreatestStart ts')
  | IWeightedStarts => Some IWeightedStarts
  | IFlowtime ts => do ts' <- res_tasks st ts; Some (IFlowtime ts')
  | ITotalPriority => Some ITotalPriority
  | IFlowSingle r iv => do r' <- res_rc st r; Some (IFlowSingle r' iv)
  end.
Definition user_indicator (e : uiexpr) : bool :=
  match e with
  | IMinStart _ | IGreatestStart _ | IWeightedStarts | IFlowtime _ | ITotalPriority | IFlowSingle _ _ => false
  | _ => true end.

Definition ind_asserts (r : indrec) : list form := enc_ind (i_id r) (i_hz r) (i_all r) (i_expr r).
Definition ind_name (r : indrec) : string := ind_report_name (i_given r) (i_expr r).

(* constraint ids whose created_from_assertion flag the constructor sets *)
Definition operand_ids (e : rcexpr) : list nat :=
  let ids := flat_map (fun x => match x with OpC o => [or_id o] | OpRaw _ => [] end) in
  match e with
  | CNot x => ids [x] | COr xs | CAnd xs | CImplies _ xs => ids xs
  | CXor x y => ids [x; y] | CIte _ xs ys => ids (xs ++ ys)
  | _ => []
  end.

(* ------------------------------------------------------------------ *)
(* structural equality of formulas: NamedUIDObject.append_z3_assertion
   raises when the same formula is appended twice to one element *)
Fixpoint list_beq {A} (eqb : A -> A -> bool) (a b : list A) : bool :=
  match a, b with
  | [], [] => true
  | x :: a', y :: b' => eqb x y && list_beq eqb a' b'
  | _, _ => false
  end.
Fixpoint term_beq (a b : term) {struct a} : bool :=
  match a, b with
  | TC x, TC y => Z.eqb x y
  | TV x, TV y => ivar_beq x y
  | TAdd l, TAdd m =>
      (fix go (l m : list term) : bool :=
         match l, m with [], [] => true | x :: l', y :: m' => term_beq x y && go l' m' | _, _ => false end) l m
  | TSub a1 a2, TSub b1 b2 | TMul a1 a2, TMul b1 b2
  | TDiv a1 a2, TDiv b1 b2 | TMod a1 a2, TMod b1 b2 => term_beq a1 b1 && term_beq a2 b2
  | TIte c a1 a2, TIte d b1 b2 => form_beq c d && term_beq a1 b1 && term_beq a2 b2
  | TSel x i, TSel y j => Nat.eqb x y && term_beq i j
  | TApp f x, TApp g y => fname_beq f g && term_beq x y
  | _, _ => false
  end
with form_beq (a b : form) {struct a} : bool :=
  let lb := fix go (l m : list form) : bool :=
         match l, m with [], [] => true | x :: l', y :: m' => form_beq x y && go l' m' | _, _ => false end in
  match a, b with
  | FT, FT | FF, FF => true
  | FB x, FB y => bvar_beq x y
  | FLe a1 a2, FLe b1 b2 | FLt a1 a2, FLt b1 b2 | FGe a1 a2, FGe b1 b2
  | FGt a1 a2, FGt b1 b2 | FEq a1 a2, FEq b1 b2 | FNe a1 a2, FNe b1 b2 => term_beq a1 b1 && term_beq a2 b2
  | FAnd l, FAnd m | FOr l, FOr m => lb l m
  | FNot x, FNot y => form_beq x y
  | FXor a1 a2, FXor b1 b2 | FImp a1 a2, FImp b1 b2 | FIff a1 a2, FIff b1 b2 => form_beq a1 b1 && form_beq a2 b2
  | FIte c a1 a2, FIte d b1 b2 => form_beq c d && form_beq a1 b1 && form_beq a2 b2
  | FPbLe l k, FPbLe m j | FPbGe l k, FPbGe m j | FPbEq l k, FPbEq m j => lb l m && Z.eqb k j
  | FArrFix x i v, FArrFix y j w => Nat.eqb x y && term_beq i j && term_beq v w
  | FFunPoint f t q, FFunPoint g u r => fname_beq f g && term_beq t u && Z.eqb q r
  | _, _ => false
  end.
Fixpoint nodup_forms (l : list form) : bool :=
  match l with [] => true | f :: r => negb (existsb (form_beq f) r) && nodup_forms r end.

(* ------------------------------------------------------------------ *)
(* field validation of the task classes (pydantic) *)
Definition tkind_ok (k : tkind) : bool :=
  match k with
  | KZero => true
  | KFixed d => posz d
  | KVar mn mx al =>
      nonneg mn && (match mx with Some m => posz m | None => true end)
      && (match al with Some l => forallb posz l | None => true end)
  end.

(* resource._distribute_p_over_n *)
Definition distribute (p : Z) (n : nat) : list Z :=
  let q := p / Z.of_nat n in
  match n with O => [] | S m => (q + p mod Z.of_nat n) :: repeat q m end.

Definition next_neg (st : pstate) : Z := ps_neg st - 1.

(* the SelectWorkers branch of add_required_resource *)
Definition add_select (st : pstate) (t : tinfo) (s : srec) : pstate :=
  let id := ti_id t in
  let '(busy, neg, listed) :=
    fold_left (fun '(busy, neg, acc) r => (busy_add busy r id true, neg - 1, acc ++ [(r, neg - 1)]))
              (s_listed s) (ps_busy st, ps_neg st, []) in
  {| ps_horizon := ps_horizon st; ps_tasks := ps_tasks st; ps_workers := ps_workers st;
     ps_cumuls := ps_cumuls st; ps_selects := ps_selects st;
     ps_reqs := al_set Nat.eqb (ps_reqs st) id (reqs_of st id ++ s_listed s);
     ps_areqs := push_list Nat.eqb (ps_areqs st) id (AQSelect (s_ref s) listed (s_n s) (s_kind s));
     ps_busy := busy; ps_cons := ps_cons st; ps_neg := neg; ps_nauto := ps_nauto st; ps_ext := ps_ext st |}.

(* TaskLoadBuffer / TaskUnloadBuffer: buffer.add_(un)loading_task *)
Definition buf_add (b : bufrec) (load : bool) (t : nat) (q : Z) : bufrec :=
  {| b_id := b_id b; b_conc := b_conc b; b_init := b_init b; b_final := b_final b; b_lo := b_lo b; b_hi := b_hi b;
     b_unload := if load then b_unload b else al_set Nat.eqb (b_unload b) t q;
     b_load := if load then al_set Nat.eqb (b_load b) t q else b_load b;
     b_slots := b_slots b ++ [t] |}.
Definition buffer_effect (x : ext) (e : rcexpr) : ext :=
  let upd bid load t q :=
    {| x_bufs := map (fun b => if Nat.eqb (b_id b) bid then buf_add b load (ti_id t) q else b) (x_bufs x);
       x_inds := x_inds x; x_objs := x_objs x |} in
  match e with
  | CLoad t b q => upd b true t q
  | CUnload t b q => upd b false t q
  | _ => x
  end.
Definition buffer_known (st : pstate) (e : rcexpr) : bool :=
  match e with
  | CLoad _ b _ | CUnload _ b _ => match find_buf st b with Some _ => true | None => false end
  | CIndTarget i _ | CIndBounds i _ _ => match find_ind st i with Some _ => true | None => false end
  | _ => true
  end.

Definition absentb {A} (x : option A) : bool := match x with None => true | Some _ => false end.

Definition with_ext (st : pstate) (x : ext) : pstate :=
  {| ps_horizon := ps_horizon st; ps_tasks := ps_tasks st; ps_workers := ps_workers st;
     ps_cumuls := ps_cumuls st; ps_selects := ps_selects st; ps_reqs := ps_reqs st;
     ps_areqs := ps_areqs st; ps_busy := ps_busy st; ps_cons := ps_cons st;
     ps_neg := ps_neg st; ps_nauto := ps_nauto st; ps_ext := x |}.

Definition key_taken (st : pstate) (k : option string) : bool :=
  match k with
  | None => false
  | Some n => existsb (fun r => match i_key r with Some m => String.eqb m n | None => false end) (x_inds (ps_ext st))
  end.

(* Indicator.__init__ + subclass: register under the given name, then build the assertions *)
Definition add_indicator (st : pstate) (id : nat) (key : option string) (given : string)
           (bounds : option (Z * Z)) (e : riexpr) : option pstate :=
  if key_taken st key then None
  else if negb (check_i (ps_tasks st) e) then None
  else
    let r := {| i_id := id; i_key := key; i_given := given; i_bounds := ind_bounds bounds e;
                i_all := ps_tasks st; i_hz := ps_horizon st; i_expr := e |} in
    if negb (nodup_forms (ind_asserts r)) then None
    else Some (with_ext st {| x_bufs := x_bufs (ps_ext st); x_inds := x_inds (ps_ext st) ++ [r]; x_objs := x_objs (ps_ext st) |}).

Open Scope string_scope.
Definition user_ind_name (id : nat) : string := "I" ++ show_nat id.
Definition show_bound (t : term) : string := match t with TC z => match z with Zneg p => "-" ++ show_N (Npos p) | _ => show_Z z end | _ => "horizon" end.
Definition names_concat (rs : list resobj) : string := String.concat "" (map resobj_name rs).

(* the indicator an objective creates: (dict key, given name, expression) *)
Definition objective_indicator (o : uoexpr) : option (option string * string * uiexpr) :=
  match o with
  | OMakespan | OMinIndicator _ _ | OMaxIndicator _ _ | ORaw _ _ _ _ => None
  | OMaxUtilization r => Some (None, "", IUtilization r)
  | OMinCost rs => Some (None, "", ICost rs)
  | OStartLatest ts => Some (Some "MinimumStartTime", "MinimumStartTime", IMinStart ts)
  | OStartEarliest => Some (Some "WeightedStartTimes", "WeightedStartTimes", IWeightedStarts)
  | OGreatestStart ts => Some (Some "GreatestStartTime", "GreatestStartTime", IGreatestStart ts)
  | OFlowtime ts => Some (Some "Flowtime", "Flowtime", IFlowtime ts)
  | OPriorities => Some (Some "TotalPriority", "TotalPriority", ITotalPriority)
  | OFlowtimeSingle r iv =>
      let n := "FlowTimeSingleResource(" ++ resobj_name r ++ ":"
               ++ show_bound (match iv with Some (lo, _) => TC lo | None => TC 0 end) ++ ":"
               ++ show_bound (match iv with Some (_, hi) => TC hi | None => TV VHorizon end) ++ ")" in
      Some (Some n, n, IFlowSingle r iv)
  | OMaxBufMax b | OMinBufMax b => Some (None, "", IMaxBuf b)
  end.
Definition objective_name (st : pstate) (o : uoexpr) : option string :=
  match o with
  | OMakespan => Some "MinimizeMakeSpan"
  | OMaxUtilization _ => Some "MaximizeResourceUtilization"
  | OMinCost rs => Some ("MinimizeResourceCost" ++ names_concat rs)
  | OStartLatest _ => Some "MaximizeStartLatest"
  | OStartEarliest => Some "MinimizeWeightedStartTimes"
  | OGreatestStart _ => Some "MinimizeGreatestStartTime"
  | OFlowtime _ => Some "MinimizeFlowtime"
  | OPriorities => Some "MinimizePriority"
  | OFlowtimeSingle r iv =>
      Some ("ObjectiveFlowtimeSingleResource(" ++ resobj_name r ++ ":"
            ++ show_bound (match iv with Some (lo, _) => TC lo | None => TC 0 end) ++ ":"
            ++ show_bound (match iv with Some (_, hi) => TC hi | None => TV VHorizon end) ++ ")")
  | OMaxBufMax _ => Some "MaximizeBufferLevel"
  | OMinBufMax _ => Some "MinimizeBufferLevel"
  | OMinIndicator i _ => match find_ind st i with Some r => Some ("Minimize" ++ ind_name r) | None => None end
  | OMaxIndicator i _ => match find_ind st i with Some r => Some ("Maximize" ++ ind_name r) | None => None end
  | ORaw n _ _ _ => Some ("O" ++ show_nat n)
  end.
Close Scope string_scope.
Definition objective_dir (o : uoexpr) : dirn :=
  match o with
  | OMaxUtilization _ | OStartLatest _ | OMaxBufMax _ | OMaxIndicator _ _ => DMax
  | ORaw _ _ _ true => DMax
  | _ => DMin
  end.

Definition step_problem (st : pstate) (o : op) : result :=
  match o with
  | ONewProblem h =>
      match h with Some z => if posz z then Ok (empty_problem h) else Err | None => Ok (empty_problem h) end
  | ONewTask id k opt work rel due dl prio =>
      if negb (tkind_ok k && nonneg work && nonneg prio) then Err
      else match find_task st id with
      | Some _ => Err
      | None =>
          let t := {| ti_id := id; ti_rank := Z.of_nat (S (List.length (ps_tasks st))); ti_kind := k; ti_opt := opt;
                      ti_work := work; ti_release := rel; ti_due := due; ti_deadline := dl; ti_prio := prio |} in
          Ok {| ps_horizon := ps_horizon st; ps_tasks := ps_tasks st ++ [t]; ps_workers := ps_workers st;
                ps_cumuls := ps_cumuls st; ps_selects := ps_selects st; ps_reqs := ps_reqs st;
                ps_areqs := ps_areqs st; ps_busy := ps_busy st; ps_cons := ps_cons st;
                ps_neg := ps_neg st; ps_nauto := ps_nauto st; ps_ext := ps_ext st |}
      end
  | ONewWorker id prod cost =>
      if negb (nonneg prod) then Err
      else match find_worker st (WPlain id) with
      | Some _ => Err
      | None =>
          Ok {| ps_horizon := ps_horizon st; ps_tasks := ps_tasks st;
                ps_workers := ps_workers st ++ [{| w_ref := WPlain id; w_prod := prod; w_cost := cost |}];
                ps_cumuls := ps_cumuls st; ps_selects := ps_selects st; ps_reqs := ps_reqs st;
                ps_areqs := ps_areqs st; ps_busy := ps_busy st; ps_cons := ps_cons st;
                ps_neg := ps_neg st; ps_nauto := ps_nauto st; ps_ext := ps_ext st |}
      end
  | ONewCumulative id size prod cost =>
      match cost with
      | CostConst cv =>
        if negb ((2 <=? size) && posz prod) then Err
        else match find_cumul st id with
        | Some _ => Err
        | None =>
            let n := Z.to_nat size in
            let units := map (fun '(i, (p, c)) => {| w_ref := WUnit id i; w_prod := p; w_cost := CostConst c |})
                             (combine (seq 0 n) (combine (distribute prod n) (distribute cv n))) in
            Ok {| ps_horizon := ps_horizon st; ps_tasks := ps_tasks st;
                  ps_workers := ps_workers st ++ units;
                  ps_cumuls := ps_cumuls st ++ [{| cu_id := id; cu_size := n; cu_prod := prod; cu_cost := cv |}];
                  ps_selects := ps_selects st; ps_reqs := ps_reqs st;
                  ps_areqs := ps_areqs st; ps_busy := ps_busy st; ps_cons := ps_cons st;
                  ps_neg := ps_neg st; ps_nauto := ps_nauto st; ps_ext := ps_ext st |}
        end
      | _ => Err
      end
  | ONewSelect id listed n k =>
      if negb (forallb (rref_exists st) listed) then Unsupported
      else if negb ((2 <=? Z.of_nat (List.length listed)) && posz n && (n <=? Z.of_nat (List.length listed))) then Err
      else if negb (Nat.eqb (List.length (nodup rref_eq_dec listed)) (List.length listed)) then Unsupported
      else match find_select st (SUser id) with
      | Some _ => Err
      | None =>
          Ok {| ps_horizon := ps_horizon st; ps_tasks := ps_tasks st; ps_workers := ps_workers st;
                ps_cumuls := ps_cumuls st;
                ps_selects := ps_selects st ++ [{| s_ref := SUser id; s_listed := listed; s_n := n; s_kind := k |}];
                ps_reqs := ps_reqs st; ps_areqs := ps_areqs st; ps_busy := ps_busy st; ps_cons := ps_cons st;
                ps_neg := ps_neg st; ps_nauto := ps_nauto st; ps_ext := ps_ext st |}
      end
  | OAddRequired tid r dyn di eo =>
      match find_task st tid with
      | None => Unsupported
      | Some t =>
        match r with
        | ArgW w =>
            match find_worker st w with
            | None => Unsupported
            | Some _ =>
              if existsb (rref_beq (RW w)) (reqs_of st tid) then Err
              else Ok {| ps_horizon := ps_horizon st; ps_tasks := ps_tasks st; ps_workers := ps_workers st;
                         ps_cumuls := ps_cumuls st; ps_selects := ps_selects st;
                         ps_reqs := push_list Nat.eqb (ps_reqs st) tid (RW w);
                         ps_areqs := push_list Nat.eqb (ps_areqs st) tid (AQDirect w dyn di eo);
                         ps_busy := busy_add (ps_busy st) (RW w) tid false;
                         ps_cons := ps_cons st; ps_neg := ps_neg st; ps_nauto := ps_nauto st; ps_ext := ps_ext st |}
            end
        | ArgS s =>
            match find_select st (SUser s) with
            | None => Unsupported
            | Some sr =>
              (* the selection assertion would be appended a second time: AssertionError *)
              if existsb (fun a => match a with AQSelect s' _ _ _ => sref_beq s' (SUser s) | _ => false end)
                         (areqs_of st tid) then Err
              else Ok (add_select st t sr)
            end
        | ArgC c =>
            match find_cumul st c with
            | None => Unsupported
            | Some cu =>
              (* the cumulative object itself is in the required list when it was listed in a selection *)
              if existsb (rref_beq (RC c)) (reqs_of st tid) then Err else
              let sr := {| s_ref := SAuto (ps_nauto st); s_listed := map RW (units_of cu); s_n := 1; s_kind := PbMin |} in
              let st1 := add_select st t sr in
              Ok {| ps_horizon := ps_horizon st1; ps_tasks := ps_tasks st1; ps_workers := ps_workers st1;
                    ps_cumuls := ps_cumuls st1; ps_selects := ps_selects st1 ++ [sr];
                    ps_reqs := ps_reqs st1; ps_areqs := ps_areqs st1; ps_busy := ps_busy st1;
                    ps_cons := ps_cons st1; ps_neg := ps_neg st1; ps_nauto := S (ps_nauto st); ps_ext := ps_ext st |}
            end
        end
      end
  | ONewConstraint id opt e =>
      match find_cons st id with
      | Some _ => Err
      | None =>
        match resolve st e with
        | None => Unsupported
        | Some re =>
          if negb (buffer_known st re) then Unsupported
          else if negb (check_c re) then Err
          else if negb (nodup_forms (enc_cons id opt re)) then Err
          else
            let flagged := operand_ids re in
            let cons' := map (fun c => if existsb (Nat.eqb (c_id c)) flagged
                                       then {| c_id := c_id c; c_opt := c_opt c; c_flag := true; c_expr := c_expr c |}
                                       else c) (ps_cons st) in
            Ok {| ps_horizon := ps_horizon st; ps_tasks := ps_tasks st; ps_workers := ps_workers st;
                  ps_cumuls := ps_cumuls st; ps_selects := ps_selects st; ps_reqs := ps_reqs st;
                  ps_areqs := ps_areqs st; ps_busy := ps_busy st;
                  ps_cons := cons' ++ [{| c_id := id; c_opt := opt; c_flag := false; c_expr := re |}];
                  ps_neg := ps_neg st; ps_nauto := ps_nauto st; ps_ext := buffer_effect (ps_ext st) re |}
        end
      end
  | ONewBuffer id conc init final lo hi =>
      if absentb init && absentb final then Err
      else match find_buf st id with
      | Some _ => Err
      | None =>
          let b := {| b_id := id; b_conc := conc; b_init := init; b_final := final; b_lo := lo; b_hi := hi;
                      b_unload := []; b_load := []; b_slots := [] |} in
          Ok (with_ext st {| x_bufs := x_bufs (ps_ext st) ++ [b]; x_inds := x_inds (ps_ext st); x_objs := x_objs (ps_ext st) |})
      end
  | ONewIndicator id e bounds =>
      if negb (user_indicator e) then Unsupported
      else match find_ind st id with
      | Some _ => Err
      | None =>
        match resolve_i st e with
        | None => Unsupported
        | Some re =>
            match add_indicator st id (Some (user_ind_name id)) (user_ind_name id) bounds re with
            | Some st' => Ok st' | None => Err end
        end
      end
  | ONewObjective o ind =>
      match objective_name st o with
      | None => Unsupported
      | Some name =>
        let fin (st1 : pstate) (target : term) (w : Z) (bounds : option (Z * Z)) : result :=
          if existsb (fun r => String.eqb (o_name r) name) (x_objs (ps_ext st1)) then Err
          else Ok (with_ext st1 {| x_bufs := x_bufs (ps_ext st1); x_inds := x_inds (ps_ext st1);
                                   x_objs := x_objs (ps_ext st1) ++
                                     [{| o_name := name; o_target := target; o_weight := w; o_dir := objective_dir o;
                                         o_bounds := bounds |}] |}) in
        match o with
        | OMakespan => fin st (TV VHorizon) 1 None
        | ORaw _ t w _ => fin st t w None
        | OMinIndicator i w | OMaxIndicator i w =>
            match find_ind st i with
            | Some r => fin st (TV (VInd i)) w (i_bounds r)
            | None => Unsupported end
        | _ =>
          match objective_indicator o with
          | None => Unsupported
          | Some (key, given, ie) =>
            match find_ind st ind with
            | Some _ => Unsupported                  (* the harness chooses a fresh id *)
            | None =>
              match resolve_i st ie with
              | None => Unsupported
              | Some re =>
                match add_indicator st ind key given None re with
                | None => Err
                | Some st1 =>
                    fin st1 (TV (VInd ind)) 1 (ind_bounds None re)
                end
              end
            end
          end
        end
      end
  end.

(* no active problem: every constructor except SchedulingProblem raises *)
Definition step (st : option pstate) (o : op) : result :=
  match o, st with
  | ONewProblem _, _ => step_problem (empty_problem None) o
  | _, None => Err
  | _, Some s => step_problem s o
  end.

Inductive runres := RunOk (st : option pstate) | RunErr (idx : nat) | RunUnsup (idx : nat).
Fixpoint run_from (st : option pstate) (idx : nat) (ops : list op) : runres :=
  match ops with
  | [] => RunOk st
  | o :: r => match step st o with
              | Ok st' => run_from (Some st') (S idx) r
              | Err => RunErr idx
              | Unsupported => RunUnsup idx
              end
  end.
Definition run (ops : list op) : runres := run_from None 0 ops.

(* ------------------------------------------------------------------ *)
(* SchedulingSolver.initialize(): the assertion set handed to z3, each
   tagged with the element / block it comes from *)
Inductive tag :=
| TgTask (t : nat) | TgHorizon (t : nat) | TgOverlap (w : wref) | TgCons (c : nat)
| TgInd (i : nat) | TgWork (t : nat) | TgBuf (b : nat) | TgProblem | TgObj.

Definition task_asserts (st : pstate) (t : tinfo) : list form :=
  task_core t ++ flat_map (enc_areq t) (areqs_of st (ti_id t)).

Fixpoint pairs_no_overlap (r : rref) (l : list (nat * bool)) : list form :=
  match l with
  | [] => []
  | (ti, mi) :: rest =>
      map (fun '(tk, mk) => FOr [FGe (BS r tk mk) (BE r ti mi); FGe (BS r ti mi) (BE r tk mk)]) rest
      ++ pairs_no_overlap r rest
  end.

Definition prod_of (st : pstate) (r : rref) : Z :=
  match r with
  | RW w => match find_worker st w with Some x => w_prod x | None => 0 end
  | RC c => match find_cumul st c with Some x => cu_prod x | None => 0 end
  end.

Definition work_assert (st : pstate) (t : tinfo) : list form :=
  if ti_work t >? 0 then
    let contribs := flat_map (fun r =>
        match al_get Nat.eqb (busy_of st r) (ti_id t) with
        | Some m => [TMul (TC (prod_of st r)) (TSub (BE r (ti_id t) m) (BS r (ti_id t) m))]
        | None => [] end) (reqs_of st (ti_id t)) in
    match contribs with
    | [] => []
    | _ => let a := FGe (TAdd contribs) (TC (ti_work t)) in
           [if ti_opt t then FImp (sched_f t) a else a]     (* the work is only due when the task is scheduled *)
    end
  else [].

Definition tagged (g : tag) (l : list form) : list (tag * form) := map (pair g) l.

Definition initialize (st : pstate) : list (tag * form) :=
  flat_map (fun t => tagged (TgTask (ti_id t)) (task_asserts st t)
                     ++ [(TgHorizon (ti_id t), FLe (E_ t) (TV VHorizon))]) (ps_tasks st)
  ++ flat_map (fun w => tagged (TgOverlap (w_ref w)) (pairs_no_overlap (RW (w_ref w)) (busy_of st (RW (w_ref w)))))
              (ps_workers st)
  ++ flat_map (fun c => if c_flag c then [] else tagged (TgCons (c_id c)) (conrec_asserts c)) (ps_cons st)
  ++ flat_map (fun i => tagged (TgInd (i_id i)) (ind_asserts i)) (x_inds (ps_ext st))
  ++ flat_map (fun t => tagged (TgWork (ti_id t)) (work_assert st t)) (ps_tasks st)
  ++ flat_map (fun b => tagged (TgBuf (b_id b)) (buffer_block b)) (x_bufs (ps_ext st))
  ++ (match ps_horizon st with Some h => [(TgProblem, FLe (TV VHorizon) (TC h))] | None => [] end).

Definition sat (e : env) (l : list (tag * form)) : Prop := forall g f, In (g, f) l -> feval e f = true.

(* ------------------------------------------------------------------ *)
(* solver configuration and create_objective() *)
Inductive optimizer := OptIncremental | OptOptimize.
Inductive priority := PrPareto | PrLex | PrBox | PrWeight.
(* an SMT logic: its name (an index in the list the library accepts) and whether it has the theory of arrays *)
Record logic := { lg_id : nat; lg_arrays : bool }.
Record solvercfg := { cf_optimizer : optimizer; cf_priority : priority; cf_debug : bool; cf_logic : option logic;
                      cf_parallel : bool; cf_random : bool; cf_verbosity : nat }.
Definition default_cfg : solvercfg :=
  {| cf_optimizer := OptIncremental; cf_priority := PrPareto; cf_debug := false; cf_logic := None;
     cf_parallel := false; cf_random := false; cf_verbosity := 0 |}.

Inductive solverkind := SkOptimize (p : priority) | SkSolver | SkSolverFor (logic : nat).
Definition objectives (st : pstate) : list objrec := x_objs (ps_ext st).
Definition is_multi (st : pstate) : bool := match objectives st with _ :: _ :: _ => true | _ => false end.
Definition uses_equivalent (c : solvercfg) (st : pstate) : bool :=
  is_multi st && (match cf_optimizer c with OptIncremental => true | OptOptimize => match cf_priority c with PrWeight => true | _ => false end end).

(* build_equivalent_weighted_objective *)
Definition equivalent_asserts (st : pstate) : list form :=
  [FEq (TV VEquivObj) (TAdd (map (fun o => TMul (TC (o_weight o)) (o_target o)) (objectives st)));
   FEq (TV VEquivInd) (TV VEquivObj)].
Definition last_dir (l : list objrec) : dirn := match rev l with o :: _ => o_dir o | [] => DMin end.

Record setup := {
  su_kind : solverkind;
  su_asserts : list (tag * form);           (* everything passed to add / assert_and_track, in order *)
  su_tracked : bool;                        (* assert_and_track with a fresh identifier per assertion *)
  su_directives : list (dirn * term);       (* minimize / maximize calls on z3.Optimize *)
  su_objective : option (term * dirn * option (Z * Z)) }.   (* self._objective: target, direction, bounds *)

(* the level of a non-concurrent buffer is encoded with an array *)
Definition needs_arrays (st : pstate) : bool := existsb (fun b => negb (b_conc b)) (x_bufs (ps_ext st)).
Definition solver_setup (c : solvercfg) (st : pstate) : setup :=
  let objs := objectives st in
  let kind := match objs, cf_optimizer c with
              | _ :: _, OptOptimize => SkOptimize (cf_priority c)
              | _, _ => match cf_logic c with
                        | None => SkSolver
                        | Some l => if needs_arrays st && negb (lg_arrays l) then SkSolver else SkSolverFor (lg_id l)
                        end end in
  let equiv := uses_equivalent c st in
  {| su_kind := kind;
     su_asserts := initialize st ++ (if equiv then tagged TgObj (equivalent_asserts st) else []);
     su_tracked := cf_debug c;
     su_directives :=
       match objs with
       | [] => []
       | [o] => match cf_optimizer c with OptOptimize => [(o_dir o, o_target o)] | OptIncremental => [] end
       | _ => if equiv then (match cf_optimizer c with
                             | OptOptimize => [(last_dir objs, TV VEquivInd)]
                             | OptIncremental => [] end)
              else map (fun o => (o_dir o, o_target o)) objs
       end;
     su_objective :=
       match objs with
       | [] => None
       | [o] => Some (o_target o, o_dir o, o_bounds o)
       | _ => if equiv then Some (TV VEquivInd, last_dir objs, None) else None
       end |}.
