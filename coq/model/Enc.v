(* Enc.v -- one encoder per library class, mirroring the Python constructor
   line by line (defects included).  Pure functions of *resolved* data:
   a constraint record stores the task records / busy snapshots / operand
   assertion lists it saw at construction time, and its assertion list is a
   function of that record.  Model file: no property proofs here. *)
From Coq Require Import ZArith List Bool.
From PS.model Require Import Smt.
Import ListNotations.
Open Scope Z_scope.

(* ------------------------------------------------------------------ *)
(* Tasks *)

Inductive tkind :=
| KZero
| KFixed (d : Z)
| KVar (mn : Z) (mx : option Z) (allowed : option (list Z)).

Record tinfo := {
  ti_id : nat; ti_rank : Z; ti_kind : tkind; ti_opt : bool;
  ti_work : Z; ti_release : option Z; ti_due : option Z; ti_deadline : bool; ti_prio : Z }.

Definition S_ (t : tinfo) := TV (VStart (ti_id t)).
Definition E_ (t : tinfo) := TV (VEnd (ti_id t)).
Definition D_ (t : tinfo) := TV (VDur (ti_id t)).

Definition is_zero (t : tinfo) : bool := match ti_kind t with KZero => true | _ => false end.
Definition is_var (t : tinfo) : bool := match ti_kind t with KVar _ _ _ => true | _ => false end.
(* the task owns a z3 Boolean `scheduled` iff it is optional (every class goes through set_assertions) *)
Definition has_sched (t : tinfo) : bool := ti_opt t.
Definition sched_f (t : tinfo) : form := if has_sched t then FB (BSched (ti_id t)) else FT.

Definition task_window (t : tinfo) : list form :=
  (match ti_release t with Some r => if r >? 0 then [FGe (S_ t) (TC r)] else [] | None => [] end) ++
  (match ti_due t with Some d => if ti_deadline t then [FLe (E_ t) (TC d)] else [] | None => [] end).

Definition task_body (t : tinfo) : list form :=
  match ti_kind t with
  | KZero => [FEq (S_ t) (E_ t); FGe (S_ t) (TC 0)]
  | KFixed d => [FEq (TSub (E_ t) (S_ t)) (TC d); FGe (S_ t) (TC 0)]
  | KVar mn mx al =>
      [FEq (TAdd [S_ t; D_ t]) (E_ t); FGe (S_ t) (TC 0); FGe (D_ t) (TC mn)]
      ++ (match al with Some l => [FOr (map (fun a => FEq (D_ t) (TC a)) l)] | None => [] end)
      ++ (match mx with Some m => [FLe (D_ t) (TC m)] | None => [] end)
  end.

Definition task_unsched (t : tinfo) : form :=
  let p := TC (- ti_rank t) in
  FAnd ([FEq (S_ t) p; FEq (E_ t) p] ++ (if is_var t then [FEq (D_ t) (TC 0)] else [])).

(* Task.__init__ + subclass __init__ (set_assertions) *)
Definition task_core (t : tinfo) : list form :=
  if ti_opt t then [FIte (FB (BSched (ti_id t))) (FAnd (task_window t ++ task_body t)) (task_unsched t)]
  else task_window t ++ task_body t.

(* ------------------------------------------------------------------ *)
(* Resource requirements appended to the task's assertion list *)

Inductive pbkind := PbMin | PbMax | PbExact.
Definition pb (k : pbkind) (l : list form) (n : Z) : form :=
  match k with PbMin => FPbGe l n | PbMax => FPbLe l n | PbExact => FPbEq l n end.

Definition BS (r : rref) (t : nat) (m : bool) := TV (VBusyS r t m).
Definition BE (r : rref) (t : nat) (m : bool) := TV (VBusyE r t m).

Inductive areq :=
| AQDirect (w : wref) (dynamic : bool) (delay_in early_out : Z)
| AQSelect (s : sref) (listed : list (rref * Z)) (n : Z) (k : pbkind).

Definition enc_areq (t : tinfo) (a : areq) : list form :=
  let id := ti_id t in
  match a with
  | AQDirect w dyn di eo =>
      let r := RW w in
      if dyn then [FLe (BE r id false) (E_ t); FGe (BS r id false) (S_ t); FLe (BS r id false) (BE r id false)]
      else [ (if eo >? 0 then FEq (BE r id false) (TSub (E_ t) (TC eo)) else FEq (BE r id false) (E_ t));
             (if di >? 0 then FEq (BS r id false) (TAdd [S_ t; TC di]) else FEq (BS r id false) (S_ t)) ]
  | AQSelect s listed n k =>
      map (fun '(r, p) =>
             FIte (FB (BSel s r))
                  (FAnd [FEq (BS r id true) (S_ t); FEq (BE r id true) (E_ t)])
                  (FAnd [FEq (BS r id true) (TC p); FEq (BE r id true) (TC p)])) listed
      ++ [pb k (map (fun '(r, _) => FB (BSel s r)) listed) n]
  end.

(* ------------------------------------------------------------------ *)
(* Constraints.  T = task reference, O = constraint reference,
   R = resource reference, SR = selection reference.                   *)

Inductive pkind := Lax | Strict | Tight.

Inductive operand (O : Type) := OpC (o : O) | OpRaw (f : form).
Arguments OpC {O}. Arguments OpRaw {O}.

Inductive cexpr (T O R SR : Type) :=
| CStartAt (t : T) (v : Z)
| CStartAfter (t : T) (v : Z) (strict : bool)
| CEndAt (t : T) (v : Z)
| CEndBefore (t : T) (v : Z) (strict : bool)
| CPrecedence (tb ta : T) (off : Z) (k : pkind)
| CStartSynced (a b : T) | CEndSynced (a b : T) | CDontOverlap (a b : T)
| CContiguous (ts : list T)
| CUGroup (ts : list T) (win : option (Z * Z)) (len : option Z)
| COGroup (ts : list T) (win : option (Z * Z)) (len : option Z) (k : pkind)
| CForceSched (t : T) (b : bool)
| CCondSched (t : T) (cond : form)
| CDependency (a b : T)
| CForceN (ts : list T) (n : Z) (k : pbkind)
| CScheduleN (ts : list T) (n : Z) (ivs : list (Z * Z)) (k : pbkind)
| CExpr (f : form)
| CForceApplyN (cs : list O) (n : Z) (k : pbkind)
| CNot (x : operand O)
| COr (xs : list (operand O))
| CAnd (xs : list (operand O))
| CXor (x y : operand O)
| CImplies (cond : form) (xs : list (operand O))
| CIte (cond : form) (xs ys : list (operand O))
| CWorkLoad (r : R) (ivs : list (Z * Z * Z)) (k : pbkind)
| CUnavailable (r : R) (ivs : list (Z * Z))
| CPeriodicUnavailable (r : R) (ivs : list (Z * Z)) (period start offset : Z) (end_ : option Z)
| CInterrupted (r : R) (ivs : list (Z * Z))
| CPeriodicInterrupted (r : R) (ivs : list (Z * Z)) (period start offset : Z) (end_ : option Z)
| CNonDelay (r : R)
| CDistance (r : R) (dist : Z) (ivs : option (list (Z * Z))) (mode : pbkind)
| CSameWorkers (s1 s2 : SR)
| CDistinctWorkers (s1 s2 : SR)
| CLoad (t : T) (b : nat) (q : Z)
| CUnload (t : T) (b : nat) (q : Z)
| CIndTarget (i : nat) (v : Z)
| CIndBounds (i : nat) (lo hi : option Z).

Arguments CStartAt {T O R SR}. Arguments CStartAfter {T O R SR}. Arguments CEndAt {T O R SR}.
Arguments CEndBefore {T O R SR}. Arguments CPrecedence {T O R SR}. Arguments CStartSynced {T O R SR}.
Arguments CEndSynced {T O R SR}. Arguments CDontOverlap {T O R SR}. Arguments CContiguous {T O R SR}.
Arguments CUGroup {T O R SR}. Arguments COGroup {T O R SR}. Arguments CForceSched {T O R SR}.
Arguments CCondSched {T O R SR}. Arguments CDependency {T O R SR}. Arguments CForceN {T O R SR}.
Arguments CScheduleN {T O R SR}. Arguments CExpr {T O R SR}. Arguments CForceApplyN {T O R SR}.
Arguments CNot {T O R SR}. Arguments COr {T O R SR}. Arguments CAnd {T O R SR}. Arguments CXor {T O R SR}.
Arguments CImplies {T O R SR}. Arguments CIte {T O R SR}. Arguments CWorkLoad {T O R SR}.
Arguments CUnavailable {T O R SR}. Arguments CPeriodicUnavailable {T O R SR}.
Arguments CInterrupted {T O R SR}. Arguments CPeriodicInterrupted {T O R SR}.
Arguments CNonDelay {T O R SR}. Arguments CDistance {T O R SR}. Arguments CSameWorkers {T O R SR}.
Arguments CDistinctWorkers {T O R SR}. Arguments CLoad {T O R SR}. Arguments CUnload {T O R SR}.
Arguments CIndTarget {T O R SR}. Arguments CIndBounds {T O R SR}.

(* resolved references *)
Record opres := { or_id : nat; or_opt : bool; or_asserts : list form }.          (* an operand constraint *)
Record busyent := { be_task : tinfo; be_maybe : bool }.
Inductive resobj := ResW (w : wref) | ResC (c : nat).
(* rs_units: the workers the constraint loops over (the worker itself, or the
   units of a cumulative), each with its busy dictionary at construction time;
   rs_own: the busy dictionary of the object itself *)
Record rsnap := { rs_obj : resobj; rs_units : list (wref * list busyent); rs_own : list busyent }.
Record srec := { s_ref : sref; s_listed : list rref; s_n : Z; s_kind : pbkind }.

Definition rcexpr := cexpr tinfo opres rsnap srec.

(* ---- helpers ---- *)
Definition guard1 (t : tinfo) (x : form) : form := if ti_opt t then FImp (sched_f t) x else x.
Definition guard2 (a b : tinfo) (x : form) : form :=
  if ti_opt a || ti_opt b then FImp (FAnd [sched_f a; sched_f b]) x else x.

Definition prec_rel (k : pkind) (lo up : term) : form :=
  match k with Lax => FLe lo up | Strict => FLt lo up | Tight => FEq lo up end.

Definition aux (c : nat) (k : nat) := TV (VAux (OwCons c) k).

(* sort_no_duplicates: n fresh a_i (aux indices base .. base+n-1) *)
Definition pairs_lt (l : list term) : list form :=
  (fix go (l : list term) : list form :=
     match l with
     | x :: ((y :: _) as r) => FLt x y :: go r
     | _ => []
     end) l.
Definition dsort (mk : nat -> term) (base : nat) (xs : list term) : list term * list form :=
  let n := length xs in
  let a := map (fun i => mk (base + i)%nat) (seq 0 n) in
  (a, map (fun ai => FOr (map (fun x => FEq ai x) xs)) a ++ [FAnd (pairs_lt a)]).

(* consecutive pairs (b_{i-1}, a_i), i = 1 .. n-1 *)
Fixpoint consec (a b : list term) : list (term * term) :=
  match a, b with
  | _ :: ((ai :: _) as ar), bp :: br => (bp, ai) :: consec ar br
  | _, _ => []
  end.

Fixpoint consec_tasks (ts : list tinfo) : list (tinfo * tinfo) :=
  match ts with
  | x :: ((y :: _) as r) => (x, y) :: consec_tasks r
  | _ => []
  end.

(* ScheduleNTasksInTimeIntervals: the Booleans of task number ti, and the assertions of one task *)
Definition sn_bools (c : nat) (ni ti : nat) : list form :=
  map (fun j => FB (BAux (OwCons c) (ti * ni + j)%nat)) (seq 0 ni).
Definition sn_inside (t : tinfo) (lo hi : Z) : form :=
  FAnd [FGe (S_ t) (TC lo); FLe (E_ t) (TC hi);
        FNot (FAnd [FLt (S_ t) (TC lo); FGt (E_ t) (TC lo)]);
        FNot (FAnd [FLt (S_ t) (TC hi); FGt (E_ t) (TC hi)]);
        FNot (FAnd [FLt (S_ t) (TC lo); FGt (E_ t) (TC hi)])].
Definition sn_task (c : nat) (ivs : list (Z * Z)) (ti : nat) (t : tinfo) : list form :=
  map (fun '(b, (lo, hi)) => FImp b (sn_inside t lo hi)) (combine (sn_bools c (length ivs) ti) ivs)
  ++ [FPbLe (sn_bools c (length ivs) ti) 1].

Definition op_asserts (x : operand opres) : list form :=
  match x with OpC o => or_asserts o | OpRaw f => [f] end.
(* _constraints_to_list_of_assertions: one formula per operand *)
Definition op_meaning (x : operand opres) : form :=
  match x with OpC o => FAnd (or_asserts o) | OpRaw f => f end.
Definition ops_flat (xs : list (operand opres)) : list form := map op_meaning xs.

Definition bsv (w : wref) (b : busyent) := BS (RW w) (ti_id (be_task b)) (be_maybe b).
Definition bev (w : wref) (b : busyent) := BE (RW w) (ti_id (be_task b)) (be_maybe b).
Definition all_busy (r : rsnap) : list (wref * busyent) :=
  flat_map (fun '(w, l) => map (pair w) l) (rs_units r).
Definition own_w (r : rsnap) : rref := match rs_obj r with ResW w => RW w | ResC c => RC c end.

Definition workload_one (d bs be : term) (lo hi : Z) : list form :=
  let c1 := FAnd [FGe bs (TC lo); FLe be (TC hi)] in
  let c2 := FAnd [FLt bs (TC lo); FGt be (TC lo); FLe be (TC hi)] in
  let c3 := FAnd [FGe bs (TC lo); FLt bs (TC hi); FGt be (TC hi)] in
  let c4 := FAnd [FLt bs (TC lo); FGt be (TC hi)] in
  [ FGe d (TC 0);
    FImp c1 (FEq d (TSub be bs));
    FImp c2 (FEq d (TSub be (TC lo)));
    FImp c3 (FEq d (TSub (TC hi) bs));
    FImp c4 (FEq d (TC (hi - lo)));
    FImp (FNot (FOr [c1; c2; c3; c4])) (FEq d (TC 0)) ].

Definition cmp_sum (k : pbkind) (s : term) (n : Z) : form :=
  match k with PbExact => FEq s (TC n) | PbMax => FLe s (TC n) | PbMin => FGe s (TC n) end.

Fixpoint workload_ivs (c : nat) (busy : list (wref * busyent)) (k : pbkind)
         (ivs : list (Z * Z * Z)) (base : nat) : list form :=
  match ivs with
  | [] => []
  | (lo, hi, n) :: rest =>
      let nb := length busy in
      let ds := map (fun i => aux c (base + i)%nat) (seq 0 nb) in
      flat_map (fun '(d, (w, b)) => workload_one d (bsv w b) (bev w b) lo hi) (combine ds busy)
      ++ [cmp_sum k (TAdd ds) n]
      ++ workload_ivs c busy k rest (base + nb)%nat
  end.

Definition punavail_one (bs be : term) (lo hi period start offset : Z) (end_ : option Z) : form :=
  let folded := TMod (TSub bs (TC offset)) (TC period) in
  let c := FOr [FLe (TAdd [folded; TSub be bs]) (TC lo);
                FAnd [FGe folded (TC hi); FLe (TAdd [folded; TSub be bs]) (TC (lo + period))]] in
  let conds := [c] ++ [FLe be (TC start)]
                   ++ (match end_ with Some e => [FGe bs (TC e)] | None => [] end) in
  match conds with [_] => c | _ => FOr conds end.

Definition interrupted_worker (w : wref) (busy : list busyent) (ivs : list (Z * Z)) : form :=
  FAnd (flat_map (fun b =>
    let bs := bsv w b in let be := bev w b in let t := be_task b in
    let overlaps := map (fun '(lo, hi) =>
        TIte (FNot (FXor (FGe bs (TC hi)) (FLe be (TC lo)))) (TC (hi - lo)) (TC 0)) ivs in
    match ti_kind t with
    | KVar mn mx _ =>
        flat_map (fun '(lo, hi) =>
          [FXor (FLe bs (TC lo)) (FGe bs (TC hi)); FXor (FLe be (TC lo)) (FGe be (TC hi))]) ivs
        ++ [FGe (D_ t) (TAdd [TC mn; TAdd overlaps])]
        ++ (match mx with Some m => [FLe (D_ t) (TAdd [TC m; TAdd overlaps])] | None => [] end)
    | _ => map (fun '(lo, hi) => FXor (FGe bs (TC hi)) (FLe be (TC lo))) ivs
    end) busy).

(* ResourcePeriodicallyInterrupted, one worker: one conjunct per busy interval, each with its own activity mask *)
Definition pinterrupted_worker (w : wref) (busy : list busyent) (ivs : list (Z * Z))
           (period start offset : Z) (end_ : option Z) : form :=
  let P := TC period in
  FAnd (map (fun b =>
    let bs := bsv w b in let be := bev w b in let t := be_task b in
    let dur := TSub be bs in
    let fs := TMod (TSub bs (TC offset)) P in
    let fe := TMod (TSub be (TC offset)) P in
    let overlaps := map (fun '(lo, hi) =>
        let crossing := FNot (FXor
            (FAnd [FLe fs (TC lo); FLe (TAdd [fs; TMod dur P]) (TC lo)])
            (FAnd [FGe fs (TC hi); FLe (TAdd [fs; TMod dur P]) (TC (lo + period))])) in
        let ovc := FOr [crossing; FGt dur (TC (lo + period - hi))] in
        let crossings := TIte crossing (TAdd [TDiv dur P; TC 1]) (TDiv dur P) in
        TIte ovc (TMul (TC (hi - lo)) crossings) (TC 0)) ivs in
    let task_conds :=
      match ti_kind t with
      | KVar mn mx _ =>
          flat_map (fun '(lo, hi) =>
            [FXor (FLe fs (TC lo)) (FGe fs (TC hi)); FXor (FLe fe (TC lo)) (FGe fe (TC hi))]) ivs
          ++ [FGe (D_ t) (TAdd [TC mn; TAdd overlaps])]
          ++ (match mx with Some m => [FLe (D_ t) (TAdd [TC m; TAdd overlaps])] | None => [] end)
      | _ => map (fun '(lo, hi) => FOr [FLe (TAdd [fs; dur]) (TC lo);
                                       FAnd [FGe fs (TC hi); FLe (TAdd [fs; dur]) (TC (lo + period))]]) ivs
      end in
    let core := FAnd task_conds in
    let mask := [core] ++ [FLe be (TC start)]
                       ++ (match end_ with Some e => [FGe bs (TC e)] | None => [] end) in
    match mask with [_] => core | _ => FOr mask end) busy).

Definition nondelay_like (c : nat) (starts ends : list term)
           (mk : term -> term -> form) : list form :=
  let n := length starts in
  let '(a, c1) := dsort (aux c) 0 starts in
  let '(b, c2) := dsort (aux c) n ends in
  c1 ++ c2 ++ map (fun '(bp, ai) => mk bp ai) (consec a b).

Definition common_sel (s1 s2 : srec) : list rref :=
  filter (fun r => existsb (rref_beq r) (s_listed s2)) (s_listed s1).

(* ---- validity of the constructor call: the explicit checks and the field
   constraints of the class (pydantic), as listed in DESIGN Appendix C ---- *)
Definition nonneg (z : Z) := 0 <=? z.
Definition posz (z : Z) := 1 <=? z.

Definition check_c (e : rcexpr) : bool :=
  match e with
  | CPrecedence _ _ off _ => nonneg off
  | CForceSched t _ | CCondSched t _ => ti_opt t
  | CDependency _ b => ti_opt b
  | CForceN ts n _ => forallb ti_opt ts && posz n && negb (match ts with [] => true | _ => false end)
  | CScheduleN ts _ ivs _ =>
      negb (match ts with [] => true | _ => false end) && negb (match ivs with [] => true | _ => false end)
  | CForceApplyN cs n _ => forallb or_opt cs && posz n && negb (match cs with [] => true | _ => false end)
  | CWorkLoad r ivs _ =>
      match ivs with [] => true | _ => negb (match all_busy r with [] => true | _ => false end) end
  | CUnavailable r ivs =>
      negb (match all_busy r with [] => true | _ => false end)
      && negb (match ivs with [] => true | _ => false end)
  | CInterrupted r _ => negb (match all_busy r with [] => true | _ => false end)
  | CPeriodicUnavailable r ivs _ _ _ _ =>
      negb (match all_busy r with [] => true | _ => false end)
      && negb (match ivs with [] => true | _ => false end)
  | CPeriodicInterrupted r ivs period _ _ _ =>
      negb (match all_busy r with [] => true | _ => false end)
      && forallb (fun '(lo, hi) => hi <=? period) ivs
  | CDistance r _ _ _ => (2 <=? Z.of_nat (length (rs_own r)))
  | CIndBounds _ lo hi => match lo, hi with None, None => false | _, _ => true end
  | _ => true
  end.

(* ---- the list of formulas passed to set_z3_assertions, in order ---- *)
Definition enc_raw (c : nat) (e : rcexpr) : list form :=
  match e with
  | CStartAt t v => [guard1 t (FEq (S_ t) (TC v))]
  | CStartAfter t v strict => [guard1 t (if strict then FGt (S_ t) (TC v) else FGe (S_ t) (TC v))]
  | CEndAt t v => [guard1 t (FEq (E_ t) (TC v))]
  | CEndBefore t v strict => [guard1 t (if strict then FLt (E_ t) (TC v) else FLe (E_ t) (TC v))]
  | CPrecedence tb ta off k =>
      let lower := if off >? 0 then TAdd [E_ tb; TC off] else E_ tb in
      [guard2 tb ta (prec_rel k lower (S_ ta))]
  | CStartSynced a b => [guard2 a b (FEq (S_ a) (S_ b))]
  | CEndSynced a b => [guard2 a b (FEq (E_ a) (E_ b))]
  | CDontOverlap a b => [guard2 a b (FOr [FGe (S_ b) (E_ a); FGe (S_ a) (E_ b)])]
  | CContiguous ts =>
      nondelay_like c (map S_ ts) (map E_ ts)
        (fun bp ai => FImp (FOr [FAnd [FGe bp (TC 0); FGe ai (TC 0)]]) (FEq ai bp))
  | CUGroup ts win len | COGroup ts win len _ =>
      let gs := aux c 0 in let ge := aux c 1 in
      let head := match win with
                  | Some (lo, hi) => [FGe gs (TC lo); FLe ge (TC hi)]
                  | None => match len with Some l => [FLe ge (TAdd [gs; TC l])] | None => [] end
                  end in
      (* an optional task belongs to the group, and is ordered with its neighbours, only when it is scheduled *)
      let body := flat_map (fun t => if ti_opt t then [FImp (sched_f t) (FAnd [FGe (S_ t) gs; FLe (E_ t) ge])]
                                     else [FGe (S_ t) gs; FLe (E_ t) ge]) ts in
      let order := match e with
                   | COGroup _ _ _ k => map (fun '(x, y) => guard2 x y (prec_rel k (E_ x) (S_ y))) (consec_tasks ts)
                   | _ => [] end in
      [FAnd (head ++ body ++ order)]
  | CForceSched t b => [FIff (sched_f t) (if b then FT else FF)]
  | CCondSched t cond => [FIte cond (FIff (sched_f t) FT) (FIff (sched_f t) FF)]
  | CDependency a b => [FIff (sched_f a) (sched_f b)]
  | CForceN ts n k => [pb k (map sched_f ts) n]
  | CScheduleN ts n ivs k =>
      let idx := combine (seq 0 (length ts)) ts in
      flat_map (fun '(ti, t) => sn_task c ivs ti t) idx
      ++ [pb k (flat_map (fun '(ti, _) => sn_bools c (length ivs) ti) idx) n]
  | CExpr f => [f]
  | CForceApplyN cs n k => [pb k (map (fun o => FB (BApplied (or_id o))) cs) n]
  | CNot x => [FNot (FAnd (op_asserts x))]
  | COr xs => [FOr (ops_flat xs)]
  | CAnd xs => [FAnd (ops_flat xs)]
  | CXor x y => [FXor (FAnd (op_asserts x)) (FAnd (op_asserts y))]
  | CImplies cond xs => [FImp cond (FAnd (ops_flat xs))]
  | CIte cond xs ys => [FIte cond (FAnd (ops_flat xs)) (FAnd (ops_flat ys))]
  | CWorkLoad r ivs k => workload_ivs c (all_busy r) k ivs 0
  | CUnavailable r ivs =>
      flat_map (fun '(lo, hi) =>
        map (fun '(w, b) => FOr [FGe (bsv w b) (TC hi); FLe (bev w b) (TC lo)]) (all_busy r)) ivs
  | CPeriodicUnavailable r ivs period start offset end_ =>
      flat_map (fun '(lo, hi) =>
        map (fun '(w, b) => punavail_one (bsv w b) (bev w b) lo hi period start offset end_) (all_busy r)) ivs
  | CInterrupted r ivs => map (fun '(w, l) => interrupted_worker w l ivs) (rs_units r)
  | CPeriodicInterrupted r ivs period start offset end_ =>
      map (fun '(w, l) => pinterrupted_worker w l ivs period start offset end_) (rs_units r)
  | CNonDelay r =>
      let o := own_w r in
      nondelay_like c (map (fun b => BS o (ti_id (be_task b)) (be_maybe b)) (rs_own r))
                      (map (fun b => BE o (ti_id (be_task b)) (be_maybe b)) (rs_own r))
        (fun bp ai => FImp (FAnd [FGe bp (TC 0); FGe ai (TC 0)]) (FEq ai bp))
  | CDistance r dist ivs mode =>
      let o := own_w r in
      nondelay_like c (map (fun b => BS o (ti_id (be_task b)) (be_maybe b)) (rs_own r))
                      (map (fun b => BE o (ti_id (be_task b)) (be_maybe b)) (rs_own r))
        (fun bp ai =>
           let asst := cmp_sum mode (TSub ai bp) dist in
           let conds := match ivs with
                        | Some l => map (fun '(lo, hi) =>
                            FAnd [FGe ai (TC lo); FGe bp (TC lo); FLe ai (TC hi); FLe bp (TC hi)]) l
                        | None => [FAnd [FGe bp (TC 0); FGe ai (TC 0)]] end in
           FImp (FOr conds) asst)
  | CSameWorkers s1 s2 =>
      map (fun r => FIff (FB (BSel (s_ref s1) r)) (FB (BSel (s_ref s2) r))) (common_sel s1 s2)
  | CDistinctWorkers s1 s2 =>
      map (fun r => FNot (FAnd [FB (BSel (s_ref s1) r); FB (BSel (s_ref s2) r)])) (common_sel s1 s2)
  | CLoad _ _ _ | CUnload _ _ _ => []
  | CIndTarget i v => [FEq (TV (VInd i)) (TC v)]
  | CIndBounds i lo hi =>
      (match lo with Some l => [FGe (TV (VInd i)) (TC l)] | None => [] end) ++
      (match hi with Some h => [FLe (TV (VInd i)) (TC h)] | None => [] end)
  end.

(* Constraint.set_z3_assertions *)
Definition cemit (c : nat) (opt : bool) (f : form) : form :=
  if opt then FImp (FB (BApplied c)) f else f.

Definition enc_cons (c : nat) (opt : bool) (e : rcexpr) : list form :=
  map (cemit c opt) (enc_raw c e).
