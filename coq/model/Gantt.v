(* Gantt.v -- geometry of plotter.render_gantt_matplotlib: bars (broken_barh), their texts, row labels and the
   buffer step plot.  Abscissae are in twentieths of a period (a zero-length item is the marker
   (start - 0.05, 0.1), i.e. (20 start - 1, 2) twentieths).  Model file. *)
From Coq Require Import ZArith List Bool String.
From PS.model Require Import Smt Enc Ind Prog Solution Export.
Import ListNotations.
Open Scope Z_scope.

Inductive gmode := GResource | GTask.
Record gbar := { gb_row : nat; gb_x20 : Z; gb_w20 : Z; gb_tx20 : Z; gb_text : string }.

(* draw_broken_barh_with_text(start, length, ...) on row i: rectangle ((x, w), (2i, 2)), text at (start + length/2, 2i + 1) *)
Definition draw_bar (row : nat) (start length : Z) (text : string) : gbar :=
  {| gb_row := row;
     gb_x20 := if length =? 0 then 20 * start - 1 else 20 * start;
     gb_w20 := if length =? 0 then 2 else 20 * length;
     gb_tx20 := 20 * start + 10 * length;
     gb_text := text |}.

Definition effective_mode (s : solution) (m : gmode) : gmode :=
  match so_resources s with [] => GTask | _ => m end.

Open Scope string_scope.
Definition empty_set_text : string := "($\emptyset$)".
Close Scope string_scope.

Definition scheduled_tasks (s : solution) : list tasksol := filter ts_sched (so_tasks s).

Definition gantt_bars (s : solution) (m : gmode) : list gbar :=
  match effective_mode s m with
  | GTask =>
      map (fun '(i, t) => draw_bar i (ts_start t) (ts_dur t)
                            (match ts_assigned t with [] => empty_set_text | l => join "," (map resobj_name l) end))
          (indexed 0 (scheduled_tasks s))
  | GResource =>
      flat_map (fun '(i, r) => map (fun '(t, a, b) => draw_bar i a (b - a) (show_task t)) (rs_assignments r))
               (indexed 0 (so_resources s))
  end.
(* tick labels of the rows, bottom-up; row i is labelled at ordinate 2i + 1 and spans [2i, 2i + 2] *)
Definition gantt_labels (s : solution) (m : gmode) : list string :=
  match effective_mode s m with
  | GTask => map (fun t => show_task (ts_id t)) (scheduled_tasks s)
  | GResource => map (fun r => resobj_name (rs_name r)) (so_resources s)
  end.

(* buffer chart: all_x = [0] + change times + [horizon]; the k-th reported level is drawn over [all_x[k], all_x[k+1]] *)
Fixpoint steps (xs : list Z) (levels : list Z) : list (Z * Z * Z) :=
  match xs, levels with
  | x0 :: ((x1 :: _) as r), y :: ys => (x0, x1, y) :: steps r ys
  | _, _ => []
  end.
Definition buffer_steps (s : solution) (b : bufsol) : list (Z * Z * Z) :=
  steps (0 :: bs_times b ++ [so_horizon s]) (bs_levels b).
