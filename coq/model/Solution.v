(* Solution.v -- SchedulingSolver.build_solution and util.clean_buffer_levels: the report built from one
   z3 model (= one valuation).  Calendar times are integer microseconds.  Model file. *)
From Coq Require Import ZArith List Bool String.
From PS.model Require Import Smt Enc Ind Prog.
Import ListNotations.
Open Scope Z_scope.

Record tasksol := {
  ts_id : nat; ts_start : Z; ts_end : Z; ts_dur : Z; ts_sched : bool;
  ts_assigned : list resobj;                      (* assigned_resources (by report key), in order of discovery *)
  ts_times : option (Z * Z * Z) }.                (* start_time, end_time, duration_time in microseconds *)
Record ressol := { rs_name : resobj; rs_assignments : list (nat * Z * Z) }.    (* rs_name: the key the report is filed under *)
Record bufsol := { bs_id : nat; bs_levels : list Z; bs_times : list Z }.
Record solution := {
  so_horizon : Z; so_tasks : list tasksol; so_resources : list ressol;
  so_buffers : list bufsol; so_indicators : list (string * Z) }.

(* the key under which a resource is reported: name.split("_CumulativeWorker_")[0] -- a unit worker is reported under
   its cumulative worker.  Keys are structural (the injectivity of names is built into the model); they are printed
   with resobj_name. *)
Definition wref_key (w : wref) : resobj :=
  match w with WPlain _ => ResW w | WUnit c _ => ResC c end.
Definition rref_key (r : rref) : resobj :=
  match r with RW w => wref_key w | RC c => ResC c end.
Definition is_unit (w : wref) : bool := match w with WUnit _ _ => true | _ => false end.
Definition resobj_beq (a b : resobj) : bool :=
  match a, b with ResW x, ResW y => wref_beq x y | ResC x, ResC y => Nat.eqb x y | _, _ => false end.
Definition mem_key (k : resobj) (l : list resobj) : bool := existsb (resobj_beq k) l.

Definition task_duration (e : env) (t : tinfo) : Z :=
  match ti_kind t with KFixed d => d | KZero => 0 | KVar _ _ _ => iv e (VDur (ti_id t)) end.
Definition task_scheduled (e : env) (t : tinfo) : bool :=
  if ti_opt t then bv e (BSched (ti_id t)) else true.

Definition assigned_resources (st : pstate) (e : env) (t : tinfo) : list resobj :=
  fold_left (fun acc r =>
      match al_get Nat.eqb (busy_of st r) (ti_id t) with
      | Some m =>
          if task_scheduled e t && (iv e (VBusyS r (ti_id t) m) >=? 0) && negb (mem_key (rref_key r) acc)
          then acc ++ [rref_key r] else acc
      | None => acc
      end) (reqs_of st (ti_id t)) [].

(* delta, t0 in microseconds *)
Definition task_solution (st : pstate) (e : env) (delta t0 : option Z) (t : tinfo) : tasksol :=
  let s := iv e (VStart (ti_id t)) in
  let d := task_duration e t in
  {| ts_id := ti_id t; ts_start := s; ts_end := iv e (VEnd (ti_id t)); ts_dur := d;
     ts_sched := task_scheduled e t;
     ts_assigned := assigned_resources st e t;
     ts_times := match delta with
                 | Some dt =>
                     let st_time := match t0 with Some z => z + s * dt | None => s * dt end in
                     Some (st_time, st_time + d * dt, d * dt)
                 | None => None end |}.

Definition triple_eqb (a b : nat * Z * Z) : bool :=
  let '(t1, s1, e1) := a in let '(t2, s2, e2) := b in Nat.eqb t1 t2 && (s1 =? s2) && (e1 =? e2).

Definition worker_assignments (st : pstate) (e : env) (w : wref) (acc : list (nat * Z * Z)) : list (nat * Z * Z) :=
  fold_left (fun acc '(t, m) =>
      let s := iv e (VBusyS (RW w) t m) in let x := iv e (VBusyE (RW w) t m) in
      if (s >=? 0) && (x >=? 0) && negb (existsb (triple_eqb (t, s, x)) acc) then acc ++ [(t, s, x)] else acc)
    (busy_of st (RW w)) acc.

(* the loop over problem.workers; the units of a cumulative worker are folded into one entry, created when
   the first unit is met *)
Definition resource_solutions (st : pstate) (e : env) : list ressol :=
  fold_left (fun acc wr =>
      let w := w_ref wr in
      let name := wref_key w in
      if is_unit w && existsb (fun r => resobj_beq (rs_name r) name) acc then
        map (fun r => if resobj_beq (rs_name r) name
                      then {| rs_name := name; rs_assignments := worker_assignments st e w (rs_assignments r) |} else r) acc
      else if negb (is_unit w) && existsb (fun r => resobj_beq (rs_name r) name) acc then
        (* add_resource_solution: dict assignment replaces an entry of the same name in place *)
        map (fun r => if resobj_beq (rs_name r) name
                      then {| rs_name := name; rs_assignments := worker_assignments st e w [] |} else r) acc
      else acc ++ [{| rs_name := name; rs_assignments := worker_assignments st e w [] |}])
    (ps_workers st) [].

(* util.clean_buffer_levels *)
Fixpoint clean_levels (pairs : list (Z * Z)) (l1 l2 : list Z) : list Z * list Z :=
  match pairs with
  | [] => (l1, l2)
  | (a, b) :: r => if existsb (Z.eqb b) l2 then clean_levels r l1 l2 else clean_levels r (l1 ++ [a]) (l2 ++ [b])
  end.
Definition term_val (e : env) (t : term) : Z := teval e t.
Definition buffer_solution (e : env) (b : bufrec) : bufsol :=
  let levels := map (term_val e) (buf_levels b) in
  let times := map (term_val e) (buf_changes b) in
  match levels with
  | [] => {| bs_id := b_id b; bs_levels := []; bs_times := [] |}
  | first :: rest =>
      let '(l1, l2) := clean_levels (combine rest times) [] [] in
      {| bs_id := b_id b; bs_levels := first :: l1; bs_times := l2 |}
  end.

(* add_indicator_solution: a dict, a later indicator of the same name overwrites the value in place *)
Fixpoint dict_set {V} (l : list (string * V)) (k : string) (v : V) : list (string * V) :=
  match l with
  | [] => [(k, v)]
  | (k', v') :: r => if String.eqb k' k then (k', v) :: r else (k', v') :: dict_set r k v
  end.

Definition build_solution (c : solvercfg) (st : pstate) (e : env) (delta t0 : option Z) : solution :=
  {| so_horizon := match ps_horizon st with Some h => h | None => iv e VHorizon end;
     so_tasks := map (task_solution st e delta t0) (ps_tasks st);
     so_resources := resource_solutions st e;
     so_buffers := map (buffer_solution e) (x_bufs (ps_ext st));
     so_indicators :=
       fold_left (fun acc '(k, v) => dict_set acc k v)
         (map (fun r => (ind_name r, iv e (VInd (i_id r)))) (x_inds (ps_ext st))
          ++ (if uses_equivalent c st then [("EquivalentIndicator"%string, iv e VEquivInd)] else [])) [] |}.

(* ------------------------------------------------------------------ *)
(* textual report, compared field by field with the SchedulingSolution of the implementation *)
Open Scope string_scope.
Definition show_zs (l : list Z) : string := join "," (map show_Z l).
Definition show_bool (b : bool) : string := if b then "true" else "false".
Definition solution_report (s : solution) : list string :=
  ("HORIZON " ++ show_Z (so_horizon s))
  :: map (fun t => "TASK " ++ show_task (ts_id t) ++ " " ++ show_Z (ts_start t) ++ " " ++ show_Z (ts_end t) ++ " "
                    ++ show_Z (ts_dur t) ++ " " ++ show_bool (ts_sched t) ++ " [" ++ join "," (map resobj_name (ts_assigned t)) ++ "]"
                    ++ match ts_times t with
                       | Some (a, b, d) => " " ++ show_Z a ++ " " ++ show_Z b ++ " " ++ show_Z d
                       | None => "" end) (so_tasks s)
  ++ map (fun r => "RES " ++ resobj_name (rs_name r) ++ " "
                   ++ join ";" (map (fun '(t, a, b) => show_task t ++ "," ++ show_Z a ++ "," ++ show_Z b) (rs_assignments r)))
         (so_resources s)
  ++ map (fun b => "BUF B" ++ show_nat (bs_id b) ++ " " ++ show_zs (bs_levels b) ++ " | " ++ show_zs (bs_times b)) (so_buffers s)
  ++ map (fun '(k, v) => "IND " ++ k ++ " = " ++ show_Z v) (so_indicators s).
Close Scope string_scope.
