(* Smt.v -- deep embedding of the SMT fragment emitted by ProcessScheduler,
   its evaluation semantics (total, computable) and an SMT-LIB 2 printer.
   Stdlib only. No proofs of properties here (model file). *)
From Coq Require Import ZArith List Bool String Ascii.
Import ListNotations.
Open Scope Z_scope.

(* ------------------------------------------------------------------ *)
(* Structured variables: the injectivity of the library's string names
   is built into the model (what that hides is discussed under C14).   *)

Inductive wref := WPlain (n : nat) | WUnit (c i : nat).      (* i: 0-based unit index *)
Inductive sref := SUser (n : nat) | SAuto (k : nat).          (* SAuto: get_select_workers() *)
Inductive rref := RW (w : wref) | RC (c : nat).               (* object listed in a selection *)
Inductive owner := OwCons (c : nat) | OwInd (i : nat) | OwBuf (b : nat) | OwObj (o : nat) | OwSolver.

Inductive ivar :=
| VStart (t : nat) | VEnd (t : nat) | VDur (t : nat)
| VBusyS (r : rref) (t : nat) (maybe : bool)
| VBusyE (r : rref) (t : nat) (maybe : bool)
| VHorizon
| VInd (i : nat)
| VLevel0 (b : nat) | VLevel (b t : nat) | VChange (b t : nat)
| VAux (o : owner) (k : nat)
| VUser (n : nat)
| VEquivObj | VEquivInd.                        (* EquivalentSingleObjective / Indicator_EquivalentIndicator *)

(* uninterpreted Int -> Int functions of the concurrent buffers *)
Inductive fname := FnUnload (b t : nat) | FnLoad (b t : nat).

Inductive bvar :=
| BSched (t : nat)
| BSel (s : sref) (r : rref)
| BApplied (c : nat)
| BAux (o : owner) (k : nat)
| BUser (n : nat).

Scheme Equality for wref.
Scheme Equality for sref.
Scheme Equality for rref.
Scheme Equality for owner.
Scheme Equality for ivar.
Scheme Equality for bvar.
Scheme Equality for fname.

(* ------------------------------------------------------------------ *)
(* Terms and formulas *)

Inductive term :=
| TC (z : Z) | TV (x : ivar)
| TAdd (l : list term) | TSub (a b : term) | TMul (a b : term)
| TDiv (a b : term) | TMod (a b : term)
| TIte (c : form) (a b : term)
| TSel (arr : nat) (i : term)                       (* select on the Int->Int array of buffer arr *)
| TApp (f : fname) (a : term)                       (* application of an uninterpreted function *)
with form :=
| FT | FF | FB (b : bvar)
| FLe (a b : term) | FLt (a b : term) | FGe (a b : term) | FGt (a b : term)
| FEq (a b : term) | FNe (a b : term)
| FAnd (l : list form) | FOr (l : list form) | FNot (f : form)
| FXor (a b : form) | FImp (a b : form) | FIte (c a b : form) | FIff (a b : form)
| FPbLe (l : list form) (k : Z) | FPbGe (l : list form) (k : Z) | FPbEq (l : list form) (k : Z)
| FArrFix (arr : nat) (i v : term)                  (* arr == Store(arr, i, v) *)
| FFunPoint (f : fname) (t : term) (q : Z).         (* ForAll x. If(x == t, f(x) == q, f(x) == 0) *)

(* A function interpretation is a finite graph with default 0 (the quantified assertion forces
   finite support, and z3 reports function interpretations in this form) *)
Record env := { iv : ivar -> Z; bv : bvar -> bool; av : nat -> Z -> Z; fv : fname -> list (Z * Z) }.

Fixpoint fapp (g : list (Z * Z)) (x : Z) : Z :=
  match g with [] => 0 | (k, v) :: r => if k =? x then v else fapp r x end.

Definition b2z (b : bool) : Z := if b then 1 else 0.

(* env is a leading argument (not a Section variable) so that cbn refolds *)
Fixpoint teval (e : env) (t : term) {struct t} : Z :=
  match t with
  | TC z => z | TV x => iv e x
  | TAdd l => fold_right (fun t acc => teval e t + acc) 0 l
  | TSub a b => teval e a - teval e b | TMul a b => teval e a * teval e b
  | TDiv a b => teval e a / teval e b | TMod a b => teval e a mod teval e b
  | TIte c a b => if feval e c then teval e a else teval e b
  | TSel arr i => av e arr (teval e i)
  | TApp f a => fapp (fv e f) (teval e a)
  end
with feval (e : env) (f : form) {struct f} : bool :=
  match f with
  | FT => true | FF => false | FB b => bv e b
  | FLe a b => teval e a <=? teval e b | FLt a b => teval e a <? teval e b
  | FGe a b => teval e a >=? teval e b | FGt a b => teval e a >? teval e b
  | FEq a b => teval e a =? teval e b | FNe a b => negb (teval e a =? teval e b)
  | FAnd l => forallb (feval e) l | FOr l => existsb (feval e) l
  | FNot f => negb (feval e f) | FXor a b => xorb (feval e a) (feval e b)
  | FImp a b => implb (feval e a) (feval e b)
  | FIte c a b => if feval e c then feval e a else feval e b
  | FIff a b => Bool.eqb (feval e a) (feval e b)
  | FPbLe l k => fold_right (fun f acc => b2z (feval e f) + acc) 0 l <=? k
  | FPbGe l k => fold_right (fun f acc => b2z (feval e f) + acc) 0 l >=? k
  | FPbEq l k => fold_right (fun f acc => b2z (feval e f) + acc) 0 l =? k
  | FArrFix arr i v => av e arr (teval e i) =? teval e v
  | FFunPoint f t q =>
      (fapp (fv e f) (teval e t) =? q)
      && forallb (fun kv => (fst kv =? teval e t) || (fapp (fv e f) (fst kv) =? 0)) (fv e f)
  end.

Definition tsum (e : env) (l : list term) : Z := fold_right (fun t acc => teval e t + acc) 0 l.
Definition fcount (e : env) (l : list form) : Z := fold_right (fun f acc => b2z (feval e f) + acc) 0 l.

Definition holds_all (e : env) (l : list form) : bool := forallb (feval e) l.

(* ------------------------------------------------------------------ *)
(* Small constructors used by the encoders *)

Definition tv (x : ivar) := TV x.
Definition fand2 a b := FAnd [a; b].
Definition for2 a b := FOr [a; b].

(* ------------------------------------------------------------------ *)
(* Variables occurring (for declarations and for the coincidence lemma) *)

Fixpoint tiv (t : term) : list ivar :=
  match t with
  | TC _ => [] | TV x => [x] | TAdd l => flat_map tiv l
  | TSub a b | TMul a b | TDiv a b | TMod a b => tiv a ++ tiv b
  | TIte c a b => fiv c ++ tiv a ++ tiv b
  | TSel _ i => tiv i
  | TApp _ a => tiv a
  end
with fiv (f : form) : list ivar :=
  match f with
  | FT | FF | FB _ => []
  | FLe a b | FLt a b | FGe a b | FGt a b | FEq a b | FNe a b => tiv a ++ tiv b
  | FAnd l | FOr l | FPbLe l _ | FPbGe l _ | FPbEq l _ => flat_map fiv l
  | FNot g => fiv g | FXor a b | FImp a b | FIff a b => fiv a ++ fiv b
  | FIte c a b => fiv c ++ fiv a ++ fiv b
  | FArrFix _ i v => tiv i ++ tiv v
  | FFunPoint _ t _ => tiv t
  end.
Fixpoint tbv (t : term) : list bvar :=
  match t with
  | TC _ | TV _ => [] | TAdd l => flat_map tbv l
  | TSub a b | TMul a b | TDiv a b | TMod a b => tbv a ++ tbv b
  | TIte c a b => fbv c ++ tbv a ++ tbv b
  | TSel _ i => tbv i
  | TApp _ a => tbv a
  end
with fbv (f : form) : list bvar :=
  match f with
  | FT | FF => [] | FB b => [b]
  | FLe a b | FLt a b | FGe a b | FGt a b | FEq a b | FNe a b => tbv a ++ tbv b
  | FAnd l | FOr l | FPbLe l _ | FPbGe l _ | FPbEq l _ => flat_map fbv l
  | FNot g => fbv g | FXor a b | FImp a b | FIff a b => fbv a ++ fbv b
  | FIte c a b => fbv c ++ fbv a ++ fbv b
  | FArrFix _ i v => tbv i ++ tbv v
  | FFunPoint _ t _ => tbv t
  end.
Fixpoint tarr (t : term) : list nat :=
  match t with
  | TC _ | TV _ => [] | TAdd l => flat_map tarr l
  | TSub a b | TMul a b | TDiv a b | TMod a b => tarr a ++ tarr b
  | TIte c a b => farr c ++ tarr a ++ tarr b
  | TSel arr i => arr :: tarr i
  | TApp _ a => tarr a
  end
with farr (f : form) : list nat :=
  match f with
  | FT | FF | FB _ => []
  | FLe a b | FLt a b | FGe a b | FGt a b | FEq a b | FNe a b => tarr a ++ tarr b
  | FAnd l | FOr l | FPbLe l _ | FPbGe l _ | FPbEq l _ => flat_map farr l
  | FNot g => farr g | FXor a b | FImp a b | FIff a b => farr a ++ farr b
  | FIte c a b => farr c ++ farr a ++ farr b
  | FArrFix arr i v => arr :: tarr i ++ tarr v
  | FFunPoint _ t _ => tarr t
  end.
Fixpoint tfn (t : term) : list fname :=
  match t with
  | TC _ | TV _ => [] | TAdd l => flat_map tfn l
  | TSub a b | TMul a b | TDiv a b | TMod a b => tfn a ++ tfn b
  | TIte c a b => ffn c ++ tfn a ++ tfn b
  | TSel _ i => tfn i
  | TApp f a => f :: tfn a
  end
with ffn (f : form) : list fname :=
  match f with
  | FT | FF | FB _ => []
  | FLe a b | FLt a b | FGe a b | FGt a b | FEq a b | FNe a b => tfn a ++ tfn b
  | FAnd l | FOr l | FPbLe l _ | FPbGe l _ | FPbEq l _ => flat_map ffn l
  | FNot g => ffn g | FXor a b | FImp a b | FIff a b => ffn a ++ ffn b
  | FIte c a b => ffn c ++ ffn a ++ ffn b
  | FArrFix _ i v => tfn i ++ tfn v
  | FFunPoint f t _ => f :: tfn t
  end.

(* ------------------------------------------------------------------ *)
(* SMT-LIB 2 printer.  Names are the ones the library derives when the
   harness names tasks T<n>, workers W<n>, cumulative workers C<n>,
   selections S<n>, constraints K<n>, buffers B<n>, indicators I<n>;
   uuid/fresh names are canonicalised by the harness (DESIGN 3.2).     *)

Open Scope string_scope.

Fixpoint show_pos_digits (fuel : nat) (n : N) (acc : string) : string :=
  match fuel with
  | O => acc
  | S f =>
    let d := N.modulo n 10 in
    let c := ascii_of_N (48 + d) in
    let q := N.div n 10 in
    match q with
    | N0 => String c acc
    | _ => show_pos_digits f q (String c acc)
    end
  end.
Definition show_N (n : N) : string := show_pos_digits (S (N.to_nat (N.log2 n))) n "".
Definition show_nat (n : nat) : string := show_N (N.of_nat n).
Definition show_Z (z : Z) : string :=
  match z with
  | Z0 => "0"
  | Zpos p => show_N (Npos p)
  | Zneg p => "(- " ++ show_N (Npos p) ++ ")"
  end.

Definition show_wref w := match w with
  | WPlain n => "W" ++ show_nat n
  | WUnit c i => "C" ++ show_nat c ++ "_CumulativeWorker_" ++ show_nat (S i) end.
Definition show_sref s := match s with SUser n => "S" ++ show_nat n | SAuto k => "A" ++ show_nat k end.
Definition show_rref r := match r with RW w => show_wref w | RC c => "C" ++ show_nat c end.
Definition show_owner o := match o with
  | OwCons c => "K" ++ show_nat c | OwInd i => "I" ++ show_nat i
  | OwBuf b => "B" ++ show_nat b | OwObj o => "O" ++ show_nat o | OwSolver => "SOLVER" end.
Definition show_task t := "T" ++ show_nat t.
Definition busy_infix (maybe : bool) := if maybe then "_maybe_busy_" else "_busy_".

Definition show_ivar x := match x with
 | VStart t => show_task t ++ "_start" | VEnd t => show_task t ++ "_end"
 | VDur t => show_task t ++ "_duration"
 | VBusyS r t m => show_rref r ++ busy_infix m ++ show_task t ++ "_start"
 | VBusyE r t m => show_rref r ++ busy_infix m ++ show_task t ++ "_end"
 | VHorizon => "horizon"
 | VInd i => "Indicator_I" ++ show_nat i
 | VLevel0 b => "B" ++ show_nat b ++ "_initial_level"
 | VLevel b t => "B" ++ show_nat b ++ "_level_" ++ show_task t
 | VChange b t => "B" ++ show_nat b ++ "_sc_time_" ++ show_task t
 | VAux o k => show_owner o ++ "_aux_" ++ show_nat k
 | VUser n => "u" ++ show_nat n
 | VEquivObj => "EquivalentSingleObjective"
 | VEquivInd => "Indicator_EquivalentIndicator"
 end.
Definition show_fname f := match f with
 | FnUnload b t => "B" ++ show_nat b ++ "_" ++ show_task t ++ "_quantity_unloading"
 | FnLoad b t => "B" ++ show_nat b ++ "_" ++ show_task t ++ "_quantity_loading"
 end.
Definition show_bvar b := match b with
 | BSched t => show_task t ++ "_scheduled"
 | BSel s r => "Selected_" ++ show_rref r ++ "_" ++ show_sref s
 | BApplied c => "K" ++ show_nat c ++ "_applied"
 | BAux o k => show_owner o ++ "_baux_" ++ show_nat k
 | BUser n => "ub" ++ show_nat n
 end.
Definition show_arr (a : nat) := "Buffer_B" ++ show_nat a ++ "_mapping".

Definition app1 (op : string) (args : list string) : string :=
  "(" ++ op ++ fold_right (fun a acc => " " ++ a ++ acc) ")" args.

Fixpoint show_t (t : term) : string :=
  match t with
  | TC z => show_Z z | TV x => show_ivar x
  | TAdd l => match l with [] => "0" | _ => app1 "+" ("0" :: map show_t l) end
  | TSub a b => app1 "-" [show_t a; show_t b] | TMul a b => app1 "*" [show_t a; show_t b]
  | TDiv a b => app1 "div" [show_t a; show_t b] | TMod a b => app1 "mod" [show_t a; show_t b]
  | TIte c a b => app1 "ite" [show_f c; show_t a; show_t b]
  | TSel arr i => app1 "select" [show_arr arr; show_t i]
  | TApp f a => app1 (show_fname f) [show_t a]
  end
with show_f (f : form) : string :=
  match f with
  | FT => "true" | FF => "false" | FB b => show_bvar b
  | FLe a b => app1 "<=" [show_t a; show_t b] | FLt a b => app1 "<" [show_t a; show_t b]
  | FGe a b => app1 ">=" [show_t a; show_t b] | FGt a b => app1 ">" [show_t a; show_t b]
  | FEq a b => app1 "=" [show_t a; show_t b] | FNe a b => app1 "distinct" [show_t a; show_t b]
  | FAnd l => match l with [] => "true" | _ => app1 "and" ("true" :: map show_f l) end
  | FOr l => match l with [] => "false" | _ => app1 "or" ("false" :: map show_f l) end
  | FNot f => app1 "not" [show_f f] | FXor a b => app1 "xor" [show_f a; show_f b]
  | FImp a b => app1 "=>" [show_f a; show_f b]
  | FIte c a b => app1 "ite" [show_f c; show_f a; show_f b]
  | FIff a b => app1 "=" [show_f a; show_f b]
  | FPbLe l k => app1 "<=" [app1 "+" ("0" :: map (fun f => app1 "ite" [show_f f; "1"; "0"]) l); show_Z k]
  | FPbGe l k => app1 ">=" [app1 "+" ("0" :: map (fun f => app1 "ite" [show_f f; "1"; "0"]) l); show_Z k]
  | FPbEq l k => app1 "=" [app1 "+" ("0" :: map (fun f => app1 "ite" [show_f f; "1"; "0"]) l); show_Z k]
  | FArrFix arr i v => app1 "=" [show_arr arr; app1 "store" [show_arr arr; show_t i; show_t v]]
  | FFunPoint f t q =>
      "(forall ((qx Int)) " ++ app1 "ite" [app1 "=" ["qx"; show_t t];
                                            app1 "=" [app1 (show_fname f) ["qx"]; show_Z q];
                                            app1 "=" [app1 (show_fname f) ["qx"]; "0"]] ++ ")"
  end.

Definition show_decl_i (x : ivar) : string := "(declare-const " ++ show_ivar x ++ " Int)".
Definition show_decl_b (x : bvar) : string := "(declare-const " ++ show_bvar x ++ " Bool)".
Definition show_decl_a (a : nat) : string := "(declare-const " ++ show_arr a ++ " (Array Int Int))".
Definition show_decl_f (f : fname) : string := "(declare-fun " ++ show_fname f ++ " (Int) Int)".
Close Scope string_scope.
