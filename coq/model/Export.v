(* Export.v -- layout of the exports of a solution: data-frame rows (to_df / to_csv) and the cells written
   by excel_io.export_solution_to_excel_file (xlsxwriter: merge_range / write), with the decoders that read the
   data back.  Model file. *)
From Coq Require Import ZArith List Bool String.
From PS.model Require Import Smt Enc Ind Prog Solution.
Import ListNotations.
Open Scope Z_scope.

(* to_df: one row per task *)
Record dfrow := { df_name : nat; df_resources : list resobj; df_start : Z; df_end : Z; df_duration : Z; df_scheduled : bool }.
Definition df_rows (s : solution) : list dfrow :=
  map (fun t => {| df_name := ts_id t; df_resources := ts_assigned t; df_start := ts_start t; df_end := ts_end t;
                   df_duration := ts_dur t; df_scheduled := ts_sched t |}) (so_tasks s).
Definition df_decode (r : dfrow) : nat * list resobj * Z * Z * Z * bool :=
  (df_name r, df_resources r, df_start r, df_end r, df_duration r, df_scheduled r).

(* Excel: a cell operation = (row, first column, last column, text); a single cell has first = last *)
Record cellop := { ce_row : nat; ce_c1 : Z; ce_c2 : Z; ce_text : string }.
Definition bar (row : nat) (s e : Z) (text : string) : cellop :=
  if e - s >? 1 then {| ce_row := row; ce_c1 := s + 1; ce_c2 := e; ce_text := text |}
  else {| ce_row := row; ce_c1 := s + 1; ce_c2 := s + 1; ce_text := text |}.

Fixpoint indexed {A} (i : nat) (l : list A) : list (nat * A) :=
  match l with [] => [] | x :: r => (i, x) :: indexed (S i) r end.

(* "GANTT Resource view": row i+1 for the i-th resource report, one bar per assignment *)
Definition resource_sheet (s : solution) : list cellop :=
  flat_map (fun '(i, r) => map (fun '(t, a, b) => bar (S i) a b (show_task t)) (rs_assignments r)) (indexed 0 (so_resources s)).
(* "GANTT Task view": row i+1 for the i-th task, the text is the comma-joined list of assigned resources *)
Definition task_sheet (s : solution) : list cellop :=
  map (fun '(i, t) => bar (S i) (ts_start t) (ts_end t) (join "," (map resobj_name (ts_assigned t)))) (indexed 0 (so_tasks s)).
Definition indicator_sheet (s : solution) : list (nat * string * Z) :=
  map (fun '(i, (k, v)) => (S i, k, v)) (indexed 0 (so_indicators s)).

(* reading a bar back: (row, text, start, end) -- a single cell reads as a bar of length 1 *)
Definition bar_decode (c : cellop) : nat * string * Z * Z := (ce_row c, ce_text c, ce_c1 c - 1, ce_c2 c).
(* the cells a bar occupies *)
Definition covers (c : cellop) (row : nat) (col : Z) : bool := Nat.eqb (ce_row c) row && (ce_c1 c <=? col) && (col <=? ce_c2 c).
