(* SolverInst.v -- executable instance of the solver state machine used by the correspondence:
   models are numbered by the check call that produced them, the oracle replays recorded answers. *)
From Coq Require Import ZArith List Bool String.
From PS.model Require Import Smt SolverSM.
Import ListNotations.
Open Scope string_scope.

Inductive atok := ABase | ABetter (z : Z) | ADiffers (m : nat) | ADiffVar (x m : nat).
Inductive sanswer := SSat | SUnsat | SUnknown.

Record scfg := {
  sc_objective : option (dir * option Z);
  sc_max_iter : option nat;
  sc_script : list sanswer;        (* answer of the k-th check *)
  sc_values : list Z;              (* objective value in the model of the k-th check *)
  sc_stops : list bool;            (* wall-clock stop after the k-th check *)
  sc_fuel : nat }.

Definition inst_oracle (c : scfg) (k : nat) (_ : list atok) : @answer nat :=
  match nth k (sc_script c) SUnknown with SSat => Sat k | SUnsat => Unsat | SUnknown => Unknown end.

Definition inst_run (c : scfg) (ops : list sop) :=
  srun (inst_oracle c) (sc_objective c) (fun m => nth m (sc_values c) 0%Z) ABetter ADiffers ADiffVar
       (fun k => nth k (sc_stops c) false) (sc_max_iter c) [ABase] (sc_fuel c) s0 ops.

Definition show_atok (a : atok) : string :=
  match a with
  | ABase => "base" | ABetter z => "better " ++ show_Z z
  | ADiffers m => "differs " ++ show_nat m | ADiffVar x m => "diffvar " ++ show_nat x ++ " " ++ show_nat m
  end.
Definition show_event (e : @event atok nat) : string :=
  match e with
  | ECheck k (Sat m) => "EV check " ++ show_nat k ++ " sat"
  | ECheck k Unsat => "EV check " ++ show_nat k ++ " unsat"
  | ECheck k Unknown => "EV check " ++ show_nat k ++ " unknown"
  | EPush => "EV push" | EPop => "EV pop" | EAdd a => "EV add " ++ show_atok a
  end.
Definition show_out (o : @out nat) : string :=
  match o with
  | Ret (Some m) => "OUT ret " ++ show_nat m | Ret None => "OUT none"
  | Raised => "OUT raised" | Done => "OUT done" | Fuel => "OUT fuel"
  end.
Definition solver_report (c : scfg) (ops : list sop) : list string :=
  flat_map (fun oe : @out nat * list (@event atok nat) => (map show_event (snd oe) ++ [show_out (fst oe)])%list) (snd (inst_run c ops)).
