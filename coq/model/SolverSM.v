(* SolverSM.v -- the SchedulingSolver object as a state machine over an abstract solver.
   z3 is an oracle (a Section variable with a soundness / completeness contract stated in the
   proofs, never an Axiom); wall-clock stops are a nondeterministic stream.  Model file. *)
From Coq Require Import ZArith List Bool.
Import ListNotations.
Open Scope Z_scope.

Section SolverSM.
  Context {A M : Type}.                         (* assertions, models *)

  Inductive answer := Sat (m : M) | Unsat | Unknown.
  Variable oracle : nat -> list A -> answer.    (* nat: index of the check call *)

  Inductive dir := Minimize | Maximize.
  (* the single (possibly equivalent weighted) objective fixed by initialize(): direction and
     the bound taken from the indicator (lower bound when minimising, upper when maximising) *)
  Variable objective : option (dir * option Z).
  Variable value : M -> Z.                      (* value of the objective variable in a model *)
  Variable better_than : Z -> A.                (* objective < z  (resp. > z) *)
  Variable differs : M -> A.                    (* Or(start != .., end != .., scheduled != ..) *)
  Variable differs_var : nat -> M -> A.         (* variable != its value in the model *)
  Variable stop_now : nat -> bool.              (* max_time / extrapolated-time stops *)
  Variable max_iter : option nat.
  Variable base : list A.                       (* what initialize() asserts *)

  Inductive event := ECheck (k : nat) (r : answer) | EPush | EPop | EAdd (a : A).
  Inductive stop := Completed | NoSolution | UnknownStop | MaxIter | EarlyStop | BoundStop | OutOfFuel.

  (* _solve_optimize_incremental; asserts = permanent assertions ++ pushed bounds (innermost first) *)
  Fixpoint opt_loop (fuel : nat) (iter : nat) (k : nat) (asserts : list A) (inc : option M)
           (pushed : nat) (evs : list event) : option M * stop * nat * nat * list event :=
    match fuel with
    | O => (inc, OutOfFuel, k, pushed, evs)
    | S f =>
      if (match max_iter with Some n => Nat.ltb n (S iter) | None => false end)
      then (inc, MaxIter, k, pushed, evs)
      else
        let r := oracle k asserts in
        let evs := evs ++ [ECheck k r] in
        match r with
        | Unsat => (inc, match inc with Some _ => Completed | None => NoSolution end, S k, pushed, evs)
        | Unknown => (inc, UnknownStop, S k, pushed, evs)
        | Sat m =>
            if stop_now k then (Some m, EarlyStop, S k, pushed, evs)
            else if (match objective with
                     | Some (_, Some b) => value m =? b
                     | _ => false end)
            then (Some m, BoundStop, S k, pushed, evs)
            else opt_loop f (S iter) (S k) (better_than (value m) :: asserts) (Some m) (S pushed)
                          (evs ++ [EPush; EAdd (better_than (value m))])
        end
    end.

  Record sstate := { ss_init : bool; ss_perm : list A; ss_model : option M; ss_calls : nat }.
  Definition s0 : sstate := {| ss_init := false; ss_perm := []; ss_model := None; ss_calls := 0 |}.

  Inductive sop := OpInitialize | OpSolve | OpFindAnother | OpFindAnotherVar (x : nat) | OpExport.
  Inductive out := Ret (m : option M) | Raised | Done | Fuel.

  Definition do_init (s : sstate) : sstate :=
    {| ss_init := true; ss_perm := base; ss_model := ss_model s; ss_calls := ss_calls s |}.
  Definition ensure_init (s : sstate) : sstate := if ss_init s then s else do_init s.

  Definition solve (fuel : nat) (s0 : sstate) : sstate * out * list event :=
    let s := ensure_init s0 in
    match objective with
    | Some _ =>
        let '(inc, st, k, pushed, evs) := opt_loop fuel 0 (ss_calls s) (ss_perm s) None 0 [] in
        let evs := evs ++ repeat EPop pushed in
        match st with
        | OutOfFuel => (s, Fuel, evs)
        | _ =>
          match inc with
          | Some m => ({| ss_init := true; ss_perm := ss_perm s; ss_model := Some m; ss_calls := k |}, Ret (Some m), evs)
          | None => ({| ss_init := true; ss_perm := ss_perm s; ss_model := ss_model s; ss_calls := k |}, Ret None, evs)
          end
        end
    | None =>
        let k := ss_calls s in
        let r := oracle k (ss_perm s) in
        match r with
        | Sat m => ({| ss_init := true; ss_perm := ss_perm s; ss_model := Some m; ss_calls := S k |}, Ret (Some m), [ECheck k r])
        | _ => ({| ss_init := true; ss_perm := ss_perm s; ss_model := ss_model s; ss_calls := S k |}, Ret None, [ECheck k r])
        end
    end.

  Definition add_perm (s : sstate) (a : A) : sstate :=
    {| ss_init := ss_init s; ss_perm := a :: ss_perm s; ss_model := ss_model s; ss_calls := ss_calls s |}.

  Definition sstep (fuel : nat) (s : sstate) (o : sop) : sstate * out * list event :=
    match o with
    | OpInitialize => (do_init s, Done, [])
    | OpExport => (ensure_init s, Done, [])
    | OpSolve => solve fuel s
    | OpFindAnother =>
        match ss_model s with
        | None => (s, Raised, [])
        | Some m =>
            let a := differs m in
            let '(s', o', evs) := solve fuel (add_perm s a) in (s', o', EAdd a :: evs)
        end
    | OpFindAnotherVar x =>
        match ss_model s with
        | None => (s, Raised, [])
        | Some m =>
            let a := differs_var x m in
            let '(s', o', evs) := solve fuel (add_perm s a) in (s', o', EAdd a :: evs)
        end
    end.

  Fixpoint srun (fuel : nat) (s : sstate) (ops : list sop) : sstate * list (out * list event) :=
    match ops with
    | [] => (s, [])
    | o :: r =>
        let '(s', o', evs) := sstep fuel s o in
        match o' with
        | Raised | Fuel => (s', [(o', evs)])          (* the caller's program stops at the exception *)
        | _ => let '(s'', tr) := srun fuel s' r in (s'', (o', evs) :: tr)
        end
    end.
End SolverSM.

Arguments Sat {M}. Arguments Unsat {M}. Arguments Unknown {M}.
