(* Driver.v -- textual report of the model on one program; evaluated either by
   vm_compute inside coqc (kernel route) or by the extracted OCaml (bulk route). *)
From Coq Require Import ZArith List Bool String.
From PS.model Require Import Smt Enc Ind Prog Solution Export Gantt.
Import ListNotations.
Open Scope string_scope.

Definition show_tag (g : tag) : string :=
  match g with
  | TgTask t => "task:" ++ show_nat t | TgHorizon t => "horizon:" ++ show_nat t
  | TgOverlap w => "overlap:" ++ show_wref w | TgCons c => "cons:" ++ show_nat c
  | TgInd i => "ind:" ++ show_nat i | TgWork t => "work:" ++ show_nat t
  | TgBuf b => "buf:" ++ show_nat b | TgProblem => "problem" | TgObj => "obj"
  end.

Fixpoint dedup {A} (eqb : A -> A -> bool) (l : list A) (seen : list A) : list A :=
  match l with
  | [] => []
  | x :: r => if existsb (eqb x) seen then dedup eqb r seen else x :: dedup eqb r (x :: seen)
  end.

Definition decls (fs : list form) : list string :=
  map show_decl_i (dedup ivar_beq (flat_map fiv fs) [])
  ++ map show_decl_b (dedup bvar_beq (flat_map fbv fs) [])
  ++ map show_decl_a (dedup Nat.eqb (flat_map farr fs) [])
  ++ map show_decl_f (dedup fname_beq (flat_map ffn fs) []).

Definition report_state (st : pstate) (extra : list (string * form)) : list string :=
  let a := su_asserts (solver_setup default_cfg st) in
  decls (map snd a ++ map snd extra)
  ++ map (fun '(g, f) => "A " ++ show_tag g ++ " " ++ show_f f) a
  ++ map (fun '(k, f) => "S " ++ k ++ " " ++ show_f f) extra.

Definition report_run (spec : pstate -> list (string * form)) (ops : list op) : list string :=
  match run ops with
  | RunOk (Some st) => "RUN ok" :: report_state st (spec st)
  | RunOk None => ["RUN ok"; "NOPROBLEM"]
  | RunErr i => ["RUN err " ++ show_nat i]
  | RunUnsup i => ["RUN unsup " ++ show_nat i]
  end.

(* the same with extra information lines about the reached state (structural hypotheses of theorems) *)
Definition report_run2 (spec : pstate -> list (string * form)) (info : pstate -> list string) (ops : list op) : list string :=
  match run ops with
  | RunOk (Some st) => "RUN ok" :: info st ++ report_state st (spec st)
  | _ => report_run spec ops
  end.

(* ------------------------------------------------------------------ *)
(* Confirmation of a candidate violation inside Coq: the valuation is given
   by printed variable names (the names z3 reports) *)
Fixpoint lookup {V} (l : list (string * V)) (k : string) (d : V) : V :=
  match l with [] => d | (k', v) :: r => if String.eqb k' k then v else lookup r k d end.
Definition env_of (ivals : list (string * Z)) (bvals : list (string * bool)) : env :=
  {| iv := fun x => lookup ivals (show_ivar x) 0%Z;
     bv := fun b => lookup bvals (show_bvar b) false;
     av := fun _ _ => 0%Z; fv := fun _ => [] |}.
(* C05: is a valuation a valid schedule (every Spec clause holds), and does the model admit it? *)
Definition valid_schedule (spec : pstate -> list (string * form)) (ops : list op) (e : env) : option (list string * bool) :=
  match run ops with
  | RunOk (Some st) =>
      Some (map fst (filter (fun kf => negb (feval e (snd kf))) (spec st)),
            forallb (fun gf => feval e (snd gf)) (initialize st))
  | _ => None
  end.

(* with array and function interpretations (finite graphs, default 0) *)
Definition env_full (ivals : list (string * Z)) (bvals : list (string * bool))
           (avals fvals : list (string * list (Z * Z))) : env :=
  {| iv := fun x => lookup ivals (show_ivar x) 0%Z;
     bv := fun b => lookup bvals (show_bvar b) false;
     av := fun a i => fapp (lookup avals (show_arr a) []) i;
     fv := fun f => lookup fvals (show_fname f) [] |}.
Inductive confirm := CfNoRun | CfNoClause | CfResult (clause_holds model_admits : bool).
Definition confirm_clause (spec : pstate -> list (string * form)) (ops : list op)
           (key : string) (e : env) : confirm :=
  match run ops with
  | RunOk (Some st) =>
      (* several clauses may share one key (one per window, per pair ...): the key holds when all of them do *)
      match filter (fun kf => String.eqb (fst kf) key) (spec st) with
      | [] => CfNoClause
      | l => CfResult (forallb (fun kf => feval e (snd kf)) l) (forallb (fun gf => feval e (snd gf)) (initialize st))
      end
  | _ => CfNoRun
  end.

(* the report of build_solution on a valuation given by printed variable names (observable O5) *)
Definition solution_of (ops : list op) (c : solvercfg) (ivals : list (string * Z)) (bvals : list (string * bool))
           (delta t0 : option Z) : list string :=
  match run ops with
  | RunOk (Some st) => solution_report (build_solution c st (env_of ivals bvals) delta t0)
  | _ => ["NORUN"]
  end.

(* the solver set-up under a configuration (observables O3 under the configuration grid, O4 for debug) *)
Definition show_prio (p : priority) : string :=
  match p with PrPareto => "pareto" | PrLex => "lex" | PrBox => "box" | PrWeight => "weight" end.
Definition show_dirn (d : dirn) : string := match d with DMin => "min" | DMax => "max" end.
Definition setup_report (c : solvercfg) (ops : list op) : list string :=
  match run ops with
  | RunOk (Some st) =>
      let su := solver_setup c st in
      let a := su_asserts su in
      ("RUN ok" :: decls (map snd a ++ map (fun dt => FEq (snd dt) (snd dt)) (su_directives su)))
      ++ [match su_kind su with
          | SkOptimize p => "KIND optimize " ++ show_prio p
          | SkSolver => "KIND solver" | SkSolverFor _ => "KIND solverfor" end;
          "TRACKED " ++ (if su_tracked su then "true" else "false")]
      ++ map (fun '(g, f) => "A " ++ show_tag g ++ " " ++ show_f f) a
      ++ map (fun '(d, t) => "DIR " ++ show_dirn d ++ " " ++ show_t t) (su_directives su)
      ++ match su_objective su with
         | Some (t, d, b) => ["OBJ " ++ show_dirn d ++ " " ++ show_t t ++ " "
                              ++ match b with Some (lo, hi) => show_Z lo ++ " " ++ show_Z hi | None => "none" end]
         | None => ["OBJ none"] end
  | RunOk None => ["RUN ok"; "NOPROBLEM"]
  | RunErr i => ["RUN err " ++ show_nat i]
  | RunUnsup i => ["RUN unsup " ++ show_nat i]
  end.

(* exports (O6) and Gantt geometry (O7) of the same solution *)
Definition show_cellop (sheet : string) (c : cellop) : string :=
  "XLS " ++ sheet ++ " " ++ show_nat (ce_row c) ++ " " ++ show_Z (ce_c1 c) ++ " " ++ show_Z (ce_c2 c) ++ " " ++ ce_text c.
Definition show_gbar (m : string) (b : gbar) : string :=
  "GANTT " ++ m ++ " " ++ show_nat (gb_row b) ++ " " ++ show_Z (gb_x20 b) ++ " " ++ show_Z (gb_w20 b) ++ " "
  ++ show_Z (gb_tx20 b) ++ " " ++ gb_text b.
Definition export_report (s : solution) : list string :=
  map (fun r => "DF " ++ show_task (df_name r) ++ " [" ++ join "," (map resobj_name (df_resources r)) ++ "] " ++ show_Z (df_start r) ++ " "
                ++ show_Z (df_end r) ++ " " ++ show_Z (df_duration r) ++ " " ++ show_bool (df_scheduled r)) (df_rows s)
  ++ map (show_cellop "R") (resource_sheet s) ++ map (show_cellop "T") (task_sheet s)
  ++ map (fun '(i, k, v) => "XLS I " ++ show_nat i ++ " " ++ k ++ " = " ++ show_Z v) (indicator_sheet s).
Definition gantt_report (s : solution) : list string :=
  map (show_gbar "Resource") (gantt_bars s GResource) ++ map (show_gbar "Task") (gantt_bars s GTask)
  ++ map (fun l => "LABEL Resource " ++ l) (gantt_labels s GResource)
  ++ map (fun l => "LABEL Task " ++ l) (gantt_labels s GTask)
  ++ flat_map (fun b => map (fun '(x0, x1, y) => "STEP B" ++ show_nat (bs_id b) ++ " " ++ show_Z x0 ++ " " ++ show_Z x1 ++ " " ++ show_Z y)
                            (buffer_steps s b)) (so_buffers s).
Definition full_solution_of (ops : list op) (c : solvercfg) (ivals : list (string * Z)) (bvals : list (string * bool))
           (delta t0 : option Z) : list string :=
  match run ops with
  | RunOk (Some st) =>
      let s := build_solution c st (env_of ivals bvals) delta t0 in
      solution_report s ++ export_report s ++ gantt_report s
  | _ => ["NORUN"]
  end.
