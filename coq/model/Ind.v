(* Ind.v -- cost functions, indicators, objectives and buffers: encoders mirroring
   function.py, indicator.py, objective.py, buffer.py and the buffer block of
   SchedulingSolver.initialize().  Pure functions of resolved data.  Model file. *)
From Coq Require Import ZArith List Bool String.
From PS.model Require Import Smt Enc.
Import ListNotations.
Open Scope Z_scope.

(* ------------------------------------------------------------------ *)
(* function.py *)
Inductive costfn := CostConst (v : Z) | CostLinear (slope intercept : Z) | CostPoly (coefs : list Z).

(* PolynomialFunction._compute: result = c[-1]; v = x; for i = len-2 .. 0: if c[i] != 0: result += c[i]*v; v = v*x *)
Fixpoint poly_go (x v : term) (cs : list Z) (acc : list term) : list term :=
  match cs with
  | [] => acc
  | c :: r => poly_go x (TMul v x) r (if c =? 0 then acc else acc ++ [TMul (TC c) v])
  end.
Definition cost_apply (c : costfn) (x : term) : term :=
  match c with
  | CostConst v => TC v
  | CostLinear s i => TAdd [TMul (TC s) x; TC i]
  | CostPoly cs => match rev cs with [] => TC 0 | a0 :: r => TAdd (TC a0 :: poly_go x x r []) end
  end.

(* ------------------------------------------------------------------ *)
(* buffers *)
Record bufrec := {
  b_id : nat; b_conc : bool;
  b_init : option Z; b_final : option Z; b_lo : option Z; b_hi : option Z;
  b_unload : list (nat * Z);        (* _unloading_tasks: task id -> quantity (dict: overwrite keeps position) *)
  b_load : list (nat * Z);          (* _loading_tasks *)
  b_slots : list nat }.             (* one level / change-time variable per add_*_task call, by task id *)

Definition buf_levels (b : bufrec) : list term :=
  TV (VLevel0 (b_id b)) :: map (fun t => TV (VLevel (b_id b) t)) (b_slots b).
Definition buf_changes (b : bufrec) : list term := map (fun t => TV (VChange (b_id b) t)) (b_slots b).
Definition buf_times (b : bufrec) : list term :=
  map (fun '(t, _) => TV (VStart t)) (b_unload b) ++ map (fun '(t, _) => TV (VEnd t)) (b_load b).

(* sort_duplicates: n bubble passes, two FreshInt per compare-exchange, numbered in creation order *)
Fixpoint bubble_up (mk : nat -> term) (k : nat) (x : term) (rest : list term) : list term * list form * nat :=
  match rest with
  | [] => ([x], [], k)
  | y :: r =>
      let x1 := mk k in let y1 := mk (S k) in
      let c := FIte (FLe x y) (FAnd [FEq x1 x; FEq y1 y]) (FAnd [FEq x1 y; FEq y1 x]) in
      let '(out, cs, k') := bubble_up mk (S (S k)) y1 r in
      (x1 :: out, c :: cs, k')
  end.
Definition bubble_pass (mk : nat -> term) (k : nat) (l : list term) : list term * list form * nat :=
  match l with [] => ([], [], k) | x :: r => bubble_up mk k x r end.
Fixpoint bubble_passes (mk : nat -> term) (n : nat) (k : nat) (l : list term) (acc : list form)
  : list term * list form :=
  match n with
  | O => (l, acc)
  | S m => let '(l', cs, k') := bubble_pass mk k l in bubble_passes mk m k' l' (acc ++ cs)
  end.
Definition sort_dup (mk : nat -> term) (l : list term) : list term * list form :=
  bubble_passes mk (List.length l) 0 l [].

Fixpoint last_term (l : list term) (d : term) : term :=
  match l with [] => d | [x] => x | _ :: r => last_term r d end.

(* consecutive level pairs with the change time in between and its index *)
Fixpoint level_steps (levels changes : list term) (i : nat) : list (nat * term * term * term) :=
  match levels, changes with
  | l0 :: ((l1 :: _) as lr), c :: cr => (i, l0, l1, c) :: level_steps lr cr (S i)
  | _, _ => []
  end.

(* concurrent buffer: a change time equal to the previous one leaves the level unchanged, a new one adds the value of
   every quantity function at that time *)
Fixpoint conc_steps (fns : list fname) (prev : option term) (l : list (nat * term * term * term)) : list form :=
  match l with
  | [] => []
  | (_, l0, l1, c) :: r =>
      let jump := FEq l1 (TAdd [l0; TAdd (map (fun f => TApp f c) fns)]) in
      (match prev with
       | None => jump
       | Some cp => FIte (FEq c cp) (FEq l1 l0) jump end) :: conc_steps fns (Some c) r
  end.

Definition buffer_block (b : bufrec) : list form :=
  let id := b_id b in
  let mk := fun k => TV (VAux (OwBuf id) k) in
  let levels := buf_levels b in
  let changes := buf_changes b in
  let '(sorted, sort_asserts) := if b_conc b then sort_dup mk (buf_times b) else dsort mk 0 (buf_times b) in
  (match b_init b with Some v => [FEq (TV (VLevel0 id)) (TC v)] | None => [] end)
  ++ sort_asserts
  ++ map (fun '(s, c) => FEq s c) (combine sorted changes)
  ++ (match b_final b with Some v => [FEq (last_term levels (TV (VLevel0 id))) (TC v)] | None => [] end)
  ++ (match b_lo b with Some v => map (fun l => FGe l (TC v)) levels | None => [] end)
  ++ (match b_hi b with Some v => map (fun l => FLe l (TC v)) levels | None => [] end)
  ++ (if b_conc b then
        let fns := map (fun '(t, _) => FnUnload id t) (b_unload b) ++ map (fun '(t, _) => FnLoad id t) (b_load b) in
        map (fun '(t, q) => FFunPoint (FnUnload id t) (TV (VStart t)) (- q)) (b_unload b)
        ++ map (fun '(t, q) => FFunPoint (FnLoad id t) (TV (VEnd t)) q) (b_load b)
        ++ conc_steps fns None (level_steps levels changes 0)
      else
        map (fun '(t, q) => FArrFix id (TV (VStart t)) (TC (- q))) (b_unload b)
        ++ map (fun '(t, q) => FArrFix id (TV (VEnd t)) (TC q)) (b_load b)
        ++ map (fun '(_, l0, l1, c) => FEq l1 (TAdd [l0; TSel id c])) (level_steps levels changes 0)).

(* ------------------------------------------------------------------ *)
(* indicators *)
Inductive dirn := DMin | DMax.

(* R = resource reference, T = task reference, B = buffer reference *)
Inductive iexpr (T R B : Type) :=
| IExpr (e : term)
| IUtilization (r : R) | INbTasks (r : R) | IIdle (r : R)
| ITardiness (ts : option (list T)) | IEarliness (ts : option (list T))
| INbTardy (ts : option (list T)) | IMaxLateness (ts : option (list T))
| ICost (rs : list R)
| IMaxBuf (b : B) | IMinBuf (b : B)
(* indicators created by objectives *)
| IMinStart (ts : option (list T)) | IGreatestStart (ts : option (list T))
| IWeightedStarts | IFlowtime (ts : option (list T)) | ITotalPriority
| IFlowSingle (r : R) (iv : option (Z * Z)).
Arguments IExpr {T R B}. Arguments IUtilization {T R B}. Arguments INbTasks {T R B}. Arguments IIdle {T R B}.
Arguments ITardiness {T R B}. Arguments IEarliness {T R B}. Arguments INbTardy {T R B}.
Arguments IMaxLateness {T R B}. Arguments ICost {T R B}. Arguments IMaxBuf {T R B}. Arguments IMinBuf {T R B}.
Arguments IMinStart {T R B}. Arguments IGreatestStart {T R B}. Arguments IWeightedStarts {T R B}.
Arguments IFlowtime {T R B}. Arguments ITotalPriority {T R B}. Arguments IFlowSingle {T R B}.

(* a resource as an indicator sees it: the snapshot of its busy dictionaries and the cost function of
   every worker it stands for *)
Record rcsnap := { rc_snap : rsnap; rc_costs : list (wref * costfn) }.
Record bsnap := { bn_id : nat; bn_levels : list term }.
(* ts = None is resolved to all the tasks of the problem at creation time *)
Definition riexpr := iexpr tinfo rcsnap bsnap.

Definition own_pairs (r : rsnap) : list (term * term) :=
  map (fun b => (BS (own_w r) (ti_id (be_task b)) (be_maybe b), BE (own_w r) (ti_id (be_task b)) (be_maybe b))) (rs_own r).

Definition get_maximum (m : term) (l : list term) : list form := FOr (map (fun x => FEq m x) l) :: map (fun x => FGe m x) l.
Definition get_minimum (m : term) (l : list term) : list form := FOr (map (fun x => FEq m x) l) :: map (fun x => FLe m x) l.

Definition tasks_of (all : list tinfo) (ts : option (list tinfo)) : list tinfo :=
  match ts with Some l => l | None => all end.
Definition due_of (t : tinfo) : Z := match ti_due t with Some d => d | None => 0 end.
Definition sched_mul (t : tinfo) (x : term) : term := if ti_opt t then TIte (FB (BSched (ti_id t))) x (TC 0) else x.

Definition cost_of (r : rcsnap) (w : wref) : costfn :=
  match find (fun wc => wref_beq (fst wc) w) (rc_costs r) with Some (_, c) => c | None => CostConst 0 end.

Definition resource_cost_terms (r : rcsnap) : list term * list term :=
  fold_left (fun '(cc, vc) '(w, b) =>
      let lo := bsv w b in let up := bev w b in
      match cost_of r w with
      | CostConst v =>
          if v =? 0 then (cc, vc)
          else if v =? 1 then (cc ++ [TSub up lo], vc)
          else (cc ++ [TMul (TC v) (TSub up lo)], vc)
      | c => (cc, vc ++ [TMul (TAdd [cost_apply c lo; cost_apply c up]) (TSub up lo)])
      end) (all_busy (rc_snap r)) ([], []).

(* auxiliary variables of indicator i *)
Definition iaux (i : nat) (k : nat) := TV (VAux (OwInd i) k).

Definition flow_single (i : nat) (r : rsnap) (lo : term) (hi : term) : list form :=
  let flow := iaux i 0 in let maxi := iaux i 1 in let mini := iaux i 2 in
  let ts := map be_task (rs_own r) in
  let inside t := FAnd [FLe (E_ t) hi; FGe (S_ t) lo] in
  [FEq (TV (VInd i)) flow;
   FOr (map (fun t => FImp (inside t) (FEq maxi (E_ t))) ts)]
  ++ map (fun t => FImp (inside t) (FGe maxi (E_ t))) ts
  ++ [FOr (map (fun t => FImp (FAnd [FLe (E_ t) hi; FLe (S_ t) lo]) (FEq mini (S_ t))) ts)]
  ++ map (fun t => FImp (inside t) (FLe mini (S_ t))) ts
  ++ [FEq flow (TSub maxi mini); FGe flow (TC 0)].

Definition enc_ind (i : nat) (hz : option Z) (all : list tinfo) (e : riexpr) : list form :=
  let I := TV (VInd i) in
  match e with
  | IExpr t => [FEq I t]
  | IUtilization r =>
      [FEq I (TDiv (TMul (TAdd (map (fun '(s, e) => TSub e s) (own_pairs (rc_snap r)))) (TC 100))
                   (match hz with Some h => TC h | None => TV VHorizon end))]
  | INbTasks r => [FEq I (TAdd (map (fun '(s, _) => TIte (FGt s (TC (-1))) (TC 1) (TC 0)) (own_pairs (rc_snap r))))]
  | IIdle r =>
      let ps := own_pairs (rc_snap r) in
      let n := List.length ps in
      let '(a, c1) := dsort (iaux i) 0 (map fst ps) in
      let '(b, c2) := dsort (iaux i) n (map snd ps) in
      c1 ++ c2 ++
      [FEq I (TAdd (map (fun '(bp, ai) => TIte (FAnd [FGe bp (TC 0); FGe ai (TC 0)]) (TSub ai bp) (TC 0)) (consec a b)))]
  | ITardiness ts =>
      [FEq I (TAdd (map (fun t => TIte (FOr [FLe (E_ t) (TC (due_of t)); FNot (sched_f t)]) (TC 0)
                                       (TMul (TSub (E_ t) (TC (due_of t))) (TC (ti_prio t)))) (tasks_of all ts)))]
  | IEarliness ts =>
      [FEq I (TAdd (map (fun t => let d := TSub (TC (due_of t)) (E_ t) in TIte (FAnd [FGe d (TC 0); sched_f t]) d (TC 0)) (tasks_of all ts)))]
  | INbTardy ts =>
      [FEq I (TAdd (map (fun t => TIte (FGt (E_ t) (TC (due_of t))) (TC 1) (TC 0)) (tasks_of all ts)))]
  | IMaxLateness ts => get_maximum I (map (fun t => TSub (E_ t) (TC (due_of t))) (tasks_of all ts))
  | ICost rs =>
      let '(cc, vc) := fold_left (fun '(cc, vc) r => let '(c1, v1) := resource_cost_terms r in (cc ++ c1, vc ++ v1)) rs ([], []) in
      [FEq I (TAdd [TAdd cc; TDiv (TAdd vc) (TC 2)])]
  | IMaxBuf b => get_maximum I (bn_levels b)
  | IMinBuf b => get_minimum I (bn_levels b)
  | IMinStart ts => FEq I (iaux i 0) :: get_minimum (iaux i 0) (map S_ (tasks_of all ts))
  | IGreatestStart ts => FEq I (iaux i 0) :: get_maximum (iaux i 0) (map S_ (tasks_of all ts))
  | IWeightedStarts => [FEq I (TAdd (map (fun t => sched_mul t (TMul (S_ t) (TC (ti_prio t)))) all))]
  | IFlowtime ts => [FEq I (TAdd (map (fun t => sched_mul t (E_ t)) (tasks_of all ts)))]
  | ITotalPriority => [FEq I (TAdd (map (fun t => sched_mul t (TMul (E_ t) (TC (ti_prio t)))) all))]
  | IFlowSingle r iv =>
      flow_single i (rc_snap r) (match iv with Some (lo, _) => TC lo | None => TC 0 end)
                  (match iv with Some (_, hi) => TC hi | None => TV VHorizon end)
  end.

(* constructor-time failures (TypeError on a missing due date, AssertionError on an empty list) *)
Definition has_due (t : tinfo) : bool := match ti_due t with Some _ => true | None => false end.
Definition nonempty {A} (l : list A) : bool := match l with [] => false | _ => true end.
Definition check_i (all : list tinfo) (e : riexpr) : bool :=
  match e with
  | ITardiness ts | IEarliness ts | INbTardy ts => forallb has_due (tasks_of all ts)
  | IMaxLateness ts => forallb has_due (tasks_of all ts) && nonempty (tasks_of all ts)
  | IMinStart ts | IGreatestStart ts => nonempty (tasks_of all ts)
  | _ => true
  end.

(* bounds attribute of the indicator object (used by the optimiser as a stop value) *)
Definition ind_bounds (user : option (Z * Z)) (e : riexpr) : option (Z * Z) :=
  match e with IUtilization _ => Some (0, 100) | _ => user end.

(* ------------------------------------------------------------------ *)
(* names under which indicators are reported (SchedulingSolution.indicators keys) *)
Open Scope string_scope.
Fixpoint join (sep : string) (l : list string) : string :=
  match l with [] => "" | [x] => x | x :: r => x ++ sep ++ join sep r end.
Definition resobj_name (o : resobj) : string := match o with ResW w => show_wref w | ResC c => "C" ++ show_nat c end.
Definition tasks_names (ts : list tinfo) : string := join "," (map (fun t => show_task (ti_id t)) ts).
Definition ind_report_name (given : string) (e : riexpr) : string :=
  match e with
  | IUtilization r => "Utilization (" ++ resobj_name (rs_obj (rc_snap r)) ++ ")"
  | INbTasks r => "Nb Tasks Assigned (" ++ resobj_name (rs_obj (rc_snap r)) ++ ")"
  | IIdle r => "ResourceIdle" ++ resobj_name (rs_obj (rc_snap r))
  | ITardiness None => "Total tardiness" | ITardiness (Some ts) => "Tardiness(" ++ tasks_names ts ++ ")"
  | IEarliness None => "Total earliness" | IEarliness (Some ts) => "Earliness(" ++ tasks_names ts ++ ")"
  | INbTardy None => "Total number of tardy tasks" | INbTardy (Some ts) => "NumberOfTardyTasks(" ++ tasks_names ts ++ ")"
  | IMaxLateness None => "MaximumLateness" | IMaxLateness (Some ts) => "MaximumLateness(" ++ tasks_names ts ++ ")"
  | ICost rs => "Total Cost (" ++ join "," (map (fun r => resobj_name (rs_obj (rc_snap r))) rs) ++ ")"
  | IMaxBuf b => "MaximizeBufferB" ++ show_nat (bn_id b) ++ "Level"
  | IMinBuf b => "Mini B" ++ show_nat (bn_id b) ++ " level"
  | _ => given
  end.
Close Scope string_scope.
