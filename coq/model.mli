
val negb : bool -> bool

type nat =
| O
| S of nat

val fst : ('a1 * 'a2) -> 'a1

val snd : ('a1 * 'a2) -> 'a2

val length : 'a1 list -> nat

val app : 'a1 list -> 'a1 list -> 'a1 list

type comparison =
| Eq
| Lt
| Gt

val compOpp : comparison -> comparison

val add : nat -> nat -> nat

val mul : nat -> nat -> nat

type positive =
| XI of positive
| XO of positive
| XH

type n =
| N0
| Npos of positive

type z =
| Z0
| Zpos of positive
| Zneg of positive

module Nat :
 sig
  val eqb : nat -> nat -> bool
 end

module Pos :
 sig
  type mask =
  | IsNul
  | IsPos of positive
  | IsNeg
 end

module Coq_Pos :
 sig
  val succ : positive -> positive

  val add : positive -> positive -> positive

  val add_carry : positive -> positive -> positive

  val pred_double : positive -> positive

  type mask = Pos.mask =
  | IsNul
  | IsPos of positive
  | IsNeg

  val succ_double_mask : mask -> mask

  val double_mask : mask -> mask

  val double_pred_mask : positive -> mask

  val sub_mask : positive -> positive -> mask

  val sub_mask_carry : positive -> positive -> mask

  val mul : positive -> positive -> positive

  val size : positive -> positive

  val compare_cont : comparison -> positive -> positive -> comparison

  val compare : positive -> positive -> comparison

  val eqb : positive -> positive -> bool

  val iter_op : ('a1 -> 'a1 -> 'a1) -> positive -> 'a1 -> 'a1

  val to_nat : positive -> nat

  val of_succ_nat : nat -> positive
 end

module N :
 sig
  val succ_double : n -> n

  val double : n -> n

  val add : n -> n -> n

  val sub : n -> n -> n

  val compare : n -> n -> comparison

  val leb : n -> n -> bool

  val log2 : n -> n

  val pos_div_eucl : positive -> n -> n * n

  val div_eucl : n -> n -> n * n

  val div : n -> n -> n

  val modulo : n -> n -> n

  val to_nat : n -> nat

  val of_nat : nat -> n
 end

val zero : char

val one : char

val shift : bool -> char -> char

val ascii_of_pos : positive -> char

val ascii_of_N : n -> char

val in_dec : ('a1 -> 'a1 -> bool) -> 'a1 -> 'a1 list -> bool

val rev : 'a1 list -> 'a1 list

val map : ('a1 -> 'a2) -> 'a1 list -> 'a2 list

val flat_map : ('a1 -> 'a2 list) -> 'a1 list -> 'a2 list

val fold_left : ('a1 -> 'a2 -> 'a1) -> 'a2 list -> 'a1 -> 'a1

val fold_right : ('a2 -> 'a1 -> 'a1) -> 'a1 -> 'a2 list -> 'a1

val existsb : ('a1 -> bool) -> 'a1 list -> bool

val forallb : ('a1 -> bool) -> 'a1 list -> bool

val filter : ('a1 -> bool) -> 'a1 list -> 'a1 list

val find : ('a1 -> bool) -> 'a1 list -> 'a1 option

val combine : 'a1 list -> 'a2 list -> ('a1 * 'a2) list

val nodup : ('a1 -> 'a1 -> bool) -> 'a1 list -> 'a1 list

val seq : nat -> nat -> nat list

val repeat : 'a1 -> nat -> 'a1 list

module Z :
 sig
  val double : z -> z

  val succ_double : z -> z

  val pred_double : z -> z

  val pos_sub : positive -> positive -> z

  val add : z -> z -> z

  val opp : z -> z

  val sub : z -> z -> z

  val mul : z -> z -> z

  val compare : z -> z -> comparison

  val leb : z -> z -> bool

  val ltb : z -> z -> bool

  val gtb : z -> z -> bool

  val eqb : z -> z -> bool

  val to_nat : z -> nat

  val of_nat : nat -> z

  val pos_div_eucl : positive -> z -> z * z

  val div_eucl : z -> z -> z * z

  val div : z -> z -> z

  val modulo : z -> z -> z
 end

val append : char list -> char list -> char list

type wref =
| WPlain of nat
| WUnit of nat * nat

type sref =
| SUser of nat
| SAuto of nat

type rref =
| RW of wref
| RC of nat

type owner =
| OwCons of nat
| OwInd of nat
| OwBuf of nat
| OwObj of nat
| OwSolver

type ivar =
| VStart of nat
| VEnd of nat
| VDur of nat
| VBusyS of rref * nat * bool
| VBusyE of rref * nat * bool
| VHorizon
| VInd of nat
| VLevel0 of nat
| VLevel of nat * nat
| VChange of nat * nat
| VAux of owner * nat
| VUser of nat

type bvar =
| BSched of nat
| BSel of sref * rref
| BApplied of nat
| BAux of owner * nat
| BUser of nat

val internal_nat_beq : nat -> nat -> bool

val wref_beq : wref -> wref -> bool

val sref_beq : sref -> sref -> bool

val rref_beq : rref -> rref -> bool

val rref_eq_dec : rref -> rref -> bool

val owner_beq : owner -> owner -> bool

val internal_bool_beq : bool -> bool -> bool

val ivar_beq : ivar -> ivar -> bool

val bvar_beq : bvar -> bvar -> bool

type term =
| TC of z
| TV of ivar
| TAdd of term list
| TSub of term * term
| TMul of term * term
| TDiv of term * term
| TMod of term * term
| TIte of form * term * term
| TSel of nat * term
and form =
| FT
| FF
| FB of bvar
| FLe of term * term
| FLt of term * term
| FGe of term * term
| FGt of term * term
| FEq of term * term
| FNe of term * term
| FAnd of form list
| FOr of form list
| FNot of form
| FXor of form * form
| FImp of form * form
| FIte of form * form * form
| FIff of form * form
| FPbLe of form list * z
| FPbGe of form list * z
| FPbEq of form list * z
| FArrFix of nat * term * term

val tiv : term -> ivar list

val fiv : form -> ivar list

val tbv : term -> bvar list

val fbv : form -> bvar list

val tarr : term -> nat list

val farr : form -> nat list

val show_pos_digits : nat -> n -> char list -> char list

val show_N : n -> char list

val show_nat : nat -> char list

val show_Z : z -> char list

val show_wref : wref -> char list

val show_sref : sref -> char list

val show_rref : rref -> char list

val show_owner : owner -> char list

val show_task : nat -> char list

val busy_infix : bool -> char list

val show_ivar : ivar -> char list

val show_bvar : bvar -> char list

val show_arr : nat -> char list

val app1 : char list -> char list list -> char list

val show_t : term -> char list

val show_f : form -> char list

val show_decl_i : ivar -> char list

val show_decl_b : bvar -> char list

val show_decl_a : nat -> char list

type tkind =
| KZero
| KFixed of z
| KVar of z * z option * z list option

type tinfo = { ti_id : nat; ti_rank : z; ti_kind : tkind; ti_opt : bool;
               ti_work : z; ti_release : z option; ti_due : z option;
               ti_deadline : bool; ti_prio : z }

val s_ : tinfo -> term

val e_ : tinfo -> term

val d_ : tinfo -> term

val is_var : tinfo -> bool

val has_sched : tinfo -> bool

val sched_f : tinfo -> form

val task_window : tinfo -> form list

val task_body : tinfo -> form list

val task_unsched : tinfo -> form

val task_core : tinfo -> form list

type pbkind =
| PbMin
| PbMax
| PbExact

val pb : pbkind -> form list -> z -> form

val bS : rref -> nat -> bool -> term

val bE : rref -> nat -> bool -> term

type areq =
| AQDirect of wref * bool * z * z
| AQSelect of sref * (rref * z) list * z * pbkind

val enc_areq : tinfo -> areq -> form list

type pkind =
| Lax
| Strict
| Tight

type 'o operand =
| OpC of 'o
| OpRaw of form

type ('t, 'o, 'r, 'sR) cexpr =
| CStartAt of 't * z
| CStartAfter of 't * z * bool
| CEndAt of 't * z
| CEndBefore of 't * z * bool
| CPrecedence of 't * 't * z * pkind
| CStartSynced of 't * 't
| CEndSynced of 't * 't
| CDontOverlap of 't * 't
| CContiguous of 't list
| CUGroup of 't list * (z * z) option * z
| COGroup of 't list * (z * z) option * z * pkind
| CForceSched of 't * bool
| CCondSched of 't * form
| CDependency of 't * 't
| CForceN of 't list * z * pbkind
| CScheduleN of 't list * z * (z * z) list * pbkind
| CExpr of form
| CForceApplyN of 'o list * z * pbkind
| CNot of 'o operand
| COr of 'o operand list
| CAnd of 'o operand list
| CXor of 'o operand * 'o operand
| CImplies of form * 'o operand list
| CIte of form * 'o operand list * 'o operand list
| CWorkLoad of 'r * ((z * z) * z) list * pbkind
| CUnavailable of 'r * (z * z) list
| CPeriodicUnavailable of 'r * (z * z) list * z * z * z * z option
| CInterrupted of 'r * (z * z) list
| CPeriodicInterrupted of 'r * (z * z) list * z * z * z * z option
| CNonDelay of 'r
| CDistance of 'r * z * (z * z) list option * pbkind
| CSameWorkers of 'sR * 'sR
| CDistinctWorkers of 'sR * 'sR
| CLoad of 't * nat * z
| CUnload of 't * nat * z
| CIndTarget of nat * z
| CIndBounds of nat * z option * z option

type opres = { or_id : nat; or_opt : bool; or_asserts : form list }

type busyent = { be_task : tinfo; be_maybe : bool }

type resobj =
| ResW of wref
| ResC of nat

type rsnap = { rs_obj : resobj; rs_units : (wref * busyent list) list;
               rs_own : busyent list }

type srec = { s_ref : sref; s_listed : rref list; s_n : z; s_kind : pbkind }

type rcexpr = (tinfo, opres, rsnap, srec) cexpr

val guard1 : tinfo -> form -> form

val guard2 : tinfo -> tinfo -> form -> form

val prec_rel : pkind -> term -> term -> form

val aux : nat -> nat -> term

val pairs_lt : term list -> form list

val dsort : (nat -> term) -> nat -> term list -> term list * form list

val consec : term list -> term list -> (term * term) list

val op_asserts : opres operand -> form list

val ops_flat : opres operand list -> form list

val bsv : wref -> busyent -> term

val bev : wref -> busyent -> term

val all_busy : rsnap -> (wref * busyent) list

val own_w : rsnap -> rref

val workload_one : term -> term -> term -> z -> z -> form list

val cmp_sum : pbkind -> term -> z -> form

val workload_ivs :
  nat -> (wref * busyent) list -> pbkind -> ((z * z) * z) list -> nat -> form
  list

val punavail_one : term -> term -> z -> z -> z -> z -> z -> z option -> form

val interrupted_worker : wref -> busyent list -> (z * z) list -> form

val pinterrupted_worker :
  wref -> busyent list -> (z * z) list -> z -> z -> z -> z option -> form

val nondelay_like :
  nat -> term list -> term list -> (term -> term -> form) -> form list

val common_sel : srec -> srec -> rref list

val nonneg : z -> bool

val posz : z -> bool

val check_c : rcexpr -> bool

val enc_raw : nat -> rcexpr -> form list

val enc_direct : rcexpr -> form list

val cemit : nat -> bool -> form -> form

val enc_cons : nat -> bool -> rcexpr -> form list

type costfn =
| CostConst of z
| CostLinear of z * z
| CostPoly of z list

type wrec = { w_ref : wref; w_prod : z; w_cost : costfn }

type curec = { cu_id : nat; cu_size : nat; cu_prod : z; cu_cost : z }

type conrec = { c_id : nat; c_opt : bool; c_flag : bool; c_expr : rcexpr }

type pstate = { ps_horizon : z option; ps_tasks : tinfo list;
                ps_workers : wrec list; ps_cumuls : curec list;
                ps_selects : srec list; ps_reqs : (nat * rref list) list;
                ps_areqs : (nat * areq list) list;
                ps_busy : (rref * (nat * bool) list) list;
                ps_cons : conrec list; ps_neg : z; ps_nauto : nat }

val empty_problem : z option -> pstate

type resarg =
| ArgW of wref
| ArgC of nat
| ArgS of nat

type ucexpr = (nat, nat, resobj, nat) cexpr

type op =
| ONewProblem of z option
| ONewTask of nat * tkind * bool * z * z option * z option * bool * z
| ONewWorker of nat * z * costfn
| ONewCumulative of nat * z * z * costfn
| ONewSelect of nat * rref list * z * pbkind
| OAddRequired of nat * resarg * bool * z * z
| ONewConstraint of nat * bool * ucexpr

type result =
| Ok of pstate
| Err
| Unsupported

val find_task : pstate -> nat -> tinfo option

val find_worker : pstate -> wref -> wrec option

val find_cumul : pstate -> nat -> curec option

val find_select : pstate -> sref -> srec option

val find_cons : pstate -> nat -> conrec option

val al_get : ('a1 -> 'a1 -> bool) -> ('a1 * 'a2) list -> 'a1 -> 'a2 option

val al_set :
  ('a1 -> 'a1 -> bool) -> ('a1 * 'a2) list -> 'a1 -> 'a2 -> ('a1 * 'a2) list

val get_list :
  ('a1 -> 'a1 -> bool) -> ('a1 * 'a2 list) list -> 'a1 -> 'a2 list

val push_list :
  ('a1 -> 'a1 -> bool) -> ('a1 * 'a2 list) list -> 'a1 -> 'a2 -> ('a1 * 'a2
  list) list

val reqs_of : pstate -> nat -> rref list

val areqs_of : pstate -> nat -> areq list

val busy_of : pstate -> rref -> (nat * bool) list

val busy_add :
  (rref * (nat * bool) list) list -> rref -> nat -> bool ->
  (rref * (nat * bool) list) list

val units_of : curec -> wref list

val rref_exists : pstate -> rref -> bool

val mapM : ('a1 -> 'a2 option) -> 'a1 list -> 'a2 list option

val conrec_asserts : conrec -> form list

val res_task : pstate -> nat -> tinfo option

val res_cons : pstate -> nat -> opres option

val res_operand : pstate -> nat operand -> opres operand option

val res_busy : pstate -> rref -> busyent list option

val res_resobj : pstate -> resobj -> rsnap option

val res_sel : pstate -> nat -> srec option

val opt_bind : 'a1 option -> ('a1 -> 'a2 option) -> 'a2 option

val resolve : pstate -> ucexpr -> rcexpr option

val operand_ids : rcexpr -> nat list

val term_beq : term -> term -> bool

val form_beq : form -> form -> bool

val nodup_forms : form list -> bool

val tkind_ok : tkind -> bool

val distribute : z -> nat -> z list

val add_select : pstate -> tinfo -> srec -> pstate

val step_problem : pstate -> op -> result

val step : pstate option -> op -> result

type runres =
| RunOk of pstate option
| RunErr of nat
| RunUnsup of nat

val run_from : pstate option -> nat -> op list -> runres

val run : op list -> runres

type tag =
| TgTask of nat
| TgHorizon of nat
| TgOverlap of wref
| TgCons of nat
| TgInd of nat
| TgWork of nat
| TgBuf of nat
| TgProblem
| TgObj

val task_asserts : pstate -> tinfo -> form list

val pairs_no_overlap : rref -> (nat * bool) list -> form list

val prod_of : pstate -> rref -> z

val work_assert : pstate -> tinfo -> form list

val tagged : tag -> form list -> (tag * form) list

val initialize : pstate -> (tag * form) list

val show_tag : tag -> char list

val dedup : ('a1 -> 'a1 -> bool) -> 'a1 list -> 'a1 list -> 'a1 list

val decls : form list -> char list list

val report_state : pstate -> (char list * form) list -> char list list

val report_run :
  (pstate -> (char list * form) list) -> op list -> char list list

val act : tinfo -> form

val whenact : tinfo -> form -> form

val horizon_t : pstate -> term

val spec_duration : tinfo -> form

val spec_C01_task : pstate -> tinfo -> (char list * form) list

val keyed : char list -> (char list * form) list -> (char list * form) list

val spec_C01 : pstate -> (char list * form) list

val spec_all : pstate -> (char list * form) list

val report : op list -> char list list
