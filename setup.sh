#!/bin/sh
set -e
cd "$(dirname "$0")"
exec ./build.sh
