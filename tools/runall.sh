#!/bin/bash
# usage: tools/runall.sh quick|thorough [seed]   -- every registered check, serially; summary lines in work/runall_<tier>.log
tier=${1:-quick}; seed=${2:-1}
cd /verif
: > work/runall_$tier.log
for p in C01 C02 C03 C04 C05 C06 C07 C08 C09 C10 C11 C12 C13 C14 C15 C16 C17 C18 C19; do
  s=$(date +%s)
  VERIF_SEED=$seed ./check $p --tier $tier > work/out_${p}_$tier.txt 2>/dev/null
  rc=$?
  echo "$p exit=$rc $(($(date +%s)-s))s :: $(grep -c '^VIOLATION' work/out_${p}_$tier.txt) violations :: $(tail -1 work/out_${p}_$tier.txt)" >> work/runall_$tier.log
done
