"""regenerate MANIFEST.json from the table below"""
import json
props = [json.loads(l)['id'] for l in open('/verif/properties.jsonl')]
TIE = (" The model is tied to /repo on every run: the real constructors and SchedulingSolver.initialize() are run on sampled programs, "
       "accept/reject decisions are compared, and z3 checks that the implementation's assertion set entails every model assertion the theorem consumes "
       "(direction stated in the evidence); the Spec clauses are also swept against the real assertion set and every hit is confirmed by vm_compute.")
NOTE = ("Trusted: Coq 8.16.1 kernel; Spec.v (formal reading of the property); the correspondence harness (program generator, name canonicalisation, "
        "SMT-LIB printer, z3 verdicts, extraction with ExtrOcamlBasic/ExtrOcamlString cross-checked against vm_compute). All theorems closed under the "
        "global context (Print Assumptions in evidence). Modelled, not verified: z3, pydantic, string-derived z3 names.")
CLAIMS = {
 'C01': "Coq theorem C01_timing: for every problem state and every valuation satisfying the model's initialize() assertion set, every C01 clause holds (start>=0, end<=horizon, duration rule incl. min/max/allowed, release, deadline; guarded by the scheduled flag), whatever else the problem contains.",
 'C02': "Coq theorem C02_resources_partial over every state reached by any program: static/dynamic spans, selection count and selected/unselected busy intervals (unselected = a zero-length point before time 0, by the run invariant on unique negative integers), pairwise disjoint busy intervals per worker (cumulative units included), work amounts. Partial: the cumulative capacity clause (<= size tasks at any instant) is swept on every run, its pigeonhole proof is pending.",
 'C03': "Coq theorem C03_task_constraints_partial: every admitted valuation satisfies the documented relation of every mandatory, non-operand task constraint (start/end at/after/before, precedence x3 with offset, synced, non-overlap, groups: window/length/order, lower bound of ScheduleNTasksInTimeIntervals). Partial: contiguity clauses are swept only (proof pending); the upper bound of ScheduleN (max/exact) is refuted on the code: known finding F05.",
 'C04': "Coq theorem C04_resource_constraints_partial: ResourceUnavailable, WorkLoad (sum of overlaps, by induction over windows and busy intervals), ResourceInterrupted on non-variable tasks, SameWorkers, DistinctWorkers, over the busy intervals present when the constraint was created. Partial: late assignments (known finding F07), variable-duration interruption clauses, periodic classes, distance/non-delay are swept or not yet specified.",
 'C06': "Coq theorem C06_optional_partial over reachable states: force/condition/dependency/force-N rules hold; an unscheduled optional task keeps each required worker busy only before time 0; scheduled optional tasks obey the mandatory clauses (every C01-C04 clause is guarded by the scheduled flag only). Partial: the deletion equivalence is not proved.",
 'C10': "Coq theorems C10_not/or/and/xor/implies/if_then_else/expression/optional/force_apply_n (truth-functional, for all valuations), C10_no_leak (initialize ignores operand constraints) and C10_operands_flagged (the constructor flags its operands). Correspondence decisive in both directions on constraint assertions (a leaked operand strengthens the implementation and is caught by model=>impl).",
 'C18': "Coq theorem C18_decision: for every state and constructor call in the model's parameter domain, the call is rejected iff wf_op (the rule list of the property + declared field constraints) is false; plus one lemma per rule named by the property and C18_no_problem. Correspondence: accept/reject decisions of the real constructors vs the model on a boundary-value stream (exact agreement required, both directions).",
}
def chk(pid):
    return {"property_id": pid, "quick_cmd": "./check %s --tier quick" % pid, "thorough_cmd": "./check %s --tier thorough" % pid,
            "evidence_file": "evidence/%s.json" % pid, "replay_cmd_template": "./check %s --replay {path}" % pid,
            "engine": "coq-model+correspondence",
            "level_claimed": {"category": "proof", "text": CLAIMS[pid] + TIE, "design_ref": "DESIGN.md section 6 (%s)" % pid},
            "level_note": NOTE, "technique": "machine-checked proof (Coq) + model/code correspondence"}
m = {"version": 1, "setup_cmd": "./setup.sh",
     "hooks": {"guard": "PROCESSSCHEDULER_VERIF", "enable": "no source hooks: the harness wraps z3 / print from outside the library",
               "baseline_off_cmd": "cd /repo && /venv/bin/python -m pytest -ra -q -p no:cacheprovider --timeout=900 --continue-on-collection-errors",
               "source_commits": [], "add_only": True},
     "engines": [{"name": "coq-model+correspondence", "path": "check", "serves_properties": sorted(CLAIMS),
                  "kind_free_text": "Coq theorems about a hand-written executable model (coq/), tied to /repo by differential runs (harness/)"}],
     "checks": [chk(p) for p in props if p in CLAIMS],
     "not_applicable": [{"property_id": p, "reason": "check not built yet (framework under construction; see DESIGN.md section 10)"} for p in props if p not in CLAIMS],
     "notes": "13 genuine defects were repaired in /repo as 'fix:' commits (known_findings.json, status fixed); open findings are listed there and printed as KNOWN-FINDING lines."}
json.dump(m, open('/verif/MANIFEST.json', 'w'), indent=1)
print('claimed', sorted(CLAIMS))
