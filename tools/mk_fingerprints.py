"""run with /venv/bin/python (the interpreter of ./check): record the fingerprints of /repo's library as the tree the framework is aligned with (run after every repo commit)"""
import sys, json
sys.path.insert(0, '/verif/harness')
import srcwatch
fp = srcwatch.fingerprints()
fp['<python>'] = '%d.%d' % sys.version_info[:2]
json.dump(fp, open(srcwatch.FILE, 'w'), indent=0, sort_keys=True)
print(len(fp), 'fingerprints written to', srcwatch.FILE)
