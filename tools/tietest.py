"""debug: run the tie on a generator profile and print disagreements.  usage: tietest.py profile n seed [spec-prefix]"""
import sys, os, collections, json
sys.path.insert(0, '/verif/harness')
os.environ.setdefault('PYTHONHASHSEED', '0')
import gen, modelrun, tie, terms
profile, n, seed = sys.argv[1], int(sys.argv[2]), int(sys.argv[3])
prefix = sys.argv[4:] or None
progs = gen.generate(seed, n, profile, 'quick')
work = '/verif/work/tietest'
os.makedirs(work, exist_ok=True)
reports = modelrun.run_extracted(progs, work)
res = tie.run_tie(progs, reports, {'spec_prefixes': prefix, 'sweep': prefix is not None})
c = collections.Counter()
shown = 0
for r in res:
    c['o1_' + str(r['o1'])] += 1
    if r['error']:
        c['error'] += 1
        if shown < 3:
            shown += 1
            print('ERROR', r['idx'], r['error'][-900:])
            print('\n'.join(terms.to_coq(o) for o in progs[r['idx']]))
        continue
    if r['o1'] == 'mismatch':
        if shown < 4:
            shown += 1
            print('O1 MISMATCH', r['idx'], 'model', r['model_run'], 'impl', r.get('impl_run'), r.get('impl_err'))
            print('\n'.join(terms.to_coq(o) for o in progs[r['idx']]))
        continue
    if r['o1'] != 'agree' or r['model_run'][0] != 'ok':
        continue
    c['compared'] += 1
    c['syntactic'] += r['syntactic']
    c['unknown'] += r['unknown']
    c['feasible'] += 1 if r.get('impl_feasible') else 0
    if r['fwd_bad']:
        c['fwd_bad'] += 1
        if shown < 4:
            shown += 1
            print('FWD', r['idx'], json.dumps(r['fwd_bad'][0])[:700])
            print('\n'.join(terms.to_coq(o) for o in progs[r['idx']]))
    if r['bwd_bad']:
        c['bwd_bad'] += 1
        if shown < 4:
            shown += 1
            print('BWD', r['idx'], json.dumps(r['bwd_bad'][0])[:700])
            print('\n'.join(terms.to_coq(o) for o in progs[r['idx']]))
    if r['spec_bad']:
        c['spec_bad'] += 1
        for sb in r['spec_bad'][:2]:
            kind = sb['key'].split('/')[-1]
            c['spec:' + kind] += 1
            if kind == os.environ.get('SHOW') and c['spec:' + kind] <= int(os.environ.get('NSHOW', '1')):
                print('SPEC', sb['key'], json.dumps(sb['witness'], sort_keys=True))
                print('\n'.join(terms.to_coq(o) for o in progs[r['idx']]))
print(dict(c))
