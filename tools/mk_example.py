"""print a Coq Example (program + satisfying valuation) for non-vacuity lemmas"""
import sys
sys.path.insert(0, '/verif/harness')
from terms import *
import modelrun, compare, z3
prog = [
 ('ONewProblem', Some(Z(30))),
 ('ONewTask', N(1), ('KFixed', Z(3)), False, Z(4), Some(Z(1)), Some(Z(20)), True, Z(1)),
 ('ONewTask', N(2), ('KVar', Z(1), Some(Z(5)), Some([Z(2), Z(4)])), True, Z(0), None, None, True, Z(2)),
 ('ONewTask', N(3), ('KZero',), True, Z(0), None, None, True, Z(1)),
 ('ONewTask', N(4), ('KFixed', Z(2)), False, Z(0), None, None, True, Z(1)),
 ('ONewWorker', N(1), Z(2), ('CostConst', Z(3))),
 ('ONewWorker', N(2), Z(1), ('CostConst', Z(0))),
 ('ONewCumulative', N(1), Z(2), Z(3), ('CostConst', Z(5))),
 ('ONewSelect', N(1), [('RW', ('WPlain', N(1))), ('RW', ('WPlain', N(2)))], Z(1), ('PbExact',)),
 ('ONewSelect', N(2), [('RW', ('WPlain', N(2))), ('RW', ('WPlain', N(1)))], Z(1), ('PbMin',)),
 ('OAddRequired', N(1), ('ArgW', ('WPlain', N(1))), False, Z(1), Z(0)),
 ('OAddRequired', N(2), ('ArgS', N(1)), False, Z(0), Z(0)),
 ('OAddRequired', N(4), ('ArgS', N(2)), False, Z(0), Z(0)),
 ('OAddRequired', N(2), ('ArgC', N(1)), False, Z(0), Z(0)),
 ('OAddRequired', N(4), ('ArgC', N(1)), False, Z(0), Z(0)),
 ('OAddRequired', N(4), ('ArgW', ('WPlain', N(2))), True, Z(0), Z(0)) if False else ('ONewTask', N(5), ('KFixed', Z(2)), True, Z(0), None, None, True, Z(1)),
 ('OAddRequired', N(5), ('ArgW', ('WPlain', N(1))), True, Z(0), Z(0)),
 ('ONewConstraint', N(1), False, ('CStartAt', N(1), Z(2))),
 ('ONewConstraint', N(2), False, ('CPrecedence', N(1), N(2), Z(1), ('Lax',))),
 ('ONewConstraint', N(3), False, ('CDontOverlap', N(2), N(4))),
 ('ONewConstraint', N(4), False, ('COGroup', [N(1), N(4)], Some(P(Z(0), Z(25))), None, ('Strict',))),
 ('ONewConstraint', N(5), False, ('CUGroup', [N(1), N(2)], None, Some(Z(12)))),
 ('ONewConstraint', N(6), False, ('CScheduleN', [N(1), N(4)], Z(1), [P(Z(0), Z(6)), P(Z(10), Z(20))], ('PbMin',))),
 ('ONewConstraint', N(7), False, ('CWorkLoad', ('ResW', ('WPlain', N(1))), [P(P(Z(0), Z(10)), Z(6))], ('PbMax',))),
 ('ONewConstraint', N(8), False, ('CUnavailable', ('ResC', N(1)), [P(Z(0), Z(1))])),
 ('ONewConstraint', N(9), False, ('CInterrupted', ('ResW', ('WPlain', N(1))), [P(Z(0), Z(1))])),
 ('ONewConstraint', N(10), False, ('CDistinctWorkers', N(1), N(2))),
 ('ONewConstraint', N(11), True, ('CEndBefore', N(4), Z(9), False)),
 ('ONewConstraint', N(12), False, ('CNot', ('OpC', N(11)))),
 ('ONewConstraint', N(13), False, ('COr', [('OpRaw', ('FLe', ('TV', ('VStart', N(4))), ('TC', Z(25)))), ('OpC', N(11))])),
 ('ONewConstraint', N(14), False, ('CForceSched', N(3), False)),
 ('ONewConstraint', N(15), False, ('CDependency', N(2), N(5))),
 ('ONewConstraint', N(16), True, ('CStartAfter', N(2), Z(3), True)),
 ('ONewConstraint', N(17), False, ('CForceApplyN', [N(16)], Z(1), ('PbExact',))),
 ('ONewConstraint', N(18), False, ('CContiguous', [N(1), N(4)])) if False else ('ONewConstraint', N(18), False, ('CEndSynced', N(2), N(5))),
]
rep = modelrun.run_extracted([prog], '/verif/work/mkex')[0]
assert rep['run'] == ('ok',), rep['run']
ma, sp = compare.parse_model(rep)
s = z3.Solver()
for _, e in ma: s.add(e)
s.add(z3.Bool('T2_scheduled'))
assert s.check() == z3.sat
m = compare.model_to_dict(s.model())
iv = '; '.join('("%s", %d)' % (k, v) for k, v in sorted(m.items()) if not isinstance(v, bool))
bv = '; '.join('("%s", %s)' % (k, 'true' if v else 'false') for k, v in sorted(m.items()) if isinstance(v, bool))
print('Definition ex2_prog : list op :=\n  %s.' % to_coq(prog))
print('Definition ex2_env : env := env_of\n  [%s]%%string\n  [%s]%%string.' % (iv, bv))
