"""run every seeded change against the check of its property (and listed extra checks); record detected_by in meta.json
usage: seedmatrix.py [ids...]   (serial, applies each patch to /repo and reverts it)"""
import json, os, subprocess, sys
EXTRA = {'C12b': ['C13', 'C07'], 'C13a': ['C07'], 'C14a': ['C05'], 'C15a': ['C07'], 'C06b': ['C08'], 'C07b': ['C15', 'C08'], 'C02b': ['C04'],
         'C05b': ['C14'], 'C15b': ['C13'], 'C09a': ['C06'], 'C09b': ['C06']}
ids = sys.argv[1:] or sorted(os.listdir('/verif/seeded'))
for sid in ids:
    d = '/verif/seeded/' + sid
    meta = json.load(open(d + '/meta.json'))
    props = [meta['property']] + EXTRA.get(sid, [])
    if subprocess.run(['git', '-C', '/repo', 'diff', '--quiet']).returncode != 0:
        sys.exit('repo dirty')
    if subprocess.run(['git', '-C', '/repo', 'apply', d + '/patch.diff']).returncode != 0:
        print(sid, 'PATCH DOES NOT APPLY'); continue
    det = {}
    try:
        demo = subprocess.run(['/venv/bin/python', d + '/demo.py'], env=dict(os.environ, PYTHONPATH='/repo', MPLBACKEND='Agg'),
                              capture_output=True, timeout=600).returncode
        for p in props:
            r = subprocess.run(['./check', p, '--tier', 'quick'], cwd='/verif', capture_output=True, text=True, timeout=3600)
            v = [l for l in r.stdout.split('\n') if l.startswith('VIOLATION')]
            det[p] = {'exit': r.returncode, 'violation_lines': len(v), 'with_failing_input': sum(1 for l in v if 'no-failing-input-found' not in l)}
    finally:
        subprocess.run(['git', '-C', '/repo', 'checkout', '--', '.'])
    meta['demo_exit_with_change'] = demo
    meta['detected_by'] = [p for p in props if det[p]['exit'] != 0]
    meta['check_results'] = det
    json.dump(meta, open(d + '/meta.json', 'w'), indent=1)
    print(sid, 'demo', demo, {p: (det[p]['exit'], det[p]['violation_lines'], det[p]['with_failing_input']) for p in props}, flush=True)
