#!/bin/bash
# usage: tools/seedall.sh [ids...]  -- runs every seeded change against the check of its property (serial, on /repo)
cd /verif
ids="$@"; [ -z "$ids" ] && ids=$(ls seeded)
for id in $ids; do
  p=$(python3 -c "import json;print(json.load(open('seeded/$id/meta.json'))['property'])")
  echo "== $id ($p)"
  tools/seedtest.sh seeded/$id $p 2>&1 | grep -v WARNING
done
