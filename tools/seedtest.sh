#!/bin/bash
# usage: tools/seedtest.sh <seed-dir> <property> [more properties...]   (applies patch to /repo, runs checks, reverts)
d=$(cd "$1" && pwd); shift
cd /verif
git -C /repo diff --quiet || { echo "repo dirty"; exit 2; }
git -C /repo apply "$d/patch.diff" || { echo "patch does not apply"; exit 2; }
PYTHONPATH=/repo /venv/bin/python "$d/demo.py" > /dev/null 2>&1; echo "demo on patched: exit $?"
for p in "$@"; do
  ./check $p --tier quick > work/seed_$p.out 2>&1; echo "check $p on patched: exit $? :: $(grep -c '^VIOLATION' work/seed_$p.out) violation line(s): $(grep '^VIOLATION' work/seed_$p.out | head -2 | tr '\n' ' ')"
done
git -C /repo checkout -- .
PYTHONPATH=/repo /venv/bin/python "$d/demo.py" > /dev/null 2>&1; echo "demo on pristine: exit $?"
