#!/usr/bin/env python3
"""Run the pinned test-suite of /repo (or a copy given as argv[1]) and compare with BASELINE.stable_pass."""
import json, subprocess, sys, os, tempfile, xml.etree.ElementTree as ET
repo = sys.argv[1] if len(sys.argv) > 1 else '/repo'
base = json.load(open('/root/.vp/BASELINE.json'))
os.makedirs('/verif/work', exist_ok=True)
out = tempfile.mktemp(suffix='.xml', dir='/verif/work')
env = dict(os.environ, PYTHONPATH=repo, MPLBACKEND='Agg')
env.pop('PROCESSSCHEDULER_VERIF', None)
subprocess.run(['/venv/bin/python', '-m', 'pytest', '-ra', '-q', '-p', 'no:cacheprovider', '--timeout=900',
                '--continue-on-collection-errors', '--junitxml=' + out], cwd=repo, env=env,
               stdout=subprocess.DEVNULL, stderr=subprocess.DEVNULL)
passed = set()
for tc in ET.parse(out).getroot().iter('testcase'):
    if not any(c.tag in ('failure', 'error', 'skipped') for c in tc):
        passed.add(tc.get('classname') + '::' + tc.get('name'))
os.remove(out)
missing = [t for t in base['stable_pass'] if t not in passed]
print(f"stable_pass={len(base['stable_pass'])} passed_now={len(passed)} missing={len(missing)}")
for m in missing: print("  MISSING", m)
sys.exit(1 if missing else 0)
