"""print a Coq Example for the sorted-copies constraints (contiguity, non-delay, distance) and the periodic windows:
program + satisfying valuation found by z3 on the model's assertion set."""
import sys
sys.path.insert(0, '/verif/harness')
from terms import *
import modelrun, compare, z3
W1 = ('ResW', ('WPlain', N(1))); W2 = ('ResW', ('WPlain', N(2)))
prog = [
 ('ONewProblem', Some(Z(40))),
 ('ONewTask', N(1), ('KFixed', Z(3)), False, Z(0), None, None, False, Z(1)),
 ('ONewTask', N(2), ('KFixed', Z(2)), False, Z(0), None, None, False, Z(1)),
 ('ONewTask', N(3), ('KFixed', Z(4)), True, Z(0), None, None, False, Z(1)),
 ('ONewTask', N(4), ('KFixed', Z(2)), False, Z(0), None, None, False, Z(1)),
 ('ONewTask', N(5), ('KVar', Z(1), Some(Z(3)), None), False, Z(0), None, None, False, Z(1)),
 ('ONewTask', N(6), ('KFixed', Z(2)), False, Z(0), None, None, False, Z(1)),
 ('ONewTask', N(7), ('KFixed', Z(3)), False, Z(0), None, None, False, Z(1)),
 ('ONewTask', N(8), ('KFixed', Z(1)), False, Z(0), None, None, False, Z(1)),
 ('ONewWorker', N(1), Z(1), ('CostConst', Z(0))),
 ('ONewWorker', N(2), Z(1), ('CostConst', Z(0))),
 ('OAddRequired', N(1), ('ArgW', ('WPlain', N(1))), False, Z(0), Z(0)),
 ('OAddRequired', N(2), ('ArgW', ('WPlain', N(1))), False, Z(0), Z(0)),
 ('OAddRequired', N(3), ('ArgW', ('WPlain', N(1))), False, Z(0), Z(0)),
 ('OAddRequired', N(6), ('ArgW', ('WPlain', N(2))), False, Z(0), Z(0)),
 ('OAddRequired', N(7), ('ArgW', ('WPlain', N(2))), False, Z(0), Z(0)),
 ('OAddRequired', N(8), ('ArgW', ('WPlain', N(2))), False, Z(0), Z(0)),
 ('ONewConstraint', N(1), False, ('CContiguous', [N(4), N(5), N(2)])),
 ('ONewConstraint', N(2), False, ('CNonDelay', W1)),
 ('ONewConstraint', N(3), False, ('CDistance', W2, Z(2), None, ('PbExact',))),
 ('ONewConstraint', N(4), False, ('CDistance', W2, Z(5), Some([P(Z(0), Z(40))]), ('PbMax',))),
 ('ONewConstraint', N(5), False, ('CPeriodicUnavailable', W1, [P(Z(0), Z(2))], Z(20), Z(0), Z(1), None)),
 ('ONewConstraint', N(6), False, ('CPeriodicInterrupted', W2, [P(Z(3), Z(4))], Z(12), Z(2), Z(0), Some(Z(30)))),
 ('ONewConstraint', N(7), False, ('CStartAt', N(1), Z(3))),
]
rep = modelrun.run_extracted([prog], '/verif/work/mkex')[0]
assert rep['run'] == ('ok',), rep['run']
ma, sp = compare.parse_model(rep)
s = z3.Solver()
for _, e in ma: s.add(e)
s.add(z3.Bool('T3_scheduled'))
assert s.check() == z3.sat
mod = s.model()
m = compare.model_to_dict(mod)
iv = '; '.join('("%s", %d)' % (k, v) for k, v in sorted(m.items()) if not isinstance(v, bool))
bv = '; '.join('("%s", %s)' % (k, 'true' if v else 'false') for k, v in sorted(m.items()) if isinstance(v, bool))
print('Definition ex4_prog : list op :=\n  %s.' % to_coq(prog))
print('Definition ex4_env : env := env_full\n  [%s]%%string\n  [%s]%%string\n  []\n  [].' % (iv, bv))
print('(* spec_all clauses: %d, asserts: %d *)' % (len(sp), len(ma)))
kinds = {}
for k, _ in sp: kinds[k.split('/')[-1]] = kinds.get(k.split('/')[-1], 0) + 1
print('(* %s *)' % kinds)
print('(* %s *)' % {k: v for k, v in sorted(m.items()) if k[0] == 'T' and ('start' in k or 'end' in k)})
