"""copy confirmed candidate changes from /tmp/seed_out/<id> into /verif/seeded/<id> with a meta.json"""
import json, os, re, shutil, sys
for sid in sys.argv[1:]:
    src = '/tmp/seed_out/' + sid
    conf = open(src + '/confirm.txt').read() if os.path.exists(src + '/confirm.txt') else ''
    ok = 'patch_applies=true' in conf and 'demo_pristine_exit=0' in conf and re.search(r'demo_patched_exit=[1-9]', conf) and 'missing=0' in conf
    if not ok:
        print(sid, 'NOT confirmed:', conf.replace('\n', ' '))
        continue
    dst = '/verif/seeded/' + sid
    os.makedirs(dst, exist_ok=True)
    for f in ('patch.diff', 'demo.py', 'notes.md'):
        shutil.copy(os.path.join(src, f), dst)
    notes = open(src + '/notes.md').read()
    title = next((l.lstrip('# ').strip() for l in notes.split('\n') if l.strip()), sid)
    m = re.search(r'(?is)(what it needs to manifest|needed to manifest|needs? to manifest)[^\n]*\n(.*?)(\n#|\Z)', notes)
    needs = re.sub(r'\s+', ' ', m.group(2)).strip()[:600] if m else ''
    meta = {'id': sid, 'property': sid[:3], 'change': title, 'needs_to_manifest': needs,
            'confirmed': {'patch_applies': True, 'demo_fails_with_change': True, 'demo_passes_without': True,
                          'baseline_337_pass_with_change': True,
                          'how': 'tools/seedconfirm.sh in a scratch worktree of /repo (removed afterwards): git apply --check, demo.py with and without the change, the 337 baseline tests with the change'},
            'detected_by': None}
    json.dump(meta, open(dst + '/meta.json', 'w'), indent=1)
    print(sid, 'installed:', title[:90])
