"""print a Coq Example (program with indicators, buffers, objectives + satisfying valuation)"""
import sys
sys.path.insert(0, '/verif/harness')
from terms import *
import modelrun, compare, z3
W1 = ('ResW', ('WPlain', N(1))); W2 = ('ResW', ('WPlain', N(2)))
prog = [
 ('ONewProblem', Some(Z(20))),
 ('ONewTask', N(1), ('KFixed', Z(3)), False, Z(0), None, Some(Z(4)), False, Z(2)),
 ('ONewTask', N(2), ('KFixed', Z(2)), True, Z(0), None, Some(Z(9)), False, Z(1)),
 ('ONewTask', N(3), ('KVar', Z(1), Some(Z(4)), None), False, Z(0), None, Some(Z(15)), False, Z(3)),
 ('ONewWorker', N(1), Z(1), ('CostConst', Z(3))),
 ('ONewWorker', N(2), Z(1), ('CostLinear', Z(1), Z(2))),
 ('OAddRequired', N(1), ('ArgW', ('WPlain', N(1))), False, Z(0), Z(0)),
 ('OAddRequired', N(2), ('ArgW', ('WPlain', N(1))), False, Z(0), Z(0)),
 ('OAddRequired', N(3), ('ArgW', ('WPlain', N(2))), False, Z(0), Z(0)),
 ('OAddRequired', N(1), ('ArgW', ('WPlain', N(2))), False, Z(0), Z(0)),
 ('ONewBuffer', N(1), False, Some(Z(5)), None, Some(Z(0)), Some(Z(12))),
 ('ONewBuffer', N(2), True, Some(Z(4)), None, None, None),
 ('ONewConstraint', N(1), False, ('CUnload', N(1), N(1), Z(3))),
 ('ONewConstraint', N(2), False, ('CLoad', N(3), N(1), Z(4))),
 ('ONewConstraint', N(3), False, ('CLoad', N(1), N(2), Z(2))),
 ('ONewConstraint', N(4), False, ('CUnload', N(3), N(2), Z(1))),
 ('ONewConstraint', N(5), False, ('CStartAt', N(1), Z(2))),
 ('ONewConstraint', N(6), False, ('CStartAt', N(3), Z(6))),
 ('ONewIndicator', N(1), ('IUtilization', W1), None),
 ('ONewIndicator', N(2), ('INbTasks', W1), None),
 ('ONewIndicator', N(3), ('ITardiness', None), None),
 ('ONewIndicator', N(4), ('IEarliness', Some([N(2), N(3)])), None),
 ('ONewIndicator', N(5), ('INbTardy', Some([N(1), N(3)])), None),
 ('ONewIndicator', N(6), ('IMaxLateness', Some([N(1), N(3)])), None),
 ('ONewIndicator', N(7), ('ICost', [W1, W2]), None),
 ('ONewIndicator', N(8), ('IIdle', W2), None),
 ('ONewIndicator', N(9), ('IMaxBuf', N(1)), None),
 ('ONewIndicator', N(10), ('IMinBuf', N(2)), None),
 ('ONewIndicator', N(11), ('IExpr', ('TAdd', [('TV', ('VEnd', N(1))), ('TMul', ('TC', Z(2)), ('TV', ('VStart', N(3))))])), Some(P(Z(0), Z(100)))),
 ('ONewConstraint', N(7), False, ('CIndBounds', N(7), Some(Z(0)), Some(Z(200)))),
 ('ONewObjective', ('OFlowtime', None), N(12)),
 ('ONewObjective', ('OPriorities',), N(13)),
 ('ONewObjective', ('OStartLatest', Some([N(1), N(3)])), N(14)),
 ('ONewObjective', ('OMinIndicator', N(3), Z(2)), N(15)),
]
rep = modelrun.run_extracted([prog], '/verif/work/mkex')[0]
assert rep['run'] == ('ok',), rep['run']
ma, sp = compare.parse_model(rep)
s = z3.Solver()
for _, e in ma: s.add(e)
s.add(z3.Bool('T2_scheduled'))
assert s.check() == z3.sat
mod = s.model()
m = compare.model_to_dict(mod)
iv = '; '.join('("%s", %d)' % (k, v) for k, v in sorted(m.items()) if not isinstance(v, bool))
bv = '; '.join('("%s", %s)' % (k, 'true' if v else 'false') for k, v in sorted(m.items()) if isinstance(v, bool))
av, fv = [], []
for d in mod.decls():
    if d.arity() == 0 and d.range().kind() == z3.Z3_ARRAY_SORT:
        # evaluate on the times that matter
        pts = sorted({v for k, v in m.items() if not isinstance(v, bool)})
        arr = mod[d]
        g = [(p, mod.eval(z3.Select(d(), z3.IntVal(p)), model_completion=True).as_long()) for p in pts]
        av.append('("%s", [%s])' % (d.name(), '; '.join('((%d)%%Z, (%d)%%Z)' % (p, v) for p, v in g if v != 0)))
    elif d.arity() == 1:
        fi = mod[d]
        assert fi.else_value().as_long() == 0, fi
        g = [(fi.entry(i).arg_value(0).as_long(), fi.entry(i).value().as_long()) for i in range(fi.num_entries())]
        fv.append('("%s", [%s])' % (d.name(), '; '.join('((%d)%%Z, (%d)%%Z)' % (p, v) for p, v in g)))
print('Definition ex3_prog : list op :=\n  %s.' % to_coq(prog))
print('Definition ex3_env : env := env_full\n  [%s]%%string\n  [%s]%%string\n  [%s]%%string\n  [%s]%%string.' % (iv, bv, '; '.join(av), '; '.join(fv)))
print('(* spec_all clauses: %d, asserts: %d *)' % (len(sp), len(ma)))
