"""(re)generate known_findings.json from the hand-written list below (committed; never written at run time)"""
import json, sys
sys.path.insert(0, '/verif/harness')
from terms import *
T = lambda i, kind, opt=False, work=0, rel=None, due=None: ('ONewTask', N(i), kind, opt, Z(work), optZ(rel), optZ(due), True, Z(1))
W = lambda i: ('ONewWorker', N(i), Z(1), ('CostConst', Z(0)))
F = []
def open_(fid, prop, clause_kind, clause, prog, text, pin=None):
    F.append(dict(id=fid, property=prop, status='open', clause_kind=clause_kind,
                  witness=dict(program=dump(prog), program_pretty=[to_coq(o) for o in prog], clause=clause, pin=pin or {}), text=text))
def fixed(fid, prop, commit, text):
    F.append(dict(id=fid, property=prop, status='fixed', commit=commit, text='fixed: property=%s %s %s' % (prop, commit, text)))

open_('F05', 'C03', 'scheduleN_upper', 'C03/cons:1/scheduleN_upper',
      [('ONewProblem', Some(Z(20))), T(1, ('KFixed', Z(2))), T(2, ('KFixed', Z(2))),
       ('ONewConstraint', N(1), False, ('CScheduleN', [N(1), N(2)], Z(1), [P(Z(0), Z(10))], ('PbExact',)))],
      'ScheduleNTasksInTimeIntervals kind max/exact does not bound the count from above: the per-interval Booleans are only '
      'implied-inside (Implies(b, inside)), so two tasks inside (0,10) with exact n=1 are admitted [F05]',
      pin={'T1_start': 0, 'T2_start': 3})
open_('F07u', 'C04', 'unavailable_late', 'C04/cons:1/unavailable_late',
      [('ONewProblem', Some(Z(20))), W(1), T(1, ('KFixed', Z(3))), ('OAddRequired', N(1), ('ArgW', ('WPlain', N(1))), False, Z(0), Z(0)),
       ('ONewConstraint', N(1), False, ('CUnavailable', ('ResW', ('WPlain', N(1))), [P(Z(0), Z(5))])),
       T(2, ('KFixed', Z(3))), ('OAddRequired', N(2), ('ArgW', ('WPlain', N(1))), False, Z(0), Z(0))],
      'a task assigned to the resource after ResourceUnavailable was created is not constrained by it: '
      "task T2 at [1,4) inside the unavailable window (0,5) is admitted [F07]", pin={'T2_start': 1})
open_('F07w', 'C04', 'workload_late', 'C04/cons:1/workload_late',
      [('ONewProblem', Some(Z(20))), W(1), T(1, ('KFixed', Z(3))), ('OAddRequired', N(1), ('ArgW', ('WPlain', N(1))), False, Z(0), Z(0)),
       ('ONewConstraint', N(1), False, ('CWorkLoad', ('ResW', ('WPlain', N(1))), [P(P(Z(0), Z(10)), Z(3))], ('PbMax',))),
       T(2, ('KFixed', Z(3))), ('OAddRequired', N(2), ('ArgW', ('WPlain', N(1))), False, Z(0), Z(0))],
      'a task assigned to the resource after WorkLoad was created is not counted in the workload of its windows [F07]',
      pin={'T1_start': 0, 'T2_start': 4})
open_('F07i', 'C04', 'interrupted_late', 'C04/cons:1/interrupted_late',
      [('ONewProblem', Some(Z(20))), W(1), T(1, ('KFixed', Z(3))), ('OAddRequired', N(1), ('ArgW', ('WPlain', N(1))), False, Z(0), Z(0)),
       ('ONewConstraint', N(1), False, ('CInterrupted', ('ResW', ('WPlain', N(1))), [P(Z(0), Z(5))])),
       T(2, ('KFixed', Z(3))), ('OAddRequired', N(2), ('ArgW', ('WPlain', N(1))), False, Z(0), Z(0))],
      'a task assigned to the resource after ResourceInterrupted was created may overlap the interruption [F07]', pin={'T2_start': 1})

TD = lambda i, kind, opt=False, due=None, prio=1: ('ONewTask', N(i), kind, opt, Z(0), None, optZ(due), False, Z(prio))
REQ = lambda t, w: ('OAddRequired', N(t), ('ArgW', ('WPlain', N(w))), False, Z(0), Z(0))
open_('F34', 'C08', 'flowtime_single_resource', 'C08/ind:1/flowtime_single_resource',
      [('ONewProblem', Some(Z(10))), W(1), T(1, ('KFixed', Z(2))), T(2, ('KFixed', Z(2))), REQ(1, 1), REQ(2, 1),
       ('ONewObjective', ('OFlowtimeSingle', ('ResW', ('WPlain', N(1))), None), N(1))],
      'the indicator behind ObjectiveMinimizeFlowtimeSingleResource is not a function of the schedule: the min side tests '
      'start <= lower_bound and both extrema are Or-of-implications, so values other than (latest end - earliest start) are admitted [F34]',
      pin={'T1_start': 0, 'T2_start': 5})
open_('F38', 'C08', 'max_lateness_optional', 'C08/ind:1/max_lateness_optional',
      [('ONewProblem', Some(Z(30))), TD(1, ('KFixed', Z(1)), due=25), TD(2, ('KFixed', Z(2)), opt=True, due=6),
       ('ONewIndicator', N(1), ('IMaxLateness', None), None)],
      'IndicatorMaximumLateness takes the maximum over unscheduled optional tasks too (their end is the point in the past '
      '-task_number): T1 ends at 1 with due date 25 (lateness -24) and the unscheduled T2 contributes -2 - 6 = -8 [F38]',
      pin={'T1_start': 0, 'T2_scheduled': False})
open_('F18', 'C08', 'nb_tasks_cumulative', 'C08/ind:1/nb_tasks_cumulative',
      [('ONewProblem', Some(Z(10))), ('ONewCumulative', N(1), Z(2), Z(2), ('CostConst', Z(0))), T(1, ('KFixed', Z(3))),
       ('OAddRequired', N(1), ('ArgC', N(1)), False, Z(0), Z(0)), ('ONewIndicator', N(1), ('INbTasks', ('ResC', N(1))), None)],
      'resource indicators on a CumulativeWorker read the (empty) busy dictionary of the wrapper object instead of its unit '
      'workers: number of tasks assigned, utilisation, idle are always 0 [F18]')
open_('F07n', 'C08', 'nb_tasks_late', 'C08/ind:1/nb_tasks_late',
      [('ONewProblem', Some(Z(20))), W(1), T(1, ('KFixed', Z(3))), REQ(1, 1),
       ('ONewIndicator', N(1), ('INbTasks', ('ResW', ('WPlain', N(1)))), None), T(2, ('KFixed', Z(3))), REQ(2, 1)],
      'a resource indicator only sees the busy intervals that exist when it is created: a task assigned to the worker afterwards '
      'is not counted [F07]')

open_('F13', 'C09', 'level_after_change_optional', 'C09/buf:1/level_after_change_optional',
      [('ONewProblem', Some(Z(10))), T(1, ('KFixed', Z(2)), opt=True), T(2, ('KFixed', Z(2))),
       ('ONewBuffer', N(1), False, Some(Z(5)), None, None, None),
       ('ONewConstraint', N(1), False, ('CUnload', N(1), N(1), Z(3))), ('ONewConstraint', N(2), False, ('CLoad', N(2), N(1), Z(1)))],
      'an optional task that is not scheduled still loads / unloads its buffers (at its point in the past -task_number): '
      'levels [5, 2, 3] although the unloading task is not scheduled [F13]', pin={'T1_scheduled': False})

F.append(dict(id='F26', property='C11', status='open', clause_kind='views_disagree_early_out',
              witness=dict(program_pretty=['FixedDurationTask T(duration=2) at 0', 'T.add_required_resource(W, early_out=5)'],
                           observed="solution.tasks['T'].assigned_resources == ['W'] while solution.resources['W'].assignments == []"),
              text='a static requirement whose early_out exceeds the task end gives the worker a busy interval with a negative end: '
                   'the resource report drops it while the task still lists the worker [F26]'))
F.append(dict(id='F04', property='C11', status='open', clause_kind='views_disagree_cumulative_in_select',
              witness=dict(program_pretty=['SelectWorkers([CumulativeWorker(size=2), W])', 'three tasks requiring the selection'],
                           observed="tasks list the cumulative worker, solution.resources has no (or an empty) report for it"),
              text='a CumulativeWorker listed inside a SelectWorkers gets its busy interval on the wrapper object, which build_solution '
                   '(and initialize) never visit: tasks list it, no resource report mentions them [F04]'))

F.append(dict(id='F25', property='C16', status='open', clause_kind='excel_negative_start',
              witness=dict(program_pretty=['an optional task left unscheduled (reported start = end = -task_number)', 'solution.to_excel_file(f)'],
                           observed='the Task view writes the bar of the unscheduled task at column start + 1 <= 0: column 0 is the task-name column (the name of '
                                    'the first task is overwritten), negative columns are dropped by xlsxwriter'),
              text='Excel export: a task reported with a negative start (an unscheduled optional task sits at -task_number) is written at column start + 1 <= 0: '
                   'over the task-name column or nowhere [F25]'))

F.append(dict(id='F25b', property='C16', status='open', clause_kind='excel_cells_overwritten',
              witness=dict(program_pretty=['a worker with a zero-length busy interval (dynamic assignment, or a ZeroDurationTask) at instant x',
                                           'and another assignment of the same worker covering [x, x+1)', 'solution.to_excel_file(f)'],
                           observed='both are written to column x + 1 of the same row: the later write replaces the earlier one'),
              text='Excel export: a zero-length assignment is written as one cell, like a unit-length one, and may overwrite (or be overwritten by) '
                   'another assignment of the same row [F25]'))

F.append(dict(id='F41', property='C16', status='open', clause_kind='excel_overlapping_range',
              witness=dict(program_pretty=['CumulativeWorker C1 (size 3)', 'two tasks of length > 1 requiring C1, scheduled at overlapping times', 'solution.to_excel_file(f)'],
                           observed="xlsxwriter.exceptions.OverlappingRange: Merge range 'J4:M4' overlaps previous merge range 'H4:L4'"),
              text='Excel export fails (OverlappingRange) for a valid solution in which a cumulative worker processes two tasks at overlapping times: '
                   'both bars are merged ranges of the same row [F41]'))

F.append(dict(id='F47', property='C07', status='open', clause_kind='builtin-optimizer-unreliable',
              witness=dict(program_pretty=['horizon 5', "T1 = FixedDurationTask(duration=2, optional=True)", "T2 = FixedDurationTask(duration=1)",
                                           'maximise T1.end + 2 * T2.end with optimizer="optimize"', 'repeat 40 times in one process'],
                           observed='value 15 in 34 runs, 9 (T1 left unscheduled) in 6; the same with raw z3.Optimize 4.12.6 and no library code, in every priority mode'),
              text='optimizer="optimize": z3.Optimize (4.12) returns a non-optimal model in about one run in ten on some tiny problems (reproduced with raw z3, '
                   'no library code involved); the check solves three times and reports a disagreement with the incremental optimiser only when it shows every time [F47]'))

for _p in ('C15', 'C19'):
    F.append(dict(id='F48' + ('' if _p == 'C15' else 'b'), property=_p, status='open', clause_kind='z3-abort-debug-optimize',
                  witness=dict(case='corpus/C15/F48.json', observed='ASSERTION VIOLATION File: ../src/ast/ast.cpp Line: 388 UNEXPECTED CODE WAS REACHED. Z3 4.12.6.0 (the process is aborted)'),
                  text="debug=True together with optimizer='optimize' on some infeasible problems: z3 aborts the process (ASSERTION VIOLATION in ast.cpp) when the unsat core is "
                       "requested from z3.Optimize; the check sets these configurations aside [F48]"))

F.append(dict(id='F47b', property='C15', status='open', clause_kind='builtin-optimizer-unreliable',
              witness=dict(case='see F47 (C07)'),
              text='optimizer="optimize": z3.Optimize (4.12) returns a non-optimal model in about one run in ten on some tiny problems (raw z3); a configuration '
                   'whose three attempts give different optima is left out of the comparison of optima [F47]'))

F.append(dict(id='F46', property='C16', status='open', clause_kind='smt2_symbol_leading_digit',
              witness=dict(program_pretty=["FixedDurationTask(name='2ndTask', duration=2)", "solver.export_to_smt2(f)", "z3.parse_smt2_file(f)"],
                           observed='(error "line 3 column 13: invalid function declaration, symbol expected")'),
              text="SMT-LIB export: z3's printer writes a constant whose name starts with a digit (task '2ndTask' -> 2ndTask_start) unquoted, "
                   "the exported file does not parse; names with spaces or '#' are quoted correctly [F46]"))

F.append(dict(id='F27', property='C14', status='open', clause_kind='adversarial_names',
              witness=dict(program_pretty=["tasks 'T', 'W_busy_T'; worker 'W' required by 'T'  (two roles share the z3 constant W_busy_T_start)",
                                           "a plain worker named 'X_CumulativeWorker_1' is reported as resource 'X'"],
                           observed='infeasible although the consistently renamed problem is feasible / resource reported under another name'),
              text='element names are pasted into z3 constant names and split on "_CumulativeWorker_": names that contain the infixes the library uses '
                   '(_busy_, _start, _CumulativeWorker_) or that make two roles share a constant change the constraint system or the report [F27, F28]'))
F.append(dict(id='F23', property='C14', status='open', clause_kind='order_parking_collision',
              witness=dict(program_pretty=['T2 optional, required directly on W1; T1 via SelectWorkers([W1, W2]); ResourceNonDelay(W1) / a sort over the busy intervals of W1',
                                           'declare T1, T2 versus T2, T1'],
                           observed='infeasible versus feasible: the point in the past -task_number of the unscheduled task meets the unique negative integer of the unselected worker'),
              text='declaration order changes the schedule set when an optional task and an alternative-worker selection share a worker: an unscheduled task is parked at '
                   '-task_number, an unselected worker at a unique negative integer, and both numberings depend on declaration order [F23]'))

F.append(dict(id='F22', property='C13', status='open', clause_kind='reinit-multiobjective',
              witness=dict(case='corpus/C13/F22.json'),
              text="initialize() a second time (or a second SchedulingSolver) on a problem with two objectives raises ValueError: build_equivalent_weighted_objective registers 'EquivalentIndicator' / 'MinimizeEquivalentObjective' in the problem itself [F22]"))
F.append(dict(id='F43', property='C15', status='open', clause_kind='optimum-differs-debug-optimize',
              witness=dict(case='corpus/C15/F43.json',
                           observed="optimizer='optimize', debug=True: ObjectiveTasksStartLatest returns start 1 where every other configuration returns 5"),
              text="debug=True together with optimizer='optimize' may return a valid but non-optimal schedule: in debug mode the assertions reach z3.Optimize "
                   "through assert_and_track, and z3 4.12 then does not optimise reliably (start 1 instead of 5 on the corpus witness; removing a redundant "
                   "assertion restores the optimum) [F43]"))

fixed('F01', 'C01', '417f19d', 'ZeroDurationTask + TaskStartAt(-3): returned start = end = -3 (no start >= 0)')
fixed('F02', 'C06', '417f19d', 'optional ZeroDurationTask had no scheduled variable (reported scheduled=False with start 2)')
fixed('F03', 'C02', 'f96816e', 'dynamic assignment admitted busy_end < busy_start (assignment (T, 22382, 0), cost -111910)')
fixed('F14', 'C10', '7a4d59f', 'Or([TasksContiguous([a,b]), TaskStartAt(c,11)]) flattened the operand assertions: accepted a schedule violating both')
fixed('F10', 'C04', '1b830d4', 'DistinctWorkers over 3 common workers infeasible (!= on Booleans is xor)')
fixed('F19', 'C04', '801db69', 'ResourcePeriodicallyUnavailable/Interrupted on a CumulativeWorker raised AttributeError: cumulative_workers')
fixed('F11', 'C05', '13e1295', 'optional task with release_date=3 could not be left unscheduled')
fixed('F06', 'C05', '15f2b00', 'OrderedTaskGroup([A,B]) without window infeasible (time_interval_length defaulted to 0)')
fixed('F15', 'C08', '14c7a98', 'IndicatorTardiness counted (-k - due) * priority for an unscheduled optional task (-6)')
fixed('F16', 'C08', '36bcd4a', 'IndicatorResourceUtilization with horizon 7: fully busy worker reported 98; horizon > 100: always 0')
fixed('F17', 'C08', '421b4db', "IndicatorTardiness and IndicatorNumberOfTardyTasks both reported under 'Total tardiness'")
fixed('F20', 'C12', '2f459fe', 'solve(); find_another_solution() with an optional task raised Z3Exception (chained != ==)')
fixed('F21', 'C13', '6c71f70', 'ObjectiveMinimizeMakespan: solve(); solve() -> second returns False (pushed bounds never popped)')
fixed('F24', 'C16', '366875c', "SchedulingSolver(optimizer='optimize').export_to_smt2 raised AttributeError: to_smt2")
fixed('F39', 'C08', 'c9f7563', 'IndicatorEarliness counted due - (-k) for an unscheduled optional task')
fixed('F40', 'C11', 'c7ed2c8', 'an unscheduled optional task with delay_in >= its task number was reported with the worker among its assigned resources')
fixed('F37', 'C15', '30e65c9', "optimizer='optimize' with optimize_priority='weight' built the equivalent weighted objective but never called minimize/maximize: a non-optimal schedule was returned (weighted sum 56 where 14 is optimal)")
fixed('F08', 'C04', 'fd37add', 'ResourcePeriodicallyUnavailable(W, [(2,4)], period=5): a 6-long task at 4 was admitted although it covers [7,9) (only the folded start was compared with the interval)')
fixed('F36', 'C04', '203b612', 'ResourcePeriodicallyInterrupted(W, [(2,4)], period=5): a 4-long fixed-duration task at 4 was admitted although it covers [7,8)')
fixed('F42', 'C04', 'f15b4a5', 'ResourcePeriodicallyInterrupted(W, [(1,3)], period=5, start=10): a task pinned at 0 (last busy interval of the worker) switched the constraint off for another task at [11,13)')
fixed('F12', 'C05', 'fe2de03', 'an optional task with work_amount > 0 and a required worker could not be left unscheduled (the work was due anyway): valid schedules lost')
fixed('F09', 'C05', '93ef46e', 'WorkLoad(W, {(3,6): 5}, max) rejected an 8-long task at 1 whose load in the window is 3: the three overlap cases that match a covering interval ask for three different values')
fixed('F29', 'C05', '322c6d3', 'TasksDontOverlap rejected two zero-duration tasks at the same instant (Xor of the two orders)')
fixed('F31', 'C05', '30d6fcd', 'UnorderedTaskGroup / OrderedTaskGroup with a time window could not contain an optional task left unscheduled (start >= group start asserted for its negative date)')
fixed('F45', 'C05', '2b47e45', "ResourcePeriodicallyUnavailable / ResourcePeriodicallyInterrupted with the default start=0 folded the parked (negative, zero-length) busy interval of an unselected alternative worker into the period: a task with two alternative workers, both unavailable (1,4) every 5, had no solution although T=[0,1) on either worker is valid")
fixed('F44', 'C15', '66057eb', "logics='QF_LIA' (any logic without arrays) on a problem with a NonConcurrentBuffer: z3.SolverFor ignored the array assertions of the buffer level; a task unloading an empty buffer at instant 0 was scheduled (levels [0, 0, 0]) while the default solver answers unsat (corpus/C15/F44.json)")
fixed('F33', 'C10', '0f12cf3', 'IndicatorTarget / IndicatorBounds with optional=True were enforced even when not applied (assertion appended directly instead of through set_z3_assertions): an optional target that cannot be met made the problem unsatisfiable')
json.dump({'findings': F}, open('/verif/known_findings.json', 'w'), indent=1)
print(len(F), 'findings written')
