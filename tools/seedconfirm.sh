#!/bin/bash
# usage: tools/seedconfirm.sh <id>   -- confirm a candidate change from /tmp/seed_out/<id> in a scratch worktree:
# patch applies, demo fails with it and passes without, baseline suite passes with it.  Writes /tmp/seed_out/<id>/confirm.txt
id=$1
src=/tmp/seed_out/$id
wt=/tmp/wtc_$id
out=$src/confirm.txt
rm -rf $wt; git -C /repo worktree prune
git -C /repo worktree add -q --detach $wt HEAD || { echo "worktree failed" > $out; exit 2; }
( cd $wt
  if git apply --check $src/patch.diff 2>/dev/null; then echo "patch_applies=true"; else echo "patch_applies=false"; fi
  PYTHONPATH=$wt MPLBACKEND=Agg timeout 300 /venv/bin/python $src/demo.py > /dev/null 2>&1; echo "demo_pristine_exit=$?"
  git apply $src/patch.diff
  PYTHONPATH=$wt MPLBACKEND=Agg timeout 300 /venv/bin/python $src/demo.py > /dev/null 2>&1; echo "demo_patched_exit=$?"
  /venv/bin/python /tmp/seedtools/baseline.py $wt | head -5
) > $out 2>&1
git -C /repo worktree remove --force $wt
cat $out
