#!/bin/sh
# Full offline build of the Coq development (.vo, never -vos) and of the extracted model library.
cd "$(dirname "$0")/coq" || exit 2
mkdir -p extract/gen ../work
coq_makefile -f _CoqProject -o Makefile > /dev/null || exit 2
timeout 3000 make -j16 > ../work/build.log 2>&1
st=$?
grep -v "^COQDEP\|^COQC\|^CLEAN\|^make" ../work/build.log | head -60
if [ $st -ne 0 ]; then echo "BUILD FAILED (coq)"; exit 1; fi
cd extract/gen || exit 2
if [ ! -f model.cmx ] || [ model.ml -nt model.cmx ] || [ ../helpers.ml -nt helpers.cmx ] || [ ! -f main.ml ] || [ ../main.ml -nt main.ml ]; then
  cp ../helpers.ml ../main.ml .
  rm -f model.mli
  timeout 300 ocamlfind ocamlopt -w -a -c model.ml helpers.ml || { echo "BUILD FAILED (ocaml)"; exit 1; }
fi
echo "build ok"
