#!/bin/sh
# Full offline build of the Coq development (.vo, never -vos) and of the extracted model library.
set -e
cd "$(dirname "$0")/coq"
mkdir -p extract/gen
coq_makefile -f _CoqProject -o Makefile > /dev/null
timeout 3000 make -j16 2>&1 | grep -v "^COQDEP\|^COQC\|^CLEAN" || true
test -f extract/Extract.vo
cd extract/gen
cp ../helpers.ml ../main.ml .
rm -f model.mli
timeout 300 ocamlfind ocamlopt -w -a -c model.ml helpers.ml
echo "build ok"
