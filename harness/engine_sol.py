"""Engine for the properties about one returned solution (C11 report; C16 exports; C17 Gantt): theorems about the
Coq model of build_solution / export layout / bar geometry + correspondence O5/O6/O7: the real library solves
sampled programs, every returned solution is compared field by field with the model evaluated on the very valuation
z3 returned, plus direct checks of the property clauses on the real objects."""
import collections
import contextlib
import datetime
import io
import json
import multiprocessing as mp
import os
import random
import subprocess
import time
import traceback
import warnings

import common
import gen
import modelrun
import terms

CONFIG = {
    'C11': dict(profiles=['resources', 'indicators', 'buffers', 'optional', 'mixed'], n=(200, 3000)),
}

EPOCH = datetime.datetime(1970, 1, 1)
DELTAS = [None, None, 60_000_000, 90_000_000, 500_000, 2_500_000, 86_400_000_000, 3_600_000_000]
T0S = [None, datetime.datetime(2024, 1, 1, 8, 0, 0), datetime.datetime(2023, 12, 31, 23, 59, 30)]


def us(x):
    if x is None:
        return None
    if isinstance(x, datetime.datetime):
        d = x - EPOCH
    else:
        d = x
    return (d.days * 86400 + d.seconds) * 1_000_000 + d.microseconds


def show_z(z):
    return str(z) if z >= 0 else '(- %d)' % (-z)


def py_report(sol):
    """the same lines as Coq's solution_report, from the real SchedulingSolution"""
    lines = ['HORIZON ' + show_z(sol.horizon)]
    for name, t in sol.tasks.items():
        l = 'TASK %s %s %s %s %s [%s]' % (name, show_z(t.start), show_z(t.end), show_z(t.duration),
                                          'true' if t.scheduled else 'false', ','.join(t.assigned_resources))
        if t.duration_time is not None:
            l += ' %s %s %s' % (show_z(us(t.start_time)), show_z(us(t.end_time)), show_z(us(t.duration_time)))
        lines.append(l)
    for name, r in sol.resources.items():
        lines.append('RES %s %s' % (name, ';'.join('%s,%s,%s' % (a[0], show_z(a[1]), show_z(a[2])) for a in r.assignments)))
    for name, b in sol.buffers.items():
        lines.append('BUF %s %s | %s' % (name, ','.join(show_z(x) for x in b.level), ','.join(show_z(x) for x in b.level_change_times)))
    for name, v in sol.indicators.items():
        lines.append('IND %s = %s' % (name, show_z(v)))
    return lines


def canon(lines):
    """order-insensitive form: lists inside a line and the lines of one category are sorted"""
    out = []
    for l in lines:
        if l.startswith('TASK '):
            a, _, rest = l.partition('[')
            names, _, tail = rest.partition(']')
            l = a + '[' + ','.join(sorted(x for x in names.split(',') if x)) + ']' + tail
        elif l.startswith('RES '):
            parts = l.split(' ', 2)
            asg = parts[2] if len(parts) > 2 else ''
            l = parts[0] + ' ' + parts[1] + ' ' + ';'.join(sorted(x for x in asg.split(';') if x))
        out.append(l.rstrip())
    return sorted(out)


def clause_checks(prog, sol, delta_us, t0):
    """direct checks of the C11 clauses on the real object -> list of (kind, detail)"""
    bad = []
    reqs = collections.defaultdict(list)
    uses_rc_in_select = any(o[0] == 'ONewSelect' and any(r[0] == 'RC' for r in o[2]) for o in prog)
    rank = {}
    for o in prog:
        if o[0] == 'ONewTask':
            rank['T%d' % terms.nval(o[1])] = len(rank) + 1
        if o[0] == 'OAddRequired':
            reqs['T%d' % terms.nval(o[1])].append(o)
    for name, t in sol.tasks.items():
        if t.scheduled and t.end - t.start != t.duration:
            bad.append(('duration', '%s: end - start = %d, duration = %d' % (name, t.end - t.start, t.duration)))
        if t.end > sol.horizon:
            bad.append(('horizon', '%s ends at %d after the horizon %d' % (name, t.end, sol.horizon)))
        direct = [o for o in reqs[name] if o[2][0] == 'ArgW']
        if not t.scheduled and t.assigned_resources:
            bad.append(('unscheduled_assigned', '%s not scheduled but lists %s' % (name, t.assigned_resources)))
        for rname, r in sol.resources.items():
            listed = rname in t.assigned_resources
            has = any(a[0] == name for a in r.assignments)
            if listed != has:
                kind = 'views_disagree'
                # known finding F26: a static requirement whose early_out exceeds the task end gives the busy
                # interval a negative end: the worker side drops it, the task side keeps it
                for o in direct:
                    if 'W%d' % terms.nval(o[2][1][1]) == rname and not o[3] and t.scheduled \
                            and t.end - max(0, terms.zval(o[5])) < 0 <= t.start + max(0, terms.zval(o[4])):
                        kind = 'views_disagree_early_out'
                # known finding F04: the cumulative worker is listed in a selection this task requires
                for o in reqs[name]:
                    if o[2][0] == 'ArgS':
                        for so in prog:
                            if so[0] == 'ONewSelect' and terms.nval(so[1]) == terms.nval(o[2][1]) \
                                    and any(r[0] == 'RC' and 'C%d' % terms.nval(r[1]) == rname for r in so[2]):
                                kind = 'views_disagree_cumulative_in_select'
                bad.append((kind, '%s / %s: task lists=%s resource lists=%s' % (name, rname, listed, has)))
        for rname in t.assigned_resources:
            if rname not in sol.resources:
                bad.append(('views_disagree_cumulative_in_select' if uses_rc_in_select else 'views_disagree',
                            '%s lists %s which has no resource report' % (name, rname)))
        if delta_us is not None:
            st = us(t.start_time)
            want = (us(t0) if t0 is not None else 0) + t.start * delta_us
            if st != want or us(t.duration_time) != t.duration * delta_us or us(t.end_time) - st != t.duration * delta_us:
                bad.append(('calendar', '%s: start_time %s (want %s) duration_time %s (want %s)' % (
                    name, st, want, us(t.duration_time), t.duration * delta_us)))
        # assignment intervals implied by the requirement
        sel_workers = set()
        for o in reqs[name]:
            if o[2][0] == 'ArgS':
                for so in prog:
                    if so[0] == 'ONewSelect' and terms.nval(so[1]) == terms.nval(o[2][1]):
                        sel_workers |= {'W%d' % terms.nval(r[1][1]) for r in so[2] if r[0] == 'RW' and r[1][0] == 'WPlain'}
        for o in direct:
            w = 'W%d' % terms.nval(o[2][1][1]) if o[2][1][0] == 'WPlain' else None
            # (a worker required both directly and through a selection has one busy entry, the last one registered)
            if w is None or w not in sol.resources or not t.scheduled or w in sel_workers:
                continue
            ivs = [a for a in sol.resources[w].assignments if a[0] == name]
            for a in ivs:
                if o[3]:
                    ok = t.start <= a[1] <= a[2] <= t.end
                else:
                    ok = a[1] == t.start + max(0, terms.zval(o[4])) and a[2] == t.end - max(0, terms.zval(o[5]))
                if not ok:
                    bad.append(('assignment_interval', '%s on %s: %s vs task [%d,%d]' % (name, w, a, t.start, t.end)))
    for rname in sol.resources:
        if '_CumulativeWorker_' in rname:
            bad.append(('cumulative_name', rname))
    return bad


def observe(args):
    idx, prog, seed, tier = args
    import z3
    import processscheduler as ps
    import impl
    out = {'idx': idx, 'error': None, 'sols': [], 'status': None}
    try:
        r = random.Random(seed * 104729 + idx)
        im = impl.Impl()
        res = im.run(prog)
        if res[0] != 'ok' or im.pb is None:
            out['status'] = 'rejected'
            return out
        delta_us = r.choice(DELTAS)
        t0 = r.choice(T0S) if delta_us is not None else None
        if delta_us is not None:
            im.pb.delta_time = datetime.timedelta(microseconds=delta_us)
            if t0 is not None:
                im.pb.start_time = t0
        out['delta'] = delta_us
        out['t0'] = us(t0)
        has_obj = any(o[0] == 'ONewObjective' for o in prog)
        kw = dict(max_time=10)
        if has_obj:
            kw['max_iter'] = r.choice([1, 2, 3])
        with contextlib.redirect_stdout(io.StringIO()), warnings.catch_warnings():
            warnings.simplefilter('ignore')
            solver = ps.SchedulingSolver(problem=im.pb, **kw)
            im.solver = solver
            sol = solver.solve()
        nsol = 0
        while sol and nsol < 3:
            model = solver._model
            # valuation under canonical names
            consts = impl.consts_in_order(list(solver._solver.assertions()))
            im._pairs = None
            pairs = im.rename_pairs()
            ren = {a.get_id(): b for a, b in pairs}
            vals_i, vals_b = {}, {}
            for c in consts:
                tgt = ren.get(c.get_id(), c)
                v = model.eval(c, model_completion=True)
                if z3.is_int_value(v):
                    vals_i[tgt.decl().name()] = v.as_long()
                elif z3.is_true(v) or z3.is_false(v):
                    vals_b[tgt.decl().name()] = bool(z3.is_true(v))
            out['sols'].append({'report': py_report(sol), 'ivals': vals_i, 'bvals': vals_b,
                                'clauses': clause_checks(prog, sol, delta_us, t0)})
            nsol += 1
            if nsol >= 3 or r.random() < 0.4:
                break
            with contextlib.redirect_stdout(io.StringIO()), warnings.catch_warnings():
                warnings.simplefilter('ignore')
                sol = solver.find_another_solution()
        out['status'] = 'solved' if out['sols'] else 'nosolution'
    except Exception:
        out['error'] = traceback.format_exc()[-1500:]
    return out


def model_solutions(ctx, cases):
    """cases: list of (prog, ivals, bvals, delta, t0) -> list of report line lists (extracted model)"""
    d = os.path.join(ctx.work, 'mlsol')
    os.makedirs(d, exist_ok=True)
    oz = lambda v: 'None' if v is None else 'Some (z_ (%d))' % v
    with open(os.path.join(d, 'cases.ml'), 'w') as f:
        f.write('open Model\nopen Helpers\n')
        for i, (prog, iv, bv, delta, t0) in enumerate(cases):
            f.write('let p%d = %s\n' % (i, terms.to_ocaml(prog)))
            f.write('let iv%d = [%s]\n' % (i, '; '.join('(s_ "%s", z_ (%d))' % (k, v) for k, v in sorted(iv.items()))))
            f.write('let bv%d = [%s]\n' % (i, '; '.join('(s_ "%s", %s)' % (k, 'true' if v else 'false') for k, v in sorted(bv.items()))))
        f.write('let cases = [' + '; '.join('(p%d, iv%d, bv%d, %s, %s)' % (i, i, i, oz(c[3]), oz(c[4])) for i, c in enumerate(cases)) + ']\n')
    with open(os.path.join(d, 'main.ml'), 'w') as f:
        f.write('let str (l : char list) : string = String.of_seq (List.to_seq l)\n'
                'let () = List.iteri (fun i (p, iv, bv, d, t) -> print_string ("CASE " ^ string_of_int i ^ "\\n");\n'
                '  List.iter (fun l -> print_string (str l); print_char \'\\n\') (Model.solution_of p Model.default_cfg iv bv d t)) Cases.cases\n')
    cmd = ['ocamlfind', 'ocamlopt', '-w', '-a', '-I', modelrun.GEN, os.path.join(modelrun.GEN, 'model.cmx'),
           os.path.join(modelrun.GEN, 'helpers.cmx'), 'cases.ml', 'main.ml', '-o', 'run']
    r = subprocess.run(['bash', '-c', 'ulimit -s unlimited 2>/dev/null; exec "$@"', 'sh'] + cmd, cwd=d, capture_output=True, text=True, timeout=900)
    if r.returncode != 0:
        raise RuntimeError('ocaml build failed: ' + r.stderr[:2000])
    r = subprocess.run(['bash', '-c', 'ulimit -s unlimited 2>/dev/null; exec ./run'], cwd=d, capture_output=True, text=True, timeout=900)
    reps, cur = [], None
    for line in r.stdout.split('\n'):
        if line.startswith('CASE '):
            cur = []
            reps.append(cur)
        elif line and cur is not None:
            cur.append(line)
    return reps


def kernel_solutions(ctx, cases):
    vf = os.path.join(ctx.work, 'ksol.v')
    oz = lambda v: 'None' if v is None else '(Some (%d)%%Z)' % v
    with open(vf, 'w') as f:
        f.write('From Coq Require Import ZArith List Bool String.\nFrom PS.model Require Import Smt Enc Ind Prog Solution Driver.\n'
                'Import ListNotations.\nOpen Scope string_scope.\n')
        for i, (prog, iv, bv, delta, t0) in enumerate(cases):
            f.write('Definition p%d : list op := %s.\n' % (i, terms.to_coq(prog)))
            f.write('Eval vm_compute in ("CASE" :: solution_of p%d default_cfg [%s] [%s] %s %s).\n' % (
                i, '; '.join('("%s", (%d)%%Z)' % (k, v) for k, v in sorted(iv.items())),
                '; '.join('("%s", %s)' % (k, 'true' if v else 'false') for k, v in sorted(bv.items())), oz(delta), oz(t0)))
    r = subprocess.run(['coqc'] + common.COQFLAGS + [vf], cwd=common.COQ, capture_output=True, text=True, timeout=1800)
    if r.returncode != 0:
        raise RuntimeError('coqc failed: ' + (r.stderr or r.stdout)[:2000])
    reps = []
    for ch in r.stdout.split(': list string'):
        if '= [' not in ch:
            continue
        reps.append([l for l in modelrun.coq_string_lines(ch) if l != 'CASE'])
    return reps


def run(ctx, replay=None):
    cfg = CONFIG[ctx.prop]
    quick = ctx.tier == 'quick'
    ok, blog = common.build(ctx)
    if not ok:
        path = common.write_replay(ctx, 'build', {'kind': 'build-failed', 'log': blog})
        common.violation(ctx, path, found_input=False)
        common.write_evidence(ctx, 'proof', {'obligations': 1, 'discharged': 0, 'checker_cmd': './build.sh',
                                             'trusted_base': common.TRUSTED_BASE, 'explanation': 'build failed'}, [])
        return
    po = common.proof_obligations(ctx.prop)
    bad = common.hygiene()
    n_obl = len(po['theorems'])
    discharged = n_obl if (po['ok'] and po['all_printed']) else 0
    if not po['ok'] or not po['all_printed'] or bad:
        path = common.write_replay(ctx, 'proof', {'kind': 'proof-obligation', 'file': po['file'], 'log': po['log'], 'hygiene': bad})
        common.violation(ctx, path, found_input=False)
    if replay is not None:
        progs = [terms.from_jsonable(replay['program'])]
        per_profile = {'replay': 1}
    else:
        progs = []
        per_profile = {}
        d = os.path.join(common.VERIF, 'corpus', ctx.prop)
        if os.path.isdir(d):
            for fn in sorted(os.listdir(d)):
                if fn.endswith('.json'):
                    progs.append(terms.from_jsonable(json.load(open(os.path.join(d, fn)))['program']))
            per_profile['corpus'] = len(progs)
        n_total = cfg['n'][0 if quick else 1]
        for pi, pf in enumerate(cfg['profiles']):
            k = n_total // len(cfg['profiles'])
            progs += gen.generate(ctx.seed * 1000 + 50 + pi, k, pf, 'quick' if quick else 'thorough')
            per_profile[pf] = k
    t1 = time.time()
    with mp.get_context('fork').Pool(16) as pool:
        results = pool.map(observe, [(i, p, ctx.seed, ctx.tier) for i, p in enumerate(progs)], chunksize=2)
    t_impl = time.time() - t1
    cases, where = [], []
    stats = collections.Counter()
    for res in results:
        stats['status_' + str(res['status'])] += 1
        if res['error']:
            stats['harness_error'] += 1
        for k, s in enumerate(res['sols']):
            cases.append((progs[res['idx']], s['ivals'], s['bvals'], res.get('delta'), res.get('t0')))
            where.append((res['idx'], k))
    reports = []
    SH = 150
    for si in range(0, len(cases), SH):
        sub = cases[si:si + SH]
        ctx2 = collections.namedtuple('C', 'work')(os.path.join(ctx.work, 'sh%d' % si))
        reports += model_solutions(ctx2, sub)
    kslice = list(range(0, len(cases), max(1, len(cases) // 20)))[:20]
    kreps = kernel_solutions(ctx, [cases[i] for i in kslice]) if cases else []
    kernel_mismatch = [i for i, kr in zip(kslice, kreps) if kr != reports[i]]
    if kernel_mismatch:
        path = common.write_replay(ctx, 'extraction', {'kind': 'extraction-vs-kernel', 'cases': kernel_mismatch[:3]})
        common.violation(ctx, path, found_input=False)
    findings = common.load_findings(ctx.prop)
    open_kinds = {f['clause_kind']: f for f in findings if f['status'] == 'open'}
    known_hits = collections.Counter()
    breaks = []
    clause_viol = []
    for (idx, k), rep, res_case in zip(where, reports, cases):
        res = results[idx]
        s = res['sols'][k]
        stats['solutions'] += 1
        if canon(s['report']) == canon(rep):
            stats['reports_agree'] += 1
        else:
            a, b = canon(s['report']), canon(rep)
            diff = [x for x in a if x not in b][:3], [x for x in b if x not in a][:3]
            breaks.append((idx, k, diff))
        for kind, detail in s['clauses']:
            if kind in open_kinds:
                known_hits[kind] += 1
            else:
                clause_viol.append((idx, k, kind, detail))
    for res in results:
        if res['error']:
            breaks.append((res['idx'], -1, res['error'][-600:]))
    reported = 0
    for idx, k, kind, detail in clause_viol[:3]:
        path = common.write_replay(ctx, 'clause', {
            'kind': 'clause-violation', 'property': ctx.prop, 'clause': kind, 'detail': detail,
            'program': terms.dump(progs[idx]), 'program_pretty': [terms.to_coq(o) for o in progs[idx]],
            'solution_index': k, 'delta_us': results[idx].get('delta'), 't0_us': results[idx].get('t0'),
            'solution_report': results[idx]['sols'][k]['report'] if k >= 0 else None,
            'what': 'the solution object returned by the real library violates this clause of the property'})
        common.violation(ctx, path)
        reported += 1
    if breaks and reported == 0:
        idx, k, diff = breaks[0]
        # a differing report: the solution itself is the candidate failing input; it is a violation when a clause fails,
        # otherwise the correspondence is reported broken
        path = common.write_replay(ctx, 'report', {
            'kind': 'correspondence-broken', 'observable': 'O5 build_solution report', 'property': ctx.prop,
            'program': terms.dump(progs[idx]), 'program_pretty': [terms.to_coq(o) for o in progs[idx]],
            'solution_index': k, 'only_in_impl__only_in_model': diff, 'count': len(breaks),
            'delta_us': results[idx].get('delta'), 't0_us': results[idx].get('t0')})
        common.violation(ctx, path, found_input=False)
    for f in findings:
        if f['status'] == 'open' and known_hits.get(f['clause_kind']):
            common.known_finding(ctx, f['text'])
    distinct = len({terms.to_coq(progs[i]) for i, _ in where})
    samples = [{'program': [terms.to_coq(o) for o in progs[i]], 'solution': results[i]['sols'][k]['report']}
               for i, k in where[::max(1, len(where) // 3)][:3]]
    cov = {
        'obligations': n_obl, 'discharged': discharged,
        'checker_cmd': 'coqc %s %s  (after ./build.sh)' % (' '.join(common.COQFLAGS), po['file']),
        'trusted_base': common.TRUSTED_BASE + [
            'Print Assumptions: ' + '; '.join('%s: %s' % (t, po['assumptions'].get(t, 'NOT PRINTED')) for t in po['theorems'])],
        'theorems': po['theorems'], 'hygiene_hits': bad,
        'evaluations': len(progs), 'distinct_nontrivial': distinct,
        'rule': 'programs drawn by harness/gen.py from profiles %s with seed %d, solved by the real library (solve + up to 2 find_another_solution); '
                'non-trivial = the library returned at least one solution; distinct by program text' % (cfg['profiles'], ctx.seed),
        'samples': samples,
        'traces_validated_against_impl': stats['reports_agree'],
        'tie': dict(stats), 'kernel_route_crosscheck': {'cases': len(kslice), 'mismatches': len(kernel_mismatch)},
        'clause_checks': {'violations': len(clause_viol), 'known_hits': dict(known_hits)},
        'generator_distribution': {'per_profile': per_profile},
        'timing_s': {'impl': round(t_impl, 1)},
    }
    common.write_evidence(ctx, 'proof', cov, [
        'the theorems are about the Coq model of build_solution; the model is tied to /repo on every returned solution of the sampled programs (exact comparison of every reported field on the valuation z3 returned)',
        'z3 search itself is not modelled: which valuation is returned is an input of the comparison'])
