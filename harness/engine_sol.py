"""Engine for the properties about one returned solution (C11 report; C16 exports; C17 Gantt): theorems about the
Coq model of build_solution / export layout / bar geometry + correspondence O5/O6/O7: the real library solves
sampled programs, every returned solution is compared field by field with the model evaluated on the very valuation
z3 returned, plus direct checks of the property clauses on the real objects."""
import collections
import contextlib
import datetime
import io
import json
import multiprocessing as mp
import os
import random
import re
import subprocess
import time
import traceback
import warnings

import common
import gen
import modelrun
import terms

CONFIG = {
    'C11': dict(profiles=['resources', 'indicators', 'buffers', 'optional', 'mixed'], n=(200, 3000), extra=None),
    'C16': dict(profiles=['resources', 'indicators', 'buffers', 'optional', 'objectives'], n=(150, 2000), extra='export'),
    'C17': dict(profiles=['resources', 'buffers', 'optional', 'tasks', 'indicators'], n=(150, 2000), extra='gantt'),
}

EPOCH = datetime.datetime(1970, 1, 1)
DELTAS = [None, None, 60_000_000, 90_000_000, 500_000, 2_500_000, 86_400_000_000, 3_600_000_000]
T0S = [None, datetime.datetime(2024, 1, 1, 8, 0, 0), datetime.datetime(2023, 12, 31, 23, 59, 30)]


def us(x):
    if x is None:
        return None
    if isinstance(x, datetime.datetime):
        d = x - EPOCH
    else:
        d = x
    return (d.days * 86400 + d.seconds) * 1_000_000 + d.microseconds


def show_z(z):
    return str(z) if z >= 0 else '(- %d)' % (-z)


def py_report(sol):
    """the same lines as Coq's solution_report, from the real SchedulingSolution"""
    lines = ['HORIZON ' + show_z(sol.horizon)]
    for name, t in sol.tasks.items():
        l = 'TASK %s %s %s %s %s [%s]' % (name, show_z(t.start), show_z(t.end), show_z(t.duration),
                                          'true' if t.scheduled else 'false', ','.join(t.assigned_resources))
        if t.duration_time is not None:
            l += ' %s %s %s' % (show_z(us(t.start_time)), show_z(us(t.end_time)), show_z(us(t.duration_time)))
        lines.append(l)
    for name, r in sol.resources.items():
        lines.append('RES %s %s' % (name, ';'.join('%s,%s,%s' % (a[0], show_z(a[1]), show_z(a[2])) for a in r.assignments)))
    for name, b in sol.buffers.items():
        lines.append('BUF %s %s | %s' % (name, ','.join(show_z(x) for x in b.level), ','.join(show_z(x) for x in b.level_change_times)))
    for name, v in sol.indicators.items():
        lines.append('IND %s = %s' % (name, show_z(v)))
    return lines


def zparse(tokens):
    """integers printed as 12 or (- 3) at the start of a token list"""
    txt = ' '.join(tokens)
    m = re.match(r'\(- (\d+)\)|(-?\d+)', txt)
    return (-int(m.group(1)) if m.group(1) else int(m.group(2)),)


def canon(lines):
    """order-insensitive form: lists inside a line and the lines of one category are sorted"""
    out = []
    for l in lines:
        if l.startswith('TASK '):
            a, _, rest = l.partition('[')
            names, _, tail = rest.partition(']')
            l = a + '[' + ','.join(sorted(x for x in names.split(',') if x)) + ']' + tail
        elif l.startswith('RES '):
            parts = l.split(' ', 2)
            asg = parts[2] if len(parts) > 2 else ''
            l = parts[0] + ' ' + parts[1] + ' ' + ';'.join(sorted(x for x in asg.split(';') if x))
        out.append(l.rstrip())
    return sorted(out)


def clause_checks(prog, sol, delta_us, t0):
    """direct checks of the C11 clauses on the real object -> list of (kind, detail)"""
    bad = []
    reqs = collections.defaultdict(list)
    uses_rc_in_select = any(o[0] == 'ONewSelect' and any(r[0] == 'RC' for r in o[2]) for o in prog)
    rank = {}
    for o in prog:
        if o[0] == 'ONewTask':
            rank['T%d' % terms.nval(o[1])] = len(rank) + 1
        if o[0] == 'OAddRequired':
            reqs['T%d' % terms.nval(o[1])].append(o)
    for name, t in sol.tasks.items():
        if t.scheduled and t.end - t.start != t.duration:
            bad.append(('duration', '%s: end - start = %d, duration = %d' % (name, t.end - t.start, t.duration)))
        if t.end > sol.horizon:
            bad.append(('horizon', '%s ends at %d after the horizon %d' % (name, t.end, sol.horizon)))
        direct = [o for o in reqs[name] if o[2][0] == 'ArgW']
        if not t.scheduled and t.assigned_resources:
            bad.append(('unscheduled_assigned', '%s not scheduled but lists %s' % (name, t.assigned_resources)))
        for rname, r in sol.resources.items():
            listed = rname in t.assigned_resources
            has = any(a[0] == name for a in r.assignments)
            if listed != has:
                kind = 'views_disagree'
                # known finding F26: a static requirement whose early_out exceeds the task end gives the busy
                # interval a negative end: the worker side drops it, the task side keeps it
                for o in direct:
                    if 'W%d' % terms.nval(o[2][1][1]) == rname and not o[3] and t.scheduled \
                            and t.end - max(0, terms.zval(o[5])) < 0 <= t.start + max(0, terms.zval(o[4])):
                        kind = 'views_disagree_early_out'
                # known finding F04: the cumulative worker is listed in a selection this task requires
                for o in reqs[name]:
                    if o[2][0] == 'ArgS':
                        for so in prog:
                            if so[0] == 'ONewSelect' and terms.nval(so[1]) == terms.nval(o[2][1]) \
                                    and any(r[0] == 'RC' and 'C%d' % terms.nval(r[1]) == rname for r in so[2]):
                                kind = 'views_disagree_cumulative_in_select'
                bad.append((kind, '%s / %s: task lists=%s resource lists=%s' % (name, rname, listed, has)))
        for rname in t.assigned_resources:
            if rname not in sol.resources:
                bad.append(('views_disagree_cumulative_in_select' if uses_rc_in_select else 'views_disagree',
                            '%s lists %s which has no resource report' % (name, rname)))
        if delta_us is not None:
            st = us(t.start_time)
            want = (us(t0) if t0 is not None else 0) + t.start * delta_us
            if st != want or us(t.duration_time) != t.duration * delta_us or us(t.end_time) - st != t.duration * delta_us:
                bad.append(('calendar', '%s: start_time %s (want %s) duration_time %s (want %s)' % (
                    name, st, want, us(t.duration_time), t.duration * delta_us)))
        # assignment intervals implied by the requirement
        sel_workers = set()
        for o in reqs[name]:
            if o[2][0] == 'ArgS':
                for so in prog:
                    if so[0] == 'ONewSelect' and terms.nval(so[1]) == terms.nval(o[2][1]):
                        sel_workers |= {'W%d' % terms.nval(r[1][1]) for r in so[2] if r[0] == 'RW' and r[1][0] == 'WPlain'}
        for o in direct:
            w = 'W%d' % terms.nval(o[2][1][1]) if o[2][1][0] == 'WPlain' else None
            # (a worker required both directly and through a selection has one busy entry, the last one registered)
            if w is None or w not in sol.resources or not t.scheduled or w in sel_workers:
                continue
            ivs = [a for a in sol.resources[w].assignments if a[0] == name]
            for a in ivs:
                if o[3]:
                    ok = t.start <= a[1] <= a[2] <= t.end
                else:
                    ok = a[1] == t.start + max(0, terms.zval(o[4])) and a[2] == t.end - max(0, terms.zval(o[5]))
                if not ok:
                    bad.append(('assignment_interval', '%s on %s: %s vs task [%d,%d]' % (name, w, a, t.start, t.end)))
    for rname in sol.resources:
        if '_CumulativeWorker_' in rname:
            bad.append(('cumulative_name', rname))
    return bad


def col_index(letters):
    n = 0
    for ch in letters:
        n = n * 26 + (ord(ch) - 64)
    return n - 1


def read_xlsx(path):
    """-> {sheet title: [(row, c1, c2, value)]} from the raw xlsx (zip + XML), merged ranges resolved"""
    import zipfile
    import xml.etree.ElementTree as ET
    ns = {'m': 'http://schemas.openxmlformats.org/spreadsheetml/2006/main'}
    z = zipfile.ZipFile(path)
    shared = []
    if 'xl/sharedStrings.xml' in z.namelist():
        root = ET.fromstring(z.read('xl/sharedStrings.xml'))
        for si in root.findall('m:si', ns):
            shared.append(''.join(t.text or '' for t in si.iter('{%s}t' % ns['m'])))
    wb = ET.fromstring(z.read('xl/workbook.xml'))
    titles = [sh.get('name') for sh in wb.find('m:sheets', ns)]
    out = {}
    for k, title in enumerate(titles):
        root = ET.fromstring(z.read('xl/worksheets/sheet%d.xml' % (k + 1)))
        merges = {}
        mc = root.find('m:mergeCells', ns)
        if mc is not None:
            for m in mc:
                a, b = m.get('ref').split(':')
                ma = re.match(r'([A-Z]+)(\d+)', a)
                mb = re.match(r'([A-Z]+)(\d+)', b)
                merges[(int(ma.group(2)) - 1, col_index(ma.group(1)))] = col_index(mb.group(1))
        cells = []
        inside = set()
        for (r0, c0), c1 in merges.items():
            for cc in range(c0 + 1, c1 + 1):
                inside.add((r0, cc))
        for c in root.iter('{%s}c' % ns['m']):
            v = c.find('m:v', ns)
            m = re.match(r'([A-Z]+)(\d+)', c.get('r'))
            row, col = int(m.group(2)) - 1, col_index(m.group(1))
            if (row, col) in inside:
                continue          # padding of a merged range
            if v is None:
                val = ''          # a formatted blank cell: a bar without text
            else:
                val = shared[int(v.text)] if c.get('t') == 's' else v.text
            cells.append((row, col, merges.get((row, col), col), val))
        out[title] = cells
    return out


def export_lines(sol, solver, im, work, idx, k):
    """C16: the lines of Coq's export_report read back from the real exported files + direct comparisons"""
    import csv
    import ast
    import z3
    lines, probs = [], []
    # --- CSV (through the data frame) ---
    txt = sol.to_csv()
    rows = list(csv.DictReader(io.StringIO(txt)))
    df = sol.to_df()
    if len(rows) != len(sol.tasks) or len(df) != len(sol.tasks):
        probs.append(('csv_rows', '%d rows for %d tasks' % (len(rows), len(sol.tasks))))
    for row in rows:
        res = ast.literal_eval(row['Allocated Resources'])
        lines.append('DF %s [%s] %s %s %s %s' % (row['Task name'], ','.join(res), show_z(int(row['Start'])), show_z(int(row['End'])),
                                                  show_z(int(row['Duration'])), 'true' if row['Scheduled'] == 'True' else 'false'))
    for (_, r), name in zip(df.iterrows(), sol.tasks):
        t = sol.tasks[name]
        if (r['Task name'], list(r['Allocated Resources']), int(r['Start']), int(r['End']), int(r['Duration']), bool(r['Scheduled'])) != \
                (name, list(t.assigned_resources), t.start, t.end, t.duration, t.scheduled):
            probs.append(('dataframe_mismatch', name))
    # --- a caller that edits the frame it received must not change what the solution exports afterwards ---
    try:
        if len(df) > 0:
            df['Start'] = df['Start'] + 100
            df.drop(df.index[0], inplace=True)
        df2 = sol.to_df()
        rows2 = list(csv.DictReader(io.StringIO(sol.to_csv())))
        if len(df2) != len(sol.tasks) or len(rows2) != len(sol.tasks):
            probs.append(('export_after_edit_rows', '%d / %d rows for %d tasks' % (len(df2), len(rows2), len(sol.tasks))))
        for (_, r2), name in zip(df2.iterrows(), sol.tasks):
            t = sol.tasks[name]
            if (r2['Task name'], int(r2['Start']), int(r2['End'])) != (name, t.start, t.end):
                probs.append(('export_after_edit_mismatch', name))
                break
        for row2, name in zip(rows2, sol.tasks):
            t = sol.tasks[name]
            if (row2['Task name'], int(row2['Start']), int(row2['End'])) != (name, t.start, t.end):
                probs.append(('csv_after_edit_mismatch', name))
                break
    except Exception as e:
        probs.append(('export_after_edit_failed', type(e).__name__ + ': ' + str(e)[:80]))
    # --- JSON --- (indented and compact text, string and file)
    for compact in (False, True):
        tag = '_compact' if compact else ''
        try:
            text = sol.to_json(compact=compact)
            fnj = os.path.join(work, 'sol_%d_%d_%d%s.json' % (os.getpid(), idx, k, tag))
            sol.to_json_file(fnj, compact=compact)
            if open(fnj).read() != text:
                probs.append(('json_file_differs_from_string' + tag, ''))
            os.remove(fnj)
            js = json.loads(text)
        except Exception as e:
            probs.append(('json_export_failed' + tag, type(e).__name__))
            continue
        MISSING = object()
        for name, t in sol.tasks.items():
            jt = js.get('tasks', {}).get(name)
            if jt is None or tuple(jt.get(f, MISSING) for f in ('start', 'end', 'duration', 'scheduled', 'assigned_resources')) != \
                    (t.start, t.end, t.duration, t.scheduled, list(t.assigned_resources)):
                probs.append(('json_task_mismatch' + tag, name))
        for name, r in sol.resources.items():
            jr = js.get('resources', {}).get(name)
            if jr is None or 'assignments' not in jr or [tuple(a) for a in jr['assignments']] != [tuple(a) for a in r.assignments]:
                probs.append(('json_resource_mismatch' + tag, name))
        for name, b in sol.buffers.items():
            jb = js.get('buffers', {}).get(name)
            if jb is None or jb.get('level', MISSING) != list(b.level) or jb.get('level_change_times', MISSING) != list(b.level_change_times):
                probs.append(('json_buffer_mismatch' + tag, name))
        if js.get('indicators', MISSING) != dict(sol.indicators) or js.get('horizon', MISSING) != sol.horizon:
            probs.append(('json_indicator_mismatch' + tag, ''))
    # --- Excel ---
    fn = os.path.join(work, 'sol_%d_%d_%d.xlsx' % (os.getpid(), idx, k))
    sheets = None
    try:
        with warnings.catch_warnings():
            warnings.simplefilter('ignore')
            sol.to_excel_file(fn)
        sheets = read_xlsx(fn)
    except Exception as e:
        # finding F41: two simultaneous tasks of a cumulative worker are two overlapping merged ranges of one row
        kind = 'excel_overlapping_range' if type(e).__name__ == 'OverlappingRange' else 'excel_export_failed'
        probs.append((kind, '%s: %s' % (type(e).__name__, str(e)[:150])))
    if os.path.exists(fn):
        os.remove(fn)
    if sheets is None:
        lines.append('NOTE no-excel')
        sheets = {}
    for title, tag in (('GANTT Resource view', 'R'), ('GANTT Task view', 'T')):
        for (row, c1, c2, val) in sheets.get(title, []):
            if row == 0 or c1 == 0:
                continue          # header row, name column
            lines.append('XLS %s %d %s %s %s' % (tag, row, show_z(c1), show_z(c2), val))
    # every reported assignment of length >= 1 must be readable from the resource sheet (unless another assignment
    # of the same resource shares a cell with it: finding F25)
    rcells = {(row, c1, c2, val) for (row, c1, c2, val) in sheets.get('GANTT Resource view', []) if row > 0 and c1 > 0}
    for i, (rname, r) in enumerate(sol.resources.items()):
        spans = [(a[1] + 1, max(a[2], a[1] + 1)) for a in r.assignments]
        for a, (c1, c2) in zip(r.assignments, spans):
            clash = sum(1 for (d1, d2) in spans if d1 <= c2 and c1 <= d2) > 1
            if sheets and a[1] >= 0 and a[2] - a[1] >= 1 and a[2] < 16000 and not clash and (i + 1, c1, c2, a[0]) not in rcells:
                probs.append(('excel_assignment_missing', '%s: %s is not in the resource sheet' % (rname, (a,))))
    tcells = {(row, c1, c2, val) for (row, c1, c2, val) in sheets.get('GANTT Task view', []) if row > 0 and c1 > 0}
    for i, (tname, t) in enumerate(sol.tasks.items()):
        if sheets and t.start >= 0 and t.end - t.start >= 1 and t.end < 16000 and (i + 1, t.start + 1, t.end, ','.join(t.assigned_resources)) not in tcells:
            probs.append(('excel_task_bar_missing', '%s [%d,%d] is not in the task sheet' % (tname, t.start, t.end)))
    names_col = {(row): val for (row, c1, c2, val) in sheets.get('GANTT Task view', []) if c1 == 0 and row > 0}
    for i, name in enumerate(sol.tasks):
        if sheets and names_col.get(i + 1) != name:
            probs.append(('excel_task_name_overwritten', '%s: row %d shows %r' % (name, i + 1, names_col.get(i + 1))))
    for (row, c1, c2, val) in sheets.get('Indicators', []):
        pass
    ind = {}
    for (row, c1, c2, val) in sheets.get('Indicators', []):
        if row > 0:
            ind.setdefault(row, {})[c1] = val
    for row in sorted(ind):
        lines.append('XLS I %d %s = %s' % (row, ind[row].get(0), show_z(int(float(ind[row].get(1))))))
    # --- SMT-LIB ---
    fn = os.path.join(work, 'pb_%d_%d_%d.smt2' % (os.getpid(), idx, k))
    solver.export_to_smt2(fn)
    try:
        vec = z3.parse_smt2_file(fn)
        exported = z3.And(list(vec)) if len(vec) else z3.BoolVal(True)
        orig = z3.And(list(solver._solver.assertions())) if len(solver._solver.assertions()) else z3.BoolVal(True)
        # the parser creates its own constants: identify them by name
        s1 = z3.Solver()
        s1.set('timeout', 10000)
        # same names denote the same constants in one context, so the two formulas can be compared directly
        s1.add(exported != orig)
        r = s1.check()
        if r == z3.sat:
            probs.append(('smt2_differs', 'the exported file is not equivalent to the assertions the solver checks'))
        elif r == z3.unknown:
            lines.append('NOTE smt2 equivalence undecided')
    except z3.Z3Exception as e:
        probs.append(('smt2_does_not_parse', str(e)[:200]))
    # a second reader: a solver that loads the file as a script (it obeys the commands of the file, set-logic included) must
    # accept it and give the verdict a plain solver gives on the assertions of the exporting solver
    try:
        s2 = z3.Solver()
        s2.set('timeout', 10000)
        s2.from_file(fn)
        r2 = s2.check()
        s3 = z3.Solver()
        s3.set('timeout', 10000)
        s3.add(list(solver._solver.assertions()))
        r3 = s3.check()
        if z3.unknown not in (r2, r3) and r2 != r3:
            probs.append(('smt2_script_verdict', 'the exported file, loaded as a script, is %s; the assertions of the solver are %s' % (r2, r3)))
    except z3.Z3Exception as e:
        probs.append(('smt2_script_rejected', str(e)[:200]))
    os.remove(fn)
    return lines, probs


def roundtrip_checks(im):
    """C16: task and cost function definitions survive a JSON round trip"""
    import processscheduler as ps
    probs = []
    tasks = list(im.tasks.values())
    workers = [w for key, w in im.workers.items() if key[0] == 'WPlain']
    dumps = [(t, t.to_json()) for t in tasks]
    wdumps = [(w, w.to_json(), w.cost.to_json(), type(w.cost)) for w in workers]
    with contextlib.redirect_stdout(io.StringIO()):
        pb2 = ps.SchedulingProblem(name='roundtrip')
    for t, js in dumps:
        try:
            t2 = pb2.add_from_json(js)
        except Exception as e:
            probs.append(('json_roundtrip_task', '%s: %s' % (t.name, str(e)[:100])))
            continue
        a, b = t.model_dump(), t2.model_dump()
        if a != b:
            probs.append(('json_roundtrip_task', '%s: %s' % (t.name, [(k2, a[k2], b.get(k2)) for k2 in a if a[k2] != b.get(k2)][:3])))
    for w, js, cjs, ctype in wdumps:
        try:
            c2 = ctype.model_validate_json(cjs)
            if c2.model_dump() != w.cost.model_dump():
                probs.append(('json_roundtrip_cost', w.name))
            w2 = pb2.add_from_json(js)
            if w2.model_dump() != w.model_dump():
                probs.append(('json_roundtrip_worker', w.name))
        except Exception as e:
            probs.append(('json_roundtrip_cost', '%s: %s' % (w.name, str(e)[:100])))
    return probs


def gantt_lines(sol):
    """C17: the lines of Coq's gantt_report read from the matplotlib artists"""
    import math
    import matplotlib
    matplotlib.use('Agg')
    import matplotlib.pyplot as plt
    from processscheduler.plotter import render_gantt_matplotlib
    lines, probs = [], []

    def t20(x):
        v = x * 20
        if abs(v - round(v)) > 1e-6:
            probs.append(('gantt_coordinate_off_grid', repr(x)))
        return int(round(v))
    # the third and fourth charts are drawn while the previous chart of the same solution is still open (a caller that
    # renders several charts before showing them): each chart is its own figure
    passes = [('Resource', True), ('Task', True), ('Task', False), ('Resource', False)]
    for pi, (mode, fresh) in enumerate(passes):
        if fresh:
            plt.close('all')
        try:
            with warnings.catch_warnings():
                warnings.simplefilter('ignore')
                render_gantt_matplotlib(sol, show_plot=False, render_mode=mode)
        except Exception as e:
            probs.append(('gantt_render_failed', '%s: %s' % (mode, str(e)[:150])))
            continue
        fig = plt.gcf()
        ax = fig.axes[0]
        bars = []
        for coll in ax.collections:
            for path in coll.get_paths():
                xs = [v[0] for v in path.vertices]
                ys = [v[1] for v in path.vertices]
                bars.append((min(xs), max(xs) - min(xs), min(ys), max(ys) - min(ys)))
        texts = [(t.get_position(), t.get_text()) for t in ax.texts]
        if len(texts) != len(bars):
            probs.append(('gantt_text_count', '%d texts for %d bars' % (len(texts), len(bars))))
        for (x, w, y, h), ((tx, ty), txt) in zip(bars, texts):
            if abs(h - 2) > 1e-9 or abs(y / 2 - round(y / 2)) > 1e-9 or abs(ty - (y + 1)) > 1e-9:
                probs.append(('gantt_row_geometry', '%r' % ((x, w, y, h, tx, ty),)))
            if fresh:
                lines.append('GANTT %s %d %s %s %s %s' % (mode, int(round(y / 2)), show_z(t20(x)), show_z(t20(w)), show_z(t20(tx)), txt))
        for lab in ax.get_yticklabels():
            if fresh:
                lines.append('LABEL %s %s' % (mode, lab.get_text()))
        # direct check of the clauses on the artists
        eff = mode if sol.resources else 'Task'
        got = collections.Counter()
        for (x, w, y, h), ((tx, ty), txt) in zip(bars, texts):
            got[(int(round(y / 2)), round(x, 6), round(w, 6), txt)] += 1
        want = collections.Counter()
        if eff == 'Resource':
            for i, (rname, r) in enumerate(sol.resources.items()):
                for (tn, a, b) in r.assignments:
                    lo, ln = (a - 0.05, 0.1) if b - a == 0 else ((a, b - a) if b >= a else (b, a - b))
                    want[(i, round(lo, 6), round(ln, 6), tn)] += 1
        else:
            sched = [t for t in sol.tasks.values() if t.scheduled]
            for i, t in enumerate(sched):
                lo, ln = (t.start - 0.05, 0.1) if t.duration == 0 else (t.start, t.duration)
                want[(i, round(lo, 6), round(ln, 6), ','.join(t.assigned_resources) if t.assigned_resources else r'($\emptyset$)')] += 1
        if got != want:
            miss = list((want - got).elements())[:2]
            extra_ = list((got - want).elements())[:2]
            probs.append(('gantt_bars_differ_from_solution' if fresh else 'gantt_second_chart_differs_from_solution',
                          '%s view: missing %s, unexpected %s' % (eff, miss, extra_)))
        if mode == 'Resource' and len(fig.axes) > 1:
            want_steps = collections.Counter()
            for bname, b in sol.buffers.items():
                xs_ = [0] + list(b.level_change_times) + [sol.horizon]
                for j_, y_ in enumerate(b.level):
                    if j_ + 1 < len(xs_):
                        want_steps[(bname, xs_[j_], xs_[j_ + 1], y_)] += 1
            got_steps = collections.Counter()
            for ln in fig.axes[1].lines:
                xd, yd = list(ln.get_xdata()), list(ln.get_ydata())
                for j in range(0, len(xd) - 1, 3):
                    got_steps[(ln.get_label(), int(round(xd[j])), int(round(xd[j + 1])), int(round(yd[j])))] += 1
            if got_steps != want_steps:
                probs.append(('gantt_buffer_plot_differs', 'missing %s, unexpected %s' % (
                    list((want_steps - got_steps).elements())[:2], list((got_steps - want_steps).elements())[:2])))
            for ln in fig.axes[1].lines:
                xd, yd = list(ln.get_xdata()), list(ln.get_ydata())
                for j in range(0, len(xd) - 1, 3):
                    if abs(yd[j] - yd[j + 1]) > 1e-9 or not (math.isnan(xd[j + 2]) if j + 2 < len(xd) else True):
                        probs.append(('gantt_buffer_segment', ln.get_label()))
                    if fresh:
                        lines.append('STEP %s %s %s %s' % (ln.get_label(), show_z(int(round(xd[j]))), show_z(int(round(xd[j + 1]))),
                                                         show_z(int(round(yd[j])))))
    plt.close('all')
    return lines, probs


def use_solution(sol, work, idx, k):
    import matplotlib
    matplotlib.use('Agg')
    import matplotlib.pyplot as plt
    from processscheduler.plotter import render_gantt_matplotlib
    fn = os.path.join(work, 'use_%d_%d_%d' % (os.getpid(), idx, k))
    calls = [lambda: sol.to_df(), lambda: sol.to_csv(), lambda: sol.to_json(), lambda: sol.to_json(compact=True),
             lambda: sol.to_json_file(fn + '.json'), lambda: sol.to_excel_file(fn + '.xlsx'),
             lambda: render_gantt_matplotlib(sol, show_plot=False, render_mode='Resource'),
             lambda: render_gantt_matplotlib(sol, show_plot=False, render_mode='Task')]
    for c in calls:
        try:
            with warnings.catch_warnings():
                warnings.simplefilter('ignore')
                c()
        except Exception:
            pass
    plt.close('all')
    for ext in ('.json', '.xlsx'):
        if os.path.exists(fn + ext):
            os.remove(fn + ext)


ACCENTED = {'T': 'tâche', 'W': 'opérateur', 'C': 'équipe', 'S': 'sélection', 'K': 'règle', 'B': 'dépôt', 'I': 'indice', 'O': 'but'}


def accented_naming(kind, i):
    """free-text names outside ASCII (Latin-1 letters): what a user who does not write English calls his elements"""
    return '%s%d' % (ACCENTED.get(kind, kind), i)


def back_to_canonical(lines):
    out = []
    for l in lines:
        for k, w in ACCENTED.items():
            l = l.replace(w, k)
        out.append(l)
    return out


def observe(args):
    idx, prog, seed, tier, extra, work = args
    import z3
    import processscheduler as ps
    import impl
    out = {'idx': idx, 'error': None, 'sols': [], 'status': None}
    try:
        r = random.Random(seed * 104729 + idx)
        # every fourth export case: element names with accented letters (reports are compared under the canonical names)
        accented = extra == 'export' and idx % 4 == 1
        out['naming'] = 'accented' if accented else 'default'
        im = impl.Impl(naming=accented_naming) if accented else impl.Impl()
        res = im.run(prog)
        if res[0] != 'ok' or im.pb is None:
            out['status'] = 'rejected'
            return out
        delta_us = r.choice(DELTAS)
        t0 = r.choice(T0S) if delta_us is not None else None
        if delta_us is not None:
            im.pb.delta_time = datetime.timedelta(microseconds=delta_us)
            if t0 is not None:
                im.pb.start_time = t0
        out['delta'] = delta_us
        out['t0'] = us(t0)
        if extra is None and idx % 3 == 1 and sum(1 for o in prog if o[0] == 'ONewObjective') < 2:
            # (with two objectives the solver itself creates an indicator and an objective at initialisation, and those attach to
            # the most recent problem -- the library's "active problem" convention; observed, outside C11: see DESIGN 12.3)
            # another problem, with another calendar, is created after this one and before it is solved (several plans built
            # first and solved afterwards): the solution of a problem is computed from that problem
            ps.SchedulingProblem(name='Decoy', horizon=3, start_time=datetime.datetime(2031, 5, 17, 3, 0, 0),
                                 delta_time=datetime.timedelta(hours=7))
            out['decoy_problem'] = True
        has_obj = any(o[0] == 'ONewObjective' for o in prog)
        kw = dict(max_time=10)
        if has_obj:
            kw['max_iter'] = r.choice([1, 2, 3])
        if extra == 'export' and r.random() < 0.3:
            kw['logics'] = r.choice(['QF_LIA', 'QF_IDL', 'QF_UFLIA', 'QF_UFIDL'])
        out['logics'] = kw.get('logics')
        with contextlib.redirect_stdout(io.StringIO()), warnings.catch_warnings():
            warnings.simplefilter('ignore')
            solver = ps.SchedulingSolver(problem=im.pb, **kw)
            im.solver = solver
            sol = solver.solve()
        nsol = 0
        while sol and nsol < 3:
            model = solver._model
            # valuation under canonical names
            consts = impl.consts_in_order(list(solver._solver.assertions()))
            im._pairs = None
            pairs = im.rename_pairs()
            ren = {a.get_id(): b for a, b in pairs}
            vals_i, vals_b = {}, {}
            for c in consts:
                tgt = ren.get(c.get_id(), c)
                v = model.eval(c, model_completion=True)
                if z3.is_int_value(v):
                    vals_i[tgt.decl().name()] = v.as_long()
                elif z3.is_true(v) or z3.is_false(v):
                    vals_b[tgt.decl().name()] = bool(z3.is_true(v))
            if accented:
                vals_i = {back_to_canonical([k_])[0]: v_ for k_, v_ in vals_i.items()}
                vals_b = {back_to_canonical([k_])[0]: v_ for k_, v_ in vals_b.items()}
            rec = {'report': py_report(sol), 'ivals': vals_i, 'bvals': vals_b,
                   'clauses': clause_checks(prog, sol, delta_us, t0) if extra is None else []}
            before = list(rec['report'])
            if extra == 'export':
                ls, pr = export_lines(sol, solver, im, work, idx, nsol)
                rec['report'] = rec['report'] + ls
                rec['clauses'] += pr
            elif extra == 'gantt':
                ls, pr = gantt_lines(sol)
                rec['report'] = rec['report'] + ls
                rec['clauses'] += pr
            else:
                # C11: the report stays the report of this schedule whatever the caller does with it next (every export and
                # rendering method is called once; what they produce is the business of C16 / C17)
                use_solution(sol, work, idx, nsol)
            after = py_report(sol)
            if after != before:
                d = [x for x in before if x not in after][:1] + [x for x in after if x not in before][:1]
                rec['clauses'].append(('solution_changed_by_its_own_exports', ' -> '.join(d)[:200]))
            if accented:
                rec['report'] = back_to_canonical(rec['report'])
            out['sols'].append(rec)
            nsol += 1
            if nsol >= 3 or r.random() < 0.4:
                break
            with contextlib.redirect_stdout(io.StringIO()), warnings.catch_warnings():
                warnings.simplefilter('ignore')
                sol = solver.find_another_solution()
        out['status'] = 'solved' if out['sols'] else 'nosolution'
        if extra == 'export' and out['sols']:
            out['sols'][-1]['clauses'] += roundtrip_checks(im)
    except Exception:
        out['error'] = traceback.format_exc()[-1500:]
    return out


def model_solutions(ctx, cases, fn='solution_of'):
    """cases: list of (prog, ivals, bvals, delta, t0) -> list of report line lists (extracted model)"""
    d = os.path.join(ctx.work, 'mlsol')
    os.makedirs(d, exist_ok=True)
    oz = lambda v: 'None' if v is None else 'Some (z_ (%d))' % v
    with open(os.path.join(d, 'cases.ml'), 'w') as f:
        f.write('open Model\nopen Helpers\n')
        for i, (prog, iv, bv, delta, t0) in enumerate(cases):
            f.write('let p%d = %s\n' % (i, terms.to_ocaml(prog)))
            f.write('let iv%d = [%s]\n' % (i, '; '.join('(s_ "%s", z_ (%d))' % (k, v) for k, v in sorted(iv.items()))))
            f.write('let bv%d = [%s]\n' % (i, '; '.join('(s_ "%s", %s)' % (k, 'true' if v else 'false') for k, v in sorted(bv.items()))))
        f.write('let cases = [' + '; '.join('(p%d, iv%d, bv%d, %s, %s)' % (i, i, i, oz(c[3]), oz(c[4])) for i, c in enumerate(cases)) + ']\n')
    with open(os.path.join(d, 'main.ml'), 'w') as f:
        f.write('let str (l : char list) : string = String.of_seq (List.to_seq l)\n'
                'let () = List.iteri (fun i (p, iv, bv, d, t) -> print_string ("CASE " ^ string_of_int i ^ "\\n");\n'
                '  List.iter (fun l -> print_string (str l); print_char \'\\n\') (Model.%s p Model.default_cfg iv bv d t)) Cases.cases\n' % fn)
    cmd = ['ocamlfind', 'ocamlopt', '-w', '-a', '-I', modelrun.GEN, os.path.join(modelrun.GEN, 'model.cmx'),
           os.path.join(modelrun.GEN, 'helpers.cmx'), 'cases.ml', 'main.ml', '-o', 'run']
    r = subprocess.run(['bash', '-c', 'ulimit -s unlimited 2>/dev/null; exec "$@"', 'sh'] + cmd, cwd=d, capture_output=True, text=True, timeout=900)
    if r.returncode != 0:
        raise RuntimeError('ocaml build failed: ' + r.stderr[:2000])
    r = subprocess.run(['bash', '-c', 'ulimit -s unlimited 2>/dev/null; exec ./run'], cwd=d, capture_output=True, text=True, timeout=900)
    reps, cur = [], None
    for line in r.stdout.split('\n'):
        if line.startswith('CASE '):
            cur = []
            reps.append(cur)
        elif line and cur is not None:
            cur.append(line)
    return reps


def kernel_solutions(ctx, cases, fn='solution_of'):
    vf = os.path.join(ctx.work, 'ksol.v')
    oz = lambda v: 'None' if v is None else '(Some (%d)%%Z)' % v
    with open(vf, 'w') as f:
        f.write('From Coq Require Import ZArith List Bool String.\nFrom PS.model Require Import Smt Enc Ind Prog Solution Driver.\n'
                'Import ListNotations.\nOpen Scope string_scope.\n')
        for i, (prog, iv, bv, delta, t0) in enumerate(cases):
            f.write('Definition p%d : list op := %s.\n' % (i, terms.to_coq(prog)))
            f.write('Eval vm_compute in ("CASE" :: %s p%d default_cfg [%s] [%s] %s %s).\n' % (
                fn, i, '; '.join('("%s", (%d)%%Z)' % (k, v) for k, v in sorted(iv.items())),
                '; '.join('("%s", %s)' % (k, 'true' if v else 'false') for k, v in sorted(bv.items())), oz(delta), oz(t0)))
    r = subprocess.run(['coqc'] + common.COQFLAGS + [vf], cwd=common.COQ, capture_output=True, text=True, timeout=1800)
    if r.returncode != 0:
        raise RuntimeError('coqc failed: ' + (r.stderr or r.stdout)[:2000])
    reps = []
    for ch in r.stdout.split(': list string'):
        if '= [' not in ch:
            continue
        reps.append([l for l in modelrun.coq_string_lines(ch) if l != 'CASE'])
    return reps


NO_ARRAY_LOGICS = ['QF_UFLIA', 'QF_UFIDL', 'QF_LIA', 'QF_IDL', 'QF_LRA', 'QF_UFLRA']


def early_solver_validity(args):
    """a solver object created (with an SMT logic) before the rest of the problem is declared, then used: the schedule it returns
    satisfies the assertion set of the problem for a plain solver (values of the integer and Boolean constants pinned)"""
    idx, prog, seed = args
    import z3
    import processscheduler as ps
    import impl
    out = {'idx': idx, 'error': None, 'status': None}
    try:
        r = random.Random(seed * 7907 + idx)
        lg = r.choice(NO_ARRAY_LOGICS)
        im = impl.Impl()
        with warnings.catch_warnings():
            warnings.simplefilter('ignore')
            res = im.run(prog, early_solver_kw=dict(max_time=10, logics=lg))
        if res[0] != 'ok' or im.pb is None or im.early_solver is None:
            out['status'] = 'rejected'
            return out
        out['logics'] = lg
        solver = im.early_solver
        with contextlib.redirect_stdout(io.StringIO()), warnings.catch_warnings():
            warnings.simplefilter('ignore')
            sol = solver.solve()
        if not sol:
            out['status'] = 'nosolution'
            return out
        A = list(solver._solver.assertions())
        m = solver._model
        sv = z3.Solver()
        sv.set('timeout', 8000)
        sv.add(A)
        for c in impl.consts_in_order(A):
            if z3.is_int(c) or z3.is_bool(c):
                sv.add(c == m.eval(c, model_completion=True))
        rr = sv.check()
        out['status'] = 'valid' if rr == z3.sat else ('INVALID' if rr == z3.unsat else 'undecided')
        if rr == z3.unsat:
            out['detail'] = {'logics': lg, 'levels': {n: (list(b.level), list(b.level_change_times)) for n, b in sol.buffers.items()},
                             'tasks': {n: (t.start, t.end, t.scheduled) for n, t in sol.tasks.items()}}
    except Exception:
        out['error'] = traceback.format_exc()[-1200:]
    return out


def symbol_names_probe(work):
    """C16, free-text names in the SMT-LIB export: a task whose name is not an SMT-LIB simple symbol (leading digit, space, '#')
    -> list of names whose export does not parse"""
    import z3
    import processscheduler as ps
    bad = []
    for name in ('2ndTask', 'Saw planks', 'Drill#2', 'plain_name'):
        try:
            with contextlib.redirect_stdout(io.StringIO()):
                pb = ps.SchedulingProblem(name='SymbolProbe', horizon=6)
                ps.FixedDurationTask(name=name, duration=2)
                solver = ps.SchedulingSolver(problem=pb, max_time=10)
                solver.solve()
                fn = os.path.join(work, 'symprobe_%d.smt2' % os.getpid())
                solver.export_to_smt2(fn)
            try:
                z3.parse_smt2_file(fn)
                s2 = z3.Solver()
                s2.from_file(fn)
                if s2.check() != z3.sat:
                    bad.append((name, 'not satisfiable'))
            except z3.Z3Exception as e:
                bad.append((name, str(e)[:120]))
            finally:
                if os.path.exists(fn):
                    os.remove(fn)
        except Exception as e:
            bad.append((name, 'export failed: %s' % str(e)[:100]))
    return bad


def solution_slice(ctx, progs, keep=None):
    """the report of the returned solutions (tasks, resources, buffers, indicators, horizon) of `progs`, real library vs model
    (build_solution + clean_buffer_levels of Solution.v); keep: predicate on report lines (which part of the report matters)
    -> (stats, breaks [(program index, solution index, (only_impl, only_model))])"""
    results = common.pmap(observe, [(i, p, ctx.seed, ctx.tier, None, ctx.work) for i, p in enumerate(progs)])
    cases, where = [], []
    stats = collections.Counter()
    for res in results:
        stats['status_' + str(res['status'])] += 1
        if res['error']:
            stats['harness_error'] += 1
        for k, s in enumerate(res['sols']):
            cases.append((progs[res['idx']], s['ivals'], s['bvals'], res.get('delta'), res.get('t0')))
            where.append((res['idx'], k))
    reports = []
    SH = 150
    for si in range(0, len(cases), SH):
        ctx2 = collections.namedtuple('C', 'work')(os.path.join(ctx.work, 'slice%d' % si))
        reports += model_solutions(ctx2, cases[si:si + SH], 'solution_of')
    breaks = []
    for (idx, k), rep in zip(where, reports):
        s = results[idx]['sols'][k]
        a, b = canon(s['report']), canon(rep)
        if keep is not None:
            a, b = [x for x in a if keep(x)], [x for x in b if keep(x)]
        stats['solutions'] += 1
        if a == b:
            stats['reports_agree'] += 1
        else:
            breaks.append((idx, k, ([x for x in a if x not in b][:3], [x for x in b if x not in a][:3])))
        for kind, detail in s['clauses']:
            if kind == 'solution_changed_by_its_own_exports':
                breaks.append((idx, k, ([kind + ': ' + detail], [])))
    return dict(stats), breaks


def run(ctx, replay=None):
    cfg = CONFIG[ctx.prop]
    quick = ctx.tier == 'quick'
    ok, blog = common.build(ctx)
    if not ok:
        path = common.write_replay(ctx, 'build', {'kind': 'build-failed', 'log': blog})
        common.violation(ctx, path, found_input=False)
        common.write_evidence(ctx, 'proof', {'obligations': 1, 'discharged': 0, 'checker_cmd': './build.sh',
                                             'trusted_base': common.TRUSTED_BASE, 'explanation': 'build failed'}, [])
        return
    po = common.proof_obligations(ctx.prop)
    chk_res = common.coqchk(ctx.prop) if ctx.tier == 'thorough' else None
    if chk_res is not None and not chk_res['ok']:
        path = common.write_replay(ctx, 'coqchk', {'kind': 'coqchk-failed', 'summary': chk_res['summary']})
        common.violation(ctx, path, found_input=False)
    bad = common.hygiene()
    n_obl = len(po['theorems'])
    discharged = n_obl if (po['ok'] and po['all_printed']) else 0
    if not po['ok'] or not po['all_printed'] or bad:
        path = common.write_replay(ctx, 'proof', {'kind': 'proof-obligation', 'file': po['file'], 'log': po['log'], 'hygiene': bad})
        common.violation(ctx, path, found_input=False)
    if replay is not None:
        progs = [terms.from_jsonable(replay['program'])]
        per_profile = {'replay': 1}
    else:
        progs = []
        per_profile = {}
        d = os.path.join(common.VERIF, 'corpus', ctx.prop)
        if os.path.isdir(d):
            for fn in sorted(os.listdir(d)):
                if fn.endswith('.json'):
                    progs.append(terms.from_jsonable(json.load(open(os.path.join(d, fn)))['program']))
            per_profile['corpus'] = len(progs)
        n_total = cfg['n'][0 if quick else 1]
        for pi, pf in enumerate(cfg['profiles']):
            k = n_total // len(cfg['profiles'])
            progs += gen.generate(ctx.seed * 1000 + 50 + pi, k, pf, 'quick' if quick else 'thorough')
            per_profile[pf] = k
    if cfg['extra'] == 'export' and replay is None:
        # long nested expressions (the SMT-LIB printer abbreviates deep terms): two constraints that differ only deep inside
        rr = random.Random(ctx.seed + 7)
        for p in progs:
            tids = [terms.nval(o[1]) for o in p if o[0] == 'ONewTask']
            if p and p[0][0] == 'ONewProblem' and tids and rr.random() < 0.35:
                for cid, c in ((97, 0), (98, 1)):
                    t = ('TC', terms.Z(c))
                    for d in range(24):
                        t = ('TAdd', [('TV', ('VStart', terms.N(tids[d % len(tids)]))), t])
                    p.append(('ONewConstraint', terms.N(cid), False, ('CExpr', ('FLe', t, ('TC', terms.Z(100000))))))
    t1 = time.time()
    results = common.pmap(observe, [(i, p, ctx.seed, ctx.tier, cfg['extra'], ctx.work) for i, p in enumerate(progs)])
    t_impl = time.time() - t1
    cases, where = [], []
    stats = collections.Counter()
    for res in results:
        stats['status_' + str(res['status'])] += 1
        if res['error']:
            stats['harness_error'] += 1
        for k, s in enumerate(res['sols']):
            cases.append((progs[res['idx']], s['ivals'], s['bvals'], res.get('delta'), res.get('t0')))
            where.append((res['idx'], k))
    fn = 'solution_of' if cfg['extra'] is None else 'full_solution_of'
    reports = []
    SH = 150
    for si in range(0, len(cases), SH):
        sub = cases[si:si + SH]
        ctx2 = collections.namedtuple('C', 'work')(os.path.join(ctx.work, 'sh%d' % si))
        reports += model_solutions(ctx2, sub, fn)
    kslice = list(range(0, len(cases), max(1, len(cases) // 20)))[:20]
    kreps = kernel_solutions(ctx, [cases[i] for i in kslice], fn) if cases else []
    kernel_mismatch = [i for i, kr in zip(kslice, kreps) if kr != reports[i]]
    if kernel_mismatch:
        path = common.write_replay(ctx, 'extraction', {'kind': 'extraction-vs-kernel', 'cases': kernel_mismatch[:3]})
        common.violation(ctx, path, found_input=False)
    findings = common.load_findings(ctx.prop)
    open_kinds = {f['clause_kind']: f for f in findings if f['status'] == 'open'}
    known_hits = collections.Counter()
    breaks = []
    clause_viol = []
    for (idx, k), rep, res_case in zip(where, reports, cases):
        res = results[idx]
        s = res['sols'][k]
        stats['solutions'] += 1
        if cfg['extra'] == 'export':
            rep = [l for l in rep if not l.startswith(('GANTT ', 'LABEL ', 'STEP '))]
            # cells left of column 1: xlsxwriter refuses negative columns and column 0 is the name column (finding F25)
            neg = [l for l in rep if l.startswith(('XLS R ', 'XLS T ')) and zparse(l.split(' ', 5)[3:5])[0] < 1]
            if neg:
                known_hits['excel_negative_start'] += 1 if 'excel_negative_start' in open_kinds else 0
                if 'excel_negative_start' not in open_kinds:
                    clause_viol.append((idx, k, 'excel_negative_start', neg[0]))
                rep = [l for l in rep if l not in neg]
            # a zero-length assignment is written as one cell at column start + 1: it may land on the cell of another
            # assignment of the same row (the later write wins) -- finding F25; such rows are compared without them
            def bars_of(lines_):
                out_ = []
                for l_ in lines_:
                    if l_.startswith(('XLS R ', 'XLS T ')):
                        p_ = l_.split(' ')
                        rest = ' '.join(p_[3:])
                        m_ = re.match(r'(\(- \d+\)|-?\d+) (\(- \d+\)|-?\d+)', rest)
                        c1_, c2_ = zparse([m_.group(1)])[0], zparse([m_.group(2)])[0]
                        out_.append((l_, p_[1], int(p_[2]), c1_, c2_))
                return out_
            # beyond the 16384 columns of a worksheet nothing can be written
            far = [b_[0] for b_ in bars_of(rep) if b_[4] >= 16000]
            rep = [l for l in rep if l not in far]
            s['report'] = [l for l in s['report'] if l not in [b_[0] for b_ in bars_of(s['report']) if b_[4] >= 16000]]
            mb = bars_of(rep)
            clash = set()
            for a_ in range(len(mb)):
                for b_ in range(a_ + 1, len(mb)):
                    if mb[a_][1:3] == mb[b_][1:3] and mb[a_][3] <= mb[b_][4] and mb[b_][3] <= mb[a_][4]:
                        clash.add((mb[a_][1], mb[a_][2]))
            if clash:
                known_hits['excel_cells_overwritten'] += 1 if 'excel_cells_overwritten' in open_kinds else 0
                if 'excel_cells_overwritten' not in open_kinds:
                    clause_viol.append((idx, k, 'excel_cells_overwritten', str(sorted(clash))))
                rep = [l for l in rep if not any(l == b_[0] and (b_[1], b_[2]) in clash for b_ in mb)]
                ib = bars_of(s['report'])
                s['report'] = [l for l in s['report'] if not any(l == b_[0] and (b_[1], b_[2]) in clash for b_ in ib)]
            if 'NOTE no-excel' in s['report']:
                rep = [l for l in rep if not l.startswith('XLS ')]
            s['report'] = [l for l in s['report'] if not l.startswith('NOTE ')]
            s['clauses'] = [(kd, dt) for kd, dt in s['clauses'] if not (kd == 'excel_task_name_overwritten' and neg)]
        elif cfg['extra'] == 'gantt':
            rep = [l for l in rep if not l.startswith(('DF ', 'XLS '))]
            # an inverted busy interval (end < start, finding F26) is the same rectangle drawn from its other corner
            fixed = []
            for l in rep:
                if l.startswith('GANTT '):
                    m_ = re.match(r'(GANTT \S+ \d+) (\(- \d+\)|-?\d+) (\(- \d+\)|-?\d+) (.*)$', l)
                    x_, w_ = zparse([m_.group(2)])[0], zparse([m_.group(3)])[0]
                    if w_ < 0:
                        stats['inverted_intervals'] += 1
                        l = '%s %s %s %s' % (m_.group(1), show_z(x_ + w_), show_z(-w_), m_.group(4))
                fixed.append(l)
            rep = fixed
        if canon(s['report']) == canon(rep):
            stats['reports_agree'] += 1
        else:
            a, b = canon(s['report']), canon(rep)
            diff = [x for x in a if x not in b][:3], [x for x in b if x not in a][:3]
            breaks.append((idx, k, diff))
        for kind, detail in s['clauses']:
            if kind in open_kinds:
                known_hits[kind] += 1
            else:
                clause_viol.append((idx, k, kind, detail))
    for res in results:
        if res['error']:
            breaks.append((res['idx'], -1, res['error'][-600:]))
    if cfg['extra'] == 'export' and replay is None:
        pb_ = common.pmap(symbol_names_probe, [ctx.work])[0]
        if isinstance(pb_, dict):
            pb_ = [('probe', 'crashed: ' + str(pb_.get('error'))[:200])]
        stats['symbol_probe_names_failing'] = len(pb_)
        for name, why in pb_:
            # z3's printer writes a symbol that starts with a digit unquoted (finding F46); any other name must come out right
            kind = 'smt2_symbol_leading_digit' if name[:1].isdigit() else 'smt2_symbol_not_quoted'
            if kind in open_kinds:
                known_hits[kind] += 1
            else:
                clause_viol.append((0, -1, kind, 'task named %r: %s' % (name, why)))
    reported = 0
    for idx, k, kind, detail in clause_viol[:3]:
        path = common.write_replay(ctx, 'clause', {
            'kind': 'clause-violation', 'property': ctx.prop, 'clause': kind, 'detail': detail,
            'program': terms.dump(progs[idx]), 'program_pretty': [terms.to_coq(o) for o in progs[idx]],
            'solution_index': k, 'delta_us': results[idx].get('delta'), 't0_us': results[idx].get('t0'),
            'solution_report': results[idx]['sols'][k]['report'] if k >= 0 else None,
            'what': 'the solution object returned by the real library violates this clause of the property'})
        common.violation(ctx, path)
        reported += 1
    if breaks and reported == 0:
        idx, k, diff = breaks[0]
        # a differing report: the solution itself is the candidate failing input; it is a violation when a clause fails,
        # otherwise the correspondence is reported broken
        path = common.write_replay(ctx, 'report', {
            'kind': 'correspondence-broken', 'observable': 'O5 build_solution report', 'property': ctx.prop,
            'program': terms.dump(progs[idx]), 'program_pretty': [terms.to_coq(o) for o in progs[idx]],
            'solution_index': k, 'only_in_impl__only_in_model': diff, 'count': len(breaks),
            'delta_us': results[idx].get('delta'), 't0_us': results[idx].get('t0')})
        common.violation(ctx, path, found_input=False)
    for f in findings:
        if f['status'] == 'open' and known_hits.get(f['clause_kind']):
            common.known_finding(ctx, f['text'])
    distinct = len({terms.to_coq(progs[i]) for i, _ in where})
    samples = [{'program': [terms.to_coq(o) for o in progs[i]], 'solution': results[i]['sols'][k]['report']}
               for i, k in where[::max(1, len(where) // 3)][:3]]
    cov = {
        'obligations': n_obl, 'discharged': discharged,
        'checker_cmd': 'coqc %s %s  (after ./build.sh)' % (' '.join(common.COQFLAGS), po['file']),
        'trusted_base': common.TRUSTED_BASE + [
            'Print Assumptions: ' + '; '.join('%s: %s' % (t, po['assumptions'].get(t, 'NOT PRINTED')) for t in po['theorems'])],
        'coqchk': ({'axioms': chk_res['axioms'], 'ok': chk_res['ok']} if chk_res else 'thorough tier only'), 'theorems': po['theorems'], 'hygiene_hits': bad,
        'evaluations': len(progs), 'distinct_nontrivial': distinct,
        'rule': 'programs drawn by harness/gen.py from profiles %s with seed %d, solved by the real library (solve + up to 2 find_another_solution); '
                'non-trivial = the library returned at least one solution; distinct by program text' % (cfg['profiles'], ctx.seed),
        'samples': samples,
        'traces_validated_against_impl': stats['reports_agree'],
        'tie': dict(stats), 'kernel_route_crosscheck': {'cases': len(kslice), 'mismatches': len(kernel_mismatch)},
        'clause_checks': {'violations': len(clause_viol), 'known_hits': dict(known_hits)},
        'generator_distribution': {'per_profile': per_profile},
        'timing_s': {'impl': round(t_impl, 1)},
    }
    common.write_evidence(ctx, 'proof', cov, [
        'the theorems are about the Coq model of build_solution; the model is tied to /repo on every returned solution of the sampled programs (exact comparison of every reported field on the valuation z3 returned)',
        'z3 search itself is not modelled: which valuation is returned is an input of the comparison'])
