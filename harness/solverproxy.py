"""Recording subclasses of the z3 solver classes (observable O4): no change under /repo.

Inside a harness worker process z3.Solver / z3.Optimize / z3.SolverFor are replaced by recording
versions; every check / push / pop / add / assert_and_track / minimize / maximize / model call is logged.
"""
import z3

ORIG_SOLVER = z3.Solver
ORIG_OPTIMIZE = z3.Optimize
ORIG_SOLVERFOR = z3.SolverFor

LOG = []          # current trace: list of tuples
MODELS = {}       # id(ModelRef) -> check index
KEEP = []         # keep ModelRefs alive so ids stay unique
STATE = {'checks': 0}


def reset():
    LOG.clear()
    MODELS.clear()
    KEEP.clear()
    STATE['checks'] = 0


def _flat(args):
    out = []
    for a in args:
        if isinstance(a, (list, tuple, z3.AstVector)):
            out.extend(_flat(a))
        else:
            out.append(a)
    return out


class _Rec:
    def check(self, *a):
        r = super().check(*a)
        k = STATE['checks']
        STATE['checks'] += 1
        self._last_check = k
        LOG.append(('check', k, str(r)))
        return r

    def model(self):
        m = super().model()
        MODELS[id(m)] = self._last_check
        KEEP.append(m)
        LOG.append(('model', self._last_check, m))
        return m

    def push(self):
        LOG.append(('push',))
        return super().push()

    def pop(self, *a):
        n = a[0] if a else 1
        for _ in range(n):
            LOG.append(('pop',))
        return super().pop(*a)

    def add(self, *args):
        for f in _flat(args):
            LOG.append(('add', f))
        return super().add(*args)

    def assert_and_track(self, a, p):
        LOG.append(('track', a, str(p)))
        return super().assert_and_track(a, p)


class RecSolver(_Rec, ORIG_SOLVER):
    pass


class RecOptimize(_Rec, ORIG_OPTIMIZE):
    def minimize(self, v):
        LOG.append(('minimize', v))
        return super().minimize(v)

    def maximize(self, v):
        LOG.append(('maximize', v))
        return super().maximize(v)


def rec_solver_for(logic, ctx=None, logFile=None):
    s = ORIG_SOLVERFOR(logic, ctx)
    s.__class__ = RecSolver
    LOG.append(('solverfor', logic))
    return s


def install():
    z3.Solver = RecSolver
    z3.Optimize = RecOptimize
    z3.SolverFor = rec_solver_for


def uninstall():
    z3.Solver = ORIG_SOLVER
    z3.Optimize = ORIG_OPTIMIZE
    z3.SolverFor = ORIG_SOLVERFOR
