"""Translator tie: the pure helper functions of processscheduler/util.py are translated to Gallina from /repo's current source on
every run (pytrans.py) and the committed proofs coq/srctie/UtilSrc_<prop>_proof.v show that the translated functions are the functions
of the hand-written model.  When the translation fails (construct outside the subset) or a proof no longer compiles, the tie is
broken: a differential search (real function against the model's function evaluated by the kernel) looks for a failing input."""
import os
import random
import re
import shutil
import subprocess

import common
import pytrans

SRC = '/repo/processscheduler/util.py'
# function group -> (functions, proof file); property -> groups
GROUPS = {'maxmin': (['get_maximum', 'get_minimum'], 'UtilSrc_maxmin_proof.v'),
          'clean': (['clean_buffer_levels'], 'UtilSrc_clean_proof.v'),
          'sortnodup': (['sort_no_duplicates'], 'UtilSrc_sortnodup_proof.v'),
          'sortdup': (['sort_duplicates'], 'UtilSrc_sortdup_proof.v')}
BY_PROP = {'C03': ['sortnodup'], 'C04': ['sortnodup'], 'C08': ['maxmin', 'sortnodup'], 'C09': ['clean', 'sortnodup', 'sortdup']}
# not translated: calc_parabola_from_three_points (floating point, outside every property)


def _coqc(workdir, fn):
    cmd = ['coqc', '-Q', os.path.join(common.COQ, 'model'), 'PS.model', '-Q', workdir, 'PS.srctie', fn]
    return subprocess.run(cmd, cwd=workdir, capture_output=True, text=True, timeout=600)


def search_clean_buffer_levels(workdir, seed, n=400):
    """real clean_buffer_levels against Solution.clean_levels (kernel) on random level / instant lists -> failing case or None"""
    import importlib
    import processscheduler.util as U
    importlib.reload(U)
    r = random.Random(seed)
    cases = []
    for _ in range(n):
        k = r.choice([0, 1, 2, 2, 3, 3, 4, 5])
        times = [r.choice([-3, -1, -1, 0, 0, 1, 2, 2, 3, 5]) for _ in range(k)]
        if r.random() < 0.6:
            times.sort()
        levels = [r.randint(-2, 12) for _ in range(k + 1)]
        cases.append((levels, times))
    vf = os.path.join(workdir, 'clean_cases.v')
    zl = lambda l: '[' + '; '.join('(%d)' % x for x in l) + ']'
    with open(vf, 'w') as f:
        f.write('From Coq Require Import ZArith List.\nFrom PS.model Require Import Smt Enc Ind Prog Solution.\nImport ListNotations.\nOpen Scope Z_scope.\n')
        for levels, times in cases:
            f.write('Eval vm_compute in (clean_levels (combine %s %s) [] []).\n' % (zl(levels[1:]), zl(times)))
    res = _coqc(workdir, vf)
    if res.returncode != 0:
        return {'search': 'model evaluation failed: ' + (res.stderr or res.stdout)[:300]}
    outs = []
    for ch in res.stdout.split(': list Z * list Z'):
        m = re.search(r'=\s*\((\[.*?\]),\s*(\[.*?\])\)', ch, re.S)
        if m:
            outs.append(tuple([int(x) for x in re.findall(r'-?\d+', part)] for part in m.groups()))
    if len(outs) != len(cases):
        return {'search': 'could not read the model outputs (%d for %d cases)' % (len(outs), len(cases))}
    for (levels, times), (m1, m2) in zip(cases, outs):
        try:
            g1, g2 = U.clean_buffer_levels(list(levels), list(times))
            got = (list(g1), list(g2))
        except Exception as ex:       # the model accepts every list with one more level than instants
            got = 'raised %s: %s' % (type(ex).__name__, str(ex)[:80])
        want = ([levels[0]] + m1, m2)
        if got != want:
            return {'function': 'clean_buffer_levels', 'buffer_levels': levels, 'buffer_change_times': times,
                    'implementation': got, 'model': want}
    return None


def run(ctx):
    """-> dict(status 'ok' | 'broken', ...); on 'broken' a replay has been written and the violation reported"""
    groups = BY_PROP[ctx.prop]
    funcs = [f for g in groups for f in GROUPS[g][0]]
    work = os.path.join(ctx.work, 'srctie')
    shutil.rmtree(work, ignore_errors=True)
    os.makedirs(work)
    info = {'source': SRC, 'functions': funcs, 'proof_files': ['coq/srctie/' + GROUPS[g][1] for g in groups]}
    why = None
    broken_funcs = funcs
    try:
        text, done = pytrans.translate(SRC, funcs)
        open(os.path.join(work, 'UtilSrc.v'), 'w').write(text)
        r1 = _coqc(work, 'UtilSrc.v')
        if r1.returncode != 0:
            why = 'the translated functions do not type-check: ' + (r1.stderr or r1.stdout)[:400]
        else:
            closed = 0
            for g in groups:
                proof = GROUPS[g][1]
                shutil.copy(os.path.join(common.COQ, 'srctie', proof), work)
                r2 = _coqc(work, proof)
                if r2.returncode != 0:
                    why = 'a proof that the translated function is the model function no longer compiles (%s): ' % proof + (r2.stderr or r2.stdout)[:600]
                    broken_funcs = GROUPS[g][0]
                    break
                closed += r2.stdout.count('Closed under the global context')
            if why is None:
                info.update(status='ok', theorems_closed=closed)
                return info
    except pytrans.Unsupported as ex:
        why = 'the source left the translatable subset: %s' % ex
    except Exception as ex:
        why = 'translator failed: %s: %s' % (type(ex).__name__, str(ex)[:300])
    info.update(status='broken', why=why)
    failing = None
    if 'clean_buffer_levels' in broken_funcs:
        try:
            failing = search_clean_buffer_levels(work, ctx.seed)
        except Exception as ex:
            failing = {'search': 'failed: %s' % str(ex)[:200]}
    found = bool(failing) and 'search' not in failing
    path = common.write_replay(ctx, 'srctie', {
        'kind': 'violation' if found else 'correspondence-broken', 'property': ctx.prop,
        'observable': 'translation of %s from %s against the model' % (', '.join(broken_funcs), SRC),
        'why': why, 'failing_input': failing,
        'what_it_means': 'the helper function computes something else than the function the theorems are about' if found else
                         'the tie between the source of the helper functions and the model no longer checks; no input on which they differ was found '
                         '(the assertion-set correspondence of this check looks for one on whole problems)'})
    common.violation(ctx, path, found_input=found)
    info['failing_input'] = failing
    return info
