"""Source watch: which functions / classes of /repo's library differ from the tree the framework was last aligned with
(fingerprints.json, one hash of the docstring-free AST per top-level function, class and method).  A difference raises no
alarm; it redirects the sampling: the program generator prefers the element kinds that exercise the changed code and the
correspondence engines draw more programs."""
import ast
import hashlib
import json
import os
import re

REPO_PKG = '/repo/processscheduler'
FILE = os.path.join(os.path.dirname(os.path.dirname(os.path.abspath(__file__))), 'fingerprints.json')


def _strip_doc(node):
    for n in ast.walk(node):
        body = getattr(n, 'body', None)
        if isinstance(body, list) and body and isinstance(body[0], ast.Expr) and isinstance(getattr(body[0], 'value', None), ast.Constant) \
                and isinstance(body[0].value.value, str):
            n.body = body[1:] or [ast.Pass()]
    return node


def _h(node):
    return hashlib.sha1(ast.dump(_strip_doc(node), include_attributes=False).encode()).hexdigest()[:16]


def fingerprints(pkg=REPO_PKG):
    out = {}
    for fn in sorted(os.listdir(pkg)):
        if not fn.endswith('.py'):
            continue
        mod = fn[:-3]
        try:
            tree = ast.parse(open(os.path.join(pkg, fn)).read())
        except SyntaxError:
            out[mod + '.<syntax-error>'] = 'x'
            continue
        rest = []
        for node in tree.body:
            if isinstance(node, (ast.FunctionDef, ast.AsyncFunctionDef)):
                out['%s.%s' % (mod, node.name)] = _h(node)
            elif isinstance(node, ast.ClassDef):
                fields = []
                for sub in node.body:
                    if isinstance(sub, (ast.FunctionDef, ast.AsyncFunctionDef)):
                        out['%s.%s.%s' % (mod, node.name, sub.name)] = _h(sub)
                    else:
                        fields.append(sub)
                out['%s.%s.<fields>' % (mod, node.name)] = hashlib.sha1(
                    ('|'.join(ast.dump(_strip_doc(f), include_attributes=False) for f in fields)
                     + '|' + ','.join(ast.dump(b) for b in node.bases)).encode()).hexdigest()[:16]
            elif not isinstance(node, (ast.Import, ast.ImportFrom)):
                rest.append(node)
        out[mod + '.<module>'] = hashlib.sha1('|'.join(ast.dump(_strip_doc(r), include_attributes=False) for r in rest).encode()).hexdigest()[:16]
    return out


def changed():
    """qualified names whose code differs from the recorded tree (added, removed or edited)"""
    try:
        ref = json.load(open(FILE))
    except Exception:
        return ['<no fingerprints file>']
    import sys
    if ref.get('<python>') != '%d.%d' % sys.version_info[:2]:
        return []                      # ast.dump differs between interpreter versions: no comparison, no redirect
    cur = fingerprints()
    return sorted(k for k in (set(ref) | set(cur)) - {'<python>'} if ref.get(k) != cur.get(k))


# which generator choices exercise which code
FOCUS_MAP = [
    (r'resource_constraint\.WorkLoad\b', ['CWorkLoad']),
    (r'resource_constraint\.ResourceUnavailable\b', ['CUnavailable']),
    (r'resource_constraint\.ResourcePeriodicallyUnavailable\b', ['CPeriodicUnavailable']),
    (r'resource_constraint\.ResourceInterrupted\b', ['CInterrupted']),
    (r'resource_constraint\.ResourcePeriodicallyInterrupted\b', ['CPeriodicInterrupted']),
    (r'resource_constraint\.ResourceNonDelay\b', ['CNonDelay']),
    (r'resource_constraint\.ResourceTasksDistance\b', ['CDistance']),
    (r'resource_constraint\.SameWorkers\b', ['CSameWorkers']),
    (r'resource_constraint\.DistinctWorkers\b', ['CDistinctWorkers']),
    (r'task_constraint\.TaskPrecedence\b', ['CPrecedence']),
    (r'task_constraint\.TasksStartSynced\b', ['CStartSynced']),
    (r'task_constraint\.TasksEndSynced\b', ['CEndSynced']),
    (r'task_constraint\.TasksDontOverlap\b', ['CDontOverlap']),
    (r'task_constraint\.TasksContiguous\b', ['CContiguous']),
    (r'task_constraint\.TaskStartAt\b', ['CStartAt']),
    (r'task_constraint\.TaskStartAfter\b', ['CStartAfter']),
    (r'task_constraint\.TaskEndAt\b', ['CEndAt']),
    (r'task_constraint\.TaskEndBefore\b', ['CEndBefore']),
    (r'task_constraint\.(TaskGroup|UnorderedTaskGroup)\b', ['CUGroup', 'COGroup']),
    (r'task_constraint\.OrderedTaskGroup\b', ['COGroup']),
    (r'task_constraint\.OptionalTaskForceSchedule\b', ['CForceSched']),
    (r'task_constraint\.OptionalTaskConditionSchedule\b', ['CCondSched']),
    (r'task_constraint\.OptionalTasksDependency\b', ['CDependency']),
    (r'task_constraint\.ForceScheduleNOptionalTasks\b', ['CForceN']),
    (r'task_constraint\.ScheduleNTasksInTimeIntervals\b', ['CScheduleN']),
    (r'task_constraint\.Task(Load|Unload)Buffer\b', ['CLoad', 'CUnload']),
    (r'first_order_logic\.Not\b', ['CNot']), (r'first_order_logic\.Or\b', ['COr']), (r'first_order_logic\.And\b', ['CAnd']),
    (r'first_order_logic\.Xor\b', ['CXor']), (r'first_order_logic\.Implies\b', ['CImplies']), (r'first_order_logic\.IfThenElse\b', ['CIte']),
    (r'constraint\.ForceApplyNOptionalConstraints\b', ['CForceApplyN']),
    (r'constraint\.ConstraintFromExpression\b', ['CExpr']),
    (r'util\.sort_no_duplicates\b', ['CContiguous', 'CNonDelay', 'CDistance', 'IIdle']),
    (r'util\.(get_maximum|get_minimum)\b', ['IMaxLateness', 'IMaxBuf', 'IMinBuf', 'OGreatestStart', 'OStartEarliest', 'OFlowtimeSingle']),
    (r'indicator\.IndicatorTardiness\b', ['ITardiness']), (r'indicator\.IndicatorEarliness\b', ['IEarliness']),
    (r'indicator\.IndicatorNumberOfTardyTasks\b', ['INbTardy']), (r'indicator\.IndicatorMaximumLateness\b', ['IMaxLateness']),
    (r'indicator\.IndicatorResourceUtilization\b', ['IUtilization']), (r'indicator\.IndicatorResourceIdle\b', ['IIdle']),
    (r'indicator\.IndicatorNumberTasksAssigned\b', ['INbTasks']), (r'indicator\.IndicatorResourceCost\b', ['ICost']),
    (r'indicator\.IndicatorMaxBufferLevel\b', ['IMaxBuf']), (r'indicator\.IndicatorMinBufferLevel\b', ['IMinBuf']),
    (r'indicator\.IndicatorFromMathExpression\b', ['IExpr']),
    (r'function\.', ['ICost', 'OMinCost']),
    (r'objective\.ObjectiveMinimizeMakespan\b', ['OMakespan']), (r'objective\.ObjectiveTasksStartLatest\b', ['OStartLatest']),
    (r'objective\.ObjectiveTasksStartEarliest\b', ['OStartEarliest']), (r'objective\.ObjectiveMinimizeGreatestStartTime\b', ['OGreatestStart']),
    (r'objective\.ObjectiveMinimizeFlowtime\b', ['OFlowtime']), (r'objective\.ObjectivePriorities\b', ['OPriorities']),
    (r'objective\.ObjectiveMaximizeResourceUtilization\b', ['OMaxUtilization']), (r'objective\.ObjectiveMinimizeResourceCost\b', ['OMinCost']),
    (r'objective\.ObjectiveMinimizeFlowtimeSingleResource\b', ['OFlowtimeSingle']),
    (r'objective\.Objective(Maximize|Minimize)Indicator\b', ['OMinIndicator', 'OMaxIndicator']),
    (r'objective\.Objective\b', ['ORaw']),
]


def focus(names):
    f = set()
    for n in names:
        for pat, kinds in FOCUS_MAP:
            if re.search(pat, n):
                f.update(kinds)
    return f
