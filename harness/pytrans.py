"""Fail-closed translator from a small subset of Python (the pure helper functions of processscheduler/util.py) to Gallina.

The translation is syntax-directed and keeps the structure of the source: assignments become `let`, a `for` loop becomes a
`fold_left` over the tuple of the variables its body assigns, `raise` becomes `None` (every function returns an option), list
comprehensions become `map`.  Anything outside the subset raises Unsupported: the caller then reports that the tie is broken.

Two domains: 'int' (comparisons are Boolean tests on Z) and 'z3' (comparisons build formulas of the model's SMT fragment: the
arguments are terms, z3.Or / z3.And build FOr / FAnd)."""
import ast


class Unsupported(Exception):
    pass


PRELUDE = '''(* GENERATED from %(src)s by harness/pytrans.py -- do not edit *)
From Coq Require Import ZArith List Bool.
From PS.model Require Import Smt.
Import ListNotations.
Open Scope Z_scope.
Definition count_z (b : Z) (l : list Z) : Z := Z.of_nat (count_occ Z.eq_dec l b).
Definition is_nil {A} (l : list A) : bool := match l with [] => true | _ => false end.
Definition len_z {A} (l : list A) : Z := Z.of_nat (List.length l).
Fixpoint upd {A} (i : nat) (v : A) (l : list A) : list A :=
  match l with [] => [] | x :: r => match i with O => v :: r | S j => x :: upd j v r end end.
'''

# function name -> (domain, [(argument, Coq type)], result type)
SIGNATURES = {
    'clean_buffer_levels': ('int', [('buffer_levels', 'list Z'), ('buffer_change_times', 'list Z')], 'list Z * list Z'),
    'get_maximum': ('z3', [('maxi', 'term'), ('list_of_values', 'list term')], 'list form'),
    'get_minimum': ('z3', [('mini', 'term'), ('list_of_values', 'list term')], 'list form'),
    # z3.FreshInt() is the k-th fresh integer: mk (base + k), k counting the calls of the function
    'sort_no_duplicates': ('z3', [('mk', 'nat -> term'), ('base', 'nat'), ('z3_int_list', 'list term')], 'list term * list form'),
}
FRESH = {'sort_no_duplicates'}      # functions that draw fresh integers (two extra leading arguments in the translation)
# functions whose fresh draws are threaded through a counter k_ (mk k_ is the next fresh integer; one leading argument mk)
THREADED = {'sort_duplicates'}
SIGNATURES['sort_duplicates'] = ('z3', [('mk', 'nat -> term'), ('z3_int_list', 'list term')], 'list term * list form')


class Fn:
    def __init__(self, node, domain, threaded=False):
        self.node = node
        self.domain = domain
        self.fresh_used = False
        self.threaded = threaded
        self.local_fns = set()
        self.nested = False
        self.defined = set(a.arg for a in node.args.args)

    # ---------------- expressions ----------------
    def expr(self, e):
        if isinstance(e, ast.Name):
            return e.id
        if isinstance(e, ast.Constant) and isinstance(e.value, int) and not isinstance(e.value, bool):
            return ('%d%%nat' % e.value) if (self.domain == 'z3' and e.value >= 0) else '(%d)' % e.value
        if isinstance(e, ast.List):
            return '[' + '; '.join(self.expr(x) for x in e.elts) + ']'
        if isinstance(e, ast.ListComp):
            if len(e.generators) != 1 or e.generators[0].ifs or not isinstance(e.generators[0].target, ast.Name):
                raise Unsupported('comprehension')
            g = e.generators[0]
            if isinstance(e.elt, ast.Call) and isinstance(e.elt.func, ast.Attribute) and e.elt.func.attr == 'FreshInt' and not e.elt.args:
                # [z3.FreshInt() for _ in range(n)]: the next n fresh integers (only as the first fresh draw of the function)
                if self.fresh_used:
                    raise Unsupported('second draw of fresh integers')
                self.fresh_used = True
                return '(map (fun %s => mk (base + %s)%%nat) %s)' % (g.target.id if g.target.id != '_' else 'k_', g.target.id if g.target.id != '_' else 'k_', self.expr(g.iter))
            return '(map (fun %s => %s) %s)' % (g.target.id, self.expr(e.elt), self.expr(g.iter))
        if isinstance(e, ast.Subscript) and self.domain == 'z3' and isinstance(e.value, ast.Name):
            return '(nth %s %s (TC 0))' % (self.expr(e.slice), e.value.id)
        if isinstance(e, ast.BinOp) and isinstance(e.op, ast.Sub) and self.domain == 'z3':
            return '(%s - %s)%%nat' % (self.expr(e.left), self.expr(e.right))
        if isinstance(e, ast.BinOp) and isinstance(e.op, ast.Add):
            l, r = e.left, e.right
            if isinstance(l, ast.List) or isinstance(r, ast.List):
                return '(%s ++ %s)' % (self.expr(l), self.expr(r))
            return ('(%s + %s)%%nat' if self.domain == 'z3' else '(%s + %s)') % (self.expr(l), self.expr(r))
        if isinstance(e, ast.UnaryOp) and isinstance(e.op, ast.Not) and isinstance(e.operand, ast.Name):
            return '(is_nil %s)' % e.operand.id          # `not some_list`
        if isinstance(e, ast.Compare) and len(e.ops) == 1:
            a, b = self.expr(e.left), self.expr(e.comparators[0])
            op = type(e.ops[0])
            if self.domain == 'z3':
                table = {ast.Eq: 'FEq', ast.GtE: 'FGe', ast.LtE: 'FLe', ast.Lt: 'FLt', ast.Gt: 'FGt'}
                if op not in table:
                    raise Unsupported('comparison')
                return '(%s %s %s)' % (table[op], a, b)
            table = {ast.Eq: '(%s =? %s)', ast.NotEq: '(negb (%s =? %s))', ast.Lt: '(%s <? %s)', ast.LtE: '(%s <=? %s)',
                     ast.Gt: '(%s >? %s)', ast.GtE: '(%s >=? %s)'}
            if op not in table:
                raise Unsupported('comparison')
            return table[op] % (a, b)
        if isinstance(e, ast.Call):
            f = e.func
            if isinstance(f, ast.Name) and f.id == 'len' and len(e.args) == 1:
                return ('(List.length %s)' if self.domain == 'z3' else '(len_z %s)') % self.expr(e.args[0])
            if isinstance(f, ast.Name) and f.id == 'range' and len(e.args) == 1 and self.domain == 'z3':
                return '(seq 0 %s)' % self.expr(e.args[0])
            if isinstance(f, ast.Attribute) and isinstance(f.value, ast.Name) and f.value.id == 'z3' and len(e.args) == 1 and not e.keywords:
                if f.attr == 'Or':
                    return '(FOr %s)' % self.expr(e.args[0])
                if f.attr == 'And':
                    return '(FAnd %s)' % self.expr(e.args[0])
            if isinstance(f, ast.Attribute) and isinstance(f.value, ast.Name) and f.value.id == 'z3' and not e.keywords:
                if f.attr == 'If' and len(e.args) == 3:
                    return '(FIte %s %s %s)' % tuple(self.expr(x) for x in e.args)
                if f.attr == 'And' and len(e.args) == 2:
                    return '(FAnd [%s; %s])' % tuple(self.expr(x) for x in e.args)
            if isinstance(f, ast.Attribute) and f.attr == 'copy' and isinstance(f.value, ast.Name) and not e.args:
                return f.value.id
            if isinstance(f, ast.Attribute) and f.attr == 'count' and isinstance(f.value, ast.Name) and len(e.args) == 1:
                return '(count_z %s %s)' % (self.expr(e.args[0]), f.value.id)
        raise Unsupported('expression ' + ast.dump(e)[:80])

    # ---------------- statements ----------------
    def assigned(self, stmts):
        out = []
        for s in stmts:
            if isinstance(s, ast.Assign) and len(s.targets) == 1 and isinstance(s.targets[0], ast.Name):
                out.append(s.targets[0].id)
            elif isinstance(s, ast.Expr) and isinstance(s.value, ast.Call) and isinstance(s.value.func, ast.Attribute) \
                    and s.value.func.attr in ('append', 'extend') and isinstance(s.value.func.value, ast.Name):
                out.append(s.value.func.value.id)
            elif isinstance(s, ast.If) and not s.orelse:
                out += self.assigned(s.body)
            elif isinstance(s, ast.Assign) and len(s.targets) == 1 and isinstance(s.targets[0], ast.Tuple) \
                    and all(isinstance(x, ast.Name) for x in s.targets[0].elts):
                out += [x.id for x in s.targets[0].elts]
            elif isinstance(s, ast.Assign) and len(s.targets) == 1 and isinstance(s.targets[0], ast.Subscript) \
                    and isinstance(s.targets[0].value, ast.Name):
                out.append(s.targets[0].value.id)
            else:
                raise Unsupported('statement in loop body')
        return sorted(set(out))

    def block(self, stmts, tail):
        """stmts followed by the expression `tail` (already Gallina)"""
        if not stmts:
            return tail
        s, rest = stmts[0], stmts[1:]
        if isinstance(s, ast.Expr) and isinstance(s.value, ast.Constant) and isinstance(s.value.value, str):
            return self.block(rest, tail)          # docstring
        if isinstance(s, ast.If) and not s.orelse and len(s.body) == 1 and isinstance(s.body[0], ast.Raise):
            return 'if %s then None else\n  %s' % (self.expr(s.test), self.block(rest, tail))
        if self.threaded and isinstance(s, ast.FunctionDef) and not self.nested:
            # a local function: its fresh draws continue the numbering of the caller (counter in, counter out)
            if s.args.defaults or s.args.kwonlyargs or any(not isinstance(x, (ast.Assign, ast.For, ast.Return, ast.Expr)) for x in s.body):
                raise Unsupported('local function')
            inner = Fn(s, self.domain, threaded=True)
            inner.nested = True
            inner.defined = set(a.arg for a in s.args.args)
            body = inner.block(s.body, '(k_)')
            self.local_fns.add(s.name)
            return 'let %s := fun (k_ : nat) %s =>\n    %s in\n  %s' % (
                s.name, ' '.join('(%s : list term)' % a.arg for a in s.args.args), body, self.block(rest, tail))
        if self.threaded and isinstance(s, ast.Assign) and len(s.targets) == 1 and isinstance(s.targets[0], ast.Tuple) \
                and all(isinstance(x, ast.Name) for x in s.targets[0].elts):
            names = [x.id for x in s.targets[0].elts]
            v = s.value
            if isinstance(v, ast.Tuple) and len(v.elts) == len(names) and all(
                    isinstance(x, ast.Call) and isinstance(x.func, ast.Attribute) and x.func.attr == 'FreshInt' and not x.args for x in v.elts):
                txt = ''
                for n_ in names:
                    txt += 'let %s := mk k_ in let k_ := S k_ in\n  ' % n_
                self.defined.update(names)
                return txt + self.block(rest, tail)
            if isinstance(v, ast.Call) and isinstance(v.func, ast.Name) and v.func.id in self.local_fns:
                self.defined.update(names)
                return "let '(%s, k_) := %s k_ %s in\n  %s" % (', '.join(names), v.func.id, ' '.join(self.expr(a) for a in v.args), self.block(rest, tail))
            raise Unsupported('tuple assignment')
        if self.threaded and isinstance(s, ast.Assign) and len(s.targets) == 1 and isinstance(s.targets[0], ast.Subscript) \
                and isinstance(s.targets[0].value, ast.Name):
            arr = s.targets[0].value.id
            return 'let %s := upd %s %s %s in\n  %s' % (arr, self.expr(s.targets[0].slice), self.expr(s.value), arr, self.block(rest, tail))
        if self.threaded and isinstance(s, ast.For) and not s.orelse and isinstance(s.target, ast.Name) and isinstance(s.iter, ast.Call) \
                and isinstance(s.iter.func, ast.Name) and s.iter.func.id == 'range' and len(s.iter.args) == 1:
            # the loop carries the variables that exist before it and that its body assigns, and the fresh counter
            vs = [x for x in self.assigned(s.body) if x in self.defined]
            tup = '(%s, k_)' % ', '.join(vs)
            i = s.target.id if s.target.id != '_' else 'i_'
            saved = set(self.defined)
            body = self.block(s.body, tup)
            self.defined = saved
            return "let '%s := fold_left (fun '%s %s =>\n      %s)\n    %s %s in\n  %s" % (
                tup, tup, i, body, self.expr(s.iter), tup, self.block(rest, tail))
        if self.threaded and isinstance(s, ast.Return) and not rest and isinstance(s.value, ast.Tuple):
            vals = ', '.join(self.expr(x) for x in s.value.elts)
            return ('(%s, k_)' % vals) if self.nested else ('Some (%s)' % vals)
        if isinstance(s, ast.Assign) and len(s.targets) == 1 and isinstance(s.targets[0], ast.Name):
            self.defined.add(s.targets[0].id)
            v = s.value
            if isinstance(v, ast.Call) and isinstance(v.func, ast.Attribute) and v.func.attr == 'pop' and isinstance(v.func.value, ast.Name) \
                    and len(v.args) == 1 and isinstance(v.args[0], ast.Constant) and v.args[0].value == 0:
                lst = v.func.value.id
                return 'match %s with [] => None | %s :: %s =>\n  %s end' % (lst, s.targets[0].id, lst, self.block(rest, tail))
            return 'let %s := %s in\n  %s' % (s.targets[0].id, self.expr(v), self.block(rest, tail))
        if isinstance(s, ast.Expr) and isinstance(s.value, ast.Call) and isinstance(s.value.func, ast.Attribute) \
                and isinstance(s.value.func.value, ast.Name) and len(s.value.args) == 1:
            x, arg = s.value.func.value.id, self.expr(s.value.args[0])
            if s.value.func.attr == 'append':
                return 'let %s := %s ++ [%s] in\n  %s' % (x, x, arg, self.block(rest, tail))
            if s.value.func.attr == 'extend':
                return 'let %s := %s ++ %s in\n  %s' % (x, x, arg, self.block(rest, tail))
        if isinstance(s, ast.If) and not s.orelse:
            vs = self.assigned(s.body)
            tup = '(%s)' % ', '.join(vs) if len(vs) > 1 else vs[0]
            return "let '%s := if %s then %s else %s in\n  %s" % (tup if len(vs) > 1 else tup, self.expr(s.test), self.block(s.body, tup), tup,
                                                                   self.block(rest, tail)) if len(vs) > 1 else \
                   'let %s := if %s then %s else %s in\n  %s' % (tup, self.expr(s.test), self.block(s.body, tup), tup, self.block(rest, tail))
        if isinstance(s, ast.For) and not s.orelse and isinstance(s.iter, ast.Call) and isinstance(s.iter.func, ast.Name) \
                and s.iter.func.id == 'zip' and len(s.iter.args) == 2 and isinstance(s.target, ast.Tuple) and len(s.target.elts) == 2:
            vs = self.assigned(s.body)
            if len(vs) < 2:
                raise Unsupported('loop state')
            tup = '(%s)' % ', '.join(vs)
            a, b = s.target.elts[0].id, s.target.elts[1].id
            body = self.block(s.body, tup)
            return "let '%s := fold_left (fun '%s '(%s, %s) =>\n      %s)\n    (combine %s %s) %s in\n  %s" % (
                tup, tup, a, b, body, self.expr(s.iter.args[0]), self.expr(s.iter.args[1]), tup, self.block(rest, tail))
        if isinstance(s, ast.Return) and not rest:
            v = s.value
            if isinstance(v, ast.Tuple):
                return 'Some (%s)' % ', '.join(self.expr(x) for x in v.elts)
            return 'Some %s' % self.expr(v)
        raise Unsupported('statement ' + ast.dump(s)[:80])


def translate(path, names=None):
    """-> (Coq text, [translated function names]); raises Unsupported"""
    tree = ast.parse(open(path).read())
    out = [PRELUDE % {'src': path}]
    done = []
    for node in tree.body:
        if isinstance(node, ast.FunctionDef) and node.name in SIGNATURES and (names is None or node.name in names):
            domain, args, res = SIGNATURES[node.name]
            own = [a for a, _ in args][2:] if node.name in FRESH else [a for a, _ in args]
            if node.args.defaults or node.args.kwonlyargs or (node.name not in THREADED and [a.arg for a in node.args.args] != own):
                raise Unsupported('signature of ' + node.name)
            own = [a for a, _ in args][1:] if node.name in THREADED else own
            if [a.arg for a in node.args.args] != own:
                raise Unsupported('signature of ' + node.name)
            body = Fn(node, domain, threaded=node.name in THREADED).block(node.body, 'None')
            if node.name in THREADED:
                body = 'let k_ := 0%nat in\n  ' + body
            out.append('Definition %s_src %s : option (%s) :=\n  %s.\n' % (
                node.name, ' '.join('(%s : %s)' % a for a in args), res, body))
            done.append(node.name)
    missing = [n for n in (names or SIGNATURES) if n not in done]
    if missing:
        raise Unsupported('functions not found: %s' % missing)
    return '\n'.join(out), done


if __name__ == '__main__':
    import sys
    txt, names = translate(sys.argv[1] if len(sys.argv) > 1 else '/repo/processscheduler/util.py')
    print(txt)
